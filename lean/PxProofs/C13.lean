import PxModel.StaticPath
import PxProofs.StaticLemmas
/-!
# C13 — the static file server never serves anything outside its directory

Property theorems only; helper lemmas are in `PxProofs/StaticLemmas.lean`.
The model (`PxModel/StaticPath.lean`) is tied to `proxy/http/server/web.py`
(`on_request_complete`, `_try_static_or_404`), `proxy/http/server/plugin.py`
(`serve_static_file`), `proxy/http/responses.py` (`okResponse`) and CPython's
`os.path.normpath` by the correspondence check `harness/c13.py`.

Guard of the theorems: `ProperAbs dir` — `--static-server-dir` is an absolute
path (in any spelling: dot segments, repeated and trailing separators, two
leading slashes) and does not normalise to the file-system root.  Request
paths, file systems, mime tables, compressors and compression thresholds are
arbitrary.  Symbolic links are outside the model (`fs` is keyed by the lexical
string handed to `open()`), relative static directories are outside the guard
(see `C13_relative_root_not_confined`).
-/
namespace Px.Static

/-- `t` lies strictly inside the normalised root of `dir`, lexically: it is
the root followed by `/` and at least one further component, all its
components are names other than `.` and `..`, and it is spelled canonically
(the root's leading slashes, then the components joined by single slashes —
no empty component, no trailing separator). -/
def Confined (dir t : Str) : Prop :=
  ∃ cs, cs ≠ [] ∧ AllClean cs ∧
    pathComps t = rootComps dir ++ cs ∧
    AllClean (pathComps t) ∧
    t = lead (normpath dir) ++ joinSep (pathComps t) ∧
    t = normpath dir ++ '/' :: joinSep cs

/-- the location the specification assigns to a request path -/
def specTarget (dir path : Str) : Str :=
  lead (normpath dir) ++ joinSep (resolve (rootComps dir) path)

/-- **Specification = code.**  For every proper absolute static dir and every
request path, the string the code computes with two `os.path.normpath` calls
is the root's leading slashes followed by the components obtained by
resolving the path's dot segments (query removed) from the root with the
independent stack machine `resolve`. -/
theorem C13_resolve_eq_normpath (dir path : Str) (h : ProperAbs dir) :
    targetOf dir path = specTarget dir path ∧ AllClean (resolve (rootComps dir) path) :=
  ⟨(decide_char dir path h).2.1, (decide_char dir path h).1⟩

/-- **Decision characterised.**  The file system is consulted — with exactly
the specification's target — iff the dot-segment-resolved path lies strictly
inside the root. -/
theorem C13_decide_iff (dir path t : Str) (h : ProperAbs dir) :
    decide dir path = .openFile t ↔
      Inside (rootComps dir) (resolve (rootComps dir) path) ∧ t = specTarget dir path := by
  obtain ⟨_, ht, hiff⟩ := decide_char dir path h
  unfold decide specTarget
  constructor
  · intro hd
    split at hd
    · rename_i ha
      injection hd with hd
      exact ⟨hiff.mp ha, by rw [← hd, ht]⟩
    · cases hd
  · rintro ⟨hin, rfl⟩
    rw [if_pos (hiff.mpr hin), ht]

theorem confined_of_decide (dir path t : Str) (h : ProperAbs dir) (hd : decide dir path = .openFile t) :
    Confined dir t := by
  obtain ⟨hin, ht⟩ := (C13_decide_iff dir path t h).mp hd
  obtain ⟨cs, hcs, hres⟩ := (inside_iff _ _).mp hin
  obtain ⟨ini, hini, hrc, hroot, hlead⟩ := root_form dir h
  have hclean := (decide_char dir path h).1
  have hpc := pathComps_form ini hini _ hclean
  have ht' : t = ini ++ joinSep (resolve (rootComps dir) path) := by rw [ht, specTarget, hlead]
  have hcsc : AllClean cs := fun c hc => hclean c (by rw [hres]; simp [hc])
  refine ⟨cs, hcs, hcsc, ?_, ?_, ?_, ?_⟩
  · rw [ht', hpc.1, hres]
  · rw [ht', hpc.1]; exact hclean
  · rw [ht', hpc.1, hlead]
  · rw [ht', hres, joinSep_append _ _ h.2 hcs, hroot]; simp

/-- **C13 confinement, at the `open()` call.**  Whatever path the model hands
to the file system — whether the open then succeeds, fails (404) or raises —
lies strictly inside the static root.  So the file system is never consulted
outside the root. -/
theorem C13_opened_confined (env : Env) (dir path t : Str) (h : ProperAbs dir)
    (ho : (serve env dir path).opened = some t) : Confined dir t := by
  unfold serve at ho
  split at ho
  · simp [Outcome.opened] at ho
  · rename_i t' hd
    have : t' = t := by
      unfold serveFile at ho
      split at ho
      · simpa [Outcome.opened] using ho
      · split at ho <;> simpa [Outcome.opened] using ho
    subst this
    exact confined_of_decide dir path t' h hd

/-- **C13 confinement.**  If the request path `path` is answered with the
content of file `f`, then `f` lies strictly inside the normalised root:
`components f = components root ++ cs` with `cs` non-empty, no component of
`f` is empty, `.` or `..`, and `f` is literally `root/…`. -/
theorem C13_confined (env : Env) (dir path f : Str) (r : Ok) (h : ProperAbs dir)
    (hs : serve env dir path = .ok f r) : Confined dir f :=
  C13_opened_confined env dir path f h (by rw [hs]; rfl)

/-- **C13 escape ⇒ 404.**  If the dot-segment-resolved request path does not
lie strictly inside the root (parent-directory traversal in any spelling,
sibling directories whose name extends the root's, the root itself), the
answer is exactly `NOT_FOUND_RESPONSE_PKT` and `open()` is never called. -/
theorem C13_escape_404 (env : Env) (dir path : Str) (h : ProperAbs dir)
    (hout : ¬ Inside (rootComps dir) (resolve (rootComps dir) path)) :
    serve env dir path = .notFound none ∧
    (serve env dir path).pkt = some Gen.pkt_NOT_FOUND_RESPONSE_PKT ∧
    (serve env dir path).opened = none := by
  have hd : decide dir path = .deny := by
    cases hdd : decide dir path with
    | deny => rfl
    | openFile t => exact absurd ((C13_decide_iff dir path t h).mp hdd).1 hout
  have : serve env dir path = .notFound none := by unfold serve; rw [hd]
  rw [this]; exact ⟨rfl, rfl, rfl⟩

/-- the same through `on_request_complete`: the request path as bytes (`None`
or empty standing for `/`) that decode to `path` -/
theorem C13_escape_404_request (env : Env) (dir : Str) (req : Option Bytes) (path : Str) (h : ProperAbs dir)
    (hdec : utf8Decode (reqBytes req) = some path)
    (hout : ¬ Inside (rootComps dir) (resolve (rootComps dir) path)) :
    (onRequestComplete env ⟨true, dir⟩ req).pkt = some Gen.pkt_NOT_FOUND_RESPONSE_PKT := by
  have : onRequestComplete env ⟨true, dir⟩ req = serve env dir path := by
    simp [onRequestComplete, hdec]
  rw [this]; exact (C13_escape_404 env dir path h hout).2.1

/-- **Inside ⇒ served (the server is not vacuously safe).**  If the resolved
path lies strictly inside the root, `open()` is called with the
specification's target, and when that is a readable file without NUL in its
name the answer is the 200 response carrying it. -/
theorem C13_inside_served (env : Env) (dir path : Str) (h : ProperAbs dir)
    (hin : Inside (rootComps dir) (resolve (rootComps dir) path)) :
    (serve env dir path).opened = some (specTarget dir path) ∧
    ∀ c, (specTarget dir path).contains '\x00' = false → env.fs (specTarget dir path) = some c →
      serve env dir path = .ok (specTarget dir path) (okResponse env (specTarget dir path) c) := by
  have hd := (C13_decide_iff dir path _ h).mpr ⟨hin, rfl⟩
  have hs : serve env dir path = serveFile env (specTarget dir path) := by simp only [serve, hd]
  rw [hs]
  constructor
  · unfold serveFile
    split
    · rfl
    · split <;> rfl
  · intro c hnul hfs
    unfold serveFile
    rw [hnul, hfs]; simp

/-- **C13 query irrelevance.**  The query string never influences the answer. -/
theorem C13_query_irrelevant (env : Env) (dir p q : Str) (hp : '?' ∉ p) :
    serve env dir (p ++ '?' :: q) = serve env dir p := by
  have : decide dir (p ++ '?' :: q) = decide dir p := by
    unfold decide targetOf
    rw [queryStrip_append p q hp, queryStrip_self p hp]
  unfold serve; rw [this]

/-- `Content-Encoding: gzip` is among the response headers -/
def Ok.advertisesGzip (r : Ok) : Prop := (b "Content-Encoding", b "gzip") ∈ r.headers

instance (r : Ok) : Decidable r.advertisesGzip := by unfold Ok.advertisesGzip; infer_instance

/-- the body after undoing the advertised content-encoding -/
def Ok.decoded (gunzip : Bytes → Bytes) (r : Ok) : Bytes :=
  if r.advertisesGzip then gunzip r.body else r.body

/-- the header names of the 200 response are pairwise different from `Content-Encoding`
    (a closed comparison of byte-string literals) -/
theorem contentEncoding_ne :
    b "Content-Encoding" ≠ b "Content-Type" ∧ b "Content-Encoding" ≠ b "Cache-Control" ∧
    b "Content-Encoding" ≠ b "Content-Length" ∧ b "Content-Encoding" ≠ b "Connection" := by
  decide +kernel

theorem advertises_iff (r : Ok) : r.advertisesGzip ↔ r.gz = true := by
  obtain ⟨h1, h2, h3, h4⟩ := contentEncoding_ne
  cases r with
  | mk ct gz body =>
    cases gz <;> simp [Ok.advertisesGzip, Ok.headers, h1, h2, h3, h4]

/-- **C13 content.**  A served body is the file's content, byte for byte,
after undoing the advertised content-encoding: compression is applied iff the
content is non-empty and longer than `min_compression_length`;
`Content-Encoding: gzip` is advertised iff compression was applied; the body is
`gzip content` then and `content` verbatim otherwise.  `gunzip` is any left
inverse of the compressor. -/
theorem C13_content (env : Env) (gunzip : Bytes → Bytes) (hgz : ∀ x, gunzip (env.gzip x) = x)
    (dir path f : Str) (r : Ok) (hs : serve env dir path = .ok f r) :
    ∃ c, env.fs f = some c ∧ r.decoded gunzip = c ∧
      (r.advertisesGzip ↔ r.gz = true) ∧
      (r.gz = true ↔ (c ≠ [] ∧ (c.length : Int) > env.mcl)) ∧
      (r.gz = true → r.body = env.gzip c) ∧ (r.gz = false → r.body = c) ∧
      (serve env dir path).pkt = some r.pkt := by
  cases hd : decide dir path with
  | deny => simp [serve, hd] at hs
  | openFile t =>
    have hsf : serve env dir path = serveFile env t := by simp only [serve, hd]
    rw [hsf] at hs ⊢
    unfold serveFile at hs ⊢
    by_cases hn : t.contains '\x00' = true
    · rw [if_pos hn] at hs; cases hs
    · rw [if_neg hn] at hs ⊢
      cases hfs : env.fs t with
      | none => simp [hfs] at hs
      | some c =>
        rw [hfs] at hs
        simp only [Outcome.ok.injEq] at hs
        obtain ⟨ht, hr⟩ := hs
        subst ht
        refine ⟨c, hfs, ?_, advertises_iff r, ?_, ?_, ?_, ?_⟩
        · unfold Ok.decoded
          rw [← hr]
          by_cases hc : doCompress env.mcl c = true
          · have : (okResponse env t c).advertisesGzip := (advertises_iff _).mpr (by simp [okResponse, hc])
            rw [if_pos this]; simp [okResponse, hc, hgz]
          · have : ¬ (okResponse env t c).advertisesGzip := fun h =>
              hc (by simpa [okResponse] using (advertises_iff _).mp h)
            rw [if_neg this]; simp [okResponse, hc]
        · rw [← hr]; simp [okResponse, doCompress]
        · intro hg; rw [← hr] at hg ⊢; simp only [okResponse] at hg ⊢; simp [hg]
        · intro hg; rw [← hr] at hg ⊢; simp only [okResponse] at hg ⊢; simp [hg]
        · rw [← hr]; rfl

/-- **Files outside the root cannot influence any answer.**  Two file systems
that agree on every path strictly inside the root give the same outcome for
every request. -/
theorem C13_fs_outside_irrelevant (env : Env) (fs' : Str → Option Bytes) (dir path : Str) (h : ProperAbs dir)
    (hagree : ∀ t, Confined dir t → env.fs t = fs' t) :
    serve env dir path = serve { env with fs := fs' } dir path := by
  unfold serve
  cases hd : decide dir path with
  | deny => rfl
  | openFile t =>
    have := hagree t (confined_of_decide dir path t h hd)
    simp only [serveFile, okResponse, this]

/-- static server disabled: every request without a route is answered 404
(400 when its path is not UTF-8) and the file system is not touched -/
theorem C13_disabled_404 (env : Env) (dir : Str) (req : Option Bytes) :
    (onRequestComplete env ⟨false, dir⟩ req = .notFound none ∨
      onRequestComplete env ⟨false, dir⟩ req = .badRequest) ∧
    (onRequestComplete env ⟨false, dir⟩ req).opened = none := by
  unfold onRequestComplete
  cases utf8Decode (reqBytes req) <;> simp [Outcome.opened]

/-! ### every byte string as request path (NUL, non-UTF-8, overlong spellings of `.` and `/`) -/

/-- **Non-UTF-8 ⇒ 400, nothing opened.**  A request path that `bytes.decode('utf-8')`
rejects is answered with exactly `BAD_REQUEST_RESPONSE_PKT`; no route is tried, no
static lookup happens, `open()` is never called — whatever the configuration. -/
theorem C13_nonutf8_rejected (env : Env) (cfg : Cfg) (req : Option Bytes)
    (h : utf8Decode (reqBytes req) = none) :
    onRequestComplete env cfg req = .badRequest ∧
    (onRequestComplete env cfg req).pkt = some Gen.pkt_BAD_REQUEST_RESPONSE_PKT ∧
    (onRequestComplete env cfg req).opened = none := by
  have : onRequestComplete env cfg req = .badRequest := by simp [onRequestComplete, h]
  rw [this]; exact ⟨rfl, rfl, rfl⟩

/-- what `on_request_complete` does with a path that decodes -/
theorem onRequestComplete_decoded (env : Env) (cfg : Cfg) (req : Option Bytes) (s : Str)
    (h : utf8Decode (reqBytes req) = some s) :
    onRequestComplete env cfg req = if cfg.enableStatic then serve env cfg.dir s else .notFound none := by
  cases he : cfg.enableStatic <;> simp [onRequestComplete, h, he]

/-- **C13 confinement for every byte string.**  Whatever bytes arrive as request
path (`None`, empty, NUL bytes, bytes 0x80–0xff in any arrangement, overlong
encodings of `.` `/` NUL), with the static server on or off: any path handed to
`open()` lies strictly inside the static root. -/
theorem C13_bytes_confined (env : Env) (en : Bool) (dir : Str) (req : Option Bytes) (t : Str)
    (h : ProperAbs dir) (ho : (onRequestComplete env ⟨en, dir⟩ req).opened = some t) :
    Confined dir t := by
  cases hd : utf8Decode (reqBytes req) with
  | none => rw [(C13_nonutf8_rejected env ⟨en, dir⟩ req hd).1] at ho; simp [Outcome.opened] at ho
  | some s =>
    rw [onRequestComplete_decoded env ⟨en, dir⟩ req s hd] at ho
    cases en with
    | false => simp [Outcome.opened] at ho
    | true => exact C13_opened_confined env dir s t h (by simpa using ho)

/-- **NUL ⇒ 404, no content.**  A resolved static path containing a NUL is
answered `NOT_FOUND_RESPONSE_PKT` (`open()` raises ValueError before touching
the file system; `serve_static_file` catches it) — for every file system, even
one that had an entry under that name. -/
theorem C13_nul_not_served (env : Env) (t : Str) (h : '\x00' ∈ t) :
    serveFile env t = .notFound (some t) ∧
    (serveFile env t).pkt = some Gen.pkt_NOT_FOUND_RESPONSE_PKT := by
  have : serveFile env t = .notFound (some t) := by
    unfold serveFile; rw [if_pos (by simpa using h)]
  rw [this]; exact ⟨rfl, rfl⟩

/-- **Served files, for every byte string.**  If any byte string at all is
answered with file content, the file lies strictly inside the root, its name
has no NUL, and the bytes were valid UTF-8 for a text path that `serve` answers
the same way (so all text-level theorems apply). -/
theorem C13_bytes_served (env : Env) (en : Bool) (dir : Str) (req : Option Bytes) (f : Str) (r : Ok)
    (h : ProperAbs dir) (hs : onRequestComplete env ⟨en, dir⟩ req = .ok f r) :
    Confined dir f ∧ '\x00' ∉ f ∧ en = true ∧
    ∃ s, utf8Decode (reqBytes req) = some s ∧ serve env dir s = .ok f r := by
  have hc := C13_bytes_confined env en dir req f h (by rw [hs]; rfl)
  cases hd : utf8Decode (reqBytes req) with
  | none => rw [(C13_nonutf8_rejected env ⟨en, dir⟩ req hd).1] at hs; cases hs
  | some s =>
    rw [onRequestComplete_decoded env ⟨en, dir⟩ req s hd] at hs
    cases en with
    | false => simp at hs
    | true =>
      simp only [if_true] at hs
      refine ⟨hc, ?_, rfl, s, rfl, hs⟩
      intro hn
      unfold serve at hs
      split at hs
      · cases hs
      · rename_i t' _
        by_cases ht : '\x00' ∈ t'
        · rw [(C13_nul_not_served env t' ht).1] at hs; cases hs
        · unfold serveFile at hs
          rw [if_neg (by simpa using ht)] at hs
          split at hs
          · cases hs
          · injection hs with h1 _; subst h1; exact ht hn

/-- **Every byte string is answered.**  No request path makes the model raise:
the outcome is one of the three packets (400, 404, 200 with the file). -/
theorem C13_bytes_answered (env : Env) (cfg : Cfg) (req : Option Bytes) :
    (onRequestComplete env cfg req).pkt.isSome = true := by
  cases h : onRequestComplete env cfg req <;> rfl

/-- **Overlong / out-of-range lead bytes ⇒ 400.**  Any path containing a byte
C0 or C1 (every two-byte overlong spelling: `c0 ae` = '.', `c0 af` = '/',
`c1 9c` = '\\', `c0 80` = NUL) or a byte F5..FF, anywhere, is rejected with 400
and nothing is opened. -/
theorem C13_overlong_rejected (env : Env) (cfg : Cfg) (req : Bytes) (hne : req ≠ [])
    (h : 0xC0 ∈ req ∨ 0xC1 ∈ req ∨ ∃ c ∈ req, 0xF5 ≤ c) :
    onRequestComplete env cfg (some req) = .badRequest := by
  have hr : reqBytes (some req) = req := by
    cases req with
    | nil => exact absurd rfl hne
    | cons x xs => simp [reqBytes]
  cases hd : utf8Decode (reqBytes (some req)) with
  | none => exact (C13_nonutf8_rejected env cfg (some req) hd).1
  | some s =>
    rw [hr] at hd
    have hf := utf8Decode_forbidden req s hd
    rcases h with h | h | ⟨c, hc, hge⟩
    · exact absurd rfl (hf _ h).1
    · exact absurd rfl (hf _ h).2.1
    · have := (hf c hc).2.2
      rw [UInt8.lt_iff_toNat_lt] at this
      rw [UInt8.le_iff_toNat_le] at hge
      omega

/-- **No smuggling through the decoder.**  When a byte string does decode, the
characters below U+0080 of the text — in particular every `/`, `.`, `?` and NUL,
the only characters the confinement logic looks at — are exactly the bytes
below 0x80 of the input, in the same order and number.  No multi-byte sequence
decodes to one of them. -/
theorem C13_no_smuggling (x : Bytes) (s : Str) (h : utf8Decode x = some s) :
    (s.filter (fun c => c.toNat < 128)).map Char.toNat = (x.filter (· < 0x80)).map UInt8.toNat :=
  utf8Decode_ascii x s h

/-- the three- and four-byte overlong spellings, surrogates, lone continuation
bytes, truncated sequences and code points above U+10FFFF are rejected; valid
multi-byte text (é, the full-width full stop U+FF0E, the division slash U+2215,
an emoji) decodes — to characters that are not `.` or `/` -/
example : utf8Decode [0x2f, 0xe0, 0x80, 0xaf] = none := by decide
example : utf8Decode [0x2f, 0xe0, 0x80, 0xae, 0xe0, 0x80, 0xae] = none := by decide
example : utf8Decode [0x2f, 0xf0, 0x80, 0x80, 0xaf] = none := by decide
example : utf8Decode [0x2f, 0xc0, 0xae, 0xc0, 0xae, 0xc0, 0xaf] = none := by decide
example : utf8Decode [0x2f, 0xed, 0xa0, 0x80] = none := by decide
example : utf8Decode [0x2f, 0xf4, 0x90, 0x80, 0x80] = none := by decide
example : utf8Decode [0x2f, 0x80] = none := by decide
example : utf8Decode [0x2f, 0xe2, 0x82] = none := by decide
example : utf8Decode [0x2f, 0xc3, 0xa9] = some ['/', 'é'] := by decide
example : utf8Decode [0xef, 0xbc, 0x8e, 0xe2, 0x88, 0x95] = some ['．', '∕'] := by decide
example : utf8Decode [0xf0, 0x9f, 0x98, 0x80] = some ['😀'] := by decide
/-- a NUL byte is text; the static lookup then answers 404 without content -/
example : utf8Decode [0x2f, 0x61, 0x00] = some ['/', 'a', '\x00'] := by decide
example : decide "/srv/www".toList ['/', 'a', '\x00'] = .openFile ("/srv/www/a".toList ++ ['\x00']) := by decide
example : decide "/srv/www".toList ['/', '.', '.', '\x00', '/', 's'] =
    .openFile ("/srv/www/..".toList ++ ['\x00', '/', 's']) := by decide
example : decide "/srv/www".toList ['/', '.', '.', '/', 's', '\x00'] = .deny := by decide

/-! ### normpath facts -/

/-- `normpath` of an absolute path is one or two slashes followed by names
other than `.`/`..` joined by single slashes (no empty component). -/
theorem C13_normpath_abs_clean (p : Str) (h : p.head? = some '/') :
    (lead (normpath p) = ['/'] ∨ lead (normpath p) = ['/', '/']) ∧
    AllClean (pathComps (normpath p)) ∧
    normpath p = lead (normpath p) ++ joinSep (pathComps (normpath p)) := by
  cases p with
  | nil => simp at h
  | cons c p =>
    simp only [List.head?_cons, Option.some.injEq] at h
    subst h
    obtain ⟨ini, st, hini, hst, hn⟩ := normpath_abs p
    have hp := pathComps_form ini hini st hst
    rw [hn, hp.1, hp.2]
    exact ⟨hini, hst, rfl⟩

/-- `normpath` is idempotent on absolute paths -/
theorem C13_normpath_idem_abs (p : Str) (h : p.head? = some '/') : normpath (normpath p) = normpath p := by
  cases p with
  | nil => simp at h
  | cons c p =>
    simp only [List.head?_cons, Option.some.injEq] at h
    subst h
    obtain ⟨ini, st, hini, hst, hn⟩ := normpath_abs p
    rw [hn]; exact normpath_clean ini hini st hst

/-! ### non-vacuity: the guard, both sides of the decision, the content branches -/

/-- `/srv/www` spelled with dot segments, a doubled and a trailing separator -/
example : ProperAbs "/srv//./x/../www/".toList := by decide
example : ProperAbs "//srv/www".toList := by decide
example : ¬ ProperAbs "/".toList := by decide
example : ¬ ProperAbs "public".toList := by decide

example : decide "/srv/www/".toList "/css/../index.html?v=1/../../x".toList
    = .openFile "/srv/www/index.html".toList := by decide
example : decide "/srv/www".toList "/../www/a".toList = .openFile "/srv/www/a".toList := by decide
example : decide "/srv/www".toList "/../secret".toList = .deny := by decide
example : decide "/srv/www".toList "/a/b/../../../secret".toList = .deny := by decide
example : decide "/srv/www".toList "//..//secret".toList = .deny := by decide
/-- a sibling directory whose name extends the root's name is outside -/
example : decide "/srv/www".toList "/../wwwx/s".toList = .deny := by decide
/-- the root itself is not served -/
example : decide "/srv/www".toList "/a/..".toList = .deny := by decide
/-- `%2e%2e` is a name, not a dot segment (no percent-decoding anywhere) -/
example : decide "/srv/www".toList "/%2e%2e/x".toList = .openFile "/srv/www/%2e%2e/x".toList := by decide
example : Inside (rootComps "/srv/www".toList) (resolve (rootComps "/srv/www".toList) "/a/./b".toList) := by
  decide
example : ¬ Inside (rootComps "/srv/www".toList) (resolve (rootComps "/srv/www".toList) "/../wwwx".toList) := by
  decide

/-- **Why the guard asks for an absolute directory.**  With the relative
`--static-server-dir ..` the prefix test of the code accepts `../../x` for
the request `/../x` — the parent of the root.  (`os.path.normpath` keeps
leading `..` of a relative path, so "starts with `../`" no longer means
"below `..`".)  Reported as a finding outside C13's quantifier. -/
theorem C13_relative_root_not_confined :
    decide "..".toList "/../x".toList = .openFile "../../x".toList := by decide

end Px.Static
