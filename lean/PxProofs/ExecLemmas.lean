import PxModel.Exec
/-!
Helper lemmas for C05 / C10: association lists, the *cell* view of the selector
and kernel (everything `selectors` and `epoll_ctl` do to descriptor `fd` depends
on and changes only the cell of `fd`), the executor invariant and its
preservation.
-/
namespace Px.Sel

section assoc
variable {κ ν : Type} [DecidableEq κ]

@[simp] theorem aget_nil (k : κ) : aget ([] : List (κ × ν)) k = none := rfl

theorem aget_cons (k' : κ) (v : ν) (m : List (κ × ν)) (k : κ) :
    aget ((k', v) :: m) k = if k' = k then some v else aget m k := rfl

theorem aget_adel (m : List (κ × ν)) (k k' : κ) :
    aget (adel m k) k' = if k' = k then none else aget m k' := by
  induction m with
  | nil => simp [adel]
  | cons e m ih =>
    obtain ⟨a, v⟩ := e
    unfold adel at ih ⊢
    by_cases h : a = k
    · subst h
      simp only [List.filter_cons, ne_eq, not_true_eq_false, decide_false, Bool.false_eq_true, if_false, ih]
      by_cases h2 : k' = a
      · simp [h2]
      · have : ¬ a = k' := fun e => h2 e.symm
        simp [h2, aget_cons, this]
    · simp only [List.filter_cons, ne_eq, h, not_false_eq_true, decide_true, if_true, aget_cons, ih]
      by_cases h2 : a = k'
      · subst h2; simp [h]
      · simp [h2]

theorem aget_aset (m : List (κ × ν)) (k : κ) (v : ν) (k' : κ) :
    aget (aset m k v) k' = if k' = k then some v else aget m k' := by
  unfold aset
  rw [aget_cons, aget_adel]
  by_cases h : k = k'
  · subst h; simp
  · have : ¬ k' = k := fun e => h e.symm
    simp [h, this]

theorem aget_some_mem {m : List (κ × ν)} {k : κ} {v : ν} (h : aget m k = some v) : (k, v) ∈ m := by
  induction m with
  | nil => simp at h
  | cons e m ih =>
    obtain ⟨a, w⟩ := e
    rw [aget_cons] at h
    by_cases h2 : a = k
    · subst h2; simp at h; subst h; simp
    · simp [h2] at h; exact List.mem_cons_of_mem _ (ih h)

theorem aget_none_of_not_mem_keys {m : List (κ × ν)} {k : κ} (h : k ∉ m.map (·.1)) : aget m k = none := by
  induction m with
  | nil => rfl
  | cons e m ih =>
    obtain ⟨a, w⟩ := e
    simp only [List.map_cons, List.mem_cons, not_or] at h
    rw [aget_cons, if_neg (fun e => h.1 e.symm)]
    exact ih h.2

theorem mem_keys_of_aget_ne_none {m : List (κ × ν)} {k : κ} (h : aget m k ≠ none) : k ∈ m.map (·.1) := by
  by_cases h2 : k ∈ m.map (·.1)
  · exact h2
  · exact absurd (aget_none_of_not_mem_keys h2) h

end assoc

/-! ### cells -/

structure Cell where
  key : Option (Mask × WorkId)
  isOpen : Bool
  interest : Option Mask
  deriving DecidableEq, Repr

def cell (s : SK) (fd : Fd) : Cell := ⟨aget s.map fd, s.k.isOpen fd, aget s.k.epoll fd⟩

def regC (c : Cell) (fd : Fd) (ev : Mask) (d : WorkId) : Cell × Option Exc :=
  if !validEvents ev then (c, some .valueError)
  else if fd < 0 then (c, some .valueError)
  else if c.key.isSome then (c, some .keyError)
  else if !c.isOpen then (c, some .ebadf)
  else if c.interest.isSome then (c, some .eexist)
  else ({ c with key := some (ev, d), interest := some (pollBits ev) }, none)

def modC (c : Cell) (fd : Fd) (ev : Mask) (d : WorkId) : Cell × Option Exc :=
  if fd < 0 then (c, some .valueError)
  else match c.key with
    | none => (c, some .keyError)
    | some (oev, odata) =>
      if ev ≠ oev then
        if !c.isOpen then ({ c with key := none }, some .ebadf)
        else if c.interest.isNone then ({ c with key := none }, some .enoent)
        else ({ c with key := some (ev, d), interest := some (pollBits ev) }, none)
      else if d ≠ odata then ({ c with key := some (ev, d) }, none)
      else (c, none)

def unregC (c : Cell) (fd : Fd) : Cell × Option Exc :=
  if fd < 0 then (c, some .valueError)
  else match c.key with
    | none => (c, some .keyError)
    | some _ =>
      if !c.isOpen then ({ c with key := none }, none)
      else if c.interest.isNone then ({ c with key := none }, none)
      else ({ c with key := none, interest := none }, none)

@[simp] theorem isOpen_epoll (k : Kernel) (e : List (Fd × Mask)) (fd : Fd) :
    Kernel.isOpen { k with epoll := e } fd = k.isOpen fd := rfl

theorem register_cell (s : SK) (fd : Fd) (ev : Mask) (d : WorkId) :
    (register s fd ev d).2 = (regC (cell s fd) fd ev d).2 ∧
    ∀ fd', cell (register s fd ev d).1 fd' = if fd' = fd then (regC (cell s fd) fd ev d).1 else cell s fd' := by
  unfold register regC
  by_cases h1 : validEvents ev = true
  · by_cases h2 : fd < 0
    · simp [h1, h2]
    · by_cases h3 : (aget s.map fd).isSome = true
      · simp [h1, h2, h3, cell]
      · by_cases h4 : s.k.isOpen fd = true
        · by_cases h5 : (aget s.k.epoll fd).isSome = true
          · simp [h1, h2, h3, h4, h5, cell, Kernel.ctlAdd]
          · simp only [Bool.not_eq_true, Option.isSome_eq_false_iff, Option.isNone_iff_eq_none] at h3 h5
            simp only [h1, h2, h3, h4, h5, cell, Kernel.ctlAdd, Bool.not_true, Bool.false_eq_true, if_false,
              Option.isSome_none, true_and]
            intro fd'
            by_cases e : fd' = fd
            · subst e; simp [aget_aset, h4]
            · simp [aget_aset, e]
        · simp [h1, h2, h3, h4, cell, Kernel.ctlAdd]
  · simp [h1]

theorem modify_cell (s : SK) (fd : Fd) (ev : Mask) (d : WorkId) :
    (modify s fd ev d).2 = (modC (cell s fd) fd ev d).2 ∧
    ∀ fd', cell (modify s fd ev d).1 fd' = if fd' = fd then (modC (cell s fd) fd ev d).1 else cell s fd' := by
  unfold modify modC
  by_cases h2 : fd < 0
  · simp [h2]
  · cases hk : aget s.map fd with
    | none => simp [h2, hk, cell]
    | some p =>
      obtain ⟨oev, odata⟩ := p
      by_cases h3 : ev = oev
      · by_cases h4 : d = odata
        · simp [h2, hk, cell, h3, h4]
        · simp only [h2, hk, cell, h3, h4, if_false, ne_eq, not_true_eq_false, not_false_eq_true, if_true, true_and]
          intro fd'
          by_cases e : fd' = fd
          · subst e; simp [aget_aset]
          · simp [aget_aset, e]
      · by_cases h5 : s.k.isOpen fd = true
        · cases h6 : aget s.k.epoll fd with
          | none =>
            simp only [h2, hk, cell, h3, h5, h6, Kernel.ctlMod, if_false, ne_eq, not_false_eq_true, if_true,
              Bool.not_true, Bool.false_eq_true, Option.isNone_none, true_and]
            intro fd'
            by_cases e : fd' = fd
            · subst e; simp [aget_adel, h5, h6]
            · simp [aget_adel, e]
          | some i =>
            simp only [h2, hk, cell, h3, h5, h6, Kernel.ctlMod, if_false, ne_eq, not_false_eq_true, if_true,
              Bool.not_true, Bool.false_eq_true, Option.isNone_some, true_and]
            intro fd'
            by_cases e : fd' = fd
            · subst e; simp [aget_aset, h5]
            · simp [aget_aset, e]
        · simp only [Bool.not_eq_true] at h5
          simp only [h2, hk, cell, h3, h5, Kernel.ctlMod, if_false, ne_eq, not_false_eq_true, if_true,
            Bool.not_false, true_and]
          intro fd'
          by_cases e : fd' = fd
          · subst e; simp [aget_adel, h5]
          · simp [aget_adel, e]

theorem unregister_cell (s : SK) (fd : Fd) :
    (unregister s fd).2 = (unregC (cell s fd) fd).2 ∧
    ∀ fd', cell (unregister s fd).1 fd' = if fd' = fd then (unregC (cell s fd) fd).1 else cell s fd' := by
  unfold unregister unregC
  by_cases h2 : fd < 0
  · simp [h2]
  · cases hk : aget s.map fd with
    | none => simp [h2, hk, cell]
    | some p =>
      by_cases h5 : s.k.isOpen fd = true
      · cases h6 : aget s.k.epoll fd with
        | none =>
          simp only [h2, hk, cell, h5, h6, Kernel.ctlDel, if_false, Bool.not_true, Bool.false_eq_true,
            Option.isNone_none, if_true, true_and]
          intro fd'
          by_cases e : fd' = fd
          · subst e; simp [aget_adel, h5, h6]
          · simp [aget_adel, e]
        | some i =>
          simp only [h2, hk, cell, h5, h6, Kernel.ctlDel, if_false, Bool.not_true, Bool.false_eq_true,
            Option.isNone_some, true_and]
          intro fd'
          by_cases e : fd' = fd
          · subst e; simp [aget_adel, h5]
          · simp [aget_adel, e]
      · simp only [Bool.not_eq_true] at h5
        simp only [h2, hk, cell, h5, Kernel.ctlDel, if_false, Bool.not_false, if_true, true_and]
        intro fd'
        by_cases e : fd' = fd
        · subst e; simp [aget_adel, h5]
        · simp [aget_adel, e]

/-- cell after a kernel-only change -/
def kcell (s : SK) (k' : Kernel) (fd : Fd) : Cell := cell { s with k := k' } fd

theorem close_cell (s : SK) (fd fd' : Fd) :
    cell { s with k := s.k.close fd } fd' =
      if fd' = fd then { (cell s fd) with isOpen := false, interest := none } else cell s fd' := by
  unfold cell Kernel.close Kernel.isOpen
  by_cases e : fd' = fd
  · subst e; simp [aget_adel]
  · simp [aget_adel, e]

theorem openAt_cell (s : SK) (fd fd' : Fd) :
    cell { s with k := s.k.openAt fd } fd' =
      if fd' = fd then { (cell s fd) with isOpen := true } else cell s fd' := by
  unfold cell Kernel.openAt Kernel.isOpen
  by_cases h : fd ∈ s.k.open_
  · by_cases e : fd' = fd
    · subst e; simp [h]
    · simp [h, e]
  · by_cases e : fd' = fd
    · subst e; simp [h]
    · simp [h, e]

end Px.Sel

namespace Px.Exec
open Px.Sel

/-- the work's inner dict as seen after `if work_id not in registered: registered[work_id] = {}` -/
def regOf (x : Exec) (w : WorkId) : List (Fd × Mask) := (aget x.registered w).getD []

theorem regMask_eq (x : Exec) (w : WorkId) (fd : Fd) : x.regMask w fd = aget (regOf x w) fd := by
  unfold Exec.regMask regOf
  cases aget x.registered w <;> simp

/-- what one iteration of the `_update_work_events` loop does, as a function of the work's
    registry entry and of the cell of the descriptor -/
def updC (r : List (Fd × Mask)) (c : Cell) (w : WorkId) (fd : Fd) (mask : Mask) :
    List (Fd × Mask) × Cell × Option Exc :=
  match aget r fd with
  | some old =>
    if mask ≠ old then
      match modC c fd mask w with
      | (c', some e) => (r, c', some e)
      | (c', none) => (aset r fd mask, c', none)
    else (r, c, none)
  | none =>
    if fd ≠ -1 then
      match regC c fd mask w with
      | (c', none) => (aset r fd mask, c', none)
      | (c', some .keyError) => (r, c', none)
      | (c', some e) => (r, c', some e)
    else (r, c, none)

theorem updEvent_spec (x : Exec) (w : WorkId) (fd : Fd) (mask : Mask) :
    let u := updC (regOf x w) (cell x.sk fd) w fd mask
    let y := (updEvent x w fd mask).1
    (updEvent x w fd mask).2 = u.2.2 ∧ y.works = x.works ∧
    (∀ w', aget y.registered w' = if w' = w then some u.1 else aget x.registered w') ∧
    (∀ fd', cell y.sk fd' = if fd' = fd then u.2.1 else cell x.sk fd') := by
  intro u y
  -- the registry after the `= {}` line
  have hreg : ∀ w', aget (if (aget x.registered w).isNone then aset x.registered w [] else x.registered) w'
      = if w' = w then some (regOf x w) else aget x.registered w' := by
    intro w'
    unfold regOf
    cases h : aget x.registered w with
    | none =>
      simp only [Option.isNone_none, if_true, aget_aset, Option.getD_none]
    | some r0 =>
      simp only [Option.isNone_some, Bool.false_eq_true, if_false, Option.getD_some]
      by_cases e : w' = w
      · subst e; simp [h]
      · simp [e]
  have hr : (aget (if (aget x.registered w).isNone then aset x.registered w [] else x.registered) w).getD []
      = regOf x w := by rw [hreg]; simp
  have hset : ∀ (r' : List (Fd × Mask)) w', aget (aset (if (aget x.registered w).isNone then aset x.registered w [] else x.registered) w r') w'
      = if w' = w then some r' else aget x.registered w' := by
    intro r' w'
    rw [aget_aset, hreg]
    by_cases e : w' = w <;> simp [e]
  have hm := modify_cell x.sk fd mask w
  have hg := register_cell x.sk fd mask w
  simp only [u, y]
  unfold updEvent updC
  generalize (if (aget x.registered w).isNone then aset x.registered w [] else x.registered) = reg at hreg hr hset ⊢
  simp only [hr]
  cases hfd : aget (regOf x w) fd with
  | some old =>
    simp only
    by_cases hmask : mask = old
    · simp [hmask, hreg]
    · simp only [ne_eq, hmask, not_false_eq_true, if_true]
      rcases h1 : modify x.sk fd mask w with ⟨sk, e⟩
      rcases h2 : modC (cell x.sk fd) fd mask w with ⟨c', e'⟩
      rw [h1, h2] at hm
      obtain ⟨he, hc⟩ := hm
      simp only at he hc
      subst he
      cases e with
      | none => simp [hset, hc]
      | some e => simp [hreg, hc]
  | none =>
    simp only
    by_cases hneg : fd = -1
    · simp [hneg, hreg]
    · simp only [ne_eq, hneg, not_false_eq_true, if_true]
      rcases h1 : register x.sk fd mask w with ⟨sk, e⟩
      rcases h2 : regC (cell x.sk fd) fd mask w with ⟨c', e'⟩
      rw [h1, h2] at hg
      obtain ⟨he, hc⟩ := hg
      simp only at he hc
      subst he
      cases e with
      | none => simp [hset, hc]
      | some e => cases e <;> simp [hreg, hc]

theorem updC_frame (r : List (Fd × Mask)) (c : Cell) (w : WorkId) (fd : Fd) (mask : Mask) (fd' : Fd) (h : fd' ≠ fd) :
    aget (updC r c w fd mask).1 fd' = aget r fd' := by
  unfold updC
  split
  · split
    · split <;> simp_all [aget_aset]
    · rfl
  · split
    · split <;> simp_all [aget_aset]
    · rfl

theorem updC_key (r : List (Fd × Mask)) (c : Cell) (w : WorkId) (fd : Fd) (mask : Mask)
    (hM : ∀ m, c.key = some (m, w) → aget r fd = some m) (m : Mask) (d : WorkId)
    (hk : (updC r c w fd mask).2.1.key = some (m, d)) :
    (d = w ∧ aget (updC r c w fd mask).1 fd = some m) ∨ (d ≠ w ∧ c.key = some (m, d)) := by
  unfold updC modC regC at *
  grind [aget_aset]

theorem updC_nonneg (r : List (Fd × Mask)) (c : Cell) (w : WorkId) (fd : Fd) (mask : Mask)
    (hk : (updC r c w fd mask).2.1.key ≠ none) : c.key ≠ none ∨ 0 ≤ fd := by
  unfold updC modC regC at *
  grind

/-- The executor invariant the code actually maintains, whatever the works do:
    every selector key is accounted for in the registry of the work it names
    (`mapReg`), only live works have a registry entry (`regWorks`), no negative
    descriptor has a key, work ids are distinct and never `0`. -/
structure Inv (x : Exec) : Prop where
  mapReg : ∀ fd m d, (cell x.sk fd).key = some (m, d) → aget (regOf x d) fd = some m
  regWorks : ∀ w, aget x.registered w ≠ none → w ∈ x.works
  mapNonneg : ∀ fd, (cell x.sk fd).key ≠ none → 0 ≤ fd
  nodup : x.works.Nodup
  noZero : (0 : WorkId) ∉ x.works

theorem regOf_of_spec {x y : Exec} {w : WorkId} {r : List (Fd × Mask)}
    (h : ∀ w', aget y.registered w' = if w' = w then some r else aget x.registered w') (d : WorkId) :
    regOf y d = if d = w then r else regOf x d := by
  unfold regOf
  rw [h]
  by_cases e : d = w <;> simp [e]

theorem updEvent_inv (x : Exec) (w : WorkId) (fd : Fd) (mask : Mask) (hw : w ∈ x.works) (hi : Inv x) :
    Inv (updEvent x w fd mask).1 := by
  obtain ⟨_, hworks, hreg, hcell⟩ := updEvent_spec x w fd mask
  have hro := regOf_of_spec hreg
  have hMw : ∀ m, (cell x.sk fd).key = some (m, w) → aget (regOf x w) fd = some m := fun m h => hi.mapReg fd m w h
  constructor
  · intro fd' m d hk
    rw [hcell] at hk
    rw [hro]
    by_cases e : fd' = fd
    · subst e
      simp only [if_true] at hk
      rcases updC_key _ _ _ _ _ hMw m d hk with ⟨hd, h⟩ | ⟨hd, h⟩
      · simp [hd, h]
      · simp [hd]; exact hi.mapReg _ _ _ h
    · simp only [e, if_false] at hk
      have := hi.mapReg _ _ _ hk
      by_cases e2 : d = w
      · subst e2; simp; rw [updC_frame _ _ _ _ _ _ e]; exact this
      · simp [e2]; exact this
  · intro w' h
    rw [hworks]
    rw [hreg] at h
    by_cases e : w' = w
    · subst e; exact hw
    · simp [e] at h; exact hi.regWorks _ h
  · intro fd' h
    rw [hcell] at h
    by_cases e : fd' = fd
    · subst e
      simp only [if_true] at h
      rcases updC_nonneg _ _ _ _ _ h with h | h
      · exact hi.mapNonneg _ h
      · exact h
    · simp only [e, if_false] at h; exact hi.mapNonneg _ h
  · rw [hworks]; exact hi.nodup
  · rw [hworks]; exact hi.noZero

theorem updEvent_works (x : Exec) (w : WorkId) (fd : Fd) (mask : Mask) : (updEvent x w fd mask).1.works = x.works :=
  (updEvent_spec x w fd mask).2.1

theorem updEvents_inv (w : WorkId) (evs : List (Fd × Mask)) : ∀ (x : Exec), w ∈ x.works → Inv x →
    Inv (updEvents x w evs).1 ∧ (updEvents x w evs).1.works = x.works := by
  induction evs with
  | nil => intro x _ hi; exact ⟨hi, rfl⟩
  | cons e rest ih =>
    intro x hw hi
    obtain ⟨fd, m⟩ := e
    unfold updEvents
    have h1 := updEvent_inv x w fd m hw hi
    have h2 := updEvent_works x w fd m
    rcases h : updEvent x w fd m with ⟨x', e⟩
    rw [h] at h1 h2
    simp only at h1 h2
    cases e with
    | some e => exact ⟨h1, h2⟩
    | none =>
      simp only
      have := ih x' (h2 ▸ hw) h1
      exact ⟨this.1, this.2.trans h2⟩

theorem unregC_idem (c : Cell) (fd : Fd) : (unregC (unregC c fd).1 fd).1 = (unregC c fd).1 := by
  unfold unregC; grind

def keysOf (r : List (Fd × Mask)) : List Fd := r.map (·.1)

theorem unregAll_cell (r : List (Fd × Mask)) : ∀ (sk : SK) (fd' : Fd),
    cell (unregAll sk r) fd' = if fd' ∈ keysOf r then (unregC (cell sk fd') fd').1 else cell sk fd' := by
  induction r with
  | nil => intro sk fd'; simp [unregAll, keysOf]
  | cons e rest ih =>
    intro sk fd'
    obtain ⟨fd, m⟩ := e
    unfold unregAll
    rw [ih]
    have hc := (unregister_cell sk fd).2 fd'
    rw [hc]
    have hk : keysOf ((fd, m) :: rest) = fd :: keysOf rest := rfl
    rw [hk]
    by_cases e1 : fd' = fd
    · subst e1; by_cases e2 : fd' ∈ keysOf rest <;> simp [e2, unregC_idem]
    · by_cases e2 : fd' ∈ keysOf rest <;> simp [e1, e2]

def closedCell (c : Cell) : Cell := { c with isOpen := false, interest := none }

theorem closeAll_cell (l : List Fd) : ∀ (s : SK) (fd' : Fd),
    cell { s with k := s.k.closeAll l } fd' = if fd' ∈ l then closedCell (cell s fd') else cell s fd' := by
  induction l with
  | nil => intro s fd'; simp [Kernel.closeAll]
  | cons fd rest ih =>
    intro s fd'
    unfold Kernel.closeAll
    have := ih { s with k := s.k.close fd } fd'
    simp only at this
    rw [this, close_cell]
    by_cases e1 : fd' = fd
    · subst e1; by_cases e2 : fd' ∈ rest <;> simp [e2, closedCell]
    · by_cases e2 : fd' ∈ rest <;> simp [e1, e2, closedCell]

theorem mem_keysOf_iff (r : List (Fd × Mask)) (fd : Fd) : fd ∈ keysOf r ↔ aget r fd ≠ none := by
  constructor
  · intro h
    induction r with
    | nil => simp [keysOf] at h
    | cons e rest ih =>
      obtain ⟨a, v⟩ := e
      rw [aget_cons]
      by_cases e1 : a = fd
      · simp [e1]
      · simp [e1]
        apply ih
        simp [keysOf] at h ⊢
        rcases h with h | h
        · exact absurd h.symm e1
        · exact h
  · exact mem_keys_of_aget_ne_none

theorem aget_filter_key {ν : Type} (r : List (Fd × ν)) (q : Fd → Bool) (k : Fd) :
    aget (r.filter (fun e => q e.1)) k = if q k = true then aget r k else none := by
  induction r with
  | nil => simp
  | cons e rest ih =>
    obtain ⟨a, v⟩ := e
    by_cases hq : q a = true
    · simp only [List.filter_cons, hq, if_true, aget_cons, ih]
      by_cases e1 : a = k
      · subst e1; simp [hq]
      · simp [e1]
    · simp only [List.filter_cons, hq, Bool.false_eq_true, if_false, ih, aget_cons]
      by_cases e1 : a = k
      · subst e1; simp [hq]
      · simp [e1]

/-- descriptors of registry `r` that the events list no longer mentions -/
def staleOf (r evs : List (Fd × Mask)) : List (Fd × Mask) :=
  r.filter (fun e => !decide (e.1 ∈ evs.map (·.1)))

def keptOf (r evs : List (Fd × Mask)) : List (Fd × Mask) :=
  r.filter (fun e => decide (e.1 ∈ evs.map (·.1)))

theorem mem_keysOf_staleOf (r evs : List (Fd × Mask)) (fd : Fd) :
    fd ∈ keysOf (staleOf r evs) ↔ fd ∈ keysOf r ∧ fd ∉ evs.map (·.1) := by
  rw [mem_keysOf_iff, mem_keysOf_iff]
  unfold staleOf
  rw [aget_filter_key r (fun k => !decide (k ∈ evs.map (·.1)))]
  by_cases h : fd ∈ evs.map (·.1) <;> simp [h]

theorem aget_keptOf (r evs : List (Fd × Mask)) (fd : Fd) :
    aget (keptOf r evs) fd = if fd ∈ evs.map (·.1) then aget r fd else none := by
  unfold keptOf
  rw [aget_filter_key r (fun k => decide (k ∈ evs.map (·.1)))]
  by_cases h : fd ∈ evs.map (·.1) <;> simp [h]

theorem pruneStale_spec (x : Exec) (w : WorkId) (evs : List (Fd × Mask)) :
    (pruneStale x w evs).works = x.works ∧
    (∀ w', aget (pruneStale x w evs).registered w' =
      if w' = w then (aget x.registered w).map (fun r => keptOf r evs) else aget x.registered w') ∧
    (∀ fd', cell (pruneStale x w evs).sk fd' =
      if fd' ∈ keysOf (staleOf (regOf x w) evs) then (unregC (cell x.sk fd') fd').1 else cell x.sk fd') := by
  unfold pruneStale
  cases h : aget x.registered w with
  | none =>
    refine ⟨rfl, ?_, ?_⟩
    · intro w'; by_cases e : w' = w
      · subst e; simp [h]
      · simp [e]
    · intro fd'; simp [regOf, h, staleOf, keysOf]
  | some r =>
    refine ⟨rfl, ?_, ?_⟩
    · intro w'
      simp only [aget_aset]
      by_cases e : w' = w
      · simp [e, keptOf]
      · simp [e]
    · intro fd'
      simp only
      rw [unregAll_cell]
      simp [regOf, h, staleOf]

theorem pruneStale_inv (x : Exec) (w : WorkId) (evs : List (Fd × Mask)) (hi : Inv x) :
    Inv (pruneStale x w evs) := by
  obtain ⟨hworks, hreg, hcell⟩ := pruneStale_spec x w evs
  have hro : ∀ d, regOf (pruneStale x w evs) d = if d = w then keptOf (regOf x w) evs else regOf x d := by
    intro d
    unfold regOf
    rw [hreg]
    by_cases e : d = w
    · subst e
      cases aget x.registered d <;> simp [keptOf]
    · simp [e]
  have hkey : ∀ fd p, (cell (pruneStale x w evs).sk fd).key = some p →
      (cell x.sk fd).key = some p ∧ fd ∉ keysOf (staleOf (regOf x w) evs) := by
    intro fd p hk
    rw [hcell] at hk
    by_cases hs : fd ∈ keysOf (staleOf (regOf x w) evs)
    · simp only [hs, if_true] at hk
      have hnn : (cell x.sk fd).key ≠ none := by
        intro hn; unfold unregC at hk; simp [hn] at hk; split at hk <;> simp_all
      have := hi.mapNonneg fd hnn
      unfold unregC at hk
      have h0 : ¬ fd < 0 := Int.not_lt.mpr this
      simp only [h0, if_false] at hk
      cases hc : (cell x.sk fd).key with
      | none => exact absurd hc hnn
      | some q => simp only [hc] at hk; split at hk <;> (try split at hk) <;> simp at hk
    · simp only [hs, if_false] at hk
      exact ⟨hk, hs⟩
  constructor
  · intro fd m d hk
    obtain ⟨hk1, hns⟩ := hkey fd (m, d) hk
    have h1 := hi.mapReg _ _ _ hk1
    rw [hro]
    by_cases e : d = w
    · subst e
      simp only [if_true]
      rw [aget_keptOf]
      have hin : fd ∈ keysOf (regOf x d) := (mem_keysOf_iff _ _).2 (by rw [h1]; simp)
      have : fd ∈ evs.map (·.1) := by
        by_cases h : fd ∈ evs.map (·.1)
        · exact h
        · exact absurd ((mem_keysOf_staleOf _ _ _).2 ⟨hin, h⟩) hns
      simp [this, h1]
    · simp [e]; exact h1
  · intro w' h
    rw [hworks]
    rw [hreg] at h
    by_cases e : w' = w
    · subst e
      apply hi.regWorks
      intro hn; simp [hn] at h
    · simp [e] at h; exact hi.regWorks _ h
  · intro fd h
    cases hc : (cell (pruneStale x w evs).sk fd).key with
    | none => exact absurd hc h
    | some p => exact hi.mapNonneg fd (by rw [(hkey fd p hc).1]; simp)
  · rw [hworks]; exact hi.nodup
  · rw [hworks]; exact hi.noZero

theorem updWork_inv (x : Exec) (w : WorkId) (ev : EvRes) (hw : w ∈ x.works) (hi : Inv x) :
    Inv (updWork x w ev).1 ∧ (updWork x w ev).1.works = x.works := by
  cases ev with
  | exc => exact ⟨hi, rfl⟩
  | ok evs =>
    have h := updEvents_inv w evs x hw hi
    simp only [updWork]
    rcases hu : updEvents x w evs with ⟨x', bad⟩
    rw [hu] at h
    simp only at h
    cases bad with
    | true => exact h
    | false => exact ⟨pruneStale_inv x' w evs h.1, (pruneStale_spec x' w evs).1.trans h.2⟩

theorem updAll_inv (env : RoundEnv) (l : List WorkId) : ∀ (x : Exec), (∀ w ∈ l, w ∈ x.works) → Inv x →
    Inv (updAll env x l).1 ∧ (updAll env x l).1.works = x.works ∧ (updAll env x l).2.Sublist l := by
  induction l with
  | nil => intro x _ hi; exact ⟨hi, rfl, List.Sublist.refl _⟩
  | cons w r ih =>
    intro x hl hi
    unfold updAll
    have h1 := updWork_inv x w (env.beh w).events (hl w (List.mem_cons_self)) hi
    rcases h : updWork x w (env.beh w).events with ⟨x1, bad⟩
    rw [h] at h1
    simp only at h1
    have h2 := ih x1 (fun v hv => h1.2 ▸ hl v (List.mem_cons_of_mem _ hv)) h1.1
    simp only
    refine ⟨h2.1, h2.2.1.trans h1.2, ?_⟩
    cases bad
    · simp; exact List.Sublist.cons _ h2.2.2
    · simp; exact h2.2.2


/-- the cell of `fd'` after `_cleanup(w)` -/
def cleanC (r : List (Fd × Mask)) (closes : List Fd) (c : Cell) (fd' : Fd) : Cell :=
  let c1 := if fd' ∈ keysOf r then (unregC c fd').1 else c
  if fd' ∈ closes then closedCell c1 else c1

theorem cleanup_spec (x : Exec) (w : WorkId) (sd : Shutdown) :
    (w ∉ x.works → cleanup x w sd = .error (.worksKeyError w)) ∧
    (w ∈ x.works → ∃ y, cleanup x w sd = .ok y ∧
      y.works = x.works.filter (fun v => decide (v ≠ w)) ∧
      (∀ w', aget y.registered w' = if w' = w then none else aget x.registered w') ∧
      (∀ fd', cell y.sk fd' = cleanC (regOf x w) sd.closes (cell x.sk fd') fd')) := by
  unfold cleanup
  cases h : aget x.registered w with
  | none =>
    simp only
    constructor
    · intro hw; simp [hw]
    · intro hw
      simp only [hw, if_true]
      refine ⟨_, rfl, rfl, ?_, ?_⟩
      · intro w'; by_cases e : w' = w
        · subst e; simp [h]
        · simp [e]
      · intro fd'
        have := closeAll_cell sd.closes x.sk fd'
        rw [this]
        simp [cleanC, regOf, h, keysOf]
  | some r =>
    simp only
    constructor
    · intro hw; simp [hw]
    · intro hw
      simp only [hw, if_true]
      refine ⟨_, rfl, rfl, ?_, ?_⟩
      · intro w'; simp [aget_adel]
      · intro fd'
        have := closeAll_cell sd.closes (unregAll x.sk r) fd'
        rw [this, unregAll_cell]
        simp [cleanC, regOf, h]

theorem cleanC_key (r : List (Fd × Mask)) (cl : List Fd) (c : Cell) (fd' : Fd) (p : Mask × WorkId)
    (h : (cleanC r cl c fd').key = some p) : c.key = some p ∧ (fd' ∉ keysOf r ∨ fd' < 0) := by
  unfold cleanC closedCell unregC at h
  grind

theorem regOf_after_cleanup {x y : Exec} {w : WorkId}
    (h : ∀ w', aget y.registered w' = if w' = w then none else aget x.registered w') (d : WorkId) :
    regOf y d = if d = w then [] else regOf x d := by
  unfold regOf; rw [h]; by_cases e : d = w <;> simp [e]

theorem cleanup_inv (x y : Exec) (w : WorkId) (sd : Shutdown) (hi : Inv x) (h : cleanup x w sd = .ok y) :
    Inv y ∧ w ∈ x.works ∧ y.works = x.works.filter (fun v => decide (v ≠ w)) := by
  have hs := cleanup_spec x w sd
  by_cases hw : w ∈ x.works
  · obtain ⟨y', hy, hworks, hreg, hcell⟩ := hs.2 hw
    rw [h] at hy
    cases hy
    refine ⟨?_, hw, hworks⟩
    have hro := regOf_after_cleanup hreg
    constructor
    · intro fd m d hk
      rw [hcell] at hk
      obtain ⟨hk1, hk2⟩ := cleanC_key _ _ _ _ _ hk
      have h1 := hi.mapReg _ _ _ hk1
      have hnn := hi.mapNonneg fd (by rw [hk1]; simp)
      rw [hro]
      by_cases e : d = w
      · subst e
        have : fd ∈ keysOf (regOf x d) := (mem_keysOf_iff _ _).2 (by rw [h1]; simp)
        rcases hk2 with hk2 | hk2
        · exact absurd this hk2
        · exact absurd hk2 (Int.not_lt.mpr hnn)
      · simp [e]; exact h1
    · intro w' hw'
      rw [hreg] at hw'
      rw [hworks]
      by_cases e : w' = w
      · simp [e] at hw'
      · simp [e] at hw'
        simp [hi.regWorks _ hw', e]
    · intro fd hk
      rw [hcell] at hk
      cases hk' : (cleanC (regOf x w) sd.closes (cell x.sk fd) fd).key with
      | none => exact absurd hk' hk
      | some p =>
        have := (cleanC_key _ _ _ _ _ hk').1
        exact hi.mapNonneg fd (by rw [this]; simp)
    · rw [hworks]; exact hi.nodup.filter _
    · rw [hworks]; intro h0; exact hi.noZero (List.mem_filter.1 h0).1
  · rw [hs.1 hw] at h; cases h

theorem cleanupMany_ok (sd : WorkId → Shutdown) (l : List WorkId) : ∀ (x : Exec), Inv x →
    (∀ w ∈ l, w ∈ x.works) → l.Nodup →
    ∃ y, cleanupMany sd x l = .ok y ∧ Inv y ∧ y.works = x.works.filter (fun v => decide (v ∉ l)) := by
  induction l with
  | nil => intro x hi _ _; exact ⟨x, rfl, hi, (List.filter_eq_self.2 (by simp)).symm⟩
  | cons w r ih =>
    intro x hi hl hnd
    unfold cleanupMany
    obtain ⟨y, hy, _⟩ := (cleanup_spec x w (sd w)).2 (hl w List.mem_cons_self)
    rw [hy]
    simp only
    obtain ⟨hiy, _, hworks⟩ := cleanup_inv x y w (sd w) hi hy
    have hnd' := List.nodup_cons.1 hnd
    obtain ⟨z, hz, hiz, hzw⟩ := ih y hiy (by
      intro v hv
      rw [hworks]
      refine List.mem_filter.2 ⟨hl v (List.mem_cons_of_mem _ hv), ?_⟩
      have : v ≠ w := fun e => hnd'.1 (e ▸ hv)
      simp [this]) hnd'.2
    refine ⟨z, hz, hiz, ?_⟩
    rw [hzw, hworks, List.filter_filter]
    congr 1
    funext v
    simp only [List.mem_cons, not_or, ne_eq, Bool.decide_and]
    rw [Bool.and_comm]

theorem Inv.of_same_book {x y : Exec} (hw : y.works = x.works) (hr : y.registered = x.registered)
    (hm : y.sk.map = x.sk.map) (hi : Inv x) : Inv y := by
  have hk : ∀ fd, (cell y.sk fd).key = (cell x.sk fd).key := by intro fd; simp [cell, hm]
  have hro : ∀ d, regOf y d = regOf x d := by intro d; simp [regOf, hr]
  constructor
  · intro fd m d h; rw [hk] at h; rw [hro]; exact hi.mapReg _ _ _ h
  · intro w h; rw [hr] at h; rw [hw]; exact hi.regWorks _ h
  · intro fd h; rw [hk] at h; exact hi.mapNonneg _ h
  · rw [hw]; exact hi.nodup
  · rw [hw]; exact hi.noZero

theorem mem_dedup (l : List WorkId) (v : WorkId) : v ∈ dedup l ↔ v ∈ l := by
  induction l with
  | nil => simp [dedup]
  | cons a r ih =>
    unfold dedup
    by_cases e : v = a
    · simp [e]
    · simp [e, List.mem_filter, ih]

theorem nodup_dedup (l : List WorkId) : (dedup l).Nodup := by
  induction l with
  | nil => simp [dedup]
  | cons a r ih =>
    unfold dedup
    refine List.nodup_cons.2 ⟨?_, ih.filter _⟩
    simp [List.mem_filter]

theorem select_data_mem (x : Exec) (hi : Inv x) (ready : List (Fd × Mask)) (e : WorkId × Fd × Mask)
    (he : e ∈ select x.sk ready) : e.1 ∈ x.works := by
  unfold select at he
  obtain ⟨a, _, ha⟩ := List.mem_filterMap.1 he
  unfold selectOne at ha
  cases h1 : aget x.sk.k.epoll a.1 with
  | none => simp [h1] at ha
  | some i =>
    simp only [h1] at ha
    split at ha
    · simp at ha
    · cases h2 : aget x.sk.map a.1 with
      | none => simp [h2] at ha
      | some p =>
        obtain ⟨ev, d⟩ := p
        simp only [h2, Option.some.injEq] at ha
        subst ha
        simp only
        have hk : (cell x.sk a.1).key = some (ev, d) := by simp [cell, h2]
        have h3 := hi.mapReg _ _ _ hk
        apply hi.regWorks
        intro hn
        simp [regOf, hn] at h3

theorem tasks_ids_mem (x : Exec) (hi : Inv x) (ready : List (Fd × Mask)) :
    ∀ w ∈ (workByIds (select x.sk ready)).map (·.1), w ∈ x.works := by
  intro w hw
  unfold workByIds at hw
  simp only [List.map_map, List.mem_map, Function.comp] at hw
  obtain ⟨v, hv, rfl⟩ := hw
  rw [mem_dedup] at hv
  obtain ⟨e, he, rfl⟩ := List.mem_map.1 hv
  exact select_data_mem x hi ready e he

theorem tasks_ids_nodup (evs : List (WorkId × Fd × Mask)) : ((workByIds evs).map (·.1)).Nodup := by
  unfold workByIds
  simp only [List.map_map]
  have : ((fun x : WorkId × List Fd × List Fd => x.1) ∘ fun w => (w, readablesOf evs w, writablesOf evs w)) = id := by
    funext w; rfl
  rw [this, List.map_id]
  exact nodup_dedup _

/-- what the arriving connection must satisfy: its descriptor is not `0`, and a connection whose
    `initialize()` raises does not reuse the id of a work that is still registered -/
def ArriveOk (x : Exec) (env : RoundEnv) : Prop :=
  ∀ a, env.arrive = some a → a.fd ≠ 0 ∧ (a.initRaises = true → a.fd ∉ x.works)

theorem accept_ok (x : Exec) (a : Arrive) (sd : Shutdown) (hi : Inv x) (h0 : a.fd ≠ 0)
    (hf : a.initRaises = true → a.fd ∉ x.works) :
    ∃ y, accept x a sd = .ok y ∧ Inv y ∧ (∀ v ∈ x.works, v ∈ y.works) ∧
      (∀ v ∈ y.works, v ∈ x.works ∨ v = a.fd) := by
  unfold accept
  have hi1 : Inv { x with works := if a.fd ∈ x.works then x.works else x.works ++ [a.fd] } := by
    constructor
    · exact hi.mapReg
    · intro w h
      have := hi.regWorks w h
      by_cases e : a.fd ∈ x.works <;> simp [e, this]
    · exact hi.mapNonneg
    · by_cases e : a.fd ∈ x.works
      · simp [e]; exact hi.nodup
      · simp only [e, if_false]
        exact List.nodup_append.2 ⟨hi.nodup, by simp, by
          intro u hu v hv; simp at hv; subst hv; intro e2; exact e (e2 ▸ hu)⟩
    · by_cases e : a.fd ∈ x.works
      · simp [e]; exact hi.noZero
      · simp only [e, if_false, List.mem_append, List.mem_singleton, not_or]
        exact ⟨hi.noZero, fun h => h0 h.symm⟩
  cases hr : a.initRaises with
  | false =>
    simp only [Bool.false_eq_true, if_false]
    refine ⟨_, rfl, hi1, ?_, ?_⟩
    · intro v hv; by_cases e : a.fd ∈ x.works <;> simp [e, hv]
    · intro v hv
      by_cases e : a.fd ∈ x.works
      · simp [e] at hv; exact Or.inl hv
      · simp [e] at hv; exact hv
  | true =>
    simp only [if_true]
    have hnot := hf hr
    have hmem : a.fd ∈ (if a.fd ∈ x.works then x.works else x.works ++ [a.fd]) := by simp [hnot]
    obtain ⟨y, hy, _⟩ := (cleanup_spec { x with works := if a.fd ∈ x.works then x.works else x.works ++ [a.fd] } a.fd sd).2 hmem
    obtain ⟨hiy, _, hworks⟩ := cleanup_inv _ y a.fd sd hi1 hy
    refine ⟨y, hy, hiy, ?_, ?_⟩
    · intro v hv
      rw [hworks]
      simp only [hnot, if_false]
      refine List.mem_filter.2 ⟨by simp [hv], ?_⟩
      have : v ≠ a.fd := fun e => hnot (e ▸ hv)
      simp [this]
    · intro v hv
      rw [hworks] at hv
      have := (List.mem_filter.1 hv).1
      simp only [hnot, if_false, List.mem_append, List.mem_singleton] at this
      exact this

theorem checkTasks_ok (x : Exec) (ids : List WorkId) (h : ∀ w ∈ ids, w ∈ x.works) (h0 : (0 : WorkId) ∉ x.works) :
    checkTasks x ids = .ok () := by
  induction ids with
  | nil => rfl
  | cons w r ih =>
    unfold checkTasks
    have hw := h w List.mem_cons_self
    have : w ≠ 0 := fun e => h0 (e ▸ hw)
    simp [this, hw]
    exact ih (fun v hv => h v (List.mem_cons_of_mem _ hv))

theorem runTasks_book (env : RoundEnv) (l : List WorkId) : ∀ (x : Exec),
    (runTasks env x l).works = x.works ∧ (runTasks env x l).registered = x.registered ∧
    (runTasks env x l).sk.map = x.sk.map := by
  induction l with
  | nil => intro x; exact ⟨rfl, rfl, rfl⟩
  | cons w r ih => intro x; unfold runTasks; exact ih _

/-- works surviving the result loop: all but the task owners whose task asked for teardown -/
def survivors (env : RoundEnv) (works rem : List WorkId) : List WorkId :=
  works.filter (fun v => !(decide (v ∈ rem) && teardown env v))

theorem handleOne_ok (env : RoundEnv) (x : Exec) (w : WorkId) (hi : Inv x) (hw : w ∈ x.works) :
    ∃ y, handleOne env x w = .ok y ∧ Inv y ∧
      y.works = x.works.filter (fun v => !(decide (v = w) && teardown env v)) := by
  unfold handleOne
  cases ht : teardown env w with
  | false =>
    refine ⟨x, by simp, hi, ?_⟩
    refine (List.filter_eq_self.2 ?_).symm
    intro v _
    by_cases e : v = w
    · subst e; simp [ht]
    · simp [e]
  | true =>
    simp only [if_true]
    obtain ⟨y, hy, _⟩ := (cleanup_spec x w (env.beh w).sd).2 hw
    obtain ⟨hiy, _, hworks⟩ := cleanup_inv x y w _ hi hy
    refine ⟨y, hy, hiy, ?_⟩
    rw [hworks]
    apply List.filter_congr
    intro v _
    by_cases e : v = w
    · subst e; simp [ht]
    · simp [e]

theorem handleRest_ok (env : RoundEnv) (l : List WorkId) : ∀ (x : Exec), Inv x → l.Nodup →
    (∀ w ∈ l, w ∈ x.works) →
    ∃ y, handleRest env x l = .ok y ∧ Inv y ∧ y.works = survivors env x.works l := by
  induction l with
  | nil =>
    intro x hi _ _
    exact ⟨x, rfl, hi, (List.filter_eq_self.2 (by simp)).symm⟩
  | cons w r ih =>
    intro x hi hnd hl
    unfold handleRest
    obtain ⟨y, hy, hiy, hworks⟩ := handleOne_ok env x w hi (hl w List.mem_cons_self)
    rw [hy]
    simp only
    have hnd' := List.nodup_cons.1 hnd
    obtain ⟨z, hz, hiz, hzw⟩ := ih y hiy hnd'.2 (by
      intro v hv
      rw [hworks]
      have : v ≠ w := fun e => hnd'.1 (e ▸ hv)
      exact List.mem_filter.2 ⟨hl v (List.mem_cons_of_mem _ hv), by simp [this]⟩)
    refine ⟨z, hz, hiz, ?_⟩
    rw [hzw, hworks]
    unfold survivors
    rw [List.filter_filter]
    apply List.filter_congr
    intro v _
    by_cases e : v = w
    · subst e; simp [hnd'.1]
    · simp [e]

theorem handleResults_ok (env : RoundEnv) (prio : List WorkId) : ∀ (x : Exec) (rem : List WorkId), Inv x →
    rem.Nodup → (∀ w ∈ rem, w ∈ x.works) →
    ∃ y, handleResults env x rem prio = .ok y ∧ Inv y ∧ y.works = survivors env x.works rem := by
  induction prio with
  | nil => intro x rem hi hnd hl; unfold handleResults; exact handleRest_ok env rem x hi hnd hl
  | cons p ps ih =>
    intro x rem hi hnd hl
    unfold handleResults
    by_cases hp : p ∈ rem
    · simp only [hp, if_true]
      obtain ⟨y, hy, hiy, hworks⟩ := handleOne_ok env x p hi (hl p hp)
      rw [hy]
      simp only
      obtain ⟨z, hz, hiz, hzw⟩ := ih y (rem.filter (fun v => decide (v ≠ p))) hiy (hnd.filter _) (by
        intro v hv
        obtain ⟨hv1, hv2⟩ := List.mem_filter.1 hv
        rw [hworks]
        exact List.mem_filter.2 ⟨hl v hv1, by simp at hv2; simp [hv2]⟩)
      refine ⟨z, hz, hiz, ?_⟩
      rw [hzw, hworks]
      unfold survivors
      rw [List.filter_filter]
      apply List.filter_congr
      intro v _
      by_cases e : v = p
      · subst e; simp [hp]
      · simp [e, List.mem_filter]
    · simp only [hp, if_false]
      exact ih x rem hi hnd hl

/-- **aliveness and invariant preservation of one round** -/
theorem runOnce_ok (x : Exec) (env : RoundEnv) (hi : Inv x) (ha : ArriveOk x env) :
    ∃ y log, runOnce x env = .ok (y, log) ∧ Inv y := by
  unfold runOnce
  obtain ⟨hi1, hw1, hsub⟩ := updAll_inv env x.works x (fun w h => h) hi
  obtain ⟨x2, hx2, hi2, hw2⟩ := cleanupMany_ok (sdOf env) (updAll env x x.works).2 (updAll env x x.works).1 hi1
    (fun w hw => by rw [hw1]; exact hsub.subset hw) (hsub.nodup hi.nodup)
  simp only [hx2]
  have hsubw : ∀ v ∈ x2.works, v ∈ x.works := by
    intro v hv; rw [hw2, hw1] at hv; exact (List.mem_filter.1 hv).1
  have hids := tasks_ids_mem x2 hi2 env.ready
  have hnd := tasks_ids_nodup (select x2.sk env.ready)
  -- accept
  have hacc : ∃ x3, acceptOpt env x2 = .ok x3 ∧ Inv x3 ∧ (∀ v ∈ x2.works, v ∈ x3.works) := by
    unfold acceptOpt
    cases harr : env.arrive with
    | none => exact ⟨x2, rfl, hi2, fun v h => h⟩
    | some a =>
      obtain ⟨h0, hf⟩ := ha a harr
      obtain ⟨x3, h3, hi3, hk, _⟩ := accept_ok x2 a (sdOf env a.fd) hi2 h0 (fun h hm => hf h (hsubw _ hm))
      exact ⟨x3, h3, hi3, hk⟩
  obtain ⟨x3, hx3, hi3, hkeep⟩ := hacc
  simp only [hx3]
  unfold finishRound
  rw [checkTasks_ok x3 _ (fun w hw => hkeep w (hids w hw)) hi3.noZero]
  simp only
  obtain ⟨hb1, hb2, hb3⟩ := runTasks_book env ((workByIds (select x2.sk env.ready)).map (·.1)) x3
  have hi4 : Inv (runTasks env x3 ((workByIds (select x2.sk env.ready)).map (·.1))) := Inv.of_same_book hb1 hb2 hb3 hi3
  obtain ⟨x5, hx5, hi5, _⟩ := handleResults_ok env env.prio _ _ hi4 hnd
    (fun w hw => hb1 ▸ hkeep w (hids w hw))
  rw [hx5]
  exact ⟨x5, _, rfl, hi5⟩

/-- nothing of work `w` is left in the executor's bookkeeping -/
def Released (x : Exec) (w : WorkId) : Prop :=
  w ∉ x.works ∧ aget x.registered w = none ∧ ∀ fd m, (cell x.sk fd).key ≠ some (m, w)

theorem released_of_not_mem (x : Exec) (hi : Inv x) (w : WorkId) (hw : w ∉ x.works) : Released x w := by
  have hreg : aget x.registered w = none := by
    cases h : aget x.registered w with
    | none => rfl
    | some r => exact absurd (hi.regWorks w (by rw [h]; simp)) hw
  refine ⟨hw, hreg, ?_⟩
  intro fd m hk
  have := hi.mapReg fd m w hk
  simp [regOf, hreg] at this

theorem cleanup_release (x y : Exec) (w : WorkId) (sd : Shutdown) (hi : Inv x) (h : cleanup x w sd = .ok y) :
    Released y w ∧ ∀ fd ∈ sd.closes, (cell y.sk fd).isOpen = false ∧ (cell y.sk fd).interest = none := by
  obtain ⟨hiy, hw, hworks⟩ := cleanup_inv x y w sd hi h
  constructor
  · apply released_of_not_mem y hiy
    rw [hworks]; simp [List.mem_filter]
  · intro fd hfd
    obtain ⟨y', hy, _, _, hcell⟩ := (cleanup_spec x w sd).2 hw
    rw [h] at hy; cases hy
    rw [hcell]
    simp [cleanC, hfd, closedCell]

theorem reap_ok (x : Exec) (inactive : WorkId → Bool) (sd : WorkId → Shutdown) (hi : Inv x) :
    ∃ y, reap x inactive sd = .ok y ∧ Inv y ∧ y.works = x.works.filter (fun v => !inactive v) := by
  unfold reap
  obtain ⟨y, hy, hiy, hw⟩ := cleanupMany_ok sd (x.works.filter inactive) x hi
    (fun w hw => (List.mem_filter.1 hw).1) (hi.nodup.filter _)
  refine ⟨y, hy, hiy, ?_⟩
  rw [hw]
  apply List.filter_congr
  intro v hv
  simp [List.mem_filter, hv]

theorem updAll_failed_exc (env : RoundEnv) (l : List WorkId) : ∀ (x : Exec) (w : WorkId), w ∈ l →
    (env.beh w).events = .exc → w ∈ (updAll env x l).2 := by
  induction l with
  | nil => intro x w h; simp at h
  | cons a r ih =>
    intro x w hw he
    unfold updAll
    simp only
    rcases List.mem_cons.1 hw with e | h
    · subst e
      simp [he, updWork]
    · have := ih (updWork x a (env.beh a).events).1 w h he
      cases (updWork x a (env.beh a).events).2 <;> simp [this]

/-- everything C05 / C10 need to know about one round -/
theorem runOnce_facts (x : Exec) (env : RoundEnv) (hi : Inv x) (ha : ArriveOk x env) :
    ∃ y log, runOnce x env = .ok (y, log) ∧ Inv y ∧
      log.failed = (updAll env x x.works).2 ∧
      -- a work whose task asked for teardown (returned True or raised) is gone
      (∀ v ∈ log.tasks.map (·.1), teardown env v = true → v ∉ y.works) ∧
      -- a work whose event refresh failed is gone (unless a new connection with that id arrived)
      (∀ v ∈ log.failed, (∀ a, env.arrive = some a → a.fd ≠ v) → v ∉ y.works) ∧
      -- nothing appears from nowhere
      (∀ v ∈ y.works, v ∈ x.works ∨ ∃ a, env.arrive = some a ∧ a.fd = v) ∧
      -- nothing else is removed
      (∀ v ∈ x.works, v ∉ log.failed → ¬ (v ∈ log.tasks.map (·.1) ∧ teardown env v = true) → v ∈ y.works) ∧
      -- a connection whose initialize() raised is gone
      (∀ a, env.arrive = some a → a.initRaises = true → a.fd ∉ y.works) := by
  unfold runOnce
  obtain ⟨hi1, hw1, hsub⟩ := updAll_inv env x.works x (fun w h => h) hi
  obtain ⟨x2, hx2, hi2, hw2⟩ := cleanupMany_ok (sdOf env) (updAll env x x.works).2 (updAll env x x.works).1 hi1
    (fun w hw => by rw [hw1]; exact hsub.subset hw) (hsub.nodup hi.nodup)
  simp only [hx2]
  rw [hw1] at hw2
  have hids := tasks_ids_mem x2 hi2 env.ready
  have hnd := tasks_ids_nodup (select x2.sk env.ready)
  have hacc : ∃ x3, acceptOpt env x2 = .ok x3 ∧ Inv x3 ∧ (∀ v ∈ x2.works, v ∈ x3.works) ∧
      (∀ v ∈ x3.works, v ∈ x2.works ∨ ∃ a, env.arrive = some a ∧ a.fd = v) ∧
      (∀ a, env.arrive = some a → a.initRaises = true → a.fd ∉ x3.works) := by
    unfold acceptOpt
    cases harr : env.arrive with
    | none => exact ⟨x2, rfl, hi2, fun v h => h, fun v h => Or.inl h, by simp⟩
    | some a =>
      obtain ⟨h0, hf⟩ := ha a harr
      have hf2 : a.initRaises = true → a.fd ∉ x2.works := fun h hm => hf h (by
        rw [hw2] at hm; exact (List.mem_filter.1 hm).1)
      obtain ⟨x3, h3, hi3, hk, hk2⟩ := accept_ok x2 a (sdOf env a.fd) hi2 h0 hf2
      refine ⟨x3, h3, hi3, hk, ?_, ?_⟩
      · intro v hv
        rcases hk2 v hv with h | h
        · exact Or.inl h
        · exact Or.inr ⟨a, rfl, h.symm⟩
      · intro a' ha' hr
        cases ha'
        -- initialize raised: accept = cleanup of the freshly added id
        unfold accept at h3
        simp only [hr, if_true] at h3
        obtain ⟨_, _, hworks⟩ := cleanup_inv _ x3 a.fd _ (by
          constructor
          · exact hi2.mapReg
          · intro w h
            have := hi2.regWorks w h
            by_cases e : a.fd ∈ x2.works <;> simp [e, this]
          · exact hi2.mapNonneg
          · simp only [hf2 hr, if_false]
            exact List.nodup_append.2 ⟨hi2.nodup, by simp, by
              intro u hu v hv; simp at hv; subst hv; intro e2; exact hf2 hr (e2 ▸ hu)⟩
          · simp only [hf2 hr, if_false, List.mem_append, List.mem_singleton, not_or]
            exact ⟨hi2.noZero, fun h => h0 h.symm⟩) h3
        rw [hworks]; simp [List.mem_filter]
  obtain ⟨x3, hx3, hi3, hkeep, hnew, hinit⟩ := hacc
  simp only [hx3]
  unfold finishRound
  rw [checkTasks_ok x3 _ (fun w hw => hkeep w (hids w hw)) hi3.noZero]
  simp only
  obtain ⟨hb1, hb2, hb3⟩ := runTasks_book env ((workByIds (select x2.sk env.ready)).map (·.1)) x3
  have hi4 : Inv (runTasks env x3 ((workByIds (select x2.sk env.ready)).map (·.1))) := Inv.of_same_book hb1 hb2 hb3 hi3
  obtain ⟨x5, hx5, hi5, hw5⟩ := handleResults_ok env env.prio _ _ hi4 hnd
    (fun w hw => hb1 ▸ hkeep w (hids w hw))
  rw [hx5]
  rw [hb1] at hw5
  refine ⟨x5, _, rfl, hi5, rfl, ?_, ?_, ?_, ?_, ?_⟩
  · intro v hv ht hmem
    rw [hw5] at hmem
    have := (List.mem_filter.1 hmem).2
    simp [hv, ht] at this
  · intro v hv hna hmem
    rw [hw5] at hmem
    have h3 := (List.mem_filter.1 hmem).1
    rcases hnew v h3 with h | ⟨a, ha1, ha2⟩
    · rw [hw2] at h
      have := (List.mem_filter.1 h).2
      simp [hv] at this
    · exact hna a ha1 ha2
  · intro v hmem
    rw [hw5] at hmem
    have h3 := (List.mem_filter.1 hmem).1
    rcases hnew v h3 with h | h
    · rw [hw2] at h; exact Or.inl (List.mem_filter.1 h).1
    · exact Or.inr h
  · intro v hv hnf hnt
    rw [hw5]
    refine List.mem_filter.2 ⟨hkeep v ?_, ?_⟩
    · rw [hw2]; exact List.mem_filter.2 ⟨hv, by simp [hnf]⟩
    · by_cases h1 : v ∈ (workByIds (select x2.sk env.ready)).map (·.1)
      · have : teardown env v = false := by
          cases ht : teardown env v with
          | false => rfl
          | true => exact absurd ⟨h1, ht⟩ hnt
        simp [this]
      · simp only [List.mem_map] at h1
        simp [h1]
  · intro a ha1 hr hmem
    rw [hw5] at hmem
    exact hinit a ha1 hr (List.mem_filter.1 hmem).1

end Px.Exec
