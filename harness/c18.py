"""C18 — event bus fan-out: correspondence of PxModel/Dispatcher.lean with
proxy/core/event/dispatcher.py (the REAL EventDispatcher.handle_event driven over
real multiprocessing.Pipe() channels), and the property oracle.

A case is {'ops': 's0.0 p1 b0 u0 …', 'n': <number of channels>, 'duplex': 0|1, 'q': 0|1}.
q=0: every s/u/p token is one event dict handed straight to handle_event.
q=1: s/u/p tokens go through the REAL EventQueue (proxy/core/event/queue.py) built over a plain
     queue.Queue(): subscribe(sub_id, channel) / unsubscribe(sub_id) / publish(request_id, event_name,
     event_payload, publisher_id); they stay queued (a burst) until a flush token `f` (or the end of the
     history), at which the dispatcher consumes them with run_once() per queued item.  Reader-side tokens act
     at once.  The queue layer has to be transparent and FIFO: the history the model and the oracle see is the
     linearisation `effective()` (queued operations take effect, in order, at the flush).  Every received
     published event is also checked field by field against what was published (request_id, event_name,
     event_payload, publisher_id, process_id, thread_id, float timestamp).
Tokens:  s<id>.<ch> SUBSCRIBE event for sub id <id> carrying the sending end of channel <ch>
         u<id>      UNSUBSCRIBE event
         p<e>       published event number <e> (event_name = one of the 7 non-protocol names, payload {'n': e})
         r<ch>      the reader of <ch> reads everything readable now
         b<ch>      the reader of <ch> drains its channel, then closes its end   (breakage, nothing unread)
         B<ch>      the reader of <ch> closes its end with whatever is unread pending (breakage)
         f          (q=1) the dispatcher consumes everything queued so far
After the history every surviving reader reads what is left.  Observables: the
dispatcher's subscriber dict (ids in order, with their channel), the exception
that escaped handle_event (the run stops there, like EventDispatcher.run()),
per channel the messages its reader received, and `$` when a surviving reader
saw EOF (the dispatcher closed its end).
"""
import os
import queue
import logging
import threading
import multiprocessing

PROPERTY = 'C18'
LEAN_TARGETS = ['PxProofs.C18']
THEOREMS = [
    'Px.Disp.C18_exact', 'Px.Disp.C18_isolation', 'Px.Disp.C18_isolation_owner',
    'Px.Disp.C18_no_closed_send', 'Px.Disp.C18_general', 'Px.Disp.C18_shape',
]
EXH_LEN = 6
EXH_LEN_Q = 5
RULE = ('history of subscribe/unsubscribe/publish/reader-read/reader-close operations run on the real '
        'EventDispatcher over real multiprocessing.Pipe channels and on the model, either handing event dicts to '
        'handle_event or (q=1) through the real EventQueue.subscribe/unsubscribe/publish over a queue.Queue with '
        'bursts consumed by run_once; thorough = ALL fresh-channel histories of length <= %d over sub ids {0,1,2} '
        '(unsub also of unknown id 9; breakage of every allocated or next-to-be-allocated channel, drained and '
        'with unread data) handed to handle_event, ALL such histories of length <= %d through the EventQueue under '
        'two schedules (flush after every operation; one burst consumed at the end), plus random longer ones with '
        'random flush points; distinct by canonical JSON; non-trivial = every sub uses a fresh channel (the '
        'property quantifier) and the history has at least one subscribe and one publish' % (EXH_LEN, EXH_LEN_Q))
ASSUMPTIONS = [
    'every subscriber brings its own new Pipe (EventSubscriber._start_relay_thread); histories that reuse a '
    'channel are run for model/code agreement only (there a send on a handle the dispatcher closed raises '
    'OSError, which handle_event does not catch)',
    'Connection.send on an open handle fails only with BrokenPipeError when the reader end is gone (observed on '
    'this Linux for socketpair and os.pipe channels, with and without unread data); other OSErrors '
    '(e.g. ConnectionResetError on other platforms), pickling errors of the event and a send blocking on a full '
    'pipe buffer are not modelled',
    'the container under EventQueue is FIFO with a single consumer and snapshots an item when it is put '
    '(multiprocessing/manager queues pickle on put); the harness uses queue.Queue, which keeps the very object, '
    'so an envelope mutated after put() is seen mutated — stricter than production',
]
EXHAUSTIVE = {'thorough': True}
EXPLANATION = ('thorough enumerates the whole space named in the rule (length <= %d direct, <= %d through the '
               'EventQueue under both schedules); quick is a seeded sample of it plus random longer and '
               'channel-reusing histories' % (EXH_LEN, EXH_LEN_Q))

logging.getLogger('proxy.core.event.dispatcher').setLevel(logging.CRITICAL + 1)

UNKNOWN_ID = 9


def raw(case):
    """the tokens as written (with flush tokens)"""
    out = []
    for t in case['ops'].split():
        k, rest = t[0], t[1:]
        if k == 's':
            a, b = rest.split('.')
            out.append(('s', int(a), int(b)))
        elif k == 'f':
            out.append(('f',))
        else:
            out.append((k, int(rest)))
    return out


def effective(ops, q):
    """the history as the dispatcher and the readers live it: with the EventQueue in between, queued
    operations take effect, in queue order, when the dispatcher consumes them"""
    if not q:
        return [o for o in ops if o[0] != 'f']
    out, pending = [], []
    for o in ops:
        if o[0] in 'sup':
            pending.append(o)
        elif o[0] == 'f':
            out += pending
            pending = []
        else:
            out.append(o)
    return out + pending


def parse(case):
    return effective(raw(case), case.get('q', 0))


def _tokstr(o):
    return 's%d.%d' % (o[1], o[2]) if o[0] == 's' else '%s%d' % (o[0], o[1])


def _published(e):
    """arguments of EventQueue.publish for published event number e"""
    return 'r%d' % e, _ev_name(e), {'n': e}, (None if e % 3 == 0 else 'pub%d' % (e % 3))


def _ev_name(e):
    """event name carried by published event number e: every name except the four of the subscription protocol"""
    from proxy.core.event import eventNames as N
    names = [N.DISPATCHER_SHUTDOWN, N.WORK_STARTED, N.WORK_FINISHED, N.REQUEST_COMPLETE,
             N.RESPONSE_HEADERS_COMPLETE, N.RESPONSE_CHUNK_RECEIVED, N.RESPONSE_COMPLETE]
    return names[e % len(names)]


def _tok(m):
    """canonical name of a received message"""
    from proxy.core.event import eventNames as N
    if not isinstance(m, dict):
        return 'BAD'
    if m == {'event_name': N.SUBSCRIBED}:
        return 'S'
    if m == {'event_name': N.UNSUBSCRIBED}:
        return 'U'
    try:
        e = m['event_payload']['n']
        if m == {'event_name': _ev_name(e), 'event_payload': {'n': e}}:
            return str(e)                          # handed to handle_event as is (q=0)
        rid, name, payload, pub = _published(e)
        if set(m) == {'process_id', 'thread_id', 'event_timestamp', 'request_id', 'event_name',
                      'event_payload', 'publisher_id'} \
                and m['request_id'] == rid and m['event_name'] == name and m['event_payload'] == payload \
                and m['publisher_id'] == pub and m['process_id'] == os.getpid() \
                and m['thread_id'] == threading.get_ident() and isinstance(m['event_timestamp'], float):
            return str(e)                          # the envelope EventQueue.publish builds (q=1)
        return 'BAD%d' % e
    except Exception:
        pass
    return 'BAD'


def execute(case):
    """Run the history on the real dispatcher.  Returns (subs, crash, seen, eof, dead)."""
    from proxy.core.event import EventDispatcher, EventQueue, eventNames

    class _Q:
        queue = None
    via_queue = bool(case.get('q', 0))
    eq = EventQueue(queue.Queue()) if via_queue else _Q()
    n = case['n']
    pipes = [multiprocessing.Pipe(bool(case.get('duplex', 1))) for _ in range(n)]
    readers = [p[0] for p in pipes]
    senders = [p[1] for p in pipes]
    seen = [[] for _ in range(n)]
    eof = [False] * n
    dead = [False] * n
    crash = None
    d = EventDispatcher(shutdown=threading.Event(), event_queue=eq)   # type: ignore

    def read(c):
        if dead[c] or eof[c]:
            return
        r = readers[c]
        for _ in range(10000):
            if not r.poll():
                return
            try:
                seen[c].append(_tok(r.recv()))
            except EOFError:
                eof[c] = True
                return

    def flush():
        """the dispatcher loop body, once per queued item; an escaping exception ends the loop (run())"""
        while not eq.queue.empty():
            try:
                d.run_once()
            except Exception as e:
                return type(e).__name__
        return None

    try:
        for op in raw(case):
            k = op[0]
            if via_queue and k in 'supf':
                if k == 's':
                    eq.subscribe(str(op[1]), senders[op[2]])
                elif k == 'u':
                    eq.unsubscribe(str(op[1]))
                elif k == 'p':
                    eq.publish(*_published(op[1]))
                else:
                    crash = flush()
                    if crash:
                        break
                continue
            if k == 'f':
                continue
            if k == 's':
                ev = {'event_name': eventNames.SUBSCRIBE,
                      'event_payload': {'sub_id': str(op[1]), 'conn': senders[op[2]]}}
            elif k == 'u':
                ev = {'event_name': eventNames.UNSUBSCRIBE, 'event_payload': {'sub_id': str(op[1])}}
            elif k == 'p':
                ev = {'event_name': _ev_name(op[1]), 'event_payload': {'n': op[1]}}
            else:
                c = op[1]
                if k == 'r':
                    read(c)
                elif not dead[c]:
                    if k == 'b':
                        read(c)
                    readers[c].close()
                    dead[c] = True
                continue
            try:
                d.handle_event(ev)
            except Exception as e:     # escaped the dispatcher: run() would stop here
                crash = type(e).__name__
                break
        if via_queue and not crash:
            crash = flush()
        for c in range(n):
            read(c)
        subs = []
        for k, conn in d.subscribers.items():
            idx = [i for i, s in enumerate(senders) if s is conn]
            subs.append((k, idx[0] if idx else -1))
        return subs, crash, seen, eof, dead
    finally:
        for r, s in pipes:
            for x in (r, s):
                try:
                    x.close()
                except Exception:
                    pass


def impl(case):
    subs, crash, seen, eof, dead = execute(case)
    chans = ['c%d=%s%s' % (c, ','.join(seen[c]), '$' if (eof[c] and not dead[c]) else '')
             for c in range(case['n'])]
    return ['subs=%s crash=%s %s' % (','.join('%s:%d' % p for p in subs), crash or '-', ' '.join(chans))]


def model_lines(case):
    return ['disp %d %s' % (case['n'], ' '.join(_tokstr(o) for o in parse(case)))]


def is_fresh(ops):
    chans = [o[2] for o in ops if o[0] == 's']
    return len(chans) == len(set(chans))


def in_quantifier(case):
    return is_fresh(parse(case))


def oracle(case):
    """The property statement, evaluated on the implementation only."""
    ops = parse(case)
    if not is_fresh(ops):
        return None
    subs, crash, seen, eof, dead = execute(case)
    if crash:
        return 'dispatcher-raised-' + crash
    broken = {o[1] for o in ops if o[0] in ('b', 'B')}
    for c in range(case['n']):
        start = [t for t, o in enumerate(ops) if o[0] == 's' and o[2] == c]
        if not start:
            want = []
        else:
            t0 = start[0]
            sid = ops[t0][1]
            end = len(ops)
            ended_by_unsub = False
            for t in range(t0 + 1, len(ops)):
                o = ops[t]
                if o[0] == 'u' and o[1] == sid:
                    end, ended_by_unsub = t, True
                    break
                if o[0] == 's' and o[1] == sid:
                    end = t
                    break
            want = ['S'] + [str(o[1]) for o in ops[t0 + 1:end] if o[0] == 'p'] + (['U'] if ended_by_unsub else [])
        got = seen[c]
        if c not in broken:
            if got != want:
                if got[:1] != want[:1]:
                    return 'ack-missing-or-misplaced'
                if sorted(got) == sorted(want):
                    return 'reordered'
                if len(set(got)) < len(got):
                    return 'duplicated'
                if 'U' in got and got[-1] != 'U':
                    return 'delivery-after-unsubscribed'
                return 'lost-or-extra-delivery'
            # still registered  <=>  window still open
            registered = any(ch == c for _, ch in subs)
            if registered != (bool(start) and end == len(ops)):
                return 'registration-differs-from-window'
        else:
            # a broken channel may have received less, never something else / reordered / duplicated
            if got != want[:len(got)]:
                return 'broken-channel-got-wrong-prefix'
            # dropped at the first send attempted after the breakage
            if any(ch == c for _, ch in subs):
                tb = [t for t, o in enumerate(ops) if o[0] in ('b', 'B') and o[1] == c][0]
                if tb < start[0] or any(o[0] == 'p' for o in ops[max(tb, start[0]):]):
                    return 'broken-subscriber-not-dropped'
    return None


# ---------------------------------------------------------------- generators

def _case(toks, duplex=1, q=0):
    n = 0
    for t in toks:
        if t == 'f':
            continue
        if t[0] == 's':
            n = max(n, int(t.split('.')[1]) + 1)
        elif t[0] in 'rbB':
            n = max(n, int(t[1:]) + 1)
    c = {'ops': ' '.join(toks), 'n': max(n, 1), 'duplex': duplex}
    if q:
        c['q'] = 1
    return c


def corpus():
    cs = [
        's0.0 p1 u0 p2',
        's0.0 s1.1 p1 b1 p2 p3 u0 u0 u9 p4',
        's0.0 s1.1 s2.2 p1 B0 p2 B2 p3 u1',
        'b0 s0.0 p1 s1.1 p2',
        's0.0 p1 s0.1 p2 u0 p3',                     # re-subscription replaces the channel silently
        's0.0 r0 p1 B0 p2 s1.1 p3',
        's0.0 s1.1 b0 u0 p1',                        # unsubscribe of a broken subscriber: ack swallowed
        's0.0 s1.1 s2.2 b0 b1 b2 p1 p2',
        'u0 u9 p1 s0.0',
        # channel reuse (outside the property's quantifier): a send on a closed handle escapes
        's0.0 s1.0 u0 p1',
        's0.0 u0 s0.0',
        's0.0 s1.0 b0 p1 p2',
        's0.0 s0.0 p1 u0',
    ]
    out = [_case(c.split()) for c in cs]
    out.append(_case('s0.0 s1.1 p1 b1 p2 B0 p3'.split(), duplex=0))
    # through the real EventQueue: bursts queued before the dispatcher consumes anything
    for c in ('s0.0 f p1 p2 p3',                     # three events back to back (envelope aliasing shows here)
              's0.0 s1.1 p1 p2 u0 p3 p4',            # one burst, consumed at the end
              's0.0 f p1 p2 b0 f p3 s1.1 p4 f u1 p5',
              's0.0 s1.1 f p1 B1 p2 f p3 u0 u0 u9',
              's0.0 p1 s0.1 p2 f r0 p3 p4 u0 p5',
              's0.0 s1.0 u0 p1'):                    # channel reuse, still an escaping OSError
        out.append(_case(c.split(), q=1))
    return out


def with_flushes(toks, rng=None, every=False):
    """flush after every operation (every=True: the schedule of the direct mode) or at random points"""
    out = []
    for t in toks:
        out.append(t)
        if every or (rng is not None and rng.random() < 0.3):
            out.append('f')
    return out


def enumerate_fresh(maxlen):
    """ALL fresh-channel histories of length 1..maxlen: at every position s<i>.<next channel> (i in 0..2),
    u<i> (i in 0,1,2,9), p<position>, and for every channel allocated so far or the next one to be allocated
    and not yet broken: b<c>, and B<c> when allocated (an unallocated channel has nothing unread)."""
    def rec(prefix, k, brokenset):
        if prefix:
            yield prefix
        if len(prefix) == maxlen:
            return
        pos = len(prefix)
        for i in (0, 1, 2):
            yield from rec(prefix + ['s%d.%d' % (i, k)], k + 1, brokenset)
        for i in (0, 1, 2, UNKNOWN_ID):
            yield from rec(prefix + ['u%d' % i], k, brokenset)
        yield from rec(prefix + ['p%d' % pos], k, brokenset)
        for c in range(k + 1):
            if c in brokenset:
                continue
            yield from rec(prefix + ['b%d' % c], k, brokenset | {c})
            if c < k:
                yield from rec(prefix + ['B%d' % c], k, brokenset | {c})
    return rec([], 0, frozenset())


def random_history(rng, maxlen, fresh=True, reads=True):
    nsub = rng.choice([1, 2, 3])
    ids = list(range(nsub))
    toks = []
    k = 0
    length = rng.randrange(1, maxlen + 1)
    for pos in range(length):
        x = rng.random()
        if x < 0.22 or (k == 0 and x < 0.5):
            i = rng.choice(ids)
            if fresh or k == 0 or rng.random() < 0.5:
                toks.append('s%d.%d' % (i, k))
                k += 1
            else:
                toks.append('s%d.%d' % (i, rng.randrange(k)))
        elif x < 0.40:
            toks.append('u%d' % rng.choice(ids + ids + [UNKNOWN_ID, 3 + rng.randrange(4)]))
        elif x < 0.75:
            toks.append('p%d' % pos)
        elif x < 0.90:
            toks.append('%s%d' % (rng.choice('bB'), rng.randrange(k + 1)))
        elif reads and k:
            toks.append('r%d' % rng.randrange(k))
        else:
            toks.append('p%d' % pos)
    return toks


def generate(rng, tier):
    if tier == 'thorough':
        for h in enumerate_fresh(EXH_LEN):
            yield _case(h)
        for h in enumerate_fresh(EXH_LEN_Q):
            yield _case(with_flushes(h, every=True), q=1)
            if len(h) > 1:
                yield _case(h, q=1)                  # one burst consumed at the end
        for _ in range(20000):
            yield _case(random_history(rng, 40), duplex=rng.choice([1, 1, 0]))
        for _ in range(20000):
            yield _case(with_flushes(random_history(rng, 40), rng), duplex=rng.choice([1, 1, 0]), q=1)
        for _ in range(6000):
            yield _case(random_history(rng, 14, fresh=False), duplex=rng.choice([1, 1, 0]))
        for _ in range(3000):
            yield _case(with_flushes(random_history(rng, 14, fresh=False), rng), duplex=rng.choice([1, 1, 0]), q=1)
    else:
        for h in enumerate_fresh(3):
            yield _case(h)
            if len(h) > 1:
                yield _case(h, q=1)
        for _ in range(1500):
            yield _case(random_history(rng, 12), duplex=rng.choice([1, 1, 0]))
        for _ in range(1500):
            yield _case(with_flushes(random_history(rng, 14), rng), duplex=rng.choice([1, 1, 0]), q=1)
        for _ in range(300):
            yield _case(random_history(rng, 10, fresh=False), duplex=rng.choice([1, 1, 0]))
        for _ in range(300):
            yield _case(with_flushes(random_history(rng, 10, fresh=False), rng), duplex=rng.choice([1, 1, 0]), q=1)


def neighbours(case):
    toks = case['ops'].split()
    q = case.get('q', 0)
    for i in range(len(toks)):
        yield _case(toks[:i] + toks[i + 1:], case.get('duplex', 1), q)
    for i in range(1, len(toks)):
        yield _case(toks[:i], case.get('duplex', 1), q)


def search(rng):
    out = [_case(h) for h in enumerate_fresh(4)]
    out += [_case(h, q=1) for h in enumerate_fresh(4) if len(h) > 1]
    out += [_case(random_history(rng, 12)) for _ in range(3000)]
    out += [_case(with_flushes(random_history(rng, 12), rng), q=1) for _ in range(3000)]
    return out


def shrink(case, still_fails):
    cur = case
    changed = True
    while changed:
        changed = False
        toks = cur['ops'].split()
        for i in range(len(toks)):
            cand = _case(toks[:i] + toks[i + 1:], cur.get('duplex', 1), cur.get('q', 0))
            if cand['ops'] and still_fails(cand):
                cur, changed = cand, True
                break
    return cur


def describe(case):
    ops = parse(case)
    kinds = {o[0] for o in ops}
    out = ['len%s' % ('<=5' if len(ops) <= 5 else '<=12' if len(ops) <= 12 else '>12'),
           'fresh=%d' % is_fresh(ops), 'subscribers=%d' % len({o[1] for o in ops if o[0] == 's'})]
    if 'b' in kinds:
        out.append('break-drained')
    if 'B' in kinds:
        out.append('break-pending')
    if any(o[0] == 'u' and o[1] >= 3 for o in ops):
        out.append('unsub-unknown-id')
    if case.get('q', 0):
        out.append('via-EventQueue')
        burst = best = 0
        for o in raw(case):
            if o[0] == 'p':
                burst += 1
                best = max(best, burst)
            elif o[0] == 'f':
                burst = 0
        out.append('publish-burst=%s' % (best if best < 3 else '>=3'))
    return out


def nontrivial(case):
    ops = parse(case)
    return is_fresh(ops) and any(o[0] == 's' for o in ops) and any(o[0] == 'p' for o in ops)
