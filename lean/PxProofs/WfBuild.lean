import PxProofs.WfLemmas
import PxModel.Responses
/-! C06 helper lemmas, part 2: `WF_response` accepts what `Px.Build.buildResponse`
    prints, for all arguments inside the guard `SafeArgs`. -/
namespace Px.Wf

open Px.Build

/-- how `WF_response` sees a header printed by `build_http_header` -/
def conv (e : Bytes × Bytes) : Bytes × Bytes := (lowerB e.1, trimOWS (32 :: e.2))

def renderHs (hs : HDict) : Bytes := (hs.map (fun (k, v) => buildHeader k v ++ CRLF)).flatten

def entryOk (e : Bytes × Bytes) : Bool := isToken e.1 && e.2.all isFieldByte

theorem renderHs_nil : renderHs [] = [] := rfl

theorem renderHs_cons (k v : Bytes) (t : HDict) :
    renderHs ((k, v) :: t) = (k ++ 58 :: 32 :: v) ++ 13 :: 10 :: renderHs t := by
  simp [renderHs, buildHeader, COLON, SP, CRLF]

theorem renderHs_length (hs : HDict) : hs.length ≤ (renderHs hs).length := by
  induction hs with
  | nil => simp [renderHs]
  | cons e t ih =>
    obtain ⟨k, v⟩ := e
    rw [renderHs_cons]; simp; omega

theorem headerLine_render (k v : Bytes) (hk : isToken k = true) (hv : v.all isFieldByte = true) :
    headerLine (k ++ 58 :: 32 :: v) = some (conv (k, v)) := by
  have hk' : ∀ c ∈ k, c ≠ 58 := by
    intro c hc
    simp only [isToken, Bool.and_eq_true, List.all_eq_true] at hk
    exact tchar_ne58 (hk.2 c hc)
  unfold headerLine
  rw [cutAt_render 58 k (32 :: v) hk']
  have : (32 :: v).all isFieldByte = true := by
    simp only [List.all_cons, hv, Bool.and_true]; decide
  simp only [hk, this, Bool.and_self, if_true, conv]

theorem entry_no13 (k v : Bytes) (hk : isToken k = true) (hv : v.all isFieldByte = true) :
    ∀ c ∈ k ++ 58 :: 32 :: v, c ≠ 13 := by
  intro c hc
  simp only [isToken, Bool.and_eq_true, List.all_eq_true] at hk hv
  simp only [List.mem_append, List.mem_cons] at hc
  rcases hc with h | h | h | h
  · exact tchar_ne13 (hk.2 c h)
  · subst h; decide
  · subst h; decide
  · exact field_ne13 (hv c h)

theorem headerBlock_render (hs : HDict) (body : Bytes) (fuel : Nat) (hf : hs.length < fuel)
    (h : hs.all entryOk = true) :
    headerBlock fuel (renderHs hs ++ 13 :: 10 :: body) = some (hs.map conv, body) := by
  induction hs generalizing fuel with
  | nil =>
    cases fuel with
    | zero => omega
    | succ f => simp [renderHs, headerBlock, cutLine]
  | cons e t ih =>
    obtain ⟨k, v⟩ := e
    cases fuel with
    | zero => omega
    | succ f =>
      simp only [List.all_cons, Bool.and_eq_true, entryOk] at h
      obtain ⟨⟨hk, hv⟩, ht⟩ := h
      rw [renderHs_cons, List.append_assoc]
      have e1 : (13 :: 10 :: renderHs t) ++ 13 :: 10 :: body = 13 :: 10 :: (renderHs t ++ 13 :: 10 :: body) := rfl
      rw [e1]
      unfold headerBlock
      rw [cutLine_render _ _ (entry_no13 k v hk hv)]
      have hne : (k ++ 58 :: 32 :: v).isEmpty = false := by
        cases k with
        | nil => simp [isToken] at hk
        | cons _ _ => rfl
      simp only [hne, Bool.false_eq_true, if_false, headerLine_render k v hk hv]
      rw [ih f (by simp at hf; omega) ht]
      simp

/-! ### `dSet` bookkeeping -/

theorem mem_dSet {H : HDict} {k v : Bytes} {e : Bytes × Bytes} (h : e ∈ dSet H k v) :
    e = (k, v) ∨ (e ∈ H ∧ e.1 ≠ k) := by
  unfold dSet at h
  split at h
  · obtain ⟨e0, he0, rfl⟩ := List.mem_map.mp h
    by_cases hk : e0.1 == k
    · simp [hk]
    · right; simp only [hk, Bool.false_eq_true, if_false]; exact ⟨he0, by simpa using hk⟩
  · next hany =>
    rcases List.mem_append.mp h with h | h
    · right; refine ⟨h, ?_⟩
      intro heq
      apply hany
      exact List.any_eq_true.mpr ⟨e, h, by simp [heq]⟩
    · left; simpa using h

theorem self_mem_dSet (H : HDict) (k v : Bytes) : (k, v) ∈ dSet H k v := by
  unfold dSet
  split
  · next hany =>
    obtain ⟨e0, he0, hk⟩ := List.any_eq_true.mp hany
    exact List.mem_map.mpr ⟨e0, he0, by simp [hk]⟩
  · simp

theorem mem_dSet_of_ne {H : HDict} {k v : Bytes} {e : Bytes × Bytes} (h : e ∈ H) (hne : e.1 ≠ k) :
    e ∈ dSet H k v := by
  unfold dSet
  split
  · exact List.mem_map.mpr ⟨e, h, by simp [hne]⟩
  · exact List.mem_append.mpr (Or.inl h)

theorem all_dSet {p : Bytes × Bytes → Bool} {H : HDict} {k v : Bytes} (hH : H.all p = true) (hp : p (k, v) = true) :
    (dSet H k v).all p = true := by
  rw [List.all_eq_true] at hH ⊢
  intro e he
  rcases mem_dSet he with rfl | ⟨h, _⟩
  · exact hp
  · exact hH e h

/-! ### header values as the checker sees them -/

theorem mem_values_conv {H : HDict} {name x : Bytes} :
    x ∈ values (H.map conv) name ↔ ∃ e ∈ H, lowerB e.1 = name ∧ trimOWS (32 :: e.2) = x := by
  unfold values
  simp only [List.mem_map, List.mem_filter, beq_iff_eq]
  constructor
  · rintro ⟨e', ⟨⟨e, he, rfl⟩, hn⟩, rfl⟩
    exact ⟨e, he, hn, rfl⟩
  · rintro ⟨e, he, hn, rfl⟩
    exact ⟨conv e, ⟨⟨e, he, rfl⟩, hn⟩, rfl⟩

theorem values_conv_nil {H : HDict} {name : Bytes} (h : ∀ e ∈ H, lowerB e.1 ≠ name) :
    values (H.map conv) name = [] := by
  apply List.eq_nil_iff_forall_not_mem.mpr
  intro x hx
  obtain ⟨e, he, hn, _⟩ := mem_values_conv.mp hx
  exact h e he hn

theorem clOf_const (L : List Bytes) (w : Bytes) (n : Nat) (hne : L ≠ []) (hall : ∀ x ∈ L, x = w)
    (hw : decNat w = some n) : clOf L = some (some n) := by
  cases L with
  | nil => exact absurd rfl hne
  | cons v rest =>
    have hv : v = w := hall v (by simp)
    subst hv
    unfold clOf
    simp only [hw]
    have : rest.all (fun w' => decNat w' == some n) = true := by
      rw [List.all_eq_true]; intro x hx
      rw [hall x (by simp [hx]), hw]; simp
    simp [this]

/-! ### constants -/

def kCL : Bytes := b "Content-Length"
def kConn : Bytes := b "Connection"
def vClose : Bytes := b "close"

theorem kCL_facts : lowerB kCL = nCL ∧ isToken kCL = true ∧ lowerB kCL ≠ nTE ∧ lowerB kCL ≠ nConn := by decide +kernel
theorem kConn_facts : lowerB kConn = nConn ∧ isToken kConn = true ∧ lowerB kConn ≠ nTE ∧ lowerB kConn ≠ nCL ∧
    vClose.all isFieldByte = true ∧ (listTokens (trimOWS (32 :: vClose))).contains tClose = true := by decide +kernel
theorem b_te : b "transfer-encoding" = nTE := by decide +kernel
theorem b_zero : b "0" = [48] := by decide +kernel
theorem zero_facts : decNat (trimOWS (32 :: [48])) = some 0 ∧ ([48] : Bytes).all isFieldByte = true := by decide +kernel

theorem hasClose_of_mem {H : HDict} (h : (kConn, vClose) ∈ H) : hasClose (H.map conv) = true := by
  unfold hasClose
  rw [List.any_eq_true]
  refine ⟨trimOWS (32 :: vClose), mem_values_conv.mpr ⟨(kConn, vClose), h, kConn_facts.1, rfl⟩, kConn_facts.2.2.2.2.2⟩

/-! ### the guard -/

def bodyless (code : Nat) : Bool := code < 200 || code == 204 || code == 304

/-- a header entry the builders can take: a token as name, a value of field bytes (no CR / LF /
    other control byte), not a Transfer-Encoding (the caller would have to supply a matching body),
    and a Content-Length only under the exact name the builder overwrites -/
def headerOk (noCl : Bool) (e : Bytes × Bytes) : Bool :=
  isToken e.1 && e.2.all isFieldByte && lowerB e.1 != nTE && (lowerB e.1 != nCL || (e.1 == kCL && !noCl))

/-- **SafeArgs**: the arguments of `build_http_response` for which the output is well formed.
    `ctx` says which request is being answered. -/
def SafeArgs (ctx : Ctx) (status : Int) (version : Bytes) (reason : Option Bytes) (headers : HDict)
    (body : Option Bytes) (connClose noCl : Bool) : Bool :=
  (version == Px.Gen.http11 || version == Px.Gen.http10) &&
  decide (100 ≤ status) && decide (status ≤ 999) &&
  (match reason with | none => true | some r => r.all isFieldByte) &&
  headers.all (headerOk noCl) &&
  (let empty := (body.getD []).isEmpty
   let code := status.toNat
   if ctx == .connect && 200 ≤ code && code < 300 then noCl && empty
   else if bodyless code then empty
   else !noCl || connClose)

/-! ### reading back a printed packet -/

theorem statusLine_mk (v a b c : UInt8) (rest : Bytes) (hv : isDigit v = true) (ha : isDigit a = true)
    (hb : isDigit b = true) (hc : isDigit c = true)
    (hrest : (match rest with | [] => true | s :: reason => s == 32 && reason.all isFieldByte) = true) :
    statusLine (72 :: 84 :: 84 :: 80 :: 47 :: 49 :: 46 :: v :: 32 :: a :: b :: c :: rest) =
      some ((a.toNat - 48) * 100 + (b.toNat - 48) * 10 + (c.toNat - 48)) := by
  cases rest with
  | nil => simp [statusLine, hv, ha, hb, hc]
  | cons s r =>
    simp only [Bool.and_eq_true, beq_iff_eq] at hrest
    simp [statusLine, hv, ha, hb, hc, hrest.1, hrest.2]

theorem wf_of_parts (ctx : Ctx) (line : Bytes) (code : Nat) (H : HDict) (body : Bytes)
    (hline13 : ∀ c ∈ line, c ≠ 13) (hsl : statusLine line = some code) (hcode : 100 ≤ code)
    (hH : H.all entryOk = true) (hfr : framingOk ctx code (H.map conv) body = true) :
    WF_response ctx (line ++ CRLF ++ renderHs H ++ CRLF ++ body) = true := by
  have e : line ++ CRLF ++ renderHs H ++ CRLF ++ body = line ++ 13 :: 10 :: (renderHs H ++ 13 :: 10 :: body) := by
    simp [CRLF]
  rw [e]
  unfold WF_response
  rw [cutLine_render _ _ hline13]
  simp only [hsl]
  rw [headerBlock_render H body _ (by have := renderHs_length H; simp; omega) hH]
  simp [hcode, hfr]

/-! ### `build_http_response`, taken apart -/

def reasonPart : Option Bytes → List Bytes
  | some r => if r.isEmpty then [] else [r]
  | none => []

def bodyBytes : Option Bytes → Bytes
  | some x => x
  | none => []

def bodyTruthy : Option Bytes → Bool
  | some x => !x.isEmpty
  | none => false

/-- the Content-Length value `build_http_response` writes -/
def clValue (body : Option Bytes) : Bytes :=
  if bodyTruthy body then natToDec (body.getD []).length else b "0"

/-- the header dict after `headers[b'Content-Length'] = …` and `headers[b'Connection'] = b'close'` -/
def finalHeaders (headers : HDict) (body : Option Bytes) (connClose noCl : Bool) : HDict :=
  let H1 := if noCl then headers else dSet headers kCL (clValue body)
  if connClose then dSet H1 kConn vClose else H1

theorem buildResponse_eq (status : Int) (version : Bytes) (reason : Option Bytes) (headers : HDict)
    (body : Option Bytes) (connClose noCl : Bool)
    (hTE : headers.any (fun e => lower e.1 == b "transfer-encoding") = false) :
    buildResponse status version reason headers body connClose noCl =
      join [SP] ([version, intToDec status] ++ reasonPart reason) ++ CRLF ++
        renderHs (finalHeaders headers body connClose noCl) ++ CRLF ++ bodyBytes body := by
  unfold buildResponse buildPkt finalHeaders clValue renderHs
  simp only [hTE, Bool.not_false, Bool.true_and]
  cases noCl <;> cases connClose <;> cases reason <;> cases body <;>
    simp [reasonPart, bodyBytes, bodyTruthy, kCL, kConn, vClose]

theorem clv_facts (body : Option Bytes) :
    decNat (trimOWS (32 :: clValue body)) = some (bodyBytes body).length ∧ (clValue body).all isFieldByte = true := by
  unfold clValue
  cases body with
  | none => simp only [bodyTruthy, Bool.false_eq_true, if_false, b_zero, bodyBytes, List.length_nil]; exact zero_facts
  | some x =>
    cases x with
    | nil =>
      simp only [bodyTruthy, List.isEmpty_nil, Bool.not_true, Bool.false_eq_true, if_false, b_zero, bodyBytes,
        List.length_nil]
      exact zero_facts
    | cons c t =>
      simp only [bodyTruthy, List.isEmpty_cons, Bool.not_false, if_true, Option.getD_some, bodyBytes]
      exact ⟨by rw [trimOWS_sp _ (natToDec_no_ows _)]; exact decNat_natToDec _, natToDec_field _⟩

theorem headerOk_entry {noCl : Bool} {e : Bytes × Bytes} (h : headerOk noCl e = true) :
    entryOk e = true ∧ lowerB e.1 ≠ nTE ∧ (lowerB e.1 = nCL → e.1 = kCL ∧ noCl = false) := by
  simp only [headerOk, Bool.and_eq_true, Bool.or_eq_true, bne_iff_ne, ne_eq, beq_iff_eq, Bool.not_eq_true'] at h
  obtain ⟨⟨⟨hk, hv⟩, hte⟩, hcl⟩ := h
  refine ⟨by simp [entryOk, hk, hv], hte, ?_⟩
  intro hl
  rcases hcl with h | h
  · exact absurd hl h
  · exact h

theorem kCL_ne_kConn : kCL ≠ kConn := by
  intro heq
  have : lowerB kCL = lowerB kConn := by rw [heq]
  rw [kCL_facts.1, kConn_facts.1] at this
  exact absurd this (by decide)

/-- what the checker needs to know about the final header list -/
theorem finalHeaders_facts (headers : HDict) (body : Option Bytes) (connClose noCl : Bool)
    (hall : ∀ e ∈ headers, headerOk noCl e = true) :
    let H := finalHeaders headers body connClose noCl
    H.all entryOk = true ∧ values (H.map conv) nTE = [] ∧
      clOf (values (H.map conv) nCL) = (if noCl then none else some (some (bodyBytes body).length)) ∧
      (connClose = true → hasClose (H.map conv) = true) := by
  obtain ⟨hcldec, hclfield⟩ := clv_facts body
  -- membership in the final list
  have hmem : ∀ e ∈ finalHeaders headers body connClose noCl,
      e = (kConn, vClose) ∨ (noCl = false ∧ e = (kCL, clValue body)) ∨ (e ∈ headers ∧ (noCl = false → e.1 ≠ kCL)) := by
    intro e he
    unfold finalHeaders at he
    simp only at he
    have h1 : ∀ e ∈ (if noCl then headers else dSet headers kCL (clValue body)),
        (noCl = false ∧ e = (kCL, clValue body)) ∨ (e ∈ headers ∧ (noCl = false → e.1 ≠ kCL)) := by
      intro e he
      cases noCl with
      | true => right; exact ⟨by simpa using he, by simp⟩
      | false =>
        simp only [Bool.false_eq_true, if_false] at he
        rcases mem_dSet he with rfl | ⟨h', hne⟩
        · left; exact ⟨rfl, rfl⟩
        · right; exact ⟨h', fun _ => hne⟩
    cases connClose with
    | false => right; exact h1 e (by simpa using he)
    | true =>
      simp only [if_true] at he
      rcases mem_dSet he with rfl | ⟨h', _⟩
      · left; rfl
      · right; exact h1 e h'
  refine ⟨?_, ?_, ?_, ?_⟩
  · rw [List.all_eq_true]
    intro e he
    rcases hmem e he with rfl | ⟨_, rfl⟩ | ⟨h', _⟩
    · simp [entryOk, kConn_facts.2.1, kConn_facts.2.2.2.2.1]
    · simp [entryOk, kCL_facts.2.1, hclfield]
    · exact (headerOk_entry (hall e h')).1
  · apply values_conv_nil
    intro e he
    rcases hmem e he with rfl | ⟨_, rfl⟩ | ⟨h', _⟩
    · exact kConn_facts.2.2.1
    · exact kCL_facts.2.2.1
    · exact (headerOk_entry (hall e h')).2.1
  · cases hn : noCl with
    | true =>
      simp only [if_true]
      have : values ((finalHeaders headers body connClose noCl).map conv) nCL = [] := by
        apply values_conv_nil
        intro e he hl
        rcases hmem e he with rfl | ⟨hf, _⟩ | ⟨h', _⟩
        · exact absurd hl kConn_facts.2.2.2.1
        · rw [hn] at hf; exact absurd hf (by simp)
        · have := ((headerOk_entry (hall e h')).2.2 hl).2
          rw [hn] at this; exact absurd this (by simp)
      rw [hn] at this
      rw [this]; rfl
    | false =>
      simp only [Bool.false_eq_true, if_false]
      have hm : (kCL, clValue body) ∈ finalHeaders headers body connClose false := by
        unfold finalHeaders
        simp only [Bool.false_eq_true, if_false]
        cases connClose with
        | false => simp only [Bool.false_eq_true, if_false]; exact self_mem_dSet _ _ _
        | true => simp only [if_true]; exact mem_dSet_of_ne (self_mem_dSet _ _ _) kCL_ne_kConn
      apply clOf_const _ (trimOWS (32 :: clValue body)) _ _ _ hcldec
      · intro hnil
        have : trimOWS (32 :: clValue body) ∈ values ((finalHeaders headers body connClose false).map conv) nCL :=
          mem_values_conv.mpr ⟨(kCL, clValue body), hm, kCL_facts.1, rfl⟩
        rw [hnil] at this; simp at this
      · intro x hx
        obtain ⟨e, he, hl, rfl⟩ := mem_values_conv.mp hx
        rw [← hn] at he
        rcases hmem e he with rfl | ⟨_, rfl⟩ | ⟨h', hne⟩
        · exact absurd hl kConn_facts.2.2.2.1
        · rfl
        · exact absurd ((headerOk_entry (hall e h')).2.2 hl).1 (hne hn)
  · intro hc
    apply hasClose_of_mem
    unfold finalHeaders
    simp only [hc, if_true]
    exact self_mem_dSet _ _ _

theorem line_no13 (v a b c : UInt8) (rest : Bytes) (hv : isDigit v = true) (ha : isDigit a = true)
    (hb : isDigit b = true) (hc : isDigit c = true) (hrest : ∀ x ∈ rest, x ≠ 13) :
    ∀ x ∈ 72 :: 84 :: 84 :: 80 :: 47 :: 49 :: 46 :: v :: 32 :: a :: b :: c :: rest, x ≠ 13 := by
  have d13 : ∀ y : UInt8, isDigit y = true → y ≠ 13 := by
    intro y hy; have := digit_facts y; simp [hy] at this; exact this.2
  intro x hx
  simp only [List.mem_cons] at hx
  rcases hx with rfl | rfl | rfl | rfl | rfl | rfl | rfl | rfl | rfl | rfl | rfl | rfl | hx
  · decide
  · decide
  · decide
  · decide
  · decide
  · decide
  · decide
  · exact d13 _ hv
  · decide
  · exact d13 _ ha
  · exact d13 _ hb
  · exact d13 _ hc
  · exact hrest x hx

theorem framing_core (ctx : Ctx) (code : Nat) (Hc : List (Bytes × Bytes)) (bodyB : Bytes) (connClose noCl : Bool)
    (hte : values Hc nTE = [])
    (hcl : clOf (values Hc nCL) = if noCl then none else some (some bodyB.length))
    (hclose : connClose = true → hasClose Hc = true)
    (hframe : (if (ctx == Ctx.connect && decide (200 ≤ code) && decide (code < 300)) = true then noCl && bodyB.isEmpty
        else if bodyless code = true then bodyB.isEmpty else !noCl || connClose) = true) :
    framingOk ctx code Hc bodyB = true := by
  unfold framingOk
  simp only [hcl, hte, List.isEmpty_nil, Bool.not_true, Bool.false_eq_true, if_false, List.flatMap_nil]
  by_cases h1 : (ctx == Ctx.connect && decide (200 ≤ code) && decide (code < 300)) = true
  · rw [if_pos h1] at hframe
    rw [if_pos h1]
    simp only [Bool.and_eq_true] at hframe
    simp [hframe.1, hframe.2]
  · rw [if_neg h1] at hframe
    rw [if_neg h1]
    by_cases h2 : bodyless code = true
    · rw [if_pos h2] at hframe
      have h2' : (decide (code < 200) || code == 204 || code == 304) = true := h2
      rw [if_pos h2']
      have hlen : bodyB.length = 0 := by
        cases bodyB with
        | nil => rfl
        | cons _ _ => simp at hframe
      cases noCl <;> simp [hframe, hlen]
    · rw [if_neg h2] at hframe
      have h2' : ¬ (decide (code < 200) || code == 204 || code == 304) = true := h2
      rw [if_neg h2']
      cases noCl with
      | false => simp
      | true =>
        simp only [Bool.not_true, Bool.false_or] at hframe
        simp [hclose hframe]

/-- **Main lemma**: inside the guard, `build_http_response` prints a well-formed response. -/
theorem buildResponse_wf (ctx : Ctx) (status : Int) (version : Bytes) (reason : Option Bytes) (headers : HDict)
    (body : Option Bytes) (connClose noCl : Bool)
    (h : SafeArgs ctx status version reason headers body connClose noCl = true) :
    WF_response ctx (buildResponse status version reason headers body connClose noCl) = true := by
  simp only [SafeArgs, Bool.and_eq_true, decide_eq_true_eq] at h
  obtain ⟨⟨⟨⟨⟨hver, hlo⟩, hhi⟩, hreason⟩, hhdrs⟩, hframe⟩ := h
  have hall : ∀ e ∈ headers, headerOk noCl e = true := List.all_eq_true.mp hhdrs
  have hTE0 : headers.any (fun e => lower e.1 == b "transfer-encoding") = false := by
    rw [List.any_eq_false]
    intro e he
    have := (headerOk_entry (hall e he)).2.1
    rw [lowerB_eq] at this
    simpa [b_te] using this
  rw [buildResponse_eq _ _ _ _ _ _ _ hTE0]
  obtain ⟨a, bb, c, hdec, ha, hb, hc, hval⟩ := natToDec3 status.toNat (by omega) (by omega)
  have hint : intToDec status = [a, bb, c] := by
    unfold intToDec; rw [if_neg (by omega)]; exact hdec
  obtain ⟨hHok, hteAbs, hcl, hclose⟩ := finalHeaders_facts headers body connClose noCl hall
  have hv8 : ∃ v, isDigit v = true ∧ version = [72, 84, 84, 80, 47, 49, 46, v] := by
    simp only [Bool.or_eq_true, beq_iff_eq] at hver
    rcases hver with h | h
    · exact ⟨49, by decide, by rw [h]; rfl⟩
    · exact ⟨48, by decide, by rw [h]; rfl⟩
  obtain ⟨v, hvd, hveq⟩ := hv8
  subst hveq
  have hbempty : (body.getD []).isEmpty = (bodyBytes body).isEmpty := by cases body <;> rfl
  rw [hbempty] at hframe
  have hframing := framing_core ctx status.toNat _ (bodyBytes body) connClose noCl hteAbs hcl hclose
    (by simpa only [Bool.and_eq_true, decide_eq_true_eq] using hframe)
  -- the status line, by the three shapes of `reason`
  have hline : ∃ rest, join [SP] ([[72, 84, 84, 80, 47, 49, 46, v], intToDec status] ++ reasonPart reason) =
      72 :: 84 :: 84 :: 80 :: 47 :: 49 :: 46 :: v :: 32 :: a :: bb :: c :: rest ∧ (∀ x ∈ rest, x ≠ 13) ∧
      (match rest with | [] => true | s :: reason => s == 32 && reason.all isFieldByte) = true := by
    rw [hint]
    cases reason with
    | none => exact ⟨[], by simp [reasonPart, join, SP], by simp, rfl⟩
    | some r =>
      by_cases hr : r.isEmpty = true
      · exact ⟨[], by simp [reasonPart, hr, join, SP], by simp, rfl⟩
      · have hrf : r.all isFieldByte = true := hreason
        refine ⟨32 :: r, by simp [reasonPart, hr, join, SP], ?_, by simp [hrf]⟩
        intro x hx
        rcases List.mem_cons.mp hx with rfl | hx
        · decide
        · exact field_ne13 (List.all_eq_true.mp hrf x hx)
  obtain ⟨rest, hjoin, hrest13, hrestok⟩ := hline
  rw [hjoin]
  refine wf_of_parts ctx _ status.toNat _ _ (line_no13 v a bb c rest hvd ha hb hc hrest13) ?_ (by omega) hHok hframing
  rw [statusLine_mk v a bb c rest hvd ha hb hc hrestok, hval]

end Px.Wf
