import PxModel.Dispatcher
import PxProofs.DispatcherLemmas
/-!
# C18 — the event bus delivers each event to every current subscriber exactly once, in order

Property theorems only; helper lemmas are in `PxProofs/DispatcherLemmas.lean`.
The model (`PxModel/Dispatcher.lean`: `handle` = `EventDispatcher.handle_event`
with `_broadcast`, `_send`, `_close_and_delete`, `_close`) is tied to
`proxy/core/event/dispatcher.py` by the correspondence check `harness/c18.py`
(real `EventDispatcher` over real `multiprocessing.Pipe` channels).

All theorems quantify over **every** history `ops : List Op` — any length, any
number of subscriber ids and channels, any interleaving of subscribe,
unsubscribe (repeated / unknown ids included), publish and reader-side
breakage, any position of a breakage.

Hypothesis used throughout: `Fresh ops` — every `sub` operation carries a
channel no other `sub` operation of the history carries (each subscriber brings
its own new `Pipe`, as `EventSubscriber._start_relay_thread` does).  Without it
the statement is false for the real code: see the `example`s at the end.

What is assumed about `Connection.send` (and is *not* proved here): on a handle
the dispatcher has not closed, `send` either delivers or raises
`BrokenPipeError` (reader end gone) — the exception both `_send` and
`_broadcast` catch; on a handle the dispatcher has closed it raises `OSError`,
which nothing catches (`crashed`).  Other failures of a real pipe
(`ConnectionResetError` on platforms that report it on write, pickling errors
of the event, a `send` blocking on a full buffer) are outside the model.
-/
namespace Px.Disp

/-- **C18, every channel (also the ones that break).**  Under freshness the
log of channel `c` after any history is what the per-channel scan `scan` emits:
the scan looks only at the operations themselves, never at other subscribers'
state. -/
theorem C18_general (ops : List Op) (c : ChanId) (h : Fresh ops) :
    chanLog (run init ops) c = scan c (false, none) ops := by
  have := (run_sim c ops init (false, none) inv_init (abs_init c) (freshFrom_init ops h)).2
  simpa [chanLog, init] using this

/-- **C18 exactly once, in order, inside the window.**  For every fresh-channel
history and every channel `c` whose reader end is never closed, what `c`
receives is exactly `spec c none ops`: nothing before its `sub i c`; then the
SUBSCRIBED acknowledgement; then every event published before the next
`unsub i` / re-`sub i _`, each once, in publication order; then the
UNSUBSCRIBED acknowledgement iff the window was ended by `unsub i`; and nothing
afterwards — whatever the other subscribers do, including breaking. -/
theorem C18_exact (ops : List Op) (c : ChanId) (h : Fresh ops) (hb : Op.brk c ∉ ops) :
    chanLog (run init ops) c = spec c none ops := by
  rw [C18_general ops c h]
  exact scan_none_spec c ops hb h

/-- the specification has the shape the property names: empty, or acknowledgement
first, then a subsequence of the published events in publication order, then at
most the UNSUBSCRIBED acknowledgement as the very last message -/
theorem C18_shape (ops : List Op) (c : ChanId) (h : Fresh ops) (hb : Op.brk c ∉ ops) :
    chanLog (run init ops) c = [] ∨
    ∃ (es : List Nat) (tl : List Msg),
      chanLog (run init ops) c = .subscribed :: es.map Msg.ev ++ tl ∧
      (tl = [] ∨ tl = [.unsubscribed]) ∧ es.Sublist (pubs ops) := by
  rw [C18_exact ops c h hb]
  exact spec_none_shape c ops

/-- **C18 isolation.**  The log of channel `c` (subscribed, if at all, under id
`i`) is the same when every operation of the other subscribers — their
subscribes, unsubscribes and the breakages of their channels — is erased from
the history.  `c` itself may break. -/
theorem C18_isolation (ops : List Op) (i : SubId) (c : ChanId) (h : Fresh ops)
    (ho : ∀ j, Op.sub j c ∈ ops → j = i) :
    chanLog (run init ops) c = chanLog (run init (erase i c ops)) c := by
  rw [C18_general ops c h, C18_general (erase i c ops) c (fresh_erase i c h)]
  exact (scan_erase i c ops false none ho (Or.inl rfl)).symm

/-- isolation with the owner computed from the history (`ownerOf`) instead of assumed -/
theorem C18_isolation_owner (ops : List Op) (c : ChanId) (h : Fresh ops) :
    chanLog (run init ops) c = chanLog (run init (erase (ownerOf c ops) c ops)) c :=
  C18_isolation ops (ownerOf c ops) c h (fun _ hj => ownerOf_eq h hj)

/-- **C18 the dispatcher keeps running (safety).**  In every state reachable by
a prefix of a fresh-channel history: no exception has escaped `handle_event`
(`crashed = none`; in the model a `send` attempted on a handle the dispatcher
closed sets `crashed` for good, so none was ever attempted), no registered
channel is one the dispatcher already closed — so the next `send` is on an
open handle too —, and ids and channels of the subscriber dict are pairwise
distinct. -/
theorem C18_no_closed_send (pre suf : List Op) (h : Fresh (pre ++ suf)) :
    (run init pre).crashed = none ∧
    (∀ p ∈ (run init pre).subs, p.2 ∉ (run init pre).closed) ∧
    ((run init pre).subs.map Prod.fst).Nodup ∧ ((run init pre).subs.map Prod.snd).Nodup := by
  have hp := fresh_prefix h
  have := (run_sim 0 pre init (false, none) inv_init (abs_init 0) (freshFrom_init pre hp)).1
  exact ⟨this.alive, this.opn, this.keys, this.chans⟩

/-! ### non-vacuity -/

/-- a history inside the quantifier: three subscribers, a breakage in the middle, repeated and unknown unsubscribes -/
def demo : List Op :=
  [.sub 0 0, .sub 1 1, .pub 7, .brk 1, .pub 8, .sub 2 2, .pub 9, .unsub 0, .unsub 0, .unsub 5, .pub 10,
   .sub 2 3, .pub 11]

example : Fresh demo := by decide
example : Op.brk 0 ∉ demo := by decide
example : spec 0 none demo = [.subscribed, .ev 7, .ev 8, .ev 9, .unsubscribed] := by decide
example : spec 2 none demo = [.subscribed, .ev 9, .ev 10] := by decide           -- window ended by re-subscription
example : spec 3 none demo = [.subscribed, .ev 11] := by decide
example : chanLog (run init demo) 1 = [.subscribed, .ev 7] := by decide          -- the broken one
example : (run init demo).subs = [(2, 3)] := by decide
example : erase 0 0 demo = [.sub 0 0, .pub 7, .pub 8, .pub 9, .unsub 0, .unsub 0, .pub 10, .pub 11] := by decide
example : ∀ j, Op.sub j 0 ∈ demo → j = 0 := by
  intro j h; simp [demo] at h; exact h

/-- freshness is needed: when two ids share one channel, unsubscribing the first
closes the handle of the second, and the next publish raises out of
`handle_event` (reproduced on the real dispatcher by `harness/c18.py`, corpus
case `s0.0 s1.0 u0 p1`) -/
example : (run init [.sub 0 0, .sub 1 0, .unsub 0, .pub 1]).crashed = some .osErrorClosed := by decide
example : ¬ Fresh [.sub 0 0, .sub 1 0, .unsub 0, .pub 1] := by decide

end Px.Disp
