import PxModel.Exec
import PxProofs.ExecLemmas
/-!
# C05 — one connection cannot take down or stall the executor serving the others

Property theorems only; the lemmas are in `PxProofs/ExecLemmas.lean`.  The model
(`PxModel/Selector.lean`, `PxModel/Exec.lean`) is tied to
`proxy/core/work/threadless.py`, `proxy/core/work/fd/{fd,local}.py` and CPython's
`selectors.EpollSelector` by the correspondence checks `harness/c05.py` /
`harness/c10.py` (real `LocalFdExecutor`, real `DefaultSelector`, real sockets).

A work is abstract: in every round the environment chooses what its
`get_events()` returns or that it raises, what its task returns or that it
raises, which descriptors it opens and closes, what its `shutdown()` closes and
whether it raises.  The theorems quantify over *all* such environments.
-/
namespace Px.Exec
open Px.Sel

/-- executor as constructed: no works, empty registry, empty selector, any descriptor table -/
def fresh (k : Kernel) : Exec := { works := [], registered := [], sk := { map := [], k := k } }

theorem fresh_inv (k : Kernel) : Inv (fresh k) := by
  constructor <;> simp [fresh, cell, regOf]

/-- states reachable by any history of rounds (`_run_once`) and reaper runs
    (`_cleanup_inactive`) — any number of works, any behaviour of each of them,
    any readiness, any arrival satisfying `ArriveOk` -/
inductive Reach : Exec → Prop
  | init (k : Kernel) : Reach (fresh k)
  | round {x y : Exec} {log : Log} (env : RoundEnv) : Reach x → ArriveOk x env →
      runOnce x env = .ok (y, log) → Reach y
  | reap {x y : Exec} (inactive : WorkId → Bool) (sd : WorkId → Shutdown) : Reach x →
      reap x inactive sd = .ok y → Reach y

/-- the invariant holds in every reachable state -/
theorem C05_reach_inv {x : Exec} (h : Reach x) : Inv x := by
  induction h with
  | init k => exact fresh_inv k
  | round env _ ha hr ih =>
    obtain ⟨y', log', h', hi'⟩ := runOnce_ok _ env ih ha
    rw [hr] at h'; cases h'; exact hi'
  | reap inactive sd _ hr ih =>
    obtain ⟨y', h', hi', _⟩ := reap_ok _ inactive sd ih
    rw [hr] at h'; cases h'; exact hi'

/-- **C05 aliveness.**  From any state satisfying the invariant, for ANY
behaviour of any work — any result or exception of `get_events`, any
`selectors` / `epoll_ctl` error its descriptors provoke, any result or exception
of its task, any descriptors closed or opened meanwhile, a `shutdown()` that
raises — no exception escapes `_run_once`, and the invariant holds again. -/
theorem C05_alive (x : Exec) (env : RoundEnv) (hi : Inv x) (ha : ArriveOk x env) :
    ∃ y log, runOnce x env = .ok (y, log) ∧ Inv y :=
  runOnce_ok x env hi ha

/-- aliveness along every history: a reachable executor never dies -/
theorem C05_alive_forever {x : Exec} (h : Reach x) (env : RoundEnv) (ha : ArriveOk x env) :
    ∃ y log, runOnce x env = .ok (y, log) ∧ Reach y := by
  obtain ⟨y, log, hr, _⟩ := runOnce_ok x env (C05_reach_inv h) ha
  exact ⟨y, log, hr, Reach.round env h ha hr⟩

/-- the reaper never dies either -/
theorem C05_reap_alive {x : Exec} (h : Reach x) (inactive : WorkId → Bool) (sd : WorkId → Shutdown) :
    ∃ y, reap x inactive sd = .ok y ∧ Reach y := by
  obtain ⟨y, hr, _, _⟩ := reap_ok x inactive sd (C05_reach_inv h)
  exact ⟨y, hr, Reach.reap inactive sd h hr⟩

/-- **C05 others keep being served.**  Whatever the other works do in a
round, a work whose own event refresh did not fail and whose own task did not
ask for teardown is still there after the round. -/
theorem C05_others_survive (x : Exec) (env : RoundEnv) (hi : Inv x) (ha : ArriveOk x env) (b : WorkId)
    (hb : b ∈ x.works) :
    ∃ y log, runOnce x env = .ok (y, log) ∧
      (b ∉ log.failed → ¬ (b ∈ log.tasks.map (·.1) ∧ teardown env b = true) → b ∈ y.works) := by
  obtain ⟨y, log, hr, _, _, _, _, _, h4, _⟩ := runOnce_facts x env hi ha
  exact ⟨y, log, hr, h4 b hb⟩

/-- The guard `ArriveOk` is not vacuous … -/
example : ArriveOk (fresh ⟨[5], []⟩) { beh := fun _ => ⟨.ok [], .fls, [], ⟨[], false⟩⟩, ready := [], arrive := some ⟨5, true⟩, prio := [] } := by
  intro a h; cases h; simp [fresh]

/-- … and it excludes exactly a real way to die: a work that closed its client
socket without being torn down (`works` still holds id 5, with descriptor 7
registered and ready), a new connection that is handed the same descriptor
number 5 and whose `initialize()` raises: `work()` overwrites `works[5]`,
`_cleanup(5)` deletes it, and `_create_tasks` then evaluates `self.works[5]`
for the ready descriptor → `KeyError` out of `_run_once`.  (Not reachable with
`HttpProtocolHandler`, which closes its client socket only in `shutdown()`.) -/
def witnessState : Exec :=
  { works := [5], registered := [(5, [(7, 1)])],
    sk := { map := [(7, (1, 5))], k := { open_ := [5, 7], epoll := [(7, 1)] } } }

def witnessEnv : RoundEnv :=
  { beh := fun _ => ⟨.ok [(7, 1)], .fls, [], ⟨[], false⟩⟩, ready := [(7, 1)], arrive := some ⟨5, true⟩, prio := [] }

theorem C05_arrive_guard_witness :
    runOnce witnessState witnessEnv = .error (.worksKeyError 5) ∧ ¬ ArriveOk witnessState witnessEnv := by
  constructor
  · rfl
  · intro h
    have := (h ⟨5, true⟩ rfl).2 rfl
    exact this (by simp [witnessState])

/-! ### noninterference

`AgreeB P b x y`: the two executors agree on whether `b` is alive, on `b`'s registry entry and on
the selector key, open-ness and epoll interest of every descriptor in `P` (`b`'s descriptors).
`SepSt P b x`: `b`'s registered descriptors are in `P`, no other work's are.  `SepEnv P b env`: in
this round `b` reports / opens / closes only descriptors in `P`, every other work (and the
arriving one) only descriptors outside `P`.  Inside these hypotheses the other works are
arbitrary: any number, any state, any result or exception of any of their calls. -/

/-- **C05 noninterference (two executors).**  If two executors agree on what concerns `b`, `b`
behaves the same in both and the kernel reports the same readiness for `b`'s descriptors, then
after one round of each they agree again on what concerns `b`, `b` was handed exactly the same
readables / writables (or no task in both), and its event refresh failed in both or in neither —
whatever else is going on in either executor. -/
theorem C05_noninterference (p : Fd → Bool) (b : WorkId) (x₁ x₂ y₁ y₂ : Exec) (env₁ env₂ : RoundEnv) (l₁ l₂ : Log)
    (hi₁ : Inv x₁) (hi₂ : Inv x₂)
    (hag : AgreeB (fun fd => p fd = true) b x₁ x₂)
    (hs₁ : SepSt (fun fd => p fd = true) b x₁) (hs₂ : SepSt (fun fd => p fd = true) b x₂)
    (he₁ : SepEnv (fun fd => p fd = true) b env₁) (he₂ : SepEnv (fun fd => p fd = true) b env₂)
    (hbeh : env₁.beh b = env₂.beh b)
    (hready : env₁.ready.filter (fun e => p e.1) = env₂.ready.filter (fun e => p e.1))
    (h₁ : runOnce x₁ env₁ = .ok (y₁, l₁)) (h₂ : runOnce x₂ env₂ = .ok (y₂, l₂)) :
    AgreeB (fun fd => p fd = true) b y₁ y₂ ∧ taskOf l₁.tasks b = taskOf l₂.tasks b ∧
    (b ∈ l₁.failed ↔ b ∈ l₂.failed) ∧
    SepSt (fun fd => p fd = true) b y₁ ∧ SepSt (fun fd => p fd = true) b y₂ :=
  round_noninterference p b x₁ x₂ y₁ y₂ env₁ env₂ l₁ l₂ hi₁ hi₂ hag hs₁ hs₂ he₁ he₂ hbeh hready h₁ h₂

/-- **C05 noninterference (alone).**  The projection of a round on `b` — its registry, whether it is
cleaned up, the events delivered to it, the state of its descriptors — equals the round of the
executor that contains only `b` (`soloOf b x`: same kernel, only `b`'s registry entry and selector
keys, no other work, no arrival), given the same behaviour of `b` and the same readiness. -/
theorem C05_noninterference_solo (p : Fd → Bool) (b : WorkId) (x y : Exec) (env : RoundEnv) (l : Log)
    (hi : Inv x) (hs : SepSt (fun fd => p fd = true) b x) (he : SepEnv (fun fd => p fd = true) b env)
    (h : runOnce x env = .ok (y, l)) :
    ∃ y' l', runOnce (soloOf b x) (soloEnv env) = .ok (y', l') ∧
      AgreeB (fun fd => p fd = true) b y y' ∧ taskOf l.tasks b = taskOf l'.tasks b ∧
      (b ∈ l.failed ↔ b ∈ l'.failed) :=
  solo_noninterference p b x y env l hi hs he h

/-- the separation hypotheses are satisfiable by a non-trivial situation: work 7 with descriptors
    7 and 9, another work 11 with descriptors 11 and 13 that raises in `get_events`, closes 13 and
    whose task raises -/
def sepState : Exec :=
  { works := [7, 11], registered := [(7, [(7, 1), (9, 3)]), (11, [(11, 1), (13, 1)])],
    sk := { map := [(7, (1, 7)), (9, (3, 7)), (11, (1, 11)), (13, (1, 11))],
            k := { open_ := [7, 9, 11, 13], epoll := [(7, 1), (9, 3), (11, 1), (13, 1)] } } }

def sepEnv : RoundEnv :=
  { beh := fun w => if w = 7 then ⟨.ok [(7, 1), (9, 1)], .fls, [.close 9], ⟨[7, 9], false⟩⟩
                    else ⟨.exc, .exc, [.close 13], ⟨[11, 13], true⟩⟩,
    ready := [(7, 1), (13, 1)], arrive := none, prio := [] }

example : SepSt (fun fd => (decide (fd = 7 ∨ fd = 9)) = true) 7 sepState := by
  constructor
  · intro fd h
    simp [sepState, regOf, keysOf, aget_cons] at h
    simp [h]
  · intro a ha fd h
    by_cases e : a = 11
    · subst e
      simp [sepState, regOf, keysOf, aget_cons] at h
      rcases h with h | h <;> simp [h]
    · have : regOf sepState a = [] := by simp [sepState, regOf, aget_cons, ha, e, Ne.symm ha, Ne.symm e]
      rw [this] at h; simp [keysOf] at h

example : SepEnv (fun fd => (decide (fd = 7 ∨ fd = 9)) = true) 7 sepEnv := by
  constructor
  · intro evs h e he
    simp [sepEnv] at h; subst h
    simp at he; rcases he with he | he <;> simp [he]
  · intro op h
    simp [sepEnv] at h; subst h
    exact ⟨9, Or.inl rfl, by simp⟩
  · intro fd h
    simp [sepEnv] at h; rcases h with h | h <;> simp [h]
  · intro a ha evs h
    simp [sepEnv, ha] at h
  · intro a ha op h
    simp [sepEnv, ha] at h; subst h
    exact ⟨13, Or.inl rfl, by simp⟩
  · intro a ha fd h
    simp [sepEnv, ha] at h; rcases h with h | h <;> simp [h]
  · intro a h; simp [sepEnv] at h

end Px.Exec
