import PxProofs.UrlLemmas
/-!
# C14 lemmas, part 2: `int()` on port text, UTF-8 validity of ASCII, the
specification's decimal renderer.
-/
namespace Px.UrlL
open Px Px.Url
open Px.Connect (isDig isHexDig decRender decDigitsAux)

def decVal (x : Bytes) : Nat := x.foldl (fun a c => a * 10 + (c.toNat - 48)) 0

theorem isDig_toNat {c : UInt8} (h : isDig c = true) : 48 ≤ c.toNat ∧ c.toNat ≤ 57 := by
  simp only [isDig, Bool.and_eq_true, decide_eq_true_eq, UInt8.le_iff_toNat_le] at h
  simp at h
  exact h

theorem ne_of_toNat_ne {c d : UInt8} (h : c.toNat ≠ d.toNat) : c ≠ d := fun e => h (by rw [e])

theorem isDig_facts {c : UInt8} (h : isDig c = true) :
    (c == 95) = false ∧ digitVal c = some (c.toNat - 48) ∧ c.toNat - 48 < 10 ∧ isWs c = false ∧
    c ≠ 43 ∧ c ≠ 45 ∧ c.toNat < 128 := by
  have ht := isDig_toNat h
  have hne : ∀ d : UInt8, (d.toNat < 48 ∨ 57 < d.toNat) → c ≠ d := fun d hd => ne_of_toNat_ne (by omega)
  refine ⟨?_, ?_, by omega, ?_, ?_, ?_, by omega⟩
  · simp only [beq_eq_false_iff_ne, ne_eq]; exact hne 95 (by decide)
  · have : (48 ≤ c && c ≤ 57) = true := h
    simp only [digitVal, this, if_true]
  · simp only [isWs, Bool.or_eq_false_iff, beq_eq_false_iff_ne, ne_eq]
    exact ⟨⟨⟨⟨⟨hne 32 (by decide), hne 9 (by decide)⟩, hne 10 (by decide)⟩, hne 13 (by decide)⟩, hne 11 (by decide)⟩, hne 12 (by decide)⟩
  · exact hne 43 (by decide)
  · exact hne 45 (by decide)

theorem scanDigits_digits (ds : Bytes) (hd : ∀ c ∈ ds, isDig c = true) (acc n prev : Nat)
    (hp : ds ≠ [] ∨ prev = 1) :
    scanDigits 10 ds acc n prev =
      some (ds.foldl (fun a c => a * 10 + (c.toNat - 48)) acc, n + ds.length, []) := by
  induction ds generalizing acc n prev with
  | nil =>
    rcases hp with hp | hp
    · exact absurd rfl hp
    · subst hp; simp [scanDigits]
  | cons c cs ih =>
    obtain ⟨h95, hv, hlt, _, _, _, _⟩ := isDig_facts (hd c (by simp))
    have hdi : isDigitIn 10 c = true := by simp [isDigitIn, hv, hlt]
    unfold scanDigits
    rw [h95]
    simp only [Bool.false_eq_true, if_false, hdi, if_true, hv, Option.getD_some]
    rw [ih (fun d hd' => hd d (by simp [hd'])) _ _ 1 (Or.inr rfl)]
    simp; omega

def signSplit (s : Bytes) : Bool × Bytes :=
  match s with
  | 43 :: r => (false, r)
  | 45 :: r => (true, r)
  | _ => (false, s)

/-- `pyInt` for base 10 with the prefix handling of base 16 removed -/
theorem pyInt10_eq (s : Bytes) : pyInt 10 s =
    (match scanDigits 10 (signSplit (lstrip s)).2 0 0 0 with
     | none => none
     | some (v, n, rest) =>
       if n > intMaxStrDigits then none
       else if (lstrip rest).isEmpty then
         some (if (signSplit (lstrip s)).1 then -(Int.ofNat v) else Int.ofNat v)
       else none) := by
  unfold pyInt signSplit
  simp only [show ((10 : Nat) == 16) = false from rfl, show ((10 : Nat) == 10) = true from rfl,
    Bool.false_eq_true, if_false, Bool.true_and, decide_eq_true_eq]
  try rfl

theorem signSplit_of_head {c : UInt8} {cs : Bytes} (h43 : c ≠ 43) (h45 : c ≠ 45) :
    signSplit (c :: cs) = (false, c :: cs) := by
  unfold signSplit
  split
  · rename_i r he; simp at he; exact absurd he.1 h43
  · rename_i r he; simp at he; exact absurd he.1 h45
  · rfl

theorem pyInt_digits (ds : Bytes) (hne : ds ≠ []) (hd : ∀ c ∈ ds, isDig c = true)
    (hl : ds.length ≤ intMaxStrDigits) : pyInt 10 ds = some (Int.ofNat (decVal ds)) := by
  cases ds with
  | nil => exact absurd rfl hne
  | cons c cs =>
    obtain ⟨_, _, _, hws, h43, h45, _⟩ := isDig_facts (hd c (by simp))
    have hsc := scanDigits_digits (c :: cs) hd 0 0 0 (Or.inl (by simp))
    have hlen : ¬ (0 + (c :: cs).length > intMaxStrDigits) := by omega
    rw [pyInt10_eq, lstrip_of_head hws, signSplit_of_head h43 h45]
    simp only [hsc]
    simp only [List.length_cons] at hl
    simp [lstrip, decVal, hl]

/-- the scan consumes only digits and underscores -/
theorem scanDigits_prefix (base : Nat) (x : Bytes) (acc n prev : Nat) {v m : Nat} {rest : Bytes}
    (h : scanDigits base x acc n prev = some (v, m, rest)) :
    ∃ pre, x = pre ++ rest ∧ ∀ d ∈ pre, d = 95 ∨ isDigitIn base d = true := by
  fun_induction scanDigits base x acc n prev generalizing v m rest with
  | case1 acc n prev hp => simp at h; exact ⟨[], by simp [h.2.2], by simp⟩
  | case2 acc n prev hp => simp at h
  | case3 c cs acc n prev hc hp ih =>
    obtain ⟨pre, e, hpre⟩ := ih h
    refine ⟨c :: pre, by simp [e], ?_⟩
    intro d hd
    simp only [List.mem_cons] at hd
    rcases hd with rfl | hd
    · left; simpa using hc
    · exact hpre d hd
  | case4 c cs acc n prev hc hp => simp at h
  | case5 c cs acc n prev hc hdg ih =>
    obtain ⟨pre, e, hpre⟩ := ih h
    refine ⟨c :: pre, by simp [e], ?_⟩
    intro d hd
    simp only [List.mem_cons] at hd
    rcases hd with rfl | hd
    · right; exact hdg
    · exact hpre d hd
  | case6 c cs acc n prev hc hdg hp =>
    simp at h; exact ⟨[], by simp [h.2.2], by simp⟩
  | case7 c cs acc n prev hc hdg hp => simp at h

/-- a byte that is neither whitespace, sign, underscore nor decimal digit makes `int()` fail -/
theorem pyInt_none_of_foreign (s : Bytes) (c : UInt8) (hc : c ∈ s) (hws : isWs c = false)
    (h95 : c ≠ 95) (h43 : c ≠ 43) (h45 : c ≠ 45) (hdg : isDigitIn 10 c = false) :
    pyInt 10 s = none := by
  obtain ⟨p, hp, hpw⟩ := lstrip_suffix s
  have hc1 : c ∈ lstrip s := by
    rw [hp] at hc
    rcases List.mem_append.1 hc with h | h
    · rw [hpw c h] at hws; exact absurd hws (by simp)
    · exact h
  have hc2 : c ∈ (signSplit (lstrip s)).2 := by
    generalize lstrip s = s1 at hc1
    unfold signSplit
    split
    · simp only [List.mem_cons] at hc1
      rcases hc1 with h | h
      · exact absurd h h43
      · exact h
    · simp only [List.mem_cons] at hc1
      rcases hc1 with h | h
      · exact absurd h h45
      · exact h
    · exact hc1
  rw [pyInt10_eq]
  cases hsd : scanDigits 10 (signSplit (lstrip s)).2 0 0 0 with
  | none => rfl
  | some r =>
    obtain ⟨v, n, rest⟩ := r
    obtain ⟨pre, e, hpre⟩ := scanDigits_prefix 10 _ 0 0 0 hsd
    have hcr : c ∈ rest := by
      rw [e] at hc2
      rcases List.mem_append.1 hc2 with h | h
      · rcases hpre c h with h | h
        · exact absurd h h95
        · rw [h] at hdg; exact absurd hdg (by simp)
      · exact h
    have hne : (lstrip rest).isEmpty = false := by
      cases hl : lstrip rest with
      | nil =>
        have := (lstrip_eq_nil_iff rest).1 hl c hcr
        rw [this] at hws; exact absurd hws (by simp)
      | cons _ _ => rfl
    simp only [hne]
    split <;> simp

/-! ### `utf8Valid` on ASCII -/

theorem utf8Valid_ascii (x : Bytes) (h : ∀ c ∈ x, c.toNat < 128) : utf8Valid x = true := by
  induction x with
  | nil => rfl
  | cons c cs ih =>
    have hc : c < 0x80 := by
      rw [UInt8.lt_iff_toNat_lt]; exact h c (by simp)
    unfold utf8Valid
    rw [if_pos hc]
    exact ih (fun d hd => h d (by simp [hd]))

/-! ### the specification's decimal renderer -/

theorem decDigitsAux_spec (fuel n : Nat) (acc : Bytes) (hf : n < fuel) :
    ∃ ds, decDigitsAux fuel n acc = ds ++ acc ∧ ds ≠ [] ∧ (∀ c ∈ ds, isDig c = true) ∧ decVal ds = n ∧
      (∀ k, 0 < k → n < 10 ^ k → ds.length ≤ k) := by
  induction fuel generalizing n acc with
  | zero => omega
  | succ fuel ih =>
    unfold decDigitsAux
    have hm : n % 10 < 10 := Nat.mod_lt _ (by omega)
    have htn : (UInt8.ofNat (48 + n % 10)).toNat = 48 + n % 10 := by
      simp only [UInt8.toNat_ofNat']; omega
    have hd : isDig (UInt8.ofNat (48 + n % 10)) = true := by
      simp only [isDig, Bool.and_eq_true, decide_eq_true_eq, UInt8.le_iff_toNat_le, htn]
      simp; omega
    have hv : (UInt8.ofNat (48 + n % 10)).toNat - 48 = n % 10 := by rw [htn]; omega
    by_cases h10 : n < 10
    · simp only [h10, if_true]
      refine ⟨[UInt8.ofNat (48 + n % 10)], by simp, by simp, ?_, ?_, ?_⟩
      · intro c hc; simp only [List.mem_singleton] at hc; subst hc; exact hd
      · simp only [decVal, List.foldl_cons, List.foldl_nil, hv]; omega
      · intro k hk _; simp; omega
    · simp only [h10, if_false]
      obtain ⟨ds, e, hne, hall, hval, hlen⟩ := ih (n / 10) (UInt8.ofNat (48 + n % 10) :: acc) (by omega)
      refine ⟨ds ++ [UInt8.ofNat (48 + n % 10)], by rw [e, List.append_assoc]; rfl, by simp, ?_, ?_, ?_⟩
      · intro c hc
        rcases List.mem_append.1 hc with h | h
        · exact hall c h
        · simp only [List.mem_singleton] at h; subst h; exact hd
      · unfold decVal at hval ⊢
        rw [List.foldl_append, hval]
        simp only [List.foldl_cons, List.foldl_nil, hv]; omega
      · intro k hk hlt
        cases k with
        | zero => omega
        | succ k =>
          have hk0 : 0 < k := by
            rcases Nat.eq_zero_or_pos k with rfl | h
            · simp at hlt; omega
            · exact h
          have : n / 10 < 10 ^ k := by
            rw [Nat.pow_succ] at hlt
            exact Nat.div_lt_of_lt_mul (by omega)
          have := hlen k hk0 this
          simp; omega

theorem decRender_spec (n : Nat) :
    decRender n ≠ [] ∧ (∀ c ∈ decRender n, isDig c = true) ∧ decVal (decRender n) = n ∧
      (∀ k, 0 < k → n < 10 ^ k → (decRender n).length ≤ k) := by
  obtain ⟨ds, e, h1, h2, h3, h4⟩ := decDigitsAux_spec (n + 1) n [] (by omega)
  unfold decRender
  rw [e, List.append_nil]
  exact ⟨h1, h2, h3, h4⟩

/-- `int()` reads a rendered port back (any port below 10^4300) -/
theorem pyInt_decRender (n : Nat) (h : n < 10 ^ intMaxStrDigits) :
    pyInt 10 (decRender n) = some (Int.ofNat n) := by
  obtain ⟨h1, h2, h3, h4⟩ := decRender_spec n
  rw [pyInt_digits _ h1 h2 (h4 _ (by decide) h), h3]

end Px.UrlL
