import PxProofs.ForwardParse
/-!
# C02 helper lemmas, part 5: `parse (render r)` for well-formed `r`, field by field
-/
namespace Px.Forward

open Px.Parser Px.Build
open Px.Codec (hdrApply foldHdrs bodyPhase afterHeaders)

/-! ### unpacking `Req.WF` -/

/-- the header map the client meant: one entry per field, key = lower-cased name -/
def entries (fs : List Field) : Headers := fs.map (fun f => (lower f.name, (f.name, f.value)))

theorem inj_of_nodup_map {α β} (k : α → β) {l : List α} (hn : (l.map k).Nodup) {x y : α}
    (hx : x ∈ l) (hy : y ∈ l) (h : k x = k y) : x = y := by
  induction l with
  | nil => simp at hx
  | cons a rest ih =>
    simp only [List.map_cons, List.nodup_cons, List.mem_map, not_exists, not_and] at hn
    simp only [List.mem_cons] at hx hy
    rcases hx with rfl | hx <;> rcases hy with rfl | hy
    · rfl
    · exact absurd h.symm (hn.1 y hy)
    · exact absurd h (hn.1 x hx)
    · exact ih hn.2 hx hy

theorem hdrFold_entries (fs : List Field) (hn : (fs.map (fun f => lower f.name)).Nodup) (h0 : Headers)
    (h0k : ∀ e ∈ h0, ∀ f ∈ fs, e.1 ≠ lower f.name) :
    Px.Codec.hdrFold h0 (dictOf fs) = h0 ++ entries fs := by
  induction fs generalizing h0 with
  | nil => simp [Px.Codec.hdrFold, dictOf, entries]
  | cons f fs ih =>
    have hn' := (List.nodup_cons.1 hn)
    have hset : hdrSet h0 (lower f.name) (f.name, f.value) = h0 ++ [(lower f.name, (f.name, f.value))] :=
      hdrSet_of_not_mem _ _ _ (fun e he => h0k e he f (by simp))
    simp only [Px.Codec.hdrFold, dictOf, List.map_cons, List.foldl_cons, hset]
    have := ih hn'.2 (h0 ++ [(lower f.name, (f.name, f.value))]) (by
      intro e he g hg
      simp only [List.mem_append, List.mem_singleton] at he
      rcases he with he | rfl
      · exact h0k e he g (by simp [hg])
      · intro heq
        apply hn'.1
        simp only [List.mem_map]
        exact ⟨g, hg, heq.symm⟩)
    simp only [Px.Codec.hdrFold, dictOf] at this
    rw [this]
    simp [entries]

theorem entries_keys (fs : List Field) : (entries fs).map (·.1) = fs.map (fun f => lower f.name) := by
  simp [entries]

theorem hdrInv_entries (fs : List Field) (hn : (fs.map (fun f => lower f.name)).Nodup) : HdrInv (entries fs) := by
  refine ⟨by rw [entries_keys]; exact hn, ?_⟩
  intro e he
  simp only [entries, List.mem_map] at he
  obtain ⟨f, _, rfl⟩ := he
  rfl

theorem isCL_iff (f : Field) : Px.Codec.isCL (f.name, f.value) = nameIs clName f := rfl

theorem isTEChunked_iff (f : Field) :
    Px.Codec.isTEChunked (f.name, f.value) = (nameIs teName f && lower f.value == chunkedTok) := rfl

def Framing.isCL : Framing → Bool
  | .contentLength => true
  | _ => false

def Framing.isChunked : Framing → Bool
  | .chunked .. => true
  | _ => false

/-- framing facts extracted from `framingOk` -/
structure FramingFacts (r : Req) : Prop where
  clOK : Px.Codec.clValuesOK (dictOf r.fields)
  ce : ∀ {p q : Parser}, foldHdrs p (dictOf r.fields) = .ok q → p.contentExpected = false →
    q.contentExpected = (r.framing.isCL && !r.body.isEmpty)
  chunked : (dictOf r.fields).any Px.Codec.isTEChunked = r.framing.isChunked

theorem any_dictOf (fs : List Field) (P : Bytes × Bytes → Bool) :
    (dictOf fs).any P = fs.any (fun f => P (f.name, f.value)) := by
  simp [dictOf, List.any_map, Function.comp_def]

theorem framingFacts (r : Req) (hn : (r.fields.map (fun f => lower f.name)).Nodup)
    (hf : framingOk r = true) : FramingFacts r := by
  have noCL_ok : r.fields.any (nameIs clName) = false → Px.Codec.clValuesOK (dictOf r.fields) := by
    intro hno e he hcl
    simp only [dictOf, List.mem_map] at he
    obtain ⟨f, hfm, rfl⟩ := he
    have := List.any_eq_false.1 hno f hfm
    rw [isCL_iff] at hcl; simp [hcl] at this
  have noCL_ce : r.fields.any (nameIs clName) = false → ∀ {p q : Parser},
      foldHdrs p (dictOf r.fields) = .ok q → q.contentExpected = p.contentExpected := by
    intro hno p q hq
    apply Px.Codec.foldHdrs_ce_none _ _ hq
    intro e he
    simp only [dictOf, List.mem_map] at he
    obtain ⟨f, hfm, rfl⟩ := he
    have := List.any_eq_false.1 hno f hfm
    rw [isCL_iff]; simpa using this
  have noTE : r.fields.any (nameIs teName) = false → (dictOf r.fields).any Px.Codec.isTEChunked = false := by
    intro hno
    rw [any_dictOf, List.any_eq_false]
    intro f hfm
    have := List.any_eq_false.1 hno f hfm
    rw [isTEChunked_iff]
    simp only [Bool.not_eq_true] at this
    simp [this]
  unfold framingOk at hf
  rcases hfr : r.framing with _ | _ | ⟨cs, lsz, lext⟩
  · -- no body
    simp only [hfr, Bool.and_eq_true, Bool.not_eq_true'] at hf
    exact ⟨noCL_ok hf.1.2, fun hq hp => by rw [noCL_ce hf.1.2 hq, hp, hfr]; rfl, by rw [noTE hf.2, hfr]; rfl⟩
  · -- Content-Length
    simp only [hfr, Bool.and_eq_true, Bool.not_eq_true', List.any_eq_true] at hf
    obtain ⟨hte, f, hfm, hfp⟩ := hf
    simp only [Bool.and_eq_true, beq_iff_eq] at hfp
    obtain ⟨⟨⟨hfn, _⟩, _⟩, hval⟩ := hfp
    have huniq : ∀ g ∈ r.fields, nameIs clName g = true → g = f := by
      intro g hg hgn
      apply inj_of_nodup_map _ hn hg hfm
      simp only [nameIs, beq_iff_eq] at hgn hfn
      rw [hgn, hfn]
    have hall : ∀ e ∈ dictOf r.fields, Px.Codec.isCL e = true → pyInt 10 e.2 = some (Int.ofNat r.body.length) := by
      intro e he hcl
      simp only [dictOf, List.mem_map] at he
      obtain ⟨g, hg, rfl⟩ := he
      rw [isCL_iff] at hcl
      rw [huniq g hg hcl]; exact hval
    refine ⟨fun e he hcl => ⟨_, hall e he hcl⟩, ?_, by rw [noTE hte, hfr]; rfl⟩
    intro p q hq _
    rw [Px.Codec.foldHdrs_ce_some _ _ hall ⟨(f.name, f.value), by simp [dictOf]; exact ⟨f, hfm, rfl, rfl⟩, hfn⟩ hq]
    rw [hfr]
    cases hb : r.body with
    | nil => simp [Framing.isCL]
    | cons c cs => simp [Framing.isCL]
  · -- chunked
    simp only [hfr, Bool.and_eq_true, Bool.not_eq_true', List.any_eq_true] at hf
    obtain ⟨⟨⟨⟨hcl, f, hfm, hfp⟩, _⟩, _⟩, _⟩ := hf
    refine ⟨noCL_ok hcl, fun hq hp => by rw [noCL_ce hcl hq, hp, hfr]; rfl, ?_⟩
    rw [any_dictOf, hfr]
    show _ = true
    simp only [List.any_eq_true]
    exact ⟨f, hfm, by rw [isTEChunked_iff]; simpa using hfp⟩

end Px.Forward
