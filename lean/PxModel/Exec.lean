import PxModel.Selector
/-
  Model of the work executor, statement by statement:

  * `proxy/core/work/threadless.py` — `Threadless._update_work_events` (incl. the
    unregistration of descriptors a work stops reporting),
    `_update_selector` (per-work `try/except` → deferred `_cleanup` of the
    failed works), `_selected_events`, `_create_tasks`, `_wait_for_tasks`,
    result handling in `_run_once`, `_cleanup` (tolerant `selector.unregister`,
    `shutdown()` in `try/except/finally`, `del self.works[work_id]`),
    `_cleanup_inactive`;
  * `proxy/core/work/fd/fd.py` — `ThreadlessFdExecutor.work` (initialisation
    failure → `_cleanup` of that work only);
  * `proxy/core/work/fd/local.py` — `work_queue_fileno() = None`, at most one
    new work received per round, work id = descriptor of the accepted socket.

  A *work* is abstract.  What it does in a round is supplied by the
  environment of the round (`Beh`): the events map `get_events()` returns (or
  that it raises), the result of its `handle_events` task (`False | True |
  exception`), the descriptors it closes / opens while its task runs, and what
  its `shutdown()` closes and whether it raises.

  Scope: `--enable-conn-pool` off (the default; `_upstream_conn_pool is None`),
  `handle_events` never suspends (true of `HttpProtocolHandler` and every
  built-in plugin), so every task created in a round finishes in that round
  and `Threadless.unfinished` is empty between rounds; works raise `Exception`
  subclasses only.  `Dead` = an exception escaped `_run_once`
  (and so ends `_run_forever`).
-/
namespace Px.Exec
open Px.Sel

/-- result of `await work.get_events()` -/
inductive EvRes
  | ok (events : List (Fd × Mask))
  | exc
  deriving Repr, DecidableEq

/-- result of the `handle_events` task -/
inductive TaskRes
  | fls | tru | exc
  deriving Repr, DecidableEq

inductive FdOp
  | close (fd : Fd)
  /-- a new socket; the kernel installed it at `fd` -/
  | openAt (fd : Fd)
  /-- a new socket at the number the kernel picks (lowest free) -/
  | openNew
  deriving Repr, DecidableEq

structure Shutdown where
  /-- descriptors `shutdown()` closes (before it returns or raises) -/
  closes : List Fd
  raises : Bool
  deriving Repr, DecidableEq

structure Beh where
  events : EvRes
  task : TaskRes
  ops : List FdOp
  sd : Shutdown
  deriving Repr, DecidableEq

structure Arrive where
  /-- descriptor of the accepted client socket = work id -/
  fd : Fd
  /-- `work.initialize()` raises -/
  initRaises : Bool
  deriving Repr, DecidableEq

structure RoundEnv where
  beh : WorkId → Beh
  /-- descriptors the kernel finds ready at `select()`, with their readiness -/
  ready : List (Fd × Mask)
  /-- the work queue holds a new connection -/
  arrive : Option Arrive
  /-- iteration order of the `finished` task set: these ids first, in this order -/
  prio : List WorkId

structure Exec where
  /-- `Threadless.works` keys in dict order (the work objects are abstract) -/
  works : List WorkId
  /-- `Threadless.registered_events_by_work_ids` -/
  registered : List (WorkId × List (Fd × Mask))
  /-- `Threadless.selector` and the kernel underneath it -/
  sk : SK
  deriving Repr, DecidableEq

inductive Dead
  /-- `self.works[work_id]` raised `KeyError` (`_create_tasks` or `del self.works[work_id]`) -/
  | worksKeyError (w : WorkId)
  /-- `assert self._upstream_conn_pool` for selector data `0` -/
  | assertPool
  deriving Repr, DecidableEq

structure Log where
  /-- works whose event refresh failed (`failed_work_ids`) -/
  failed : List WorkId
  /-- `work_by_ids`: the readables / writables handed to each task, in creation order -/
  tasks : List (WorkId × List Fd × List Fd)
  deriving Repr, DecidableEq

def Exec.regMask (x : Exec) (w : WorkId) (fd : Fd) : Option Mask :=
  match aget x.registered w with
  | none => none
  | some r => aget r fd

/-! ### `_update_work_events` -/

/-- one iteration of `for fileno in worker_events`; `some e` = the exception leaves the loop -/
def updEvent (x : Exec) (w : WorkId) (fd : Fd) (mask : Mask) : Exec × Option Exc :=
  let reg := if (aget x.registered w).isNone then aset x.registered w [] else x.registered
  let r := (aget reg w).getD []
  match aget r fd with
  | some old =>
    if mask ≠ old then
      match modify x.sk fd mask w with
      | (sk, some e) => ({ x with registered := reg, sk := sk }, some e)
      | (sk, none) => ({ x with registered := aset reg w (aset r fd mask), sk := sk }, none)
    else ({ x with registered := reg }, none)
  | none =>
    if fd ≠ -1 then
      match register x.sk fd mask w with
      | (sk, none) => ({ x with registered := aset reg w (aset r fd mask), sk := sk }, none)
      | (sk, some .keyError) => ({ x with registered := reg, sk := sk }, none)
      | (sk, some e) => ({ x with registered := reg, sk := sk }, some e)
    else ({ x with registered := reg }, none)

/-- the loop; `true` = an exception escaped `_update_work_events` -/
def updEvents (x : Exec) (w : WorkId) : List (Fd × Mask) → Exec × Bool
  | [] => (x, false)
  | (fd, m) :: rest =>
    match updEvent x w fd m with
    | (x', some _) => (x', true)
    | (x', none) => updEvents x' w rest

/-- `for fileno in registered[work_id]: try: selector.unregister(fileno) except (KeyError, ValueError): pass` -/
def unregAll (sk : SK) : List (Fd × Mask) → SK
  | [] => sk
  | (fd, _) :: r => unregAll (unregister sk fd).1 r

/-- the tail of `_update_work_events`: descriptors in the work's registry that `get_events()` no
    longer reports are unregistered (tolerantly) and dropped from the registry -/
def pruneStale (x : Exec) (w : WorkId) (evs : List (Fd × Mask)) : Exec :=
  match aget x.registered w with
  | none => x
  | some r =>
    let reported (e : Fd × Mask) : Bool := decide (e.1 ∈ evs.map (·.1))
    { x with sk := unregAll x.sk (r.filter (fun e => !reported e)),
             registered := aset x.registered w (r.filter reported) }

def updWork (x : Exec) (w : WorkId) : EvRes → Exec × Bool
  | .exc => (x, true)
  | .ok evs =>
    match updEvents x w evs with
    | (x', true) => (x', true)
    | (x', false) => (pruneStale x' w evs, false)

/-! ### `_cleanup` -/

def cleanup (x : Exec) (w : WorkId) (sd : Shutdown) : Except Dead Exec :=
  let x1 : Exec := match aget x.registered w with
    | none => x
    | some r => { x with sk := unregAll x.sk r, registered := adel x.registered w }
  if w ∈ x1.works then
    -- `self.works[work_id].shutdown()`; what it raises is logged and dropped
    .ok { x1 with sk := { x1.sk with k := x1.sk.k.closeAll sd.closes },
                  works := x1.works.filter (fun v => decide (v ≠ w)) }
  else
    -- `self.works[work_id]` raises KeyError (caught), then `del self.works[work_id]` raises it again
    .error (.worksKeyError w)

def cleanupMany (sd : WorkId → Shutdown) : Exec → List WorkId → Except Dead Exec
  | x, [] => .ok x
  | x, w :: r =>
    match cleanup x w (sd w) with
    | .error d => .error d
    | .ok x' => cleanupMany sd x' r

/-! ### `_update_selector` -/

/-- `for work_id in self.works: try: await self._update_work_events(work_id) except Exception: failed.append(work_id)` -/
def updAll (env : RoundEnv) : Exec → List WorkId → Exec × List WorkId
  | x, [] => (x, [])
  | x, w :: r =>
    let (x1, bad) := updWork x w (env.beh w).events
    let (x2, failed) := updAll env x1 r
    (x2, if bad then w :: failed else failed)

/-! ### `_selected_events` after the refresh: grouping the selector's events by work -/

def dedup : List WorkId → List WorkId
  | [] => []
  | a :: l => a :: (dedup l).filter (fun v => decide (v ≠ a))

def readablesOf (evs : List (WorkId × Fd × Mask)) (w : WorkId) : List Fd :=
  evs.filterMap (fun e => if e.1 = w ∧ e.2.2 % 2 = 1 then some e.2.1 else none)

def writablesOf (evs : List (WorkId × Fd × Mask)) (w : WorkId) : List Fd :=
  evs.filterMap (fun e => if e.1 = w ∧ e.2.2 / 2 % 2 = 1 then some e.2.1 else none)

/-- `work_by_ids` (a dict: one entry per `key.data`, in order of first event) -/
def workByIds (evs : List (WorkId × Fd × Mask)) : List (WorkId × List Fd × List Fd) :=
  (dedup (evs.map (·.1))).map (fun w => (w, readablesOf evs w, writablesOf evs w))

/-! ### `ThreadlessFdExecutor.work` -/

def accept (x : Exec) (a : Arrive) (sd : Shutdown) : Except Dead Exec :=
  -- `self.works[fileno] = self.create(...)`
  let x1 := { x with works := if a.fd ∈ x.works then x.works else x.works ++ [a.fd] }
  if a.initRaises then cleanup x1 a.fd sd else .ok x1

/-! ### `_create_tasks`, running the tasks, handling the results -/

/-- `self.works[work_id].handle_events(...)` is evaluated for every id while the tasks are created -/
def checkTasks (x : Exec) : List WorkId → Except Dead Unit
  | [] => .ok ()
  | w :: r =>
    if w = 0 then .error .assertPool
    else if w ∈ x.works then checkTasks x r else .error (.worksKeyError w)

def runOps (k : Kernel) : List FdOp → Kernel
  | [] => k
  | .close fd :: r => runOps (k.close fd) r
  | .openAt fd :: r => runOps (k.openAt fd) r
  | .openNew :: r => runOps k.openNew.1 r

/-- the tasks run one after the other in creation order (none of them suspends) -/
def runTasks (env : RoundEnv) : Exec → List WorkId → Exec
  | x, [] => x
  | x, w :: r => runTasks env { x with sk := { x.sk with k := runOps x.sk.k (env.beh w).ops } } r

def teardown (env : RoundEnv) (w : WorkId) : Bool := (env.beh w).task != .fls

/-- `teardown = task.result()` / `except Exception: teardown = True` / `finally: if teardown: self._cleanup(work_id)` -/
def handleOne (env : RoundEnv) (x : Exec) (w : WorkId) : Except Dead Exec :=
  if teardown env w then cleanup x w (env.beh w).sd else .ok x


def handleRest (env : RoundEnv) : Exec → List WorkId → Except Dead Exec
  | x, [] => .ok x
  | x, w :: r =>
    match handleOne env x w with
    | .error d => .error d
    | .ok x' => handleRest env x' r

/-- `for task in finished:` — a set; `prio` fixes its iteration order -/
def handleResults (env : RoundEnv) : Exec → List WorkId → List WorkId → Except Dead Exec
  | x, remaining, [] => handleRest env x remaining
  | x, remaining, p :: ps =>
    if p ∈ remaining then
      match handleOne env x p with
      | .error d => .error d
      | .ok x' => handleResults env x' (remaining.filter (fun v => decide (v ≠ p))) ps
    else handleResults env x remaining ps

/-! ### `_run_once` -/

def sdOf (env : RoundEnv) (w : WorkId) : Shutdown := (env.beh w).sd

/-- `receive_from_work_queue` (LocalFdExecutor: the queue is polled every round) -/
def acceptOpt (env : RoundEnv) (x : Exec) : Except Dead Exec :=
  match env.arrive with
  | none => .ok x
  | some a => accept x a (sdOf env a.fd)

/-- `_create_tasks`, the tasks, the result loop -/
def finishRound (env : RoundEnv) (x : Exec) (ids : List WorkId) : Except Dead Exec :=
  match checkTasks x ids with
  | .error d => .error d
  | .ok () => handleResults env (runTasks env x ids) ids env.prio

def runOnce (x : Exec) (env : RoundEnv) : Except Dead (Exec × Log) :=
  -- _selected_events: _update_selector (refresh every work, then clean the failed ones)
  let u := updAll env x x.works
  match cleanupMany (sdOf env) u.1 u.2 with
  | .error d => .error d
  | .ok x2 =>
    -- selector.select + grouping by key.data
    let tasks := workByIds (select x2.sk env.ready)
    match acceptOpt env x2 with
    | .error d => .error d
    | .ok x3 =>
      match finishRound env x3 (tasks.map (·.1)) with
      | .error d => .error d
      | .ok x5 => .ok (x5, { failed := u.2, tasks := tasks })

/-! ### `_cleanup_inactive` -/

/-- `inactive w` = `self.works[w].is_inactive()` -/
def reap (x : Exec) (inactive : WorkId → Bool) (sd : WorkId → Shutdown) : Except Dead Exec :=
  cleanupMany sd x (x.works.filter inactive)

end Px.Exec
