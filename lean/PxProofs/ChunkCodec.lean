import PxModel.Chunk
import PxProofs.BytesLemmas
import PxProofs.ChunkLemmas
import PxProofs.HexLemmas
/-!
# Chunked transfer coding: encoder output is in the grammar, RFC reference decoder (C15)

* `chunksOf`, `toChunks_render`, `toChunks_in_grammar` : what `ChunkParser.to_chunks(raw, n)` writes
  is a valid chunked stream (in the sense of `Px.Chunk.ChunkedStream`, the grammar the decoder is
  proved complete for in `ChunkLemmas.parse_stream`) whose decoding is `raw`;
* `RStream` : the chunked-body grammar of RFC 7230 §4.1 written syntactically (chunk-size =
  1*HEXDIG in either case with leading zeros, optional chunk extensions, last-chunk = 1*"0",
  **no trailer part**: trailers are not supported by the decoder, finding D22), `refDecode`
  the reference decoder on that grammar, `RStream.toStream` the embedding into the decoder's grammar.
-/
namespace Px.Codec

open Px.Chunk (ChunkedStream SizeLine)

theorem b_zero : b "0" = [48] := by
  unfold b; rw [byteArray_toList_eq]; rfl

/-! ### the encoder -/

/-- the stream written by `to_chunks(raw, size)`, as an element of the grammar -/
def chunksOf (size : Nat) : Nat → Bytes → ChunkedStream
  | 0, _ => .last [48] []
  | fuel + 1, raw =>
    if raw.isEmpty then .last [48] []
    else .chunk (natToHex (raw.take size).length) [] (raw.take size) (chunksOf size fuel (raw.drop size))

theorem chunksOf_render (size fuel : Nat) (raw : Bytes) :
    (chunksOf size fuel raw).render = Px.Chunk.toChunksAux size fuel raw ++ [48] ++ CRLF ++ CRLF := by
  induction fuel generalizing raw with
  | zero => simp [chunksOf, Px.Chunk.toChunksAux, ChunkedStream.render]
  | succ fuel ih =>
    by_cases he : raw.isEmpty = true
    · simp [chunksOf, Px.Chunk.toChunksAux, ChunkedStream.render, he]
    · simp only [chunksOf, Px.Chunk.toChunksAux, he, Bool.false_eq_true, if_false, ChunkedStream.render, ih]
      simp [List.append_assoc]

theorem toChunks_render (raw : Bytes) (size : Nat) (h : size ≠ 0) :
    Px.Chunk.toChunks raw size = .ok (chunksOf size raw.length raw).render := by
  unfold Px.Chunk.toChunks
  have : (size == 0) = false := by simpa using h
  rw [this, chunksOf_render, b_zero]; rfl

theorem chunksOf_decoded (size : Nat) (hs : 0 < size) (fuel : Nat) (raw : Bytes) (hf : raw.length ≤ fuel) :
    (chunksOf size fuel raw).decoded = raw := by
  induction fuel generalizing raw with
  | zero =>
    have : raw = [] := List.eq_nil_of_length_eq_zero (by omega)
    simp [chunksOf, ChunkedStream.decoded, this]
  | succ fuel ih =>
    by_cases he : raw.isEmpty = true
    · have : raw = [] := by simpa using he
      simp [chunksOf, ChunkedStream.decoded, this]
    · have hne : raw ≠ [] := by simpa using he
      have hpos : 0 < raw.length := List.length_pos_iff.2 hne
      simp only [chunksOf, he, Bool.false_eq_true, if_false, ChunkedStream.decoded]
      rw [ih (raw.drop size) (by simp only [List.length_drop]; omega), List.take_append_drop]

/-- `'{:x}'.format(k)` is a chunk-size line announcing `k` bytes -/
theorem sizeLine_natToHex (k : Nat) : SizeLine (natToHex k) [] k := by
  have hd := natToHex_isDigit k
  refine ⟨pyInt16_natToHex k, ?_, ?_, .inl rfl⟩
  · intro h; exact (isDigitIn_plain (hd _ h)).2.2.2.2.2.1 rfl
  · rw [List.append_nil]
    exact splitCRLF_none_of_noCR (fun c hc => by
      have := (isDigitIn_plain (hd c hc)).2.1; simpa [CR] using this)

theorem sizeLine_zero : SizeLine [48] [] 0 := by
  have := sizeLine_natToHex 0
  have h0 : natToHex 0 = [48] := by decide
  rwa [h0] at this

theorem chunksOf_valid (size : Nat) (hs : 0 < size) (fuel : Nat) (raw : Bytes) :
    (chunksOf size fuel raw).Valid := by
  induction fuel generalizing raw with
  | zero => exact sizeLine_zero
  | succ fuel ih =>
    by_cases he : raw.isEmpty = true
    · simp only [chunksOf, he, if_true]; exact sizeLine_zero
    · have hne : raw ≠ [] := by simpa using he
      simp only [chunksOf, he, Bool.false_eq_true, if_false]
      refine ⟨sizeLine_natToHex _, ?_, ih _⟩
      intro h
      have : (raw.take size).length = 0 := by rw [h]; rfl
      have hpos : 0 < raw.length := List.length_pos_iff.2 hne
      simp only [List.length_take] at this; omega

/-- **the encoder's output is in the decoder's grammar** and decodes (by the grammar's own
    reading) to the encoded body: every body, every chunk size ≥ 1 -/
theorem toChunks_in_grammar (body : Bytes) (n : Nat) (h : n ≠ 0) :
    ∃ s : ChunkedStream, s.Valid ∧ s.decoded = body ∧ Px.Chunk.toChunks body n = .ok s.render :=
  ⟨chunksOf n body.length body, chunksOf_valid n (by omega) _ _,
    chunksOf_decoded n (by omega) _ _ (Nat.le_refl _), toChunks_render body n h⟩

/-- number of chunks written: `⌈len / n⌉` data chunks (plus the last-chunk) -/
def ChunkedStream.count : ChunkedStream → Nat
  | .last _ _ => 0
  | .chunk _ _ _ r => ChunkedStream.count r + 1

theorem chunksOf_count (size : Nat) (hs : 0 < size) (fuel : Nat) (raw : Bytes) (hf : raw.length ≤ fuel) :
    ChunkedStream.count (chunksOf size fuel raw) = (raw.length + size - 1) / size := by
  induction fuel generalizing raw with
  | zero =>
    have : raw.length = 0 := by omega
    simp only [chunksOf, ChunkedStream.count, this, Nat.zero_add]
    exact (Nat.div_eq_of_lt (by omega)).symm
  | succ fuel ih =>
    by_cases he : raw.isEmpty = true
    · have : raw = [] := by simpa using he
      subst this
      simp only [chunksOf, List.isEmpty_nil, if_true, ChunkedStream.count, List.length_nil, Nat.zero_add]
      exact (Nat.div_eq_of_lt (by omega)).symm
    · have hne : raw ≠ [] := by simpa using he
      have hpos : 0 < raw.length := List.length_pos_iff.2 hne
      simp only [chunksOf, he, Bool.false_eq_true, if_false, ChunkedStream.count]
      rw [ih (raw.drop size) (by simp only [List.length_drop]; omega), List.length_drop]
      by_cases hle : size ≤ raw.length
      · have : raw.length + size - 1 = (raw.length - size + size - 1) + size := by omega
        rw [this, Nat.add_div_right _ hs]
      · have h1 : raw.length - size = 0 := by omega
        rw [h1, Nat.zero_add, Nat.div_eq_of_lt (by omega)]
        have : (raw.length + size - 1) / size = 1 := by
          have : raw.length + size - 1 = (raw.length - 1) + size := by omega
          rw [this, Nat.add_div_right _ hs, Nat.div_eq_of_lt (by omega)]
        omega

/-! ### RFC 7230 §4.1 written syntactically -/

/-- HEXDIG -/
def isHexDig (c : UInt8) : Bool := (48 ≤ c && c ≤ 57) || (65 ≤ c && c ≤ 70) || (97 ≤ c && c ≤ 102)

/-- value of a HEXDIG (`0`–`9`, `A`–`F`, `a`–`f`) -/
def hexDigVal (c : UInt8) : Nat :=
  if c ≤ 57 then c.toNat - 48 else if c ≤ 70 then c.toNat - 55 else c.toNat - 87

/-- value of `chunk-size = 1*HEXDIG`, most significant digit first -/
def hexValue (s : Bytes) : Nat := s.foldl (fun a c => a * 16 + hexDigVal c) 0

/-- `chunk-ext = *( ";" chunk-ext-name [ "=" chunk-ext-val ] )`, read loosely as the receiving
    side must: empty, or `;` followed by anything that is not CR / LF -/
def extOk (e : Bytes) : Bool :=
  (e.isEmpty || e.head? == some 59) && e.all (fun c => c != 13 && c != 10)

/-- `chunk = chunk-size [ chunk-ext ] CRLF chunk-data CRLF` with `chunk-size > 0` -/
structure RChunk where
  size : Bytes
  ext : Bytes
  data : Bytes
  deriving DecidableEq, Repr

/-- `chunked-body = *chunk last-chunk CRLF` (no trailer-part), `last-chunk = 1*"0" [ chunk-ext ] CRLF` -/
structure RStream where
  chunks : List RChunk
  lastSize : Bytes
  lastExt : Bytes
  deriving DecidableEq, Repr

def RChunk.ok (c : RChunk) : Bool :=
  !c.size.isEmpty && c.size.all isHexDig && hexValue c.size == c.data.length && !c.data.isEmpty && extOk c.ext

/-- membership in the grammar (decidable) -/
def RStream.ok (s : RStream) : Bool :=
  s.chunks.all RChunk.ok && !s.lastSize.isEmpty && s.lastSize.all (· == 48) && extOk s.lastExt

def RChunk.render (c : RChunk) : Bytes := c.size ++ c.ext ++ CRLF ++ c.data ++ CRLF

/-- the octets of a stream of the grammar -/
def RStream.render (s : RStream) : Bytes :=
  (s.chunks.map RChunk.render).flatten ++ s.lastSize ++ s.lastExt ++ CRLF ++ CRLF

/-- the reference decoder: the decoded body is the concatenation of the chunk-data -/
def refDecode (s : RStream) : Bytes := (s.chunks.map (·.data)).flatten

/-- embedding into the grammar of `ChunkLemmas` -/
def toStreamAux (lastSize lastExt : Bytes) : List RChunk → ChunkedStream
  | [] => .last lastSize lastExt
  | c :: cs => .chunk c.size c.ext c.data (toStreamAux lastSize lastExt cs)

def RStream.toStream (s : RStream) : ChunkedStream := toStreamAux s.lastSize s.lastExt s.chunks

theorem forall_uint8 (P : UInt8 → Prop) (h : ∀ n : Fin 256, P (UInt8.ofNat n.val)) : ∀ c, P c := by
  intro c
  have := h ⟨c.toNat, c.toNat_lt⟩
  simpa using this

theorem hexDig_spec : ∀ c : UInt8, isHexDig c = true →
    isDigitIn 16 c = true ∧ digitVal c = some (hexDigVal c) :=
  forall_uint8 _ (by decide +kernel)

theorem hexValue_eq (s : Bytes) (h : s.all isHexDig = true) (acc : Nat) :
    s.foldl (fun a c => a * 16 + hexDigVal c) acc = digitsVal 16 acc s := by
  induction s generalizing acc with
  | nil => rfl
  | cons c cs ih =>
    simp only [List.all_cons, Bool.and_eq_true] at h
    simp only [List.foldl_cons, digitsVal_cons, (hexDig_spec c h.1).2, Option.getD_some]
    exact ih h.2 _

theorem extOk_noCRLF {sz e : Bytes} (hsz : ∀ c ∈ sz, isDigitIn 16 c = true) (he : extOk e = true) :
    splitCRLF (sz ++ e) = none := by
  apply splitCRLF_none_of_noCR
  intro c hc
  simp only [List.mem_append] at hc
  rcases hc with hc | hc
  · have := (isDigitIn_plain (hsz c hc)).2.1; simpa [CR] using this
  · simp only [extOk, Bool.and_eq_true, List.all_eq_true] at he
    have := he.2 c hc
    simp only [bne_iff_ne, ne_eq] at this
    simpa [CR] using this.1

theorem extOk_head {e : Bytes} (he : extOk e = true) : e = [] ∨ e.head? = some 59 := by
  simp only [extOk, Bool.and_eq_true, Bool.or_eq_true, List.isEmpty_iff, beq_iff_eq] at he
  exact he.1

/-- a syntactic size line is a size line for the decoder: `int(·, 16)` reads 1*HEXDIG as its value -/
theorem sizeLine_of_hexdigs {sz e : Bytes} (hne : sz ≠ []) (hd : sz.all isHexDig = true) (he : extOk e = true) :
    SizeLine sz e (hexValue sz) := by
  have hdig : ∀ c ∈ sz, isDigitIn 16 c = true := fun c hc => (hexDig_spec c (List.all_eq_true.1 hd c hc)).1
  refine ⟨?_, ?_, extOk_noCRLF hdig he, extOk_head he⟩
  · rw [pyInt16_digits sz hne hdig, hexValue, hexValue_eq sz hd]
  · intro h; exact (isDigitIn_plain (hdig _ h)).2.2.2.2.2.1 rfl

theorem hexValue_zeros (s : Bytes) (h : s.all (· == 48) = true) : hexValue s = 0 := by
  unfold hexValue
  induction s with
  | nil => rfl
  | cons c cs ih =>
    simp only [List.all_cons, Bool.and_eq_true, beq_iff_eq] at h
    obtain ⟨rfl, h2⟩ := h
    simp only [List.foldl_cons]
    exact ih h2

theorem zeros_hexdig (s : Bytes) (h : s.all (· == 48) = true) : s.all isHexDig = true := by
  rw [List.all_eq_true] at h ⊢
  intro c hc; have := h c hc; simp only [beq_iff_eq] at this; subst this; decide

theorem toStreamAux_valid (ls le : Bytes) (cs : List RChunk) (hc : cs.all RChunk.ok = true)
    (hl : SizeLine ls le 0) : (toStreamAux ls le cs).Valid := by
  induction cs with
  | nil => exact hl
  | cons c cs ih =>
    simp only [List.all_cons, Bool.and_eq_true] at hc
    obtain ⟨hc1, hc2⟩ := hc
    simp only [RChunk.ok, Bool.and_eq_true, Bool.not_eq_true', List.isEmpty_eq_false_iff, beq_iff_eq] at hc1
    obtain ⟨⟨⟨⟨h1, h2⟩, h3⟩, h4⟩, h5⟩ := hc1
    refine ⟨?_, h4, ih hc2⟩
    rw [← h3]; exact sizeLine_of_hexdigs h1 h2 h5

theorem RStream.toStream_valid (s : RStream) (h : s.ok = true) : s.toStream.Valid := by
  simp only [RStream.ok, Bool.and_eq_true, Bool.not_eq_true', List.isEmpty_eq_false_iff] at h
  obtain ⟨⟨⟨h1, h2⟩, h3⟩, h4⟩ := h
  refine toStreamAux_valid _ _ _ h1 ?_
  have := sizeLine_of_hexdigs h2 (zeros_hexdig _ h3) h4
  rwa [hexValue_zeros _ h3] at this

theorem toStreamAux_render (ls le : Bytes) (cs : List RChunk) :
    (toStreamAux ls le cs).render = (cs.map RChunk.render).flatten ++ ls ++ le ++ CRLF ++ CRLF := by
  induction cs with
  | nil => simp [toStreamAux, ChunkedStream.render]
  | cons c cs ih => simp [toStreamAux, ChunkedStream.render, ih, RChunk.render, List.append_assoc]

theorem toStreamAux_decoded (ls le : Bytes) (cs : List RChunk) :
    (toStreamAux ls le cs).decoded = (cs.map (·.data)).flatten := by
  induction cs with
  | nil => simp [toStreamAux, ChunkedStream.decoded]
  | cons c cs ih => simp [toStreamAux, ChunkedStream.decoded, ih]

/-- **decoder = reference decoder** on every stream of the RFC grammar, any tail preserved -/
theorem decode_rfc (s : RStream) (h : s.ok = true) (tail : Bytes) :
    Px.Chunk.parse Px.Chunk.init (s.render ++ tail) =
      .ok ({ state := .complete, body := refDecode s, chunk := [], size := none }, tail) := by
  have := Px.Chunk.parse_stream s.toStream (s.toStream_valid h) Px.Chunk.init rfl rfl tail
  rw [RStream.toStream, toStreamAux_render, toStreamAux_decoded] at this
  simpa [RStream.render, refDecode, Px.Chunk.init] using this

end Px.Codec
