import PxModel.Bytes
/-
  `WF_response`: a decidable well-formedness predicate for one HTTP/1.x
  response message, written from the RFC 7230 grammar (§3.1.2 status-line,
  §3.2 header fields, §3.3.3 message body length, §4.1 chunked coding) and
  RFC 7231 §4.3.6 (2xx to CONNECT).  It does not use the proxy's own parser
  (`PxModel/Parser.lean`, `Chunk.lean`, `PyInt.lean`); only `Bytes` itself.

  The message must be *exactly* the byte string given: nothing may follow the
  body that the framing announces (a close-delimited body extends to the end).
-/
namespace Px.Wf

def isDigit (c : UInt8) : Bool := 48 ≤ c && c ≤ 57
def isAlpha (c : UInt8) : Bool := (65 ≤ c && c ≤ 90) || (97 ≤ c && c ≤ 122)

/-- `tchar` (RFC 7230 §3.2.6): ``! # $ % & ' * + - . ^ _ ` | ~`` DIGIT ALPHA -/
def isTchar (c : UInt8) : Bool :=
  isDigit c || isAlpha c ||
    c == 33 || c == 35 || c == 36 || c == 37 || c == 38 || c == 39 || c == 42 || c == 43 ||
    c == 45 || c == 46 || c == 94 || c == 95 || c == 96 || c == 124 || c == 126

/-- `token = 1*tchar` -/
def isToken (x : Bytes) : Bool := !x.isEmpty && x.all isTchar

/-- HTAB / SP / VCHAR / obs-text: the bytes of `field-content` and `reason-phrase`
    (no CR, no LF, no other control byte) -/
def isFieldByte (c : UInt8) : Bool := c == 9 || c == 32 || (33 ≤ c && c ≤ 126) || 128 ≤ c

def isOws (c : UInt8) : Bool := c == 32 || c == 9

/-- strip optional whitespace (SP / HTAB) on both sides -/
def trimOWS (x : Bytes) : Bytes := ((x.dropWhile isOws).reverse.dropWhile isOws).reverse

def lowerAscii (c : UInt8) : UInt8 := if 65 ≤ c && c ≤ 90 then c + 32 else c
def lowerB (x : Bytes) : Bytes := x.map lowerAscii

/-- cut at the first CRLF: `(line, rest)` -/
def cutLine : Bytes → Option (Bytes × Bytes)
  | [] => none
  | c :: cs =>
    if c == 13 then
      (match cs with
       | 10 :: r => some ([], r)
       | _ => (cutLine cs).map (fun p => (c :: p.1, p.2)))
    else (cutLine cs).map (fun p => (c :: p.1, p.2))

/-- cut at the first occurrence of a byte -/
def cutAt (sep : UInt8) : Bytes → Option (Bytes × Bytes)
  | [] => none
  | c :: cs => if c == sep then some ([], cs) else (cutAt sep cs).map (fun p => (c :: p.1, p.2))

/-- split at every occurrence of a byte (always ≥ 1 part) -/
def splitAt (sep : UInt8) : Bytes → List Bytes
  | [] => [[]]
  | c :: cs =>
    if c == sep then [] :: splitAt sep cs
    else match splitAt sep cs with
      | [] => [[c]]
      | p :: ps => (c :: p) :: ps

/-- `1*DIGIT` -/
def decNat (x : Bytes) : Option Nat :=
  if !x.isEmpty && x.all isDigit then some (x.foldl (fun a c => a * 10 + (c.toNat - 48)) 0) else none

def hexVal (c : UInt8) : Option Nat :=
  if isDigit c then some (c.toNat - 48)
  else if 97 ≤ c && c ≤ 102 then some (c.toNat - 87)
  else if 65 ≤ c && c ≤ 70 then some (c.toNat - 55)
  else none

/-- `1*HEXDIG` -/
def hexNat (x : Bytes) : Option Nat :=
  if x.isEmpty then none
  else x.foldl (fun a c => match a, hexVal c with
    | some a, some v => some (a * 16 + v)
    | _, _ => none) (some 0)

/-- `status-line = "HTTP/1." DIGIT SP 3DIGIT [ SP reason-phrase ]` (the line without its CRLF);
    returns the status code.  The SP before an empty reason phrase may be missing
    (as accepted by every deployed client and by h11). -/
def statusLine (l : Bytes) : Option Nat :=
  match l with
  | 72 :: 84 :: 84 :: 80 :: 47 :: 49 :: 46 :: v :: 32 :: a :: b :: c :: rest =>
    if isDigit v && isDigit a && isDigit b && isDigit c &&
        (match rest with
         | [] => true
         | s :: reason => s == 32 && reason.all isFieldByte)
    then some ((a.toNat - 48) * 100 + (b.toNat - 48) * 10 + (c.toNat - 48))
    else none
  | _ => none

/-- `header-field = field-name ":" OWS field-value OWS`; returns (lower-cased name, trimmed value) -/
def headerLine (l : Bytes) : Option (Bytes × Bytes) :=
  match cutAt 58 l with
  | none => none
  | some (n, v) => if isToken n && v.all isFieldByte then some (lowerB n, trimOWS v) else none

/-- `*( header-field CRLF ) CRLF`: the header list and what follows the blank line.
    Fuel: one unit per line. -/
def headerBlock : Nat → Bytes → Option (List (Bytes × Bytes) × Bytes)
  | 0, _ => none
  | fuel + 1, x =>
    match cutLine x with
    | none => none
    | some (l, r) =>
      if l.isEmpty then some ([], r)
      else match headerLine l with
        | none => none
        | some h =>
          match headerBlock fuel r with
          | none => none
          | some (hs, body) => some (h :: hs, body)

/-- all values of a header (by lower-case name), in order -/
def values (hs : List (Bytes × Bytes)) (name : Bytes) : List Bytes :=
  (hs.filter (fun e => e.1 == name)).map (·.2)

/-- elements of a comma-separated list value, trimmed, lower-cased, empty elements dropped -/
def listTokens (v : Bytes) : List Bytes :=
  ((splitAt 44 v).map (fun t => lowerB (trimOWS t))).filter (fun t => !t.isEmpty)

def nCL : Bytes := [99, 111, 110, 116, 101, 110, 116, 45, 108, 101, 110, 103, 116, 104]          -- content-length
def nTE : Bytes := [116, 114, 97, 110, 115, 102, 101, 114, 45, 101, 110, 99, 111, 100, 105, 110, 103] -- transfer-encoding
def nConn : Bytes := [99, 111, 110, 110, 101, 99, 116, 105, 111, 110]                            -- connection
def tClose : Bytes := [99, 108, 111, 115, 101]                                                   -- close
def tChunked : Bytes := [99, 104, 117, 110, 107, 101, 100]                                       -- chunked

/-- `Connection: close` announced -/
def hasClose (hs : List (Bytes × Bytes)) : Bool :=
  (values hs nConn).any (fun v => (listTokens v).contains tClose)

/-- the Content-Length fields: `none` = absent, `some none` = present but not `1*DIGIT`
    or conflicting, `some (some n)` = one agreed value -/
def clOf (cls : List Bytes) : Option (Option Nat) :=
  match cls with
  | [] => none
  | v :: rest =>
    match decNat v with
    | none => some none
    | some n => if rest.all (fun w => decNat w == some n) then some (some n) else some none

/-- `chunked-body = *chunk last-chunk trailer-part CRLF` and nothing after it -/
def chunkedOk : Nat → Bytes → Bool
  | 0, _ => false
  | fuel + 1, x =>
    match cutLine x with
    | none => false
    | some (l, r) =>
      let sizeText := match cutAt 59 l with
        | none => l
        | some (s, _) => s
      l.all isFieldByte &&
      (match hexNat (trimOWS sizeText) with
       | none => false
       | some 0 =>
         (match headerBlock (r.length + 1) r with
          | some (_, rest) => rest.isEmpty
          | none => false)
       | some n =>
         n + 2 ≤ r.length && (r.drop n).take 2 == [13, 10] && chunkedOk fuel (r.drop (n + 2)))

/-- which request the response answers (RFC 7230 §3.3.3 needs it) -/
inductive Ctx | connect | other
  deriving DecidableEq, Repr

/-- message body length rules of RFC 7230 §3.3.3 for a response, as a check that the
    bytes after the header section are exactly the announced body -/
def framingOk (ctx : Ctx) (code : Nat) (hs : List (Bytes × Bytes)) (body : Bytes) : Bool :=
  let cl := clOf (values hs nCL)
  let tes := (values hs nTE).flatMap listTokens
  let teAbsent := (values hs nTE).isEmpty
  cl != some none &&
  (if ctx == .connect && 200 ≤ code && code < 300 then
     -- a tunnel follows the header section; no Content-Length / Transfer-Encoding (RFC 7231 §4.3.6)
     cl == none && teAbsent && body.isEmpty
   else if code < 200 || code == 204 || code == 304 then
     -- never a body; a `Content-Length: 0` on 1xx/204 is tolerated here (strictly a
     -- MUST NOT of §3.3.2, see `strictNoCl`), 304 may carry the representation's length
     teAbsent && body.isEmpty && (code == 304 || cl == none || cl == some (some 0))
   else if !teAbsent then
     cl == none && (if tes.getLast? == some tChunked then chunkedOk (body.length + 1) body else hasClose hs)
   else match cl with
     | some (some n) => body.length == n
     | _ => hasClose hs)

/-- **The predicate.**  `x` is exactly one well-formed HTTP/1.x response. -/
def WF_response (ctx : Ctx) (x : Bytes) : Bool :=
  match cutLine x with
  | none => false
  | some (sl, rest) =>
    match statusLine sl with
    | none => false
    | some code =>
      match headerBlock (rest.length + 1) rest with
      | none => false
      | some (hs, body) => 100 ≤ code && framingOk ctx code hs body

/-- RFC 7230 §3.3.2: "A server MUST NOT send a Content-Length header field in any
    response with a status code of 1xx (Informational) or 204 (No Content)". -/
def strictNoCl (x : Bytes) : Bool :=
  match cutLine x with
  | none => false
  | some (sl, rest) =>
    match statusLine sl, headerBlock (rest.length + 1) rest with
    | some code, some (hs, _) => !((code < 200 || code == 204) && !(values hs nCL).isEmpty)
    | _, _ => false

end Px.Wf
