import PxModel.Parser
import PxModel.Build
import PxModel.UpdateBody
import PxModel.DrvParser
/-
  Driver ops of the C15 slice (codecs):
    codec pkt <part,part,…|-> <hdrs> <body|None> <cc>          build_http_pkt
    codec rt <size> <raw>                                     to_chunks then ChunkParser.parse (whole)
    codec upd <REQ|RES> <gz> <body> <ct> <seg> …              parse, update_body, observable + rebuild
-/
namespace Px.Codec

open Px.Parser

def parseParts (s : String) : Option (List Bytes) :=
  if s == "-" then some [] else (s.splitOn ",").mapM unhex

def drv (args : List String) : String :=
  let cfg : Cfg := {}
  match args with
  | ["pkt", parts, hdrs, body, cc] =>
    match parseParts parts, parseHdrList hdrs, optBytes body with
    | some parts, some hdrs, some body => "ok " ++ hex (Px.Build.buildPkt parts hdrs body (cc == "1"))
    | _, _, _ => "bad-op"
  | ["rt", size, raw] =>
    match size.toNat?, unhex raw with
    | some n, some raw =>
      match Px.Chunk.toChunks raw n with
      | .error _ => "exc valueError"
      | .ok x =>
        match Px.Chunk.parse Px.Chunk.init x with
        | .ok (c, r) => s!"ok {chunkStr (some c)} rem={hex r}"
        | .error _ => "exc decode valueError"
    | _, _ => "bad-op"
  | "upd" :: ty :: gz :: body :: ct :: segs =>
    match parseTy ty, unhex gz, unhex body, unhex ct, unhexAll segs with
    | some ty, some gz, some body, some ct, some segs =>
      match parseAll cfg (init ty) segs with
      | .error e => "exc parse " ++ errStr e
      | .ok p =>
        match Px.UpdateBody.updateBody (fun _ => gz) Px.Gen.defaultBufferSize p body ct with
        | .error _ => "exc update valueError"
        | .ok p =>
          let r := match ty with
            | .request => Px.Build.build Px.Gen.defaultBufferSize Px.Gen.defaultDisableHeaders p none none
            | .response => Px.Build.buildResponseOf Px.Gen.defaultBufferSize p
          let bs := match r with
            | .ok x => hex x
            | .error e => "exc-" ++ buildErrStr e
          "ok " ++ obs p ++ " build=" ++ bs
    | _, _, _, _, _ => "bad-op"
  | _ => "bad-op"

end Px.Codec
