import PxModel.Bytes
import PxModel.PyInt
import PxModel.Chunk
import PxModel.Url
import PxModel.Generated
/-
  Model of proxy/http/parser/parser.py (HttpParser.parse and its
  sub-automata, header map, line attributes) as of the current tree
  (with the `fix:` commits D2, D3, D18).  Proxy-protocol parsing
  (--enable-proxy-protocol, off by default) is not modelled.
-/
namespace Px.Parser

open Px.Chunk (Chunk)
open Px.Url (Url)

inductive PState | initialized | lineRcvd | rcvingHeaders | headersComplete | rcvingBody | complete
  deriving DecidableEq, Repr

def PState.num : PState → Nat
  | .initialized => 1 | .lineRcvd => 2 | .rcvingHeaders => 3
  | .headersComplete => 4 | .rcvingBody => 5 | .complete => 6

inductive PType | request | response
  deriving DecidableEq, Repr

inductive Err
  | valueError | indexError | httpProtocol | keyError
  deriving DecidableEq, Repr

/-- Python dict with insertion order; `set` updates in place -/
abbrev Headers := List (Bytes × (Bytes × Bytes))

def hdrSet (h : Headers) (k : Bytes) (v : Bytes × Bytes) : Headers :=
  if h.any (·.1 == k) then h.map (fun e => if e.1 == k then (k, v) else e) else h ++ [(k, v)]

def hdrGet (h : Headers) (k : Bytes) : Option (Bytes × Bytes) :=
  (h.find? (·.1 == k)).map (·.2)

def hdrDel (h : Headers) (k : Bytes) : Headers := h.filter (·.1 != k)

structure Parser where
  ty : PType
  state : PState := .initialized
  host : Option Bytes := none
  port : Option Int := none
  path : Option Bytes := none
  method : Option Bytes := none
  code : Option Bytes := none
  reason : Option Bytes := none
  version : Option Bytes := none
  totalSize : Nat := 0
  buffer : Option Bytes := none
  headers : Option Headers := none
  body : Option Bytes := none
  chunk : Option Chunk := none
  url : Option Url := none
  isChunked : Bool := false
  contentExpected : Bool := false
  isTunnel : Bool := false
  deriving DecidableEq, Repr

def init (ty : PType) : Parser := { ty := ty }

structure Cfg where
  allowedSchemes : List Bytes := Px.Gen.defaultAllowedUrlSchemes
  defaultHttpPort : Nat := Px.Gen.defaultHttpPort
  connectMethod : Bytes := Px.Gen.connectMethod

def hasHeader (p : Parser) (k : Bytes) : Bool :=
  match p.headers with
  | none => false
  | some h => h.any (·.1 == lower k)

def header (p : Parser) (k : Bytes) : Except Err Bytes :=
  match p.headers with
  | none => .error .keyError
  | some h => match hdrGet h (lower k) with
    | some v => .ok v.2
    | none => .error .keyError

def addHeader (p : Parser) (key value : Bytes) : Parser :=
  { p with headers := some (hdrSet (p.headers.getD []) (lower key) (key, value)) }

def delHeader (p : Parser) (k : Bytes) : Parser :=
  match p.headers with
  | none => p
  | some h => if h.isEmpty then p else { p with headers := some (hdrDel h (lower k)) }

def urlErr : Px.Url.Err → Err
  | .indexError => .indexError | .valueError => .valueError | .httpProtocol => .httpProtocol

/-- `_set_line_attributes` for request parsers -/
def setLineAttributes (cfg : Cfg) (p : Parser) (u : Url) : Parser :=
  if p.isTunnel then
    { p with url := some u, host := u.hostname, port := some (u.port.getD 443), path := u.remainder }
  else
    let port : Int := match u.port with
      | some v => if v != 0 then v else Int.ofNat cfg.defaultHttpPort
      | none => Int.ofNat cfg.defaultHttpPort
    { p with url := some u, host := u.hostname, port := some port, path := u.remainder }

/-- `_process_header(line)` -/
def processHeader (p : Parser) (line : Bytes) : Except Err Parser :=
  let (key, value) := match splitOnce1 COLON line with
    | none => (strip line, [])
    | some (k, v) => (strip k, strip v)
  let p := addHeader p key value
  let k := lower key
  if k == b "content-length" then
    match pyInt 10 value with
    | none => .error .valueError
    | some v => .ok { p with contentExpected := decide (v > 0) }
  else if k == b "transfer-encoding" && lower value == b "chunked" then
    .ok { p with isChunked := true }
  else .ok p

/-- `_process_line(raw)`: `(more, raw)` -/
def processLine (cfg : Cfg) (p : Parser) (raw : Bytes) : Except Err (Parser × Bool × Bytes) :=
  match splitCRLF raw with
  | none => .ok (p, false, raw)
  | some (line, rest) =>
    match p.ty with
    | .request =>
      match splitN1 SP 2 line with
      | [m, u, v] =>
        -- `len(parts) == 3 and parts[0]`: an empty method is an invalid request line
        if m.isEmpty then .error .httpProtocol else
        let p := { p with method := some m, isTunnel := p.isTunnel || m == cfg.connectMethod }
        match Px.Url.fromBytes cfg.allowedSchemes u with
        | .error e => .error (urlErr e)
        | .ok url =>
          let p := setLineAttributes cfg p url
          .ok ({ p with version := some v, state := .lineRcvd }, !rest.isEmpty, rest)
      | _ => .error .httpProtocol
    | .response =>
      match splitN1 SP 2 line with
      | [v, c] => .ok ({ p with version := some v, code := some c, state := .lineRcvd }, !rest.isEmpty, rest)
      | [v, c, r] =>
        .ok ({ p with version := some v, code := some c, reason := some r, state := .lineRcvd }, !rest.isEmpty, rest)
      | _ => .error .indexError

/-- `_process_headers(raw)`: consumes header lines until the blank line, the end
    of complete lines, or exhaustion.  Fuel: one unit per line. -/
def processHeaders : Nat → Parser → Bytes → Except Err (Parser × Bool × Bytes)
  | 0, p, raw => .ok (p, !raw.isEmpty, raw)
  | fuel + 1, p, raw =>
    match splitCRLF raw with
    | none => .ok (p, false, raw)
    | some (line, rest) =>
      let step : Except Err Parser :=
        if p.state == .lineRcvd || p.state == .rcvingHeaders then
          (if (strip line).isEmpty then .ok { p with state := .headersComplete }
           else processHeader { p with state := .rcvingHeaders } line)
        else .ok p
      match step with
      | .error e => .error e
      | .ok p =>
        if rest.isEmpty || p.state == .headersComplete then .ok (p, !rest.isEmpty, rest)
        else processHeaders fuel p rest

def chunkErr : Px.Chunk.Err → Err
  | .valueError => .valueError

/-- `_process_body(raw)` -/
def processBody (p : Parser) (raw : Bytes) : Except Err (Parser × Bool × Bytes) :=
  if p.isChunked then
    let c := p.chunk.getD Px.Chunk.init
    match Px.Chunk.parse c raw with
    | .error e => .error (chunkErr e)
    | .ok (c, rest) =>
      let p := { p with chunk := some c }
      let p := if c.state == .complete then { p with body := some c.body, state := .complete } else p
      .ok (p, false, rest)
  else if p.contentExpected then
    let body := p.body.getD []
    match header p (b "content-length") with
    | .error e => .error e
    | .ok clv =>
      match pyInt 10 clv with
      | none => .error .valueError
      | some cl =>
        -- `raw[:total_size - received_size]` with Python slice semantics
        let n : Int := cl - Int.ofNat body.length
        let takeN : Nat := if n ≥ 0 then n.toNat else raw.length - (-n).toNat
        let body' := body ++ raw.take takeN
        let st := if !body'.isEmpty && Int.ofNat body'.length == cl then PState.complete else PState.rcvingBody
        .ok ({ p with state := st, body := some body' }, !raw.isEmpty, raw.drop takeN)
  else
    -- no content-length, no transfer-encoding: consume the rest as body
    .ok ({ p with state := .rcvingBody, body := some raw }, false, [])

/-- one iteration of the `while more and state != COMPLETE` loop of `parse` -/
def stepOnce (cfg : Cfg) (p : Parser) (raw : Bytes) : Except Err (Parser × Bool × Bytes) :=
  let r : Except Err (Parser × Bool × Bytes) :=
    if p.state.num ≥ PState.headersComplete.num then processBody p raw
    else if p.state == .initialized then processLine cfg p raw
    else processHeaders (raw.length + 1) p raw
  match r with
  | .error e => .error e
  | .ok (p, more, raw) =>
    if p.ty == .response && p.state == .lineRcvd && raw == CRLF then
      .ok ({ p with state := .complete }, more, [])
    else if p.state == .headersComplete && !(p.contentExpected || p.isChunked) &&
        (raw.isEmpty || p.ty == .request || hasHeader p (b "content-length")) then
      .ok ({ p with state := .complete }, more, raw)
    else .ok (p, more, raw)

def loop (cfg : Cfg) : Nat → Parser → Bool → Bytes → Except Err (Parser × Bytes)
  | 0, p, _, raw => .ok (p, raw)
  | fuel + 1, p, more, raw =>
    if !more || p.state == .complete then .ok (p, raw)
    else match stepOnce cfg p raw with
      | .error e => .error e
      | .ok (p, more, raw) => loop cfg fuel p more raw

/-- `HttpParser.parse(raw)`.  Fuel: the loop runs at most a handful of times
    per call (line, headers, body, one extra body round); `raw.length + 8` is a
    generous bound. -/
def parse (cfg : Cfg) (p : Parser) (raw : Bytes) : Except Err Parser :=
  let size := raw.length
  let p := { p with totalSize := p.totalSize + size }
  let raw := match p.buffer with
    | some bf => if bf.isEmpty then raw else bf ++ raw
    | none => raw
  let p := { p with buffer := none }
  match loop cfg (raw.length + 8) p (size > 0) raw with
  | .error e => .error e
  | .ok (p, raw) => .ok { p with buffer := if raw.isEmpty then none else some raw }

/-- feed several pieces in order -/
def parseAll (cfg : Cfg) (p : Parser) : List Bytes → Except Err Parser
  | [] => .ok p
  | x :: xs => match parse cfg p x with
    | .error e => .error e
    | .ok p => parseAll cfg p xs

end Px.Parser
