"""C08 — proxy authentication: correspondence of PxModel/Auth.lean + PluginChain.lean with the REAL
AuthPlugin / FlagParser / HttpProtocolHandler + HttpProxyPlugin driven in-process (simulator of
harness/c09.py), and the property oracle.

Two kinds of case:
 * run cases (format of harness/c09.py): {'auth', 'dis', 'plugins', 'evs'} — a whole connection on the
   real handler: configured credentials x Proxy-Authorization variants x methods x target forms x
   segmentations x with / without extra recording plugins x follow-up requests;
 * {'kind': 'av', 'auth': 'user:pass'|None, 'lines': [header line, ...]} — the real AuthPlugin's
   before_upstream_connection on a request parsed by the real HttpParser from these header lines
   (verdict pass / ProxyAuthenticationFailed), against Auth.check on the model's header map.
"""
import base64
import logging

from harness.common import hx
from harness import c09
from harness.c09 import L, simulate, cred_ok, req_bytes, req_fields, segments, tok_parts, is_call

PROPERTY = 'C08'
LEAN_TARGETS = ['PxProofs.C08']
THEOREMS = [
    'Px.Chain.C08_reject', 'Px.Chain.C08_reject_effects', 'Px.Chain.C08_accept', 'Px.Chain.C08_auth_off',
    'Px.Chain.C08_accept_shape', 'Px.Chain.C08_dup_last_wins', 'Px.Chain.C08_absent', 'Px.Chain.C08_response',
    'Px.Chain.C08_reject_conn', 'Px.Chain.C08_order_model', 'Px.Chain.C08_order',
    'Px.Chain.C08_strip_first', 'Px.Chain.C08_strip_pipeline', 'Px.Chain.C08_strip_later',
    'Px.Chain.C08_no_smuggling', 'Px.Chain.C08_first_request_upgrade_still_stripped', 'Px.Chain.C08_clean_build',
]
RULE = ('configured credentials x Proxy-Authorization variants (absent, other schemes, wrong / truncated / extended / '
        're-encoded tokens, blanks, parameters, duplicated lines, name and scheme casing, look-alike names) x methods '
        '(CONNECT included) x target forms x segmentations x 0..3 recording plugins x follow-up requests, on the real '
        'handler and on the model; plus the real AuthPlugin on header-line lists; distinct by canonical JSON; '
        'non-trivial = authentication configured and the first request is a proxy request')
ASSUMPTIONS = [
    'the specification of "exactly the configured credentials" is credOk: the header value split at blanks is '
    '[scheme, token] with scheme = basic in any case and token = base64(user:pass) byte for byte; the header name is '
    'matched after strip().lower(); of duplicated lines the last one counts (parser dict semantics, C08_dup_last_wins)',
    'the request line / URL / body parser is outside this model (harness hands the model the request fields it '
    'generated; header lines are parsed by the model); requests are well formed, reads may carry several complete requests',
    '"no request-handling hook of a later plugin": the lifecycle callbacks on_access_log / '
    'on_upstream_connection_close of every plugin do run when the rejected connection closes (C09)',
    'TLS interception, connection pool, events, PROXY protocol off; --auth-plugin is the default AuthPlugin',
    'C08_strip_*: what is stripped is the header-map entry filed under proxy-authorization; a plugin that files the '
    'credentials under another key is outside the claim',
]
EXHAUSTIVE = {}
EXPLANATION = ('theorems quantify over all credentials, header maps, requests, plugin lists and event sequences; '
               'the tiers tie the model to the code')

logging.disable(logging.CRITICAL)

CREDS = ['user:pass', 'a:b', 'admin:s3cr3t:with:colons', 'x:', 'üser:päss', 'u' * 40 + ':' + 'p' * 37]
NAMES = ['Proxy-Authorization', 'proxy-authorization', 'PROXY-AUTHORIZATION', 'pRoXy-AuThOrIzAtIoN',
         'Proxy-Authorization ', ' Proxy-Authorization\t']
LOOKALIKE = ['Authorization', 'Proxy-Authorisation', 'X-Proxy-Authorization', 'Proxy-Authorization-X', 'Proxy_Authorization']


def code_of(auth):
    return base64.b64encode(auth.encode()).decode()


def value_variants(auth, rng):
    """(kind, header value) pairs; kinds starting with 'ok' are expected to authenticate"""
    c = code_of(auth)
    other = code_of('user:wrong' if auth != 'user:wrong' else 'user:other')
    raw = auth.encode()
    out = [
        ('ok', 'Basic ' + c), ('ok-case', 'basic ' + c), ('ok-case', 'BASIC ' + c), ('ok-case', 'bAsIc ' + c),
        ('ok-ws', 'Basic    ' + c), ('ok-ws', 'Basic\t' + c), ('ok-ws', '  Basic ' + c + '  '),
        ('ok-ws', 'Basic\x0b' + c), ('ok-ws', '\tBasic \x0c ' + c + '\t'),
        ('scheme', 'Bearer ' + c), ('scheme', 'Digest ' + c), ('scheme', 'Negotiate ' + c), ('scheme', 'Basi ' + c),
        ('scheme', 'Basicc ' + c), ('scheme', 'Basic: ' + c), ('scheme', 'Basic= ' + c), ('scheme', 'NTLM ' + c),
        ('wrong', 'Basic ' + other), ('wrong', 'Basic ' + code_of(auth + ' ')), ('wrong', 'Basic ' + code_of(' ' + auth)),
        ('wrong', 'Basic ' + code_of(auth.swapcase())), ('wrong', 'Basic ' + code_of(auth.split(':')[0])),
        ('trunc', 'Basic ' + c[:-1]), ('trunc', 'Basic ' + c[:-2]), ('trunc', 'Basic ' + c[1:]),
        ('trunc', 'Basic ' + c.rstrip('=')), ('trunc', 'Basic ' + c[:len(c) // 2]),
        ('ext', 'Basic ' + c + '='), ('ext', 'Basic ' + c + 'A'), ('ext', 'Basic A' + c), ('ext', 'Basic ' + c + c),
        ('ext', 'Basic ' + c + '\x00'), ('ext', 'Basic "' + c + '"'),
        ('reenc', 'Basic ' + c.lower()), ('reenc', 'Basic ' + c.upper()),
        ('reenc', 'Basic ' + base64.urlsafe_b64encode(raw).decode().rstrip('=')),
        ('reenc', 'Basic ' + raw.hex()), ('reenc', 'Basic ' + base64.b64encode(c.encode()).decode()),
        ('reenc', 'Basic ' + base64.b32encode(raw).decode()), ('reenc', 'Basic ' + auth.encode().decode('latin-1')),
        ('reenc', 'Basic ' + base64.b64encode(auth.encode('utf-16-le')).decode()),
        ('split', 'Basic ' + c[:4] + ' ' + c[4:]), ('split', 'Basic ' + c[:3] + '\t' + c[3:]),
        ('param', 'Basic ' + c + '; realm="x"'), ('param', 'Basic ' + c + ', x=y'), ('param', 'Basic realm="x" ' + c),
        ('param', 'Basic ' + c + ' extra'), ('param', 'Basic ' + c + ' ' + c), ('param', 'Basic Basic ' + c),
        ('short', 'Basic' + c), ('short', 'Basic'), ('short', c), ('short', ''), ('short', ' '), ('short', 'Basic '),
    ]
    return out


def cred_lines(auth, rng, force=None):
    """header lines carrying (or not) credentials: (kind, [lines])"""
    vs = value_variants(auth, rng)
    r = rng.random() if force is None else force
    if r < 0.08:
        return 'absent', []
    if r < 0.14:
        k, v = rng.choice(vs)
        return 'lookalike', [rng.choice(LOOKALIKE) + ': ' + v]
    if r < 0.30:
        (k1, v1), (k2, v2) = rng.choice(vs), rng.choice(vs)
        if rng.random() < 0.5:
            v1 = 'Basic ' + code_of(auth)
        else:
            v2 = 'Basic ' + code_of(auth)
        return 'dup', [rng.choice(NAMES) + ':' + rng.choice(['', ' ']) + v1, rng.choice(NAMES) + ': ' + v2]
    k, v = rng.choice(vs)
    return k, [rng.choice(NAMES) + ':' + rng.choice(['', ' ', '  ', '\t']) + v]


UPGRADE_OFFERS = [
    ['Connection: Upgrade', 'Upgrade: websocket', 'Sec-WebSocket-Key: dGhlIHNhbXBsZSBub25jZQ==', 'Sec-WebSocket-Version: 13'],
    ['Connection: upgrade', 'Upgrade: WebSocket'],
    ['Connection: Upgrade, HTTP2-Settings', 'Upgrade: h2c', 'HTTP2-Settings: AAMAAABkAAQCAAAAAAIAAAAA'],
    ['Connection: keep-alive, Upgrade', 'Upgrade: h2c'],
    ['connection: UPGRADE', 'upgrade: TLS/1.2, HTTP/1.1'],
    ['Upgrade: derp', 'Connection: Upgrade'],
]

METHODS = ['GET', 'POST', 'PUT', 'DELETE', 'HEAD', 'OPTIONS', 'PATCH', 'TRACE', 'PROPFIND', 'CONNECT', 'CONNECT']


def mk_first(rng, auth, lines):
    m = rng.choice(METHODS)
    host = rng.choice(['example.org', 'h', '10.1.2.3', 'a.b.c'])
    if m == 'CONNECT':
        req = {'m': m, 'form': 'auth', 'host': host, 'port': rng.choice([443, 8443, None]), 'path': '',
               'v': rng.choice(['HTTP/1.1', 'HTTP/1.0']), 'h': [], 'b': ''}
    else:
        form = rng.choice(['abs', 'abs', 'abscred', 'slashes', 'auth'])
        req = {'m': m, 'form': form, 'host': host,
               'port': rng.choice([None, 80, 8080]) if form != 'auth' else rng.choice([80, 3128]),
               'path': rng.choice(['/', '/x', '/a/b?c=d', '']) if form != 'auth' else '',
               'v': rng.choice(['HTTP/1.1', 'HTTP/1.1', 'HTTP/1.0']), 'h': [], 'b': ''}
    hs = ['Host: ' + host] + rng.sample(['User-Agent: t/1', 'Accept: */*', 'Proxy-Connection: keep-alive', 'X-Drop: 1',
                                         'Authorization: Basic b3JpZ2luOmNyZWRz', 'Cookie: a=b'], rng.randrange(0, 4))
    if m in ('POST', 'PUT', 'PATCH') and rng.random() < 0.6:
        req['b'] = rng.choice(['a', 'k=v&x=y'])
        hs.append('Content-Length: %d' % len(req['b']))
    # credentials anywhere among the header lines, duplicates keep their relative order
    pos = sorted(rng.randrange(len(hs) + 1) for _ in lines)
    for off, (p, l) in enumerate(zip(pos, lines)):
        hs.insert(p + off, l)
    req['h'] = hs
    return req


def quiet_plugins(rng):
    n = rng.choice([0, 0, 1, 2, 3])
    out = []
    for l in rng.sample(range(6), n):
        out.append([l] + [rng.choice(['P', 'P', 'M']) for _ in range(5)] + ['P'])
    return out


def follow_req(rng, auth):
    fk, fl = cred_lines(auth, rng)
    if rng.random() < 0.5:
        fl = fl + ['Proxy-Connection: keep-alive']
    fr = mk_first(rng, auth, fl)
    if fr['m'] == 'CONNECT':
        fr['m'] = 'GET'
        fr['form'], fr['path'] = 'abs', '/t'
    return fr


def mk_run(rng, auth=None, force=None, bytewise=False):
    auth = auth or rng.choice(CREDS)
    kind, lines = cred_lines(auth, rng, force)
    req = mk_first(rng, auth, lines)
    raw = req_bytes(req)
    if bytewise:
        cuts = list(range(1, len(raw)))
    else:
        cuts = c09.mk_cuts(rng, len(raw), 0.5)
    if req['m'] != 'CONNECT' and rng.random() < 0.12 and not bytewise:
        # the first request offers a protocol upgrade (websocket / h2c); the origin need not take it, and the
        # later requests of the connection are ordinary ones that must still lose their proxy headers
        req['h'] += rng.choice(UPGRADE_OFFERS)
        req['v'] = 'HTTP/1.1'
        kind = kind + '+upgrade-offer'
        raw = req_bytes(req)
        cuts = c09.mk_cuts(rng, len(raw), 0.5)
    evs = [['F', req, rng.random() < 0.95, cuts]]
    if rng.random() < 0.08 and not bytewise:
        evs[0].append([follow_req(rng, auth)])           # a follow-up packed behind the first request
    for _ in range(rng.randrange(0, 5)):
        x = rng.random()
        if x < 0.4:
            fr = follow_req(rng, auth)
            ev = ['C', fr, c09.mk_cuts(rng, len(req_bytes(fr)), 0.3)]
            if rng.random() < 0.3:
                # several follow-up requests, each with its own proxy headers, written back to back
                ev.append([follow_req(rng, auth) for _ in range(rng.randrange(1, 4))])
            evs.append(ev)
        elif x < 0.6:
            evs.append(['U', b'HTTP/1.1 200 OK\r\nContent-Length: 2\r\n\r\nhi'.hex()])
        elif x < 0.9:
            evs.append(['FL'])
        else:
            evs.append([rng.choice(['CE', 'UE', 'CA'])])
    plugins = quiet_plugins(rng)
    if rng.random() < 0.05:
        plugins.insert(rng.randrange(len(plugins) + 1), ['A'])
    case = {'auth': auth, 'dis': rng.choice([[], [], ['x-drop'], ['proxy-authorization']]), 'plugins': plugins,
            'evs': evs, 'vk': kind}
    if rng.random() < 0.10 and not bytewise:
        # small --client-recvbuf-size: the recv that completes the (mostly rejected) first request returns
        # exactly a full buffer and more client bytes (further requests) are already waiting in the socket
        n = rng.choice([64, 128])
        case['rbuf'] = n
        ev = evs[0]
        if rng.random() < 0.8:
            ev[1] = c09.pad_req(ev[1], n)
        ev[3] = []
        extra = [follow_req(rng, auth) for _ in range(rng.randrange(1, 3))]
        if len(ev) > 4:
            ev[4] = extra
        else:
            ev.append(extra)
        if not case['plugins']:
            case['plugins'] = [[1, 'P', 'P', 'P', 'P', 'P', 'P']]
    return case


def av_impl(case):
    from proxy.common.flag import FlagParser
    from proxy.http.parser import HttpParser
    from proxy.http.proxy.auth import AuthPlugin
    from proxy.http.exception import ProxyAuthenticationFailed
    opts = {} if case['auth'] is None else {'basic_auth': case['auth']}
    key = repr(case['auth'])
    if key not in _AV_FLAGS:
        _AV_FLAGS[key] = FlagParser.initialize(['--hostname', '127.0.0.1'], threadless=True, **opts)
    flags = _AV_FLAGS[key]
    raw = b'GET http://h/ HTTP/1.1\r\n' + b''.join(L(l) + b'\r\n' for l in case['lines']) + b'\r\n'
    req = HttpParser.request(raw)
    plugin = AuthPlugin('uid', flags, None, None, None)
    try:
        r = plugin.before_upstream_connection(req)
    except ProxyAuthenticationFailed:
        return ['fail']
    return ['pass' if r is req else 'other']


_AV_FLAGS = {}


def impl(case):
    if case.get('kind') == 'av':
        return av_impl(case)
    return c09.impl(case)


def model_lines(case):
    if case.get('kind') == 'av':
        auth = 'None' if case['auth'] is None else hx(case['auth'].encode())
        return ['chain authreq %s %s' % (auth, '|'.join(hx(L(l)) for l in case['lines']) or '-')]
    return c09.model_lines(case)


def in_quantifier(case):
    if case.get('kind') == 'av':
        return bool(case['auth'])
    return bool(case['auth']) and bool(case['evs']) and case['evs'][0][0] == 'F'


def all_reqs(case):
    out = []
    for e in case['evs']:
        if e[0] in ('F', 'C'):
            out.append(e[1])
            extra = e[4] if e[0] == 'F' and len(e) > 4 else e[3] if e[0] == 'C' and len(e) > 3 else []
            out += extra
    return out


def hdr_names(raw):
    """lower-cased header names of every request head found in a forwarded byte stream"""
    names = []
    for head in raw.split(b'\r\n\r\n'):
        for line in head.split(b'\r\n')[0:]:
            if b':' in line:
                names.append(line.split(b':', 1)[0].strip().lower())
    return names


def oracle(case):
    """C08 itself, on the implementation only"""
    if not in_quantifier(case):
        return None
    if case.get('kind') == 'av':
        want = cred_ok(case, {'h': case['lines']})
        got = av_impl(case)[0]
        return None if got == ('pass' if want else 'fail') else 'auth-plugin-verdict-differs-from-specification'
    from proxy.http.responses import PROXY_AUTH_FAILED_RESPONSE_PKT, PROXY_TUNNEL_ESTABLISHED_RESPONSE_PKT
    order, groups, sd = simulate(case, drain=True)
    if not order or order[0] != 'A':
        return 'auth-plugin-not-first'
    ev = case['evs'][0]
    req = ev[1]
    ok = cred_ok(case, req)
    allcl = b''.join(g[2] for g in groups)
    allup = b''.join(g[1] for g in groups)
    conns = [t for g in groups for t in g[0] if t.startswith('conn.')]
    lost = any(e[0] == 'CA' for e in case['evs'])
    code = base64.b64encode(case['auth'].encode())
    if not ok:
        pkt = bytes(PROXY_AUTH_FAILED_RESPONSE_PKT)
        if conns:
            return 'unauthenticated-request-caused-connect'
        if allup:
            return 'unauthenticated-request-bytes-forwarded'
        for g in groups:
            for t in g[0]:
                if is_call(t):
                    label, hook, _ = tok_parts(t)
                    if not (label == 'A' and hook == 'before'):
                        return 'hook-ran-for-unauthenticated-request'
        if allcl != pkt and not (lost and pkt.startswith(allcl)):
            return 'client-did-not-get-exactly-the-407'
        if not any(g[3] for g in groups):
            return 'unauthenticated-connection-not-closed'
        return None
    # right credentials: served, credentials never forwarded
    a_calls = [t for t in groups[0][0] if t.startswith('cA.before.')]
    if len(a_calls) != 1:
        return 'auth-plugin-not-consulted-once'
    quiet = all(p == ['A'] or all(a in ('P', 'M') for a in p[1:6]) and p[6] == 'P' for p in case['plugins'])
    host, port, path, tunnel = req_fields(req)
    if quiet:
        want = 'conn.%s.%d' % (hx(host.encode()), port)
        if conns != [want]:
            return 'authenticated-request-not-connected-to-its-target'
        if not ev[2]:
            return None
        if tunnel:
            pkt = bytes(PROXY_TUNNEL_ESTABLISHED_RESPONSE_PKT)
            if not allcl.startswith(pkt) and not (lost and pkt.startswith(allcl)):
                return 'tunnel-not-acknowledged'
        elif not groups[0][1]:
            return 'authenticated-request-not-forwarded'
    if not tunnel:
        if b'proxy-authorization' in hdr_names(allup):
            return 'proxy-authorization-forwarded-to-origin'
        elsewhere = any(code in L(h) for r in all_reqs(case) for h in r['h']
                        if L(h).split(b':', 1)[0].strip(c09.WS).lower() != b'proxy-authorization')
        if code in allup and not elsewhere:
            return 'credentials-forwarded-to-origin'
    return None


def corpus():
    import random
    rng = random.Random(8)
    cs = []
    auth = 'user:pass'
    c = code_of(auth)
    base = lambda m, lines: {'m': m, 'form': 'auth' if m == 'CONNECT' else 'abs', 'host': 'example.org',
                             'port': 443 if m == 'CONNECT' else None, 'path': '' if m == 'CONNECT' else '/x',
                             'v': 'HTTP/1.1', 'h': ['Host: example.org'] + lines, 'b': ''}
    rec = [[1, 'P', 'P', 'P', 'P', 'P', 'P'], [0, 'M', 'M', 'M', 'M', 'M', 'P']]
    for m in ('GET', 'CONNECT', 'POST'):
        for lines in ([], ['Proxy-Authorization: Basic ' + c], ['proxy-authorization:bAsIc   ' + c + ' '],
                      ['Proxy-Authorization: Basic ' + c[:-1]], ['Proxy-Authorization: Bearer ' + c],
                      ['Proxy-Authorization: Basic ' + c + '; realm=x'],
                      ['Proxy-Authorization: Basic ' + c, 'PROXY-AUTHORIZATION: Basic ' + c.lower()],
                      ['Proxy-Authorization: Basic ' + c.lower(), 'PROXY-AUTHORIZATION : Basic ' + c],
                      ['Authorization: Basic ' + c]):
            for plugins in ([], rec):
                req = base(m, lines)
                fol = dict(base('GET', ['Proxy-Authorization: Basic ' + c, 'Proxy-Connection: keep-alive']), path='/two')
                cs.append({'auth': auth, 'dis': [], 'plugins': plugins, 'vk': 'corpus',
                           'evs': [['F', req, True, []], ['FL'], ['C', fol, []], ['U', '6869'], ['FL'], ['CE']]})
    good = ['Proxy-Authorization: Basic ' + c, 'Proxy-Connection: keep-alive']
    two, three, four = (dict(base('GET', good), path='/' + w) for w in ('two', 'three', 'four'))
    for plugins in ([], rec):
        cs.append({'auth': auth, 'dis': [], 'plugins': plugins, 'vk': 'packed',
                   'evs': [['F', base('GET', good), True, []], ['C', two, [], [three, four]], ['FL'], ['C', four, []], ['CE']]})
        cs.append({'auth': auth, 'dis': [], 'plugins': plugins, 'vk': 'packed',
                   'evs': [['F', base('GET', good), True, [9], [two]], ['C', three, [30], [four]], ['CE']]})
        cs.append({'auth': auth, 'dis': [], 'plugins': plugins, 'vk': 'packed',
                   'evs': [['F', base('POST', good + ['Content-Length: 3']) | {'b': 'abc'}, True, [], [two, three]], ['CE']]})
    # first request with an upgrade offer, then ordinary authenticated follow-ups (one per write, and packed)
    for offer in UPGRADE_OFFERS:
        for plugins in ([], rec):
            cs.append({'auth': auth, 'dis': [], 'plugins': plugins, 'vk': 'upgrade-offer',
                       'evs': [['F', base('GET', good + offer), True, []],
                               ['U', b'HTTP/1.1 200 OK\r\nContent-Length: 2\r\n\r\nok'.hex()], ['FL'],
                               ['C', two, []], ['C', three, [25], [four]], ['CE']]})
        cs.append({'auth': auth, 'dis': [], 'plugins': rec, 'vk': 'upgrade-offer',
                   'evs': [['F', base('GET', good + offer), True, [11], [two, three]], ['C', four, []], ['UE']]})
    for n in (64, 128):
        for lines in ([], ['Proxy-Authorization: Basic ' + c[:-1]], good):
            cs.append({'auth': auth, 'dis': [], 'plugins': rec, 'vk': 'recvbuf', 'rbuf': n,
                       'evs': [['F', c09.pad_req(base('GET', lines), n), True, [], [two, three]], ['FL'], ['FL']]})
    raw = req_bytes(base('GET', []))
    cs.append({'auth': auth, 'dis': [], 'plugins': rec, 'vk': 'corpus',
               'evs': [['F', base('GET', []), True, list(range(1, len(raw)))], ['FL']]})
    for lines in ([], ['Proxy-Authorization: Basic ' + c], ['Proxy-Authorization: basic\t' + c, 'X: y'],
                  ['Proxy-Authorization'], ['Proxy-Authorization:'], ['Proxy-Authorization: Basic ' + c + ' x']):
        cs.append({'kind': 'av', 'auth': auth, 'lines': lines})
        cs.append({'kind': 'av', 'auth': None, 'lines': lines})
    return cs


def generate(rng, tier):
    big = tier == 'thorough'
    # every value variant x every header-name spelling, as unit cases on the real AuthPlugin
    for auth in CREDS:
        for kind, v in value_variants(auth, rng):
            for name in (NAMES if big else rng.sample(NAMES, 2)):
                for sep in ((':', ': ', ':\t ') if big else (': ',)):
                    yield {'kind': 'av', 'auth': auth, 'lines': ['Host: h', name + sep + v]}
            yield {'kind': 'av', 'auth': auth, 'lines': [rng.choice(LOOKALIKE) + ': ' + v, 'Host: h']}
        for _ in range(40 if not big else 400):
            (k1, v1), (k2, v2) = rng.choice(value_variants(auth, rng)), rng.choice(value_variants(auth, rng))
            yield {'kind': 'av', 'auth': auth, 'lines': [rng.choice(NAMES) + ': ' + v1, 'X-Mid: 1', rng.choice(NAMES) + ':' + v2]}
    # random byte-level mutations of the right header value
    for _ in range(300 if not big else 6000):
        auth = rng.choice(CREDS)
        v = bytearray(b'Basic ' + code_of(auth).encode())
        for _ in range(rng.randrange(1, 3)):
            op = rng.randrange(4)
            i = rng.randrange(len(v))
            if op == 0:
                v[i] = rng.choice(b' \t\x0b\x0cAb=/+.;,"\x00\x7f\xe9')
            elif op == 1:
                v.insert(i, rng.choice(b' \t\x0b\x0cAb=;'))
            elif op == 2:
                del v[i]
            else:
                v[i] = v[i] ^ 0x20
        yield {'kind': 'av', 'auth': auth, 'lines': ['Proxy-Authorization: ' + bytes(v).decode('latin-1')]}
    # whole connections
    for _ in range(1500 if not big else 25000):
        yield mk_run(rng)
    for _ in range(10 if not big else 150):
        yield mk_run(rng, bytewise=True)
    # every variant as first request of a connection, once per method class
    for auth in (CREDS if big else CREDS[:2]):
        for kind, v in value_variants(auth, rng):
            c = mk_run(rng, auth, force=0.9)
            req = c['evs'][0][1]
            req['h'] = [h for h in req['h'] if not h.lower().lstrip().startswith('proxy-authorization')]
            req['h'].insert(rng.randrange(len(req['h']) + 1), rng.choice(NAMES) + ': ' + v)
            c['evs'][0][3] = c09.mk_cuts(rng, len(req_bytes(req)), 0.5)
            c['vk'] = kind
            yield c


def neighbours(case):
    if case.get('kind') == 'av':
        return
    for i in range(len(case['evs'])):
        yield dict(case, evs=case['evs'][:i + 1])
    yield dict(case, plugins=[])


def search(rng):
    return [mk_run(rng) for _ in range(1200)] + corpus()


def describe(case):
    if case.get('kind') == 'av':
        return ['av', 'av-spec=%s' % ('ok' if cred_ok(case, {'h': case['lines']}) else 'reject')]
    req = case['evs'][0][1]
    return ['run', 'variant=' + case.get('vk', '?'), 'method=' + req['m'], 'form=' + req['form'],
            'segments=%d' % (len(case['evs'][0][3]) + 1 if len(case['evs'][0][3]) < 4 else 9),
            'plugins=%d' % len(case['plugins']), 'spec=%s' % ('ok' if cred_ok(case, req) else 'reject'),
            'followups=%d' % sum(1 for e in case['evs'] if e[0] == 'C'), 'recvbuf=%s' % case.get('rbuf'),
            'packed=%d' % sum(len(e[-1]) for e in case['evs'] if e[0] in ('F', 'C') and isinstance(e[-1], list)
                              and e[-1] and isinstance(e[-1][0], dict))]


def nontrivial(case):
    return in_quantifier(case)
