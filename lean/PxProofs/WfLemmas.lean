import PxModel.WfResponse
import PxModel.Build
/-! Helper lemmas for C06: the RFC 7230 checker `WF_response` reads back what
    `Px.Build.buildPkt` prints (line by line), decimal rendering, and the
    `Content-Length` / `Connection` bookkeeping of `dSet`. -/
namespace Px.Wf

open Px.Build

/-! ### byte classes -/

theorem forall_u8 (P : UInt8 → Bool) (h : (List.range 256).all (fun n => P (UInt8.ofNat n)) = true) :
    ∀ c : UInt8, P c = true := by
  intro c
  have := List.all_eq_true.mp h c.toNat (by simp [List.mem_range]; exact c.toNat_lt)
  simpa using this

theorem tchar_facts : ∀ c : UInt8,
    (!isTchar c || (c != 13 && c != 58 && isFieldByte c && !isOws c)) = true :=
  forall_u8 _ (by decide +kernel)

theorem field_facts : ∀ c : UInt8, (!isFieldByte c || (c != 13 && c != 10)) = true :=
  forall_u8 _ (by decide +kernel)

theorem digit_facts : ∀ c : UInt8, (!isDigit c || (isFieldByte c && !isOws c && c != 13)) = true :=
  forall_u8 _ (by decide +kernel)

theorem lower_same : ∀ c : UInt8, (lowerAscii c == Px.lowerByte c) = true :=
  forall_u8 _ (by decide +kernel)

theorem lowerB_eq (x : Bytes) : lowerB x = Px.lower x := by
  unfold lowerB Px.lower
  apply List.map_congr_left
  intro c _
  simpa using lower_same c

theorem tchar_ne13 {c : UInt8} (h : isTchar c = true) : c ≠ 13 := by
  have := tchar_facts c; simp [h] at this; exact this.1.1.1
theorem tchar_ne58 {c : UInt8} (h : isTchar c = true) : c ≠ 58 := by
  have := tchar_facts c; simp [h] at this; exact this.1.1.2
theorem field_ne13 {c : UInt8} (h : isFieldByte c = true) : c ≠ 13 := by
  have := field_facts c; simp [h] at this; exact this.1

/-! ### cutting -/

theorem cutLine_render (l r : Bytes) (h : ∀ c ∈ l, c ≠ 13) : cutLine (l ++ 13 :: 10 :: r) = some (l, r) := by
  induction l with
  | nil => simp [cutLine]
  | cons c t ih =>
    have hc : c ≠ 13 := h c (by simp)
    have := ih (fun x hx => h x (by simp [hx]))
    simp [cutLine, hc, this]

theorem cutAt_render (sep : UInt8) (k r : Bytes) (h : ∀ c ∈ k, c ≠ sep) : cutAt sep (k ++ sep :: r) = some (k, r) := by
  induction k with
  | nil => simp [cutAt]
  | cons c t ih =>
    have hc : c ≠ sep := h c (by simp)
    have := ih (fun x hx => h x (by simp [hx]))
    simp [cutAt, hc, this]

theorem dropWhile_none {p : UInt8 → Bool} (x : Bytes) (h : ∀ c ∈ x, p c = false) : x.dropWhile p = x := by
  cases x with
  | nil => rfl
  | cons c t => simp [List.dropWhile, h c (by simp)]

/-- a value without SP/HTAB at either end (here: none at all) is what `Name: SP value` yields -/
theorem trimOWS_sp (v : Bytes) (h : ∀ c ∈ v, isOws c = false) : trimOWS (32 :: v) = v := by
  unfold trimOWS
  have h1 : (32 :: v).dropWhile isOws = v := by
    simp only [List.dropWhile, show isOws 32 = true by decide]
    exact dropWhile_none v h
  rw [h1, dropWhile_none v.reverse (fun c hc => h c (by simpa using hc))]
  simp

/-! ### decimal rendering (`str(n).encode()`) -/

theorem loop_eq (bs : ByteArray) (k i : Nat) (r : List UInt8) (h : k = bs.size - i) :
    ByteArray.toList.loop bs i r = r.reverse ++ bs.data.toList.drop i := by
  have hs : bs.size = bs.data.toList.length := by cases bs; simp [ByteArray.size]
  induction k generalizing i r with
  | zero =>
    rw [ByteArray.toList.loop.eq_def, if_neg (by omega)]
    have : bs.data.toList.length ≤ i := by omega
    rw [List.drop_eq_nil_of_le this]; simp
  | succ k ih =>
    have hi : i < bs.size := by omega
    rw [ByteArray.toList.loop.eq_def, if_pos hi, ih _ _ (by omega)]
    have hi' : i < bs.data.toList.length := by omega
    rw [List.drop_eq_getElem_cons hi']
    cases bs with | mk d =>
    simp [ByteArray.get!]
    exact getElem!_pos d i (by simpa using hi')

theorem toList_toByteArray (l : List UInt8) : l.toByteArray.toList = l := by
  unfold ByteArray.toList
  rw [loop_eq _ _ _ _ rfl]
  simp [List.data_toByteArray]

theorem utf8_digit (c : Char) (h : c.isDigit = true) : String.utf8EncodeChar c = [UInt8.ofNat c.toNat] := by
  simp only [Char.isDigit, Bool.and_eq_true, decide_eq_true_eq] at h
  have h2 : c.val.toNat ≤ 57 := h.2
  unfold String.utf8EncodeChar
  simp only
  rw [if_pos (by omega)]
  rfl

/-- `natToDec n` is the byte image of `Nat.toDigits 10 n` -/
theorem natToDec_eq (n : Nat) : natToDec n = (Nat.toDigits 10 n).map (fun c => UInt8.ofNat c.toNat) := by
  have h0 : natToDec n = (Nat.toDigits 10 n).flatMap String.utf8EncodeChar := by
    unfold natToDec
    show (n.repr).toUTF8.toList = _
    rw [Nat.repr_eq_ofList_toDigits]
    simp [String.toUTF8, String.toByteArray_ofList, List.utf8Encode, toList_toByteArray]
  rw [h0]
  have : ∀ l : List Char, (∀ c ∈ l, c.isDigit = true) →
      l.flatMap String.utf8EncodeChar = l.map (fun c => UInt8.ofNat c.toNat) := by
    intro l; induction l with
    | nil => simp
    | cons a t ih =>
      intro h
      simp [List.flatMap_cons, utf8_digit a (h a (by simp)), ih (fun c hc => h c (by simp [hc]))]
  exact this _ (fun c hc => Nat.isDigit_of_mem_toDigits (by omega) (by omega) hc)

theorem digitChar_byte (c : Char) (h : c.isDigit = true) :
    isDigit (UInt8.ofNat c.toNat) = true ∧ (UInt8.ofNat c.toNat).toNat - 48 = c.toNat - '0'.toNat := by
  simp only [Char.isDigit, Bool.and_eq_true, decide_eq_true_eq] at h
  have h1 : 48 ≤ c.val.toNat := h.1
  have h2 : c.val.toNat ≤ 57 := h.2
  have e : c.toNat = c.val.toNat := rfl
  have hlt : c.toNat < 256 := by omega
  have ht : (UInt8.ofNat c.toNat).toNat = c.toNat := by simp [UInt8.toNat_ofNat']; omega
  constructor
  · simp only [isDigit, Bool.and_eq_true, decide_eq_true_eq, UInt8.le_iff_toNat_le, ht]
    constructor
    · show 48 ≤ c.toNat; omega
    · show c.toNat ≤ 57; omega
  · rw [ht]; rfl

theorem natToDec_all_digit (n : Nat) : (natToDec n).all isDigit = true := by
  rw [natToDec_eq, List.all_eq_true]
  intro x hx
  obtain ⟨c, hc, rfl⟩ := List.mem_map.mp hx
  exact (digitChar_byte c (Nat.isDigit_of_mem_toDigits (by omega) (by omega) hc)).1

theorem natToDec_ne_nil (n : Nat) : natToDec n ≠ [] := by
  rw [natToDec_eq]; simp [Nat.toDigits_ne_nil]

theorem foldl_digits (l : List Char) (h : ∀ c ∈ l, c.isDigit = true) (a : Nat) :
    (l.map (fun c => UInt8.ofNat c.toNat)).foldl (fun a c => a * 10 + (c.toNat - 48)) a =
      l.foldl (fun sofar c => 10 * sofar + (c.toNat - '0'.toNat)) a := by
  induction l generalizing a with
  | nil => rfl
  | cons c t ih =>
    simp only [List.map_cons, List.foldl_cons]
    rw [(digitChar_byte c (h c (by simp))).2, Nat.mul_comm a 10]
    exact ih (fun x hx => h x (by simp [hx])) _

/-- the `1*DIGIT` reader inverts `str(n)` -/
theorem decNat_natToDec (n : Nat) : decNat (natToDec n) = some n := by
  unfold decNat
  have hne : (natToDec n).isEmpty = false := by
    cases h : natToDec n with
    | nil => exact absurd h (natToDec_ne_nil n)
    | cons _ _ => rfl
  rw [natToDec_all_digit, hne]
  simp only [Bool.not_false, Bool.and_self, if_true]
  rw [natToDec_eq, foldl_digits _ (fun c hc => Nat.isDigit_of_mem_toDigits (by omega) (by omega) hc)]
  have := @Nat.ofDigitChars_ten_toDigits n
  rw [Nat.ofDigitChars_eq_foldl] at this
  rw [this]

theorem natToDec_no_ows (n : Nat) : ∀ c ∈ natToDec n, isOws c = false := by
  intro c hc
  have hd := List.all_eq_true.mp (natToDec_all_digit n) c hc
  have := digit_facts c; simp [hd] at this; exact this.1.2

theorem natToDec_field (n : Nat) : (natToDec n).all isFieldByte = true := by
  rw [List.all_eq_true]; intro c hc
  have hd := List.all_eq_true.mp (natToDec_all_digit n) c hc
  have := digit_facts c; simp [hd] at this; exact this.1.1

/-- one decimal digit as a byte (a table of ten) -/
theorem digit_table : ∀ d : Fin 10,
    (isDigit (UInt8.ofNat (Nat.digitChar d.val).toNat) &&
      ((UInt8.ofNat (Nat.digitChar d.val).toNat).toNat - 48 == d.val)) = true := by decide +kernel

theorem digit_byte (d : Nat) (h : d < 10) :
    isDigit (UInt8.ofNat (Nat.digitChar d).toNat) = true ∧ (UInt8.ofNat (Nat.digitChar d).toNat).toNat - 48 = d := by
  have := digit_table ⟨d, h⟩
  simpa using this

/-- three-digit status codes, digit by digit -/
theorem natToDec3 (n : Nat) (h1 : 100 ≤ n) (h2 : n ≤ 999) :
    ∃ a b c, natToDec n = [a, b, c] ∧ isDigit a = true ∧ isDigit b = true ∧ isDigit c = true ∧
      (a.toNat - 48) * 100 + (b.toNat - 48) * 10 + (c.toNat - 48) = n := by
  have e : Nat.toDigits 10 n = [Nat.digitChar (n / 10 / 10), Nat.digitChar (n / 10 % 10), Nat.digitChar (n % 10)] := by
    rw [Nat.toDigits_eq_if (by omega), if_neg (by omega), Nat.toDigits_eq_if (by omega), if_neg (by omega),
      Nat.toDigits_of_lt_base (by omega)]
    rfl
  have ha := digit_byte (n / 10 / 10) (by omega)
  have hb := digit_byte (n / 10 % 10) (by omega)
  have hc := digit_byte (n % 10) (by omega)
  refine ⟨_, _, _, by rw [natToDec_eq, e]; rfl, ha.1, hb.1, hc.1, ?_⟩
  rw [ha.2, hb.2, hc.2]; omega

end Px.Wf
