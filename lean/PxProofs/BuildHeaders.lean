import PxProofs.BuildGuards
/-!
# What the builders add, and when (C15)

`req_headers_disjoint` / `res_headers_disjoint`: when the caller's header names do not collide
(case-insensitively) with the names the builders write, the header list sent is the caller's list
followed by the builder's additions in a fixed order.  `req_no_cl_when_te`, `req_no_ua_when_given`,
`res_no_cl_when_te`: the suppression rules.  Collisions follow Python dict semantics (`dSet`:
same spelling → replaced in place, other spelling → a second header is appended).
-/
namespace Px.Codec

open Px.Parser Px.Build

/-- no caller header is named (case-insensitively) like one the builders write or look for -/
def disjointFromBuilder (hs : HDict) : Bool :=
  hs.all (fun e => lower e.1 != lower nCT && lower e.1 != kCL && lower e.1 != kUA &&
    lower e.1 != lower nConn && lower e.1 != kTE)

theorem disjoint_mem {hs : HDict} (h : disjointFromBuilder hs = true) {e : Bytes × Bytes} (he : e ∈ hs) :
    lower e.1 ≠ lower nCT ∧ lower e.1 ≠ kCL ∧ lower e.1 ≠ kUA ∧ lower e.1 ≠ lower nConn ∧ lower e.1 ≠ kTE := by
  simp only [disjointFromBuilder, List.all_eq_true, Bool.and_eq_true, bne_iff_ne, ne_eq] at h
  obtain ⟨⟨⟨⟨a, b⟩, c⟩, d⟩, f⟩ := h e he
  exact ⟨a, b, c, d, f⟩

def ctPart (ct : Option Bytes) : HDict := match ct with | some c => [(nCT, c)] | none => []
def clPart (body : Option Bytes) : HDict :=
  if bodyTruthy body then [(nCL, natToDec (body.getD []).length)] else []
def uaPart (ua : Bytes) (noUa : Bool) : HDict := if noUa then [] else [(nUA, ua)]
def connPart (cc : Bool) : HDict := if cc then [(nConn, vClose)] else []

theorem lower_names : lower nCT ≠ kTE ∧ lower nCT ≠ kUA ∧ lower nCL ≠ kUA ∧ lower nCL ≠ kTE ∧
    nCT ≠ nCL ∧ nCT ≠ nUA ∧ nCT ≠ nConn ∧ nCL ≠ nUA ∧ nCL ≠ nConn ∧ nUA ≠ nConn ∧
    lower nCL = kCL ∧ lower nUA = kUA := by decide

/-- **what `build_http_request` sends** when the caller's names do not collide with the builder's:
    the caller's headers, then `Content-Type` (iff `content_type` is given), `Content-Length`
    (iff the body is non-empty), `User-Agent` (iff not `no_ua`), `Connection: close` (iff `conn_close`) -/
theorem req_headers_disjoint (ua : Bytes) (ct : Option Bytes) (hs : HDict) (body : Option Bytes) (cc noUa : Bool)
    (h : disjointFromBuilder hs = true) :
    reqHeaders ua ct hs body cc noUa = hs ++ ctPart ct ++ clPart body ++ uaPart ua noUa ++ connPart cc := by
  obtain ⟨n1, n2, n3, n4, d1, d2, d3, d4, d5, d6, l1, l2⟩ := lower_names
  have hname : ∀ e ∈ hs, e.1 ≠ nCT ∧ e.1 ≠ nCL ∧ e.1 ≠ nUA ∧ e.1 ≠ nConn := by
    intro e he
    obtain ⟨a, b, c, d, -⟩ := disjoint_mem h he
    exact ⟨ne_of_lower_ne a, ne_of_lower_ne (by rw [l1]; exact b), ne_of_lower_ne (by rw [l2]; exact c),
      ne_of_lower_ne d⟩
  have e1 : reqH1 ct hs = hs ++ ctPart ct := by
    unfold reqH1 ctPart
    cases ct with
    | none => simp
    | some c => exact dSet_of_not_mem _ _ _ (fun e he => (hname e he).1)
  have m1 : ∀ e ∈ reqH1 ct hs, e ∈ hs ∨ e.1 = nCT := by
    intro e he
    rcases mem_reqH1 he with h | ⟨c, -, rfl⟩
    · exact .inl h
    · exact .inr rfl
  have hte : hasKey kTE (reqH1 ct hs) = false := hasKey_false (fun e he => by
    rcases m1 e he with h1 | h1
    · exact (disjoint_mem h h1).2.2.2.2
    · rw [h1]; exact n1)
  have hua : hasKey kUA (reqH1 ct hs) = false := hasKey_false (fun e he => by
    rcases m1 e he with h1 | h1
    · exact (disjoint_mem h h1).2.2.1
    · rw [h1]; exact n2)
  have e2 : reqH2 ct hs body = reqH1 ct hs ++ clPart body := by
    unfold reqH2 clPart
    rw [hte]
    by_cases hb : bodyTruthy body = true
    · simp only [hb, Bool.not_false, Bool.and_self, if_true]
      exact dSet_of_not_mem _ _ _ (fun e he => by
        rcases m1 e he with h1 | h1
        · exact (hname e h1).2.1
        · rw [h1]; exact d1)
    · have : bodyTruthy body = false := by simpa using hb
      simp [this]
  have m2 : ∀ e ∈ reqH2 ct hs body, e ∈ hs ∨ e.1 = nCT ∨ e.1 = nCL := by
    intro e he
    rcases mem_reqH2 he with h1 | ⟨-, -, rfl⟩
    · rcases m1 e h1 with h2 | h2
      · exact .inl h2
      · exact .inr (.inl h2)
    · exact .inr (.inr rfl)
  have e3 : reqH3 ua ct hs body noUa = reqH2 ct hs body ++ uaPart ua noUa := by
    unfold reqH3 uaPart
    rw [hua]
    cases noUa with
    | true => simp
    | false =>
      simp only [Bool.not_false, Bool.and_self, if_true, Bool.false_eq_true, if_false]
      exact dSet_of_not_mem _ _ _ (fun e he => by
        rcases m2 e he with h1 | h1 | h1
        · exact (hname e h1).2.2.1
        · rw [h1]; exact d2
        · rw [h1]; exact d4)
  have m3 : ∀ e ∈ reqH3 ua ct hs body noUa, e ∈ hs ∨ e.1 = nCT ∨ e.1 = nCL ∨ e.1 = nUA := by
    intro e he
    rcases mem_reqH3 he with h1 | ⟨-, -, rfl⟩
    · rcases m2 e h1 with h2 | h2 | h2
      · exact .inl h2
      · exact .inr (.inl h2)
      · exact .inr (.inr (.inl h2))
    · exact .inr (.inr (.inr rfl))
  unfold reqHeaders pktHeaders connPart
  cases cc with
  | false => simp [e3, e2, e1]
  | true =>
    simp only [if_true]
    rw [dSet_of_not_mem _ _ _ (fun e he => by
      rcases m3 e he with h1 | h1 | h1 | h1
      · exact (hname e h1).2.2.2
      · rw [h1]; exact d3
      · rw [h1]; exact d5
      · rw [h1]; exact d6), e3, e2, e1]

/-- a caller-supplied `transfer-encoding` header (any spelling, any value) suppresses `Content-Length` -/
theorem req_no_cl_when_te (ua : Bytes) (ct : Option Bytes) (hs : HDict) (body : Option Bytes) (cc noUa : Bool)
    (h : hasKey kTE hs = true) (hncl : hasKey kCL hs = false) :
    ∀ e ∈ reqHeaders ua ct hs body cc noUa, isCL e = false := by
  obtain ⟨t, ht, hk⟩ := List.any_eq_true.1 h
  have hk' : lower t.1 = kTE := by simpa using hk
  have hn : ∀ e ∈ hs, lower e.1 ≠ kCL := by
    intro e he hc
    have := List.any_eq_false.1 hncl e he
    simp [hc] at this
  intro e he
  rcases mem_reqHeaders he with h1 | ⟨c, -, rfl⟩ | ⟨-, hno, -⟩ | rfl | rfl
  · exact isCL_false_of (hn e h1)
  · exact isCL_false_mk _ _ lower_builders.2.2.2.2.1
  · rw [reqH1_hasTE ht hk'] at hno; simp at hno
  · exact isCL_false_mk _ _ lower_builders.2.2.2.2.2.2.1
  · exact isCL_false_mk _ _ lower_builders.2.2.2.2.2.2.2

/-- a caller-supplied `user-agent` header (any spelling) or `no_ua` suppresses the builder's `User-Agent` -/
theorem req_no_ua_when_given (ua : Bytes) (ct : Option Bytes) (hs : HDict) (body : Option Bytes) (noUa : Bool)
    (h : hasKey kUA hs = true ∨ noUa = true) :
    reqH3 ua ct hs body noUa = reqH2 ct hs body := by
  unfold reqH3
  rcases h with h | h
  · have : hasKey kUA (reqH1 ct hs) = true := by
      obtain ⟨t, ht, hk⟩ := List.any_eq_true.1 h
      have hk' : lower t.1 = kUA := by simpa using hk
      have hmem : t ∈ reqH1 ct hs := by
        unfold reqH1
        cases ct with
        | none => exact ht
        | some c => exact mem_dSet_of_mem ht (ne_of_lower_ne (by rw [hk']; exact fun h => lower_names.2.1 h.symm))
      exact List.any_eq_true.2 ⟨t, hmem, by simp [hk']⟩
    simp [this]
  · simp [h]

/-- **what `build_http_response` sends** when the caller's names do not collide -/
theorem res_headers_disjoint (hs : HDict) (body : Option Bytes) (cc noCl : Bool)
    (h : disjointFromBuilder hs = true) :
    resHeaders hs body cc noCl =
      hs ++ (if noCl then [] else [(nCL, if bodyTruthy body then natToDec (body.getD []).length else [48])]) ++
        connPart cc := by
  obtain ⟨n1, n2, n3, n4, d1, d2, d3, d4, d5, d6, l1, l2⟩ := lower_names
  have hname : ∀ e ∈ hs, e.1 ≠ nCL ∧ e.1 ≠ nConn := by
    intro e he
    obtain ⟨-, b, -, d, -⟩ := disjoint_mem h he
    exact ⟨ne_of_lower_ne (by rw [l1]; exact b), ne_of_lower_ne d⟩
  have hte : hasKey kTE hs = false := hasKey_false (fun e he => (disjoint_mem h he).2.2.2.2)
  unfold resHeaders pktHeaders connPart
  rw [hte]
  cases noCl with
  | true =>
    cases cc with
    | false => simp
    | true =>
      simp only [Bool.not_true, Bool.and_false, Bool.false_eq_true, if_false, if_true, List.append_nil]
      exact dSet_of_not_mem _ _ _ (fun e he => (hname e he).2)
  | false =>
    simp only [Bool.not_false, Bool.and_self, if_true, Bool.false_eq_true, if_false]
    rw [dSet_of_not_mem hs nCL _ (fun e he => (hname e he).1)]
    cases cc with
    | false => simp
    | true =>
      simp only [if_true]
      exact dSet_of_not_mem _ _ _ (fun e he => by
        simp only [List.mem_append, List.mem_singleton] at he
        rcases he with h1 | rfl
        · exact (hname e h1).2
        · exact d5)

/-- a caller-supplied `transfer-encoding` header or `no_cl` suppresses the response `Content-Length` -/
theorem res_no_cl_when_te (hs : HDict) (body : Option Bytes) (cc noCl : Bool)
    (h : hasKey kTE hs = true ∨ noCl = true) :
    resHeaders hs body cc noCl = pktHeaders hs cc := by
  unfold resHeaders
  rcases h with h | h <;> simp [h]

end Px.Codec
