import PxModel.Persist
import PxProofs.RelayLemmas
/-!
# C04 helper lemmas, part 1: the relay under a well-behaved environment

`benign t`: in round `t` no peer closes or resets and no `send` / `recv` fails
(data, short writes, would-block, TLS want-read / want-write only).  Under such
rounds an established plain-HTTP exchange is never torn down by the proxy, and
what is queued for the upstream is exactly what the application step put there.
-/
namespace Px.Persist
open Px Px.Relay Px.Conn

/-- nothing goes wrong on either socket in this round -/
def benign (t : Tick) : Bool :=
  (match t.cRecv with | .data b => !b.isEmpty | .sslWantRead => true | _ => false) &&
  (match t.uRecv with | .data b => !b.isEmpty | .sslWantRead => true | _ => false) &&
  (match t.cSend with | .sent _ => true | .blocking => true | _ => false) &&
  (match t.uSend with | .sent _ => true | .blocking => true | .sslWantWrite => true | _ => false)

theorem flush_exc_none_sent (m : Nat) (c : Conn) (k : Nat) : (flush m c (.sent k)).exc = none := by
  unfold flush; cases c.buffer <;> simp <;> split <;> rfl

theorem flush_exc_none_blocking (m : Nat) (c : Conn) : (flush m c .blocking).exc = none := by
  unfold flush; cases c.buffer <;> simp

theorem benign_cSend {t : Tick} (h : benign t = true) (m : Nat) (c : Conn) : (flush m c t.cSend).exc = none := by
  unfold benign at h
  cases hs : t.cSend <;> simp [hs] at h
  · exact flush_exc_none_sent m c _
  · exact flush_exc_none_blocking m c

theorem benign_uSend {t : Tick} (h : benign t = true) (m : Nat) (c : Conn) :
    (flush m c t.uSend).exc = none ∨ (flush m c t.uSend).exc = some .sslWantWrite := by
  unfold benign at h
  cases hs : t.uSend <;> simp [hs] at h
  · exact .inl (flush_exc_none_sent m c _)
  · exact .inl (flush_exc_none_blocking m c)
  · unfold flush; cases c.buffer <;> simp

theorem benign_mask {t : Tick} (i : Interest) (h : benign t = true) : benign (mask i t) = true := h

theorem benign_app {t : Tick} (a : AppOut) (h : benign t = true) : benign { t with app := a } = true := h

/-- client flush phase: no failure, no final flush -/
theorem phaseCW_benign (s : St) (t : Tick) (hb : benign t = true) (hm : s.mustFlush = false) :
    (phaseCW s t).2 = false ∧ (phaseCW s t).1.mustFlush = false := by
  unfold phaseCW
  split
  · unfold afterCW
    simp only [benign_cSend hb, hm, Bool.false_and, Bool.false_eq_true, if_false, and_self]
  · exact ⟨rfl, hm⟩

/-- upstream flush phase: no failure -/
theorem phaseUW_benign (s : St) (t : Tick) (hb : benign t = true) : (phaseUW s t).2 = false := by
  unfold phaseUW
  split
  · unfold afterUW
    rcases benign_uSend hb s.maxSend s.upstream with h | h <;> simp [h]
  · rfl

/-- upstream read phase: data or nothing -/
theorem phaseUR_benign (s : St) (t : Tick) (hb : benign t = true) :
    (phaseUR s t).2 = false ∧ (phaseUR s t).1.readsTeared = s.readsTeared := by
  unfold phaseUR
  split
  · unfold benign at hb
    cases hu : t.uRecv <;> simp [hu] at hb
    · rename_i d
      have : d.isEmpty = false := by simpa using hb.1.1.2
      simp [Conn.recv, this]
    · simp [Conn.recv]
  · exact ⟨rfl, rfl⟩

/-- the segment `handle_data` is given in a benign round, if the client socket is read -/
theorem segOf_benign {t : Tick} (hb : benign t = true) :
    (∃ raw, t.cRecv = .data raw ∧ raw ≠ [] ∧ segOf t.cRecv = some raw) ∨
    (t.cRecv = .sslWantRead ∧ segOf t.cRecv = none) := by
  unfold benign at hb
  cases hc : t.cRecv <;> simp [hc] at hb
  · rename_i d
    have hd : d.isEmpty = false := by simpa using hb.1.1.1
    exact .inl ⟨d, rfl, by intro h; simp [h] at hd, by simp [segOf, hd]⟩
  · exact .inr ⟨rfl, rfl⟩

theorem phaseCR_benign (s : St) (t : Tick) (hb : benign t = true)
    (hq : ∀ raw, t.cR = true → segOf t.cRecv = some raw →
      (onClientData { s with recvC := s.recvC ++ raw } raw t.app).2 = .ret false) :
    (t.cR = false ∨ segOf t.cRecv = none) ∧ phaseCR s t = (s, .no) ∨
    ∃ raw, t.cR = true ∧ segOf t.cRecv = some raw ∧ raw ≠ [] ∧
      phaseCR s t = ((onClientData { s with recvC := s.recvC ++ raw } raw t.app).1, .no) := by
  unfold phaseCR
  by_cases hcr : t.cR = true
  · simp only [hcr, if_true]
    rcases segOf_benign hb with ⟨raw, h1, h2, h3⟩ | ⟨h1, h2⟩
    · right
      refine ⟨raw, trivial, h3, h2, ?_⟩
      have hne : raw.isEmpty = false := by simpa using h2
      simp only [h1, Conn.recv, hne, Bool.false_eq_true, if_false]
      have := hq raw hcr h3
      unfold afterHD
      rw [this]
    · left
      exact ⟨.inr h2, by simp [h1, Conn.recv]⟩
  · left
    have : t.cR = false := by simpa using hcr
    exact ⟨.inl this, by simp [this]⟩


/-- the exchange is alive: not flushing before shutdown, reads not torn down, upstream open -/
structure Alive (s : St) : Prop where
  mustFlush : s.mustFlush = false
  readsTeared : s.readsTeared = false
  upOpen : s.upstream.closed = false

/-- `on_client_data` with a quiet application step (`toUp` queued for the upstream on a plain-HTTP
    exchange, nothing for the client, `handle_data` returns False) -/
theorem onClientData_quiet (s : St) (raw : Bytes) (toUp : Option Bytes) (hk : s.kind ≠ .tunnel)
    (hc : s.upstream.closed = false) :
    (onClientData s raw (.ok toUp none false)).2 = .ret false ∧
    (onClientData s raw (.ok toUp none false)).1 =
      (if s.kind = .http then (match toUp with | some x => { s with upstream := s.upstream.queue x } | none => s) else s) := by
  unfold onClientData
  cases hkind : s.kind with
  | tunnel => exact absurd hkind hk
  | http => cases toUp <;> simp [hc]
  | «local» => simp

/-- what a quiet application step adds to the upstream stream -/
def upAdd (k : Kind) (toUp : Option Bytes) : Bytes := if k = .http then toUp.getD [] else []

/-- the read half of `handle_events` in a benign round with a quiet application step -/
theorem readHalf_benign (s : St) (t : Tick) (hk : s.kind ≠ .tunnel) (ha : Alive s) (hb : benign t = true)
    (toUp : Option Bytes) (happ : ∀ raw, t.cR = true → segOf t.cRecv = some raw → t.app = .ok toUp none false) :
    (readHalf s t).2 = .cont ∧ Alive (readHalf s t).1 ∧ (readHalf s t).1.kind = s.kind ∧
    (readHalf s t).1.maxSend = s.maxSend ∧
    (∃ seg, (readHalf s t).1.recvU = s.recvU ++ seg ∧ D (readHalf s t).1 = D s ++ seg) ∧
    ((∃ raw, t.cR = true ∧ segOf t.cRecv = some raw ∧ raw ≠ [] ∧ (readHalf s t).1.recvC = s.recvC ++ raw ∧
        U (readHalf s t).1 = U s ++ upAdd s.kind toUp) ∨
     ((t.cR = false ∨ segOf t.cRecv = none) ∧ (readHalf s t).1.recvC = s.recvC ∧ U (readHalf s t).1 = U s)) := by
  have hq : ∀ raw, t.cR = true → segOf t.cRecv = some raw →
      (onClientData { s with recvC := s.recvC ++ raw } raw t.app).2 = .ret false := by
    intro raw hc hseg
    rw [happ raw hc hseg]; exact (onClientData_quiet { s with recvC := s.recvC ++ raw } raw toUp hk ha.upOpen).1
  have hcr := phaseCR_benign s t hb hq
  unfold readHalf
  rw [if_neg (by simp [ha.readsTeared])]
  rcases hcr with ⟨hidle, hcr⟩ | ⟨raw, h1, h2, h3, hcr⟩
  · rw [hcr]
    simp only
    have fr := phaseUR_frame s t
    have br := phaseUR_benign s t hb
    obtain ⟨seg, u1, u2, _, _⟩ := phaseUR_seg s t
    rcases hur : phaseUR s t with ⟨s4, r4⟩
    rw [hur] at fr br u1 u2
    simp only at fr br u1 u2
    obtain ⟨f1, f2, f3, f4, f5, f6, f7⟩ := fr
    obtain ⟨rfl, br2⟩ := br
    have hrt4 : s4.readsTeared = false := by rw [br2]; exact ha.readsTeared
    simp only [finish, Bool.false_and, Bool.false_eq_true, if_false]
    refine ⟨trivial, ⟨?_, rfl, ?_⟩, f1, f2, ⟨seg, u1, ?_⟩, .inr ⟨hidle, f4, ?_⟩⟩
    · show s4.mustFlush = false; rw [f7]; exact ha.mustFlush
    · show s4.upstream.closed = false; rw [f3]; exact ha.upOpen
    · simpa [D] using u2
    · show U { s4 with readsTeared := false } = U s; simp [U, f3, f6]
  · rw [hcr]
    generalize hs' : (onClientData { s with recvC := s.recvC ++ raw } raw t.app).1 = s'
    simp only
    have hoc := (onClientData_quiet { s with recvC := s.recvC ++ raw } raw toUp hk ha.upOpen).2
    have happ' : t.app = .ok toUp none false := happ raw h1 h2
    rw [happ', hoc] at hs'
    have p : s'.kind = s.kind ∧ s'.maxSend = s.maxSend ∧ s'.recvC = s.recvC ++ raw ∧ s'.client = s.client ∧
        s'.sentC = s.sentC ∧ s'.recvU = s.recvU ∧ s'.mustFlush = s.mustFlush ∧ s'.readsTeared = s.readsTeared ∧
        s'.upstream.closed = s.upstream.closed ∧ U s' = U s ++ upAdd s.kind toUp := by
      rw [← hs']
      unfold upAdd
      by_cases hh : s.kind = .http
      · cases toUp <;> simp [hh, U, Conn.queue]
      · simp [hh, U]
    obtain ⟨p1, p2, p3, p4, p5, p6, p7, p8, p9, p10⟩ := p
    have fr := phaseUR_frame s' t
    have br := phaseUR_benign s' t hb
    obtain ⟨seg, u1, u2, _, _⟩ := phaseUR_seg s' t
    rcases hur : phaseUR s' t with ⟨s4, r4⟩
    rw [hur] at fr br u1 u2
    simp only at fr br u1 u2
    obtain ⟨f1, f2, f3, f4, f5, f6, f7⟩ := fr
    obtain ⟨rfl, br2⟩ := br
    simp only [finish, Bool.false_and, Bool.false_eq_true, if_false]
    refine ⟨trivial, ⟨?_, rfl, ?_⟩, ?_, ?_, ⟨seg, ?_, ?_⟩, .inl ⟨raw, h1, h2, h3, ?_, ?_⟩⟩
    · show s4.mustFlush = false; rw [f7, p7]; exact ha.mustFlush
    · show s4.upstream.closed = false; rw [f3, p9]; exact ha.upOpen
    · show s4.kind = s.kind; rw [f1, p1]
    · show s4.maxSend = s.maxSend; rw [f2, p2]
    · show s4.recvU = s.recvU ++ seg; rw [u1, p6]
    · have hD : D s' = D s := by simp [D, p4, p5]
      have : D s4 = D s' ++ seg := u2
      rw [hD] at this
      simpa [D] using this
    · show s4.recvC = s.recvC ++ raw; rw [f4, p3]
    · show U { s4 with readsTeared := false } = U s ++ upAdd s.kind toUp
      have : U { s4 with readsTeared := false } = U s' := by simp [U, f3, f6]
      rw [this, p10]

/-- one `handle_events` in a benign round with a quiet application step -/
theorem tick_benign (s : St) (t : Tick) (hk : s.kind ≠ .tunnel) (ha : Alive s) (hb : benign t = true)
    (toUp : Option Bytes) (happ : ∀ raw, t.cR = true → segOf t.cRecv = some raw → t.app = .ok toUp none false) :
    (tick s t).2 = .cont ∧ Alive (tick s t).1 ∧ (tick s t).1.kind = s.kind ∧ (tick s t).1.maxSend = s.maxSend ∧
    (∃ seg, (tick s t).1.recvU = s.recvU ++ seg ∧ D (tick s t).1 = D s ++ seg) ∧
    ((∃ raw, t.cR = true ∧ segOf t.cRecv = some raw ∧ raw ≠ [] ∧ (tick s t).1.recvC = s.recvC ++ raw ∧
        U (tick s t).1 = U s ++ upAdd s.kind toUp) ∨
     ((t.cR = false ∨ segOf t.cRecv = none) ∧ (tick s t).1.recvC = s.recvC ∧ U (tick s t).1 = U s)) := by
  unfold tick
  simp only
  -- client flush
  have fw := phaseCW_frame { s with trC := none, trU := none } t
  have bw := phaseCW_benign { s with trC := none, trU := none } t hb ha.mustFlush
  rcases hcw : phaseCW { s with trC := none, trU := none } t with ⟨s1, w⟩
  rw [hcw] at fw bw
  simp only at fw bw
  obtain ⟨a1, a2, a3, a4, a5, a6, a7, a8, a9⟩ := fw
  obtain ⟨rfl, bm⟩ := bw
  simp only
  -- upstream flush
  have fu := phaseUW_frame { s1 with writesTeared := false } t
  have bu := phaseUW_benign { s1 with writesTeared := false } t hb
  rcases huw : phaseUW { s1 with writesTeared := false } t with ⟨s2, w2⟩
  rw [huw] at fu bu
  simp only at fu bu
  obtain ⟨b1, b2, b3, b4, b5, b6, b7, b8, b9, b10, b11⟩ := fu
  subst bu
  simp only
  have hrt2 : s2.readsTeared = false := by rw [b8, a8]; exact ha.readsTeared
  have hD2 : D s2 = D s := by
    have e1 : D s2 = D s1 := by simp [D, b3, b6]
    rw [e1]; simpa [D] using a9
  have hU2 : U s2 = U s := by
    have : U s2 = U s1 := by simpa [U] using b11
    rw [this]; simp [U, a3, a6]
  generalize hs3 : ({ s2 with writesTeared := false, readsTeared := s2.readsTeared || false } : St) = s3
  have e : s3.kind = s.kind ∧ s3.maxSend = s.maxSend ∧ s3.recvU = s.recvU ∧ s3.recvC = s.recvC ∧ D s3 = D s ∧
      U s3 = U s ∧ Alive s3 := by
    rw [← hs3]
    refine ⟨by show s2.kind = _; rw [b1, a1], by show s2.maxSend = _; rw [b2, a2], by show s2.recvU = _; rw [b4, a4],
      by show s2.recvC = _; rw [b5, a5], hD2, hU2, ⟨?_, ?_, ?_⟩⟩
    · show s2.mustFlush = false; rw [b9]; exact bm
    · show (s2.readsTeared || false) = false; rw [hrt2]; rfl
    · show s2.upstream.closed = false; rw [b10, a3]; exact ha.upOpen
  obtain ⟨e1, e2, e3, e4, e5, e6, e7⟩ := e
  have h := readHalf_benign s3 t (by rw [e1]; exact hk) e7 hb toUp happ
  rw [e1, e2, e3, e4, e5, e6] at h
  exact h


/-- one executor round (`get_events`, select, `handle_events`) in a benign round -/
theorem step_benign (s : St) (t : Tick) (hk : s.kind ≠ .tunnel) (ha : Alive s) (hb : benign t = true)
    (toUp : Option Bytes) (happ : ∀ raw, t.cR = true → segOf t.cRecv = some raw → t.app = .ok toUp none false) :
    (step s t).2 = .cont ∧ Alive (step s t).1 ∧ (step s t).1.kind = s.kind ∧ (step s t).1.maxSend = s.maxSend ∧
    (∃ seg, (step s t).1.recvU = s.recvU ++ seg ∧ D (step s t).1 = D s ++ seg) ∧
    ((∃ raw, t.cR = true ∧ segOf t.cRecv = some raw ∧ raw ≠ [] ∧ (step s t).1.recvC = s.recvC ++ raw ∧
        U (step s t).1 = U s ++ upAdd s.kind toUp) ∨
     ((t.cR = false ∨ segOf t.cRecv = none) ∧ (step s t).1.recvC = s.recvC ∧ U (step s t).1 = U s)) := by
  have hcr : (mask (events s) t).cR = t.cR := by
    show (t.cR && (events s).cR) = t.cR
    simp [events, ha.mustFlush]
  have h := tick_benign s (mask (events s) t) hk ha (benign_mask _ hb) toUp
    (fun raw hc hseg => happ raw (by rw [hcr] at hc; exact hc) hseg)
  rw [hcr] at h
  exact h

end Px.Persist
