import PxProofs.UrlIntLemmas
/-!
# C14 lemmas, part 3: `Url._parse` (`Url.parseAuthority`) case by case
-/
namespace Px.UrlL
open Px Px.Url
open Px.Connect (isDig isHexDig decRender decDigitsAux)

abbrev AuthRes := Option Bytes × Option Bytes × Bytes × Option Int

/-- the "patch up invalid ipv6 scenario" step of `Url._parse` -/
def wrapV6 (host : Bytes) : Bytes :=
  if containsByte host COLON && host.head? != some LBR && host.getLast? != some RBR
  then [LBR] ++ host ++ [RBR] else host

/-- host and port in the "more than one colon" branch of `Url._parse` -/
def v6Split (hostport a c last : Bytes) : Bytes × Option Int :=
  match pyInt 10 ((splitAll1 COLON last).getLast?.getD []) with
  | some v => (a ++ [COLON] ++ c ++ [COLON] ++ join [COLON] (splitAll1 COLON last).dropLast, some v)
  | none => (hostport, none)

/-- second half of `Url._parse`, after the userinfo has been split off.  The first argument (the whole
    authority) is no longer used since fix dbfef2b; it is kept so that users of these lemmas need no change. -/
def hostPort (_raw : Bytes) (user pass : Option Bytes) (hostport : Bytes) : Except Err AuthRes :=
  match splitN1 COLON 2 hostport with
  | [h] => .ok (user, pass, h, none)
  | [h, p] =>
    match pyInt 10 p with
    | some v => .ok (user, pass, h, some v)
    | none => .error .valueError
  | [a, c, last] =>
    if utf8Valid (v6Split hostport a c last).1 then
      .ok (user, pass, wrapV6 (v6Split hostport a c last).1, (v6Split hostport a c last).2)
    else .error .valueError
  | _ => .error .valueError

theorem parseAuthority_eq (raw : Bytes) : parseAuthority raw =
    (match splitOnce1 AT raw with
     | none => hostPort raw none none raw
     | some (ui, hp) =>
       match splitAll1 COLON ui with
       | [u, p] => hostPort raw (some u) (some p) hp
       | _ => .error .valueError) := by
  unfold parseAuthority hostPort
  simp only [bind, Except.bind, pure, Except.pure, throw, throwThe, MonadExceptOf.throw]
  rcases splitOnce1 AT raw with _ | ⟨ui, hp⟩
  · simp only []
    rcases splitN1 COLON 2 raw with _ | ⟨h, _ | ⟨p, _ | ⟨l, _ | ⟨m, t⟩⟩⟩⟩
    · rfl
    · rfl
    · simp only []; cases pyInt 10 p <;> rfl
    · simp only [v6Split, wrapV6]
      split <;> (split <;> simp_all)
    · rfl
  · simp only []
    rcases splitAll1 COLON ui with _ | ⟨u, _ | ⟨p, _ | ⟨q, t⟩⟩⟩
    · rfl
    · rfl
    · simp only []
      rcases splitN1 COLON 2 hp with _ | ⟨h, _ | ⟨p, _ | ⟨l, _ | ⟨m, t⟩⟩⟩⟩
      · rfl
      · rfl
      · simp only []; cases pyInt 10 p <;> rfl
      · simp only [v6Split, wrapV6]
        split <;> (split <;> simp_all)
      · rfl
    · rfl
/-! ### shapes of `split(COLON, 2)` -/

theorem splitN1_two_plain (h : Bytes) (hc : COLON ∉ h) : splitN1 COLON 2 h = [h] :=
  splitN1_of_not_mem COLON 2 h hc

theorem splitN1_two_pair (h p : Bytes) (hh : COLON ∉ h) (hp : COLON ∉ p) :
    splitN1 COLON 2 (h ++ COLON :: p) = [h, p] := by
  unfold splitN1
  rw [splitOnce1_render COLON h p hh]
  simp [splitN1_of_not_mem COLON 1 p hp]

theorem splitN1_two_triple (a c last : Bytes) (ha : COLON ∉ a) (hc : COLON ∉ c) :
    splitN1 COLON 2 (a ++ COLON :: (c ++ COLON :: last)) = [a, c, last] := by
  unfold splitN1
  rw [splitOnce1_render COLON a _ ha]
  simp only
  unfold splitN1
  rw [splitOnce1_render COLON c _ hc]
  simp [splitN1]

/-- inverse reading of a two-part result -/
theorem splitN1_two_eq_pair {x h p : Bytes} (e : splitN1 COLON 2 x = [h, p]) :
    x = h ++ COLON :: p ∧ COLON ∉ h ∧ COLON ∉ p := by
  unfold splitN1 at e
  cases hs : splitOnce1 COLON x with
  | none => rw [hs] at e; simp at e
  | some q =>
    obtain ⟨l, r⟩ := q
    rw [hs] at e
    simp only [List.cons.injEq] at e
    obtain ⟨rfl, e⟩ := e
    obtain ⟨hx, hl⟩ := (splitOnce1_some_iff COLON x l r).1 hs
    unfold splitN1 at e
    cases hr : splitOnce1 COLON r with
    | none =>
      rw [hr] at e; simp at e; subst e
      exact ⟨hx, hl, (splitOnce1_none_iff COLON r).1 hr⟩
    | some q2 =>
      obtain ⟨l2, r2⟩ := q2
      rw [hr] at e; simp [splitN1] at e

theorem splitN1_two_eq_triple {x a c last : Bytes} (e : splitN1 COLON 2 x = [a, c, last]) :
    x = a ++ COLON :: (c ++ COLON :: last) ∧ COLON ∉ a ∧ COLON ∉ c := by
  unfold splitN1 at e
  cases hs : splitOnce1 COLON x with
  | none => rw [hs] at e; simp at e
  | some q =>
    obtain ⟨l, r⟩ := q
    rw [hs] at e
    simp only [List.cons.injEq] at e
    obtain ⟨rfl, e⟩ := e
    obtain ⟨hx, hl⟩ := (splitOnce1_some_iff COLON x l r).1 hs
    unfold splitN1 at e
    cases hr : splitOnce1 COLON r with
    | none => rw [hr] at e; simp at e
    | some q2 =>
      obtain ⟨l2, r2⟩ := q2
      rw [hr] at e
      simp [splitN1] at e
      obtain ⟨rfl, rfl⟩ := e
      obtain ⟨hr2, hl2⟩ := (splitOnce1_some_iff COLON r l2 r2).1 hr
      exact ⟨by rw [hx, hr2], hl, hl2⟩

theorem splitN1_two_eq_single {x h : Bytes} (e : splitN1 COLON 2 x = [h]) : x = h := by
  have := join_splitN1 COLON 2 x
  rw [e] at this; exact this.symm

/-- the last part of a full split: no separator inside, and the input is the
    joined initial parts, a separator (if there are initial parts), then it -/
theorem splitAll1_last (sep : UInt8) (x : Bytes) :
    ∃ init y, splitAll1 sep x = init ++ [y] ∧ sep ∉ y ∧
      x = join [sep] init ++ (if init = [] then [] else [sep]) ++ y := by
  rcases List.eq_nil_or_concat (splitAll1 sep x) with h | ⟨init, y, h⟩
  · exact absurd h (splitN1_ne_nil sep _ x)
  · rw [List.concat_eq_append] at h
    refine ⟨init, y, h, ?_, ?_⟩
    · exact splitAll1_no_sep sep x y (by rw [h]; simp)
    · have hj := join_dropLast_getLast [sep] (splitAll1 sep x) (splitN1_ne_nil sep _ x)
      rw [join_splitAll1, h] at hj
      simpa using hj

/-- two colons can be peeled off the front -/
theorem two_colons (t : Bytes) (h : 2 ≤ t.count COLON) :
    ∃ a c rest, t = a ++ COLON :: (c ++ COLON :: rest) ∧ COLON ∉ a ∧ COLON ∉ c := by
  cases hs : splitOnce1 COLON t with
  | none =>
    have := (splitOnce1_none_iff COLON t).1 hs
    rw [List.count_eq_zero_of_not_mem this] at h; omega
  | some q =>
    obtain ⟨a, r⟩ := q
    obtain ⟨hx, ha⟩ := (splitOnce1_some_iff COLON t a r).1 hs
    have hc : t.count COLON = r.count COLON + 1 := by
      subst hx; simp [List.count_append, List.count_eq_zero_of_not_mem ha]
    cases hr : splitOnce1 COLON r with
    | none =>
      have := (splitOnce1_none_iff COLON r).1 hr
      rw [List.count_eq_zero_of_not_mem this] at hc; omega
    | some q2 =>
      obtain ⟨c, rest⟩ := q2
      obtain ⟨hr2, hcc⟩ := (splitOnce1_some_iff COLON r c rest).1 hr
      exact ⟨a, c, rest, by rw [hx, hr2], ha, hcc⟩

end Px.UrlL
