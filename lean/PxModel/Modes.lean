import PxModel.Relay
/-
  Model of the three execution modes of proxy.py, as three *drivers* over the
  one per-connection handler model of `PxModel/Relay.lean`
  (`Relay.tick` = `HttpProtocolHandler.handle_events`, `Relay.events` =
  `get_events`, `Relay.step` = select restricted to the registered interest,
  then `handle_events`; `Relay.shutdown` = `HttpProtocolHandler.shutdown()`).

    proxy/core/acceptor/acceptor.py   Acceptor.run_once / _work: which driver gets the connection
        threadless and local_executor : `_local_work_queue.put(work)`  → LocalFdExecutor (companion thread)
        threadless, not local_executor: `delegate_work_to_pool` (thread; `send_handle`, then `conn.close()`)
        otherwise                     : `start_threaded_work` → `threading.Thread(target=work.run)`
    proxy/http/handler.py             run() / _run_once() / _selected_events() / shutdown() / _flush()
    proxy/core/work/threadless.py     _run_once (one round), _run_forever (reaper cadence), _cleanup
    proxy/core/work/fd/fd.py          ThreadlessFdExecutor.work: `conn or socket.socket(fileno=socket.dup(fileno))`
    proxy/core/work/fd/local.py       work id = `conn.fileno()`, the accepted socket object is used as is
    proxy/core/work/fd/remote.py      `fileno = recv_handle(work_queue)`; `self.work(fileno, addr, None)`
    proxy/core/work/threadless.py     `_cleanup`: `shutdown()`, then `os.close(work_id)` iff the work queue
                                      has a descriptor (remote executor)

  The only handler-level code that depends on the mode is
  `self.selector = DefaultSelector() if not flags.threadless` (handler.py:49):
  it enables `run()` and makes `shutdown()` call the blocking `_flush()` when
  output is still pending.  `handle_events`, `get_events`, the
  `must_flush_before_shutdown` deferral of `BaseTcpServerHandler` and every
  plugin are the same objects in all three modes.

  Environment nondeterminism is input (a *script*): per loop iteration the
  readiness the selector reports and every syscall outcome (`Relay.Tick`), the
  outcome of the clock comparison in `is_inactive()`, and for threaded
  `_flush()` the `select`/`send` outcomes (`Relay.SelEv`).

  NOT modelled (runtime behaviour, exercised by the live differential runs of
  harness/c17.py only): process creation, `send_handle`/`recv_handle`, thread
  scheduling, which acceptor / worker gets a connection, `KeyboardInterrupt`.
  Several connections in one executor: independence is theorem `C05_noninterference`
  (PxProofs/C05.lean); here the executor is restricted to one work.
-/
namespace Px.Modes
open Px Px.Relay

inductive Mode | threaded | local | remote
  deriving DecidableEq, Repr

/-- how the main loop of a driver ended.
    * `teardown`  : `handle_events` returned `True`
    * `raised`    : an exception escaped `handle_events` (threaded: `except Exception` in `run()`;
                    threadless: `task.result()` raises → `teardown = True`)
    * `inactive`  : `is_inactive()` was true (threaded: top of the loop; threadless: `_cleanup_inactive`)
    * `scriptEnd` : the script is exhausted, the connection is still being served -/
inductive LoopEnd | teardown | raised | inactive | scriptEnd
  deriving DecidableEq, Repr

/-- the `Relay.Ret` a loop end stands for when the calls are replayed with `Relay.run` -/
def LoopEnd.toRet : LoopEnd → Ret
  | .teardown => .teardown
  | .raised => .raised
  | .inactive => .cont
  | .scriptEnd => .cont

/-- `HttpProtocolHandler.is_inactive()`:
    `not self.work.has_buffer() and self._connection_inactive_for() > self.flags.timeout`;
    `expired` is the outcome of the clock comparison (C20 models the clock). -/
def isInactive (s : St) (expired : Bool) : Bool := !s.client.hasBuffer && expired

/-- one iteration of `while True` in `HttpProtocolHandler.run()` -/
structure TRound where
  /-- `time.time() - last_activity > flags.timeout` at the top of the iteration -/
  expired : Bool
  /-- what `selector.select()` reports and the outcome of every syscall of `handle_events` -/
  tick : Tick
  deriving DecidableEq, Repr

/-- one `_run_once` of the executor as seen by one work, and the bookkeeping
    of `_run_forever` after it -/
structure ERound where
  tick : Tick
  /-- `none`: `elapsed < cleanup_inactive_timeout`, the reaper does not run after this round;
      `some e`: `_cleanup_inactive()` runs and the clock comparison of `is_inactive()` gives `e` -/
  reap : Option Bool
  deriving DecidableEq, Repr

structure LoopRes where
  /-- handler state when the loop ended -/
  st : St
  stop : LoopEnd
  /-- the environment input of every `handle_events` call made, in order -/
  calls : List Tick
  deriving DecidableEq, Repr

/-- `HttpProtocolHandler.run()`, the loop:
    ```
    while True:
        if self.is_inactive(): break
        if loop.run_until_complete(self._run_once()): break
    except Exception: (logged)
    ```
    `_run_once` = `_selected_events()` (register what `get_events()` returns in the
    handler's own selector, `select`, split into readables / writables) and
    `handle_events` — i.e. `Relay.step`; the `finally` of `_run_once` only
    unregisters.  A select timeout still calls `handle_events([], [])`. -/
def threadedLoop (s : St) : List TRound → LoopRes
  | [] => ⟨s, .scriptEnd, []⟩
  | r :: rs =>
    if isInactive s r.expired then ⟨s, .inactive, []⟩
    else
      match step s r.tick with
      | (s1, .cont) => let x := threadedLoop s1 rs; { x with calls := r.tick :: x.calls }
      | (s1, .teardown) => ⟨s1, .teardown, [r.tick]⟩
      | (s1, .raised) => ⟨s1, .raised, [r.tick]⟩

/-- some descriptor of the work is in the selector's answer: the work gets an
    entry in `work_by_ids` and a `handle_events` task -/
def anyReady (t : Tick) : Bool := t.cR || t.cW || t.uR || t.uW

/-- `_cleanup_inactive()` after the round closes this work -/
def reaped (s : St) : Option Bool → Bool
  | none => false
  | some e => isInactive s e

/-- `Threadless._run_forever` restricted to one work:
    ```
    _run_once:  _update_work_events (get_events → selector) ; select ;
                for each work WITH ready descriptors: task = handle_events(readables, writables)
                teardown = task.result()  /  except Exception: teardown = True
                if teardown: _cleanup(work_id)
    then, when due: _cleanup_inactive()
    ```
    A work none of whose descriptors is ready gets no `handle_events` call. -/
def execLoop (s : St) : List ERound → LoopRes
  | [] => ⟨s, .scriptEnd, []⟩
  | r :: rs =>
    if anyReady (mask (events s) r.tick) then
      match step s r.tick with
      | (s1, .cont) =>
        if reaped s1 r.reap then ⟨s1, .inactive, [r.tick]⟩
        else let x := execLoop s1 rs; { x with calls := r.tick :: x.calls }
      | (s1, .teardown) => ⟨s1, .teardown, [r.tick]⟩
      | (s1, .raised) => ⟨s1, .raised, [r.tick]⟩
    else if reaped s r.reap then ⟨s, .inactive, []⟩
    else execLoop s rs

/-! ### descriptor bookkeeping -/

/-- the descriptors that refer to the client connection:
    `accepted` — `conn` returned by `accept()` in the acceptor process;
    `received` — `fileno = recv_handle(work_queue)` in the worker process (the work id);
    `dup`      — `socket.dup(fileno)`, wrapped by the `socket` object the handler uses -/
inductive Desc | accepted | received | dup
  deriving DecidableEq, Repr

inductive FdOp | opn (d : Desc) | cls (d : Desc)
  deriving DecidableEq, Repr

/-- descriptor operations of a connection's life, in program order.
    threaded / local: the accepted socket object is the handler's connection and
    `shutdown()` closes it.  remote: `send_handle` installs `received` in the worker,
    `delegate_work_to_pool` closes `accepted`, `work()` dups; `shutdown()` closes the
    dup (`self.work.connection.close()`), `_cleanup` then `os.close(work_id)`. -/
def fdOps (m : Mode) (finished : Bool) : List FdOp :=
  match m with
  | .threaded | .local => .opn .accepted :: (if finished then [.cls .accepted] else [])
  | .remote =>
    [.opn .accepted, .opn .received, .cls .accepted, .opn .dup] ++
      (if finished then [.cls .dup, .cls .received] else [])

/-- the descriptor the handler's `work.connection` wraps -/
def handlerDesc : Mode → Desc
  | .remote => .dup
  | _ => .accepted

structure FdState where
  openNow : List Desc := []
  /-- a descriptor was closed that was not open (double close / close before open) -/
  bad : Bool := false
  deriving DecidableEq, Repr

def fdApply (x : FdState) : FdOp → FdState
  | .opn d => if d ∈ x.openNow then { x with bad := true } else { x with openNow := x.openNow ++ [d] }
  | .cls d => if d ∈ x.openNow then { x with openNow := x.openNow.filter (· ≠ d) } else { x with bad := true }

def fdRun (ops : List FdOp) : FdState := ops.foldl fdApply {}

/-! ### whole runs -/

structure RunRes where
  mode : Mode
  loop : LoopRes
  /-- `none`: the script ended before the loop did — `shutdown()` has not been called -/
  shut : Option ShutRes
  fds : FdState
  deriving DecidableEq, Repr

/-- `finally: self.shutdown()` of `run()` / `self.works[work_id].shutdown()` of `_cleanup`;
    `threaded` = `self.selector is not None` -/
def shutAfter (threaded : Bool) (l : LoopRes) (flush : List SelEv) : Option ShutRes :=
  match l.stop with
  | .scriptEnd => none
  | _ => some (shutdown threaded l.st.maxSend l.st.client flush)

def mkRun (m : Mode) (l : LoopRes) (flush : List SelEv) : RunRes :=
  let sh := shutAfter (m == .threaded) l flush
  { mode := m, loop := l, shut := sh,
    fds := fdRun (fdOps m (sh.any (fun r => r.client.closed))) }

/-- thread per connection: `start_threaded_work` → `work.run()` -/
def threadedRun (s : St) (rounds : List TRound) (flush : List SelEv) : RunRes :=
  mkRun .threaded (threadedLoop s rounds) flush

/-- `LocalFdExecutor` in the acceptor process (companion thread) -/
def localRun (s : St) (rounds : List ERound) : RunRes :=
  mkRun .local (execLoop s rounds) []

/-- `RemoteFdExecutor` in a worker process: the same executor code on a dup of
    the passed descriptor -/
def remoteRun (s : St) (rounds : List ERound) : RunRes :=
  mkRun .remote (execLoop s rounds) []

/-! ### what the peers observe -/

/-- per-connection observation: data, then (if the run got that far) the close.
    In every driver the close is the last event of the connection: all sends
    (loop, then `_flush`) precede `connection.close()`. -/
structure Transcript where
  /-- bytes accepted by sends to the client, in order -/
  toClient : Bytes
  /-- bytes accepted by sends to the upstream, in order -/
  toUpstream : Bytes
  /-- bytes read from the client / the upstream -/
  fromClient : Bytes
  fromUpstream : Bytes
  /-- the client connection was closed (after `toClient`) -/
  closed : Bool
  /-- `plugin.on_client_connection_close()` ran (it closes the upstream, after `toUpstream`) -/
  upstreamReleased : Bool
  /-- queued for the client and never sent -/
  lost : Bytes
  /-- no descriptor of the connection is left open in any process -/
  fdsReleased : Bool
  deriving DecidableEq, Repr

def transcript (r : RunRes) : Transcript :=
  { toClient := r.loop.st.sentC ++ (r.shut.map (·.sent)).getD [],
    toUpstream := r.loop.st.sentU,
    fromClient := r.loop.st.recvC,
    fromUpstream := r.loop.st.recvU,
    closed := r.shut.any (fun x => x.client.closed),
    upstreamReleased := r.shut.any (fun x => x.pluginClosed),
    lost := match r.shut with
      | none => []
      | some x => x.client.buffer.flatten,
    fdsReleased := r.fds.openNow.isEmpty && !r.fds.bad }

/-! ### corresponding scripts -/

/-- The threaded loop asks `is_inactive()` *before* each round, the executor's
    reaper runs *after* a round.  The executor script that makes the same
    decisions at the same handler states as the threaded script `rounds`:
    same ticks, the clock outcome of threaded iteration `i+1` is the reaper
    outcome after executor round `i`. -/
def shiftRounds : List TRound → List ERound
  | [] => []
  | [r] => [⟨r.tick, none⟩]
  | r :: r' :: rs => ⟨r.tick, some r'.expired⟩ :: shiftRounds (r' :: rs)

/-- fields of `St` no code reads: the per-tick trace (`trC`, `trU`) and
    `writes_teared` (assigned at the start of every `handle_events`, never read) -/
def norm (s : St) : St := { s with trC := none, trU := none, writesTeared := false }

/-! ### the hand-off of an accepted connection to a remote worker

    proxy/core/work/delegate.py   delegate_work_to_pool:
        with work_lock:
            work_queue.send(addr)                       -- unless --unix-socket-path
            send_handle(work_queue, conn.fileno(), worker_pid)
            conn.close()
    proxy/core/work/fd/remote.py  RemoteFdExecutor.receive_from_work_queue:
        addr = self.work_queue.recv(); fileno = recv_handle(self.work_queue); self.work(fileno, addr, None)

  Several acceptors (one delegate thread per connection each) share the pipe of
  one worker.  The pipe is a FIFO of tagged items; a *schedule* is the list of
  thread ids in the order in which the scheduler lets them take their next step
  (a step of a thread waiting for a held lock is a no-op). -/

inductive Item | addr (i : Nat) | fd (i : Nat)
  deriving DecidableEq, Repr

inductive HOp | acquire | sendAddr | sendFd | release
  deriving DecidableEq, Repr

/-- `delegate_work_to_pool` as it is: both sends under one acquisition of the worker lock -/
def lockedProg : List HOp := [.acquire, .sendAddr, .sendFd, .release]

/-- the variant "hold the lock only while the descriptor is in flight" -/
def addrOutsideProg : List HOp := [.sendAddr, .acquire, .sendFd, .release]

structure HS where
  pipe : List Item := []
  /-- thread holding `work_lock` -/
  lock : Option Nat := none
  /-- program counter of every delegate thread -/
  pc : Nat → Nat := fun _ => 0
  /-- ghost: order of lock acquisitions -/
  acq : List Nat := []

def upd (f : Nat → Nat) (i v : Nat) : Nat → Nat := fun j => if j = i then v else f j

/-- thread `i` takes its next step -/
def hstep (prog : List HOp) (s : HS) (i : Nat) : HS :=
  match prog[s.pc i]? with
  | none => s
  | some .acquire =>
    if s.lock.isNone then { s with lock := some i, pc := upd s.pc i (s.pc i + 1), acq := s.acq ++ [i] }
    else s
  | some .sendAddr => { s with pipe := s.pipe ++ [.addr i], pc := upd s.pc i (s.pc i + 1) }
  | some .sendFd => { s with pipe := s.pipe ++ [.fd i], pc := upd s.pc i (s.pc i + 1) }
  | some .release => { s with lock := none, pc := upd s.pc i (s.pc i + 1) }

def hrun (prog : List HOp) (sched : List Nat) : HS := sched.foldl (hstep prog) {}

/-- what one intact hand-off puts on the pipe -/
def pairOf (i : Nat) : List Item := [.addr i, .fd i]

/-- the worker's receive loop on the pipe content: `recv()` must find an address,
    `recv_handle()` a descriptor; anything else is an exception (`recv_handle` on
    pickled address bytes raises `RuntimeError`) or a read that never completes -/
def recvAll : List Item → Option (List (Nat × Nat))
  | [] => some []
  | .addr a :: .fd b :: rest => (recvAll rest).map ((a, b) :: ·)
  | _ => none

/-! ### framing of a hand-off: does an address item precede the descriptor?

    Acceptor._work passes `self.flags.unix_socket_path` to `delegate_work_to_pool`, which sends the address
    `if not unix_socket_path`; `RemoteFdExecutor.receive_from_work_queue` reads one
    `if not self.flags.unix_socket_path`.  With `--unix-socket-path P --ports N` connections accepted on the
    extra TCP listeners do have an address, connections accepted on the unix listener have `None`. -/

inductive ConnKind | tcp | unix
  deriving DecidableEq, Repr

/-- `delegate_work_to_pool`: decided from the flag alone -/
def senderSends (unixFlag : Bool) (_k : ConnKind) : Bool := !unixFlag

/-- the variant "send the address whenever the connection has one" -/
def senderSendsByAddr (unixFlag : Bool) (k : ConnKind) : Bool := k == .tcp || !unixFlag

/-- `receive_from_work_queue`: decided from the flag alone -/
def receiverExpects (unixFlag : Bool) : Bool := !unixFlag

def frame (sends : Bool) (i : Nat) : List Item := if sends then [.addr i, .fd i] else [.fd i]

/-- pipe content after the hand-offs `hs` (id, kind), one after the other (`C17_handoff_atomic`) -/
def framedPipe (policy : Bool → ConnKind → Bool) (u : Bool) (hs : List (Nat × ConnKind)) : List Item :=
  hs.flatMap (fun h => frame (policy u h.2) h.1)

/-- the worker's receive loop when it does / does not expect an address before each descriptor -/
def recvFramed (expect : Bool) : List Item → Option (List (Option Nat × Nat))
  | [] => some []
  | .addr a :: .fd b :: rest =>
    if expect then (recvFramed expect rest).map ((some a, b) :: ·) else none
  | .fd b :: rest =>
    if expect then none else (recvFramed expect rest).map ((none, b) :: ·)
  | _ => none

/-! ### the acceptor → local executor hand-off queue

    proxy/common/backports.py  NonBlockingQueue ("simple, unbounded, non-blocking FIFO queue"):
        put(item): self._queue.append(item); self._count.release()
        get():     if not self._count.acquire(False, None): raise Empty ; return self._queue.popleft()
    proxy/core/acceptor/acceptor.py   run_once: `self._local_work_queue.put(work)` for every accepted connection
    proxy/core/work/fd/local.py       receive_from_work_queue: one `get()` per executor round (`queue.Empty` suppressed) -/

inductive QOp | put (x : Nat) | get
  deriving DecidableEq, Repr

structure QS where
  /-- works waiting for the executor -/
  q : List Nat := []
  /-- results of the `get()` calls so far; `none` = `queue.Empty` -/
  got : List (Option Nat) := []
  deriving DecidableEq, Repr

def qstep (s : QS) : QOp → QS
  | .put x => { s with q := s.q ++ [x] }
  | .get =>
    match s.q with
    | [] => { s with got := s.got ++ [none] }
    | x :: r => { q := r, got := s.got ++ [some x] }

def qrun (ops : List QOp) : QS := ops.foldl qstep {}

/-- everything ever put, in order -/
def putsOf (ops : List QOp) : List Nat :=
  ops.filterMap (fun o => match o with | .put x => some x | .get => none)

/-- a queue bounded like `deque(maxlen=cap)`: a `put` on a full queue discards the OLDEST entry -/
def bqstep (cap : Nat) (s : QS) : QOp → QS
  | .put x => { s with q := if s.q.length < cap then s.q ++ [x] else s.q.drop 1 ++ [x] }
  | .get => qstep s .get

end Px.Modes
