import PxProofs.ForwardEmit2
/-!
# C02 helper lemmas, part 10: the emitted request is semantically the specified one

`(fwdImpl first cfg r).semEq (fwdSpecWith first cfg r)` for well-formed `r`.
-/
namespace Px.Forward

open Px.Parser Px.Build

/-! ### the treated header map, read back as fields -/

/-- not one of the proxy-only fields -/
def notProxy (cfg : Cfg) (f : Field) : Bool :=
  lower f.name != lower cfg.proxyAuthorization && lower f.name != lower cfg.proxyConnection

/-- not disabled by the operator -/
def notDisabled (cfg : Cfg) (f : Field) : Bool := !cfg.disable.contains (lower f.name)

/-- the implementation's Via treatment on fields: like `addVia`, but the field is re-spelled `Via` -/
def addViaI (cfg : Cfg) (fs : List Field) : List Field :=
  if fs.any (nameIs viaLower) then
    fs.map (fun f => if nameIs viaLower f then
      { f with name := viaName, value := f.value ++ commaSp ++ viaValue cfg } else f)
  else fs ++ [viaField cfg]

/-- the fields behind the rebuilt header dict -/
def implFields (first : Bool) (cfg : Cfg) (r : Req) : List Field :=
  ((if first then addViaI cfg (r.fields.filter (notProxy cfg)) else r.fields.filter (notProxy cfg))).filter
    (notDisabled cfg)

theorem entries_filter (fs : List Field) (q : Bytes → Bool) :
    (entries fs).filter (fun e => q e.1) = entries (fs.filter (fun f => q (lower f.name))) := by
  simp only [entries, List.filter_map]
  rfl

theorem keptEntries_entries (cfg : Cfg) (fs : List Field) :
    keptEntries cfg (entries fs) = entries (fs.filter (notProxy cfg)) := by
  unfold keptEntries hdrDel
  rw [entries_filter fs (fun k => k != lower cfg.proxyAuthorization),
    entries_filter _ (fun k => k != lower cfg.proxyConnection), List.filter_filter]
  congr 1
  apply List.filter_congr
  intro f _
  simp [notProxy, Bool.and_comm]

theorem nodup_filter_names {fs : List Field} (hn : (fs.map (fun f => lower f.name)).Nodup) (q : Field → Bool) :
    ((fs.filter q).map (fun f => lower f.name)).Nodup :=
  (List.filter_sublist.map _).nodup hn

theorem withVia_entries (cfg : Cfg) (G : List Field) (hn : (G.map (fun f => lower f.name)).Nodup) :
    withVia cfg (entries G) = entries (addViaI cfg G) := by
  by_cases hv : G.any (nameIs viaLower) = true
  · -- a via field: replaced in place
    obtain ⟨g, hg, hgv⟩ := List.any_eq_true.1 hv
    simp only [nameIs, beq_iff_eq] at hgv
    have hmem : (lower g.name, (g.name, g.value)) ∈ entries G := by
      simp only [entries, List.mem_map]; exact ⟨g, hg, rfl⟩
    have hkeys : ((entries G).map (·.1)).Nodup := by rw [entries_keys]; exact hn
    rw [withVia_present cfg (entries G) hkeys hmem hgv]
    simp only [addViaI, hv, if_true, entries, List.map_map]
    apply List.map_congr_left
    intro f hf
    simp only [Function.comp]
    by_cases hfv : lower f.name = viaLower
    · have : f = g := inj_of_nodup_map _ hn hf hg (by rw [hfv, hgv])
      subst this
      simp [nameIs, hfv, lower_viaName]
    · have h1 : (lower f.name == viaLower) = false := by simpa using hfv
      simp [nameIs, h1]
  · -- no via field: appended
    simp only [Bool.not_eq_true] at hv
    have hk : ∀ e ∈ entries G, e.1 ≠ viaLower := by
      intro e he
      simp only [entries, List.mem_map] at he
      obtain ⟨f, hf, rfl⟩ := he
      have := List.any_eq_false.1 hv f hf
      simpa [nameIs] using this
    rw [withVia_absent cfg _ hk]
    simp [addViaI, hv, entries, viaField, lower_viaName]

theorem entries_map_snd (fs : List Field) : (entries fs).map (·.2) = dictOf fs := by
  simp [entries, dictOf]

/-- the rebuilt dict is the dict of `implFields` -/
theorem keptDict_eq (first : Bool) (cfg : Cfg) (r : Req) (hn : (r.fields.map (fun f => lower f.name)).Nodup) :
    keptDict first cfg r = dictOf (implFields first cfg r) := by
  unfold keptDict treatedMap implFields
  rw [keptEntries_entries]
  cases first with
  | true =>
    simp only [if_true]
    rw [withVia_entries cfg _ (nodup_filter_names hn _),
      entries_filter _ (fun k => !cfg.disable.contains k)]
    exact entries_map_snd _
  | false =>
    simp only [Bool.false_eq_true, if_false]
    rw [entries_filter _ (fun k => !cfg.disable.contains k)]
    exact entries_map_snd _

/-! ### pairs: fields up to name case and OWS -/

def pairs (fs : List Field) : List (Bytes × Bytes) := fs.map (fun f => (lower f.name, f.value))

def dpairs (hd : HDict) : List (Bytes × Bytes) := hd.map (fun e => (lower e.1, e.2))

theorem otherFields_eq (r : Req) : otherFields r = (pairs r.fields).filter (fun p => p.1 != clName) := by
  simp only [otherFields, pairs, List.filter_map]
  congr 1

theorem clValues_eq (r : Req) :
    clValues r = ((pairs r.fields).filter (fun p => p.1 == clName)).map (fun p => pyInt 10 p.2) := by
  simp only [clValues, pairs, List.filter_map, List.map_map]
  congr 1

theorem pairs_of_dict (hd : HDict) :
    pairs (hd.map (fun e => ({ name := e.1, pre := [SP], value := e.2, post := [] } : Field))) = dpairs hd := by
  simp [pairs, dpairs, List.map_map, Function.comp_def]

theorem dpairs_dictOf (fs : List Field) : dpairs (dictOf fs) = pairs fs := by
  simp [pairs, dpairs, dictOf, List.map_map, Function.comp_def]

/-- the spec's kept fields are the implementation's, filtered in the other order -/
theorem spec_kept (cfg : Cfg) (fs : List Field) :
    fs.filter (fun f => !removed cfg f) = (fs.filter (notProxy cfg)).filter (notDisabled cfg) := by
  rw [List.filter_filter]
  apply List.filter_congr
  intro f _
  simp only [removed, notProxy, notDisabled, bne, Bool.not_or, Bool.and_comm]

theorem notDisabled_via (cfg : Cfg) (hc : CfgOk cfg) {f : Field} (h : nameIs viaLower f = true) :
    notDisabled cfg f = true := by
  simp only [nameIs, beq_iff_eq] at h
  have := (hc.2 viaLower (by simp)).1
  simp only [notDisabled, h, this]; rfl

/-- **fields**: what the implementation emits (before the builder's own Content-Length) and what the
    specification asks for agree up to name case and OWS, in order -/
theorem pairs_impl_spec (first : Bool) (cfg : Cfg) (hc : CfgOk cfg) (r : Req) :
    pairs (implFields first cfg r) = pairs (fwdSpecWith first cfg r).fields := by
  unfold implFields fwdSpecWith
  simp only [spec_kept]
  cases first with
  | false => simp
  | true =>
    simp only [if_true]
    generalize r.fields.filter (notProxy cfg) = G
    by_cases hv : G.any (nameIs viaLower) = true
    · have hv' : (G.filter (notDisabled cfg)).any (nameIs viaLower) = true := by
        obtain ⟨g, hg, hgv⟩ := List.any_eq_true.1 hv
        exact List.any_eq_true.2 ⟨g, List.mem_filter.2 ⟨hg, notDisabled_via cfg hc hgv⟩, hgv⟩
      simp only [addViaI, addVia, hv, hv', if_true, List.filter_map]
      simp only [pairs, List.map_map]
      have hfilt : G.filter ((notDisabled cfg) ∘ fun f => if nameIs viaLower f = true then
          { f with name := viaName, value := f.value ++ commaSp ++ viaValue cfg } else f) =
          G.filter (notDisabled cfg) := by
        apply List.filter_congr
        intro f _
        simp only [Function.comp]
        by_cases hfv : nameIs viaLower f = true
        · simp only [hfv, if_true, notDisabled, lower_viaName]
          simp only [nameIs, beq_iff_eq] at hfv
          rw [hfv]
        · simp [hfv]
      rw [hfilt]
      apply List.map_congr_left
      intro f _
      simp only [Function.comp]
      by_cases hfv : nameIs viaLower f = true
      · simp only [hfv, if_true, lower_viaName]
        simp only [nameIs, beq_iff_eq] at hfv
        rw [hfv]
      · simp [hfv]
    · simp only [Bool.not_eq_true] at hv
      have hv' : (G.filter (notDisabled cfg)).any (nameIs viaLower) = false := by
        rw [List.any_eq_false]
        intro f hf
        exact List.any_eq_false.1 hv f (List.mem_filter.1 hf).1
      have hvf : notDisabled cfg (viaField cfg) = true :=
        notDisabled_via cfg hc (by simp [nameIs, viaField, lower_viaName])
      simp [addViaI, addVia, hv, hv', List.filter_append, hvf]

end Px.Forward
