import PxProofs.RebuildThms
/-!
# `parse (build_response m)` for the three framings (C15)
-/
namespace Px.Codec

open Px.Parser Px.Build
open Px.Url (Url)

/-- common guard of the response rebuild theorems: `code` is the canonical decimal text of `n`
    (`build_response` re-renders `int(self.code)`) -/
structure ResGuard (p : Parser) (ver code : Bytes) (n : Int) : Prop where
  tyEq : p.ty = .response
  versionEq : p.version = some ver
  codeEq : p.code = some code
  versionTok : plainTok ver = true
  codeNe : code ≠ []
  codeInt : pyInt 10 code = some n
  codeCanon : intToDec n = code
  reason : reasonOK p.reason = true
  hdrs : hdrInvB (p.headers.getD []) = true

theorem buildResponseOf_eq (bufSize : Nat) (p : Parser) (ver code : Bytes) (n : Int) (g : ResGuard p ver code n) :
    buildResponseOf bufSize p =
      match bodyOrChunks bufSize p with
      | .error e => .error e
      | .ok body => .ok (buildResponse n ver p.reason (hdrPairs p) body false false) := by
  obtain ⟨hty, hv, hc, hvt, hcne, hci, -, -, hi⟩ := g
  unfold buildResponseOf hdrPairs
  have h1 : code.isEmpty = false := by simpa using hcne
  have h2 : ver.isEmpty = false := by simpa using (plainTok_spec hvt).1
  simp only [hc, hv, hty, h1, h2, Bool.not_false, beq_self_eq_true, Bool.and_self, Bool.not_true,
    Bool.false_eq_true, if_false, Option.getD_some, hci]
  cases hb : bodyOrChunks bufSize p with
  | error e => rfl
  | ok body =>
    simp only
    rcases hh : p.headers with _ | h
    · rfl
    · rw [hh] at hi
      simp only [Option.getD_some] at hi ⊢
      by_cases he : h.isEmpty = true
      · have : h = [] := by simpa using he
        subst this; rfl
      · simp only [he, Bool.false_eq_true, if_false]
        rw [respHeaders_eq h hi]

theorem resHeaders_rebuild (L : HDict) (body : Option Bytes) :
    resHeaders L body false false =
      if !hasKey kTE L then dSet L nCL (if bodyTruthy body then natToDec (body.getD []).length else [48]) else L := by
  simp [resHeaders, pktHeaders]

/-- **rebuild → reparse, response without body**: `Content-Length: 0` is (re)written -/
theorem build_parse_resp_nobody (cfg : Cfg) (bufSize : Nat) (p : Parser) (ver code : Bytes) (n : Int)
    (g : ResGuard p ver code n) (hch : p.isChunked = false) (hb : bodyTruthy p.body = false)
    (hte : ∀ e ∈ hdrPairs p, lower e.1 ≠ kTE)
    (hcl : ∀ e ∈ hdrPairs p, isCL e = true → pyInt 10 e.2 = some 0) :
    ∃ raw r, buildResponseOf bufSize p = .ok raw ∧ parse cfg (init .response) raw = .ok r ∧
      ResResult r ver code (reasonSeen p.reason) (dSet (hdrPairs p) nCL [48]) none false := by
  have hbc : bodyOrChunks bufSize p = .ok p.body := by
    unfold bodyOrChunks; cases p.body <;> simp [hch]
  have hbuild : buildResponseOf bufSize p = .ok (buildResponse n ver p.reason (hdrPairs p) p.body false false) := by
    rw [buildResponseOf_eq bufSize p ver code n g, hbc]
  obtain ⟨hty, hv, hc, hvt, hcne, hci, hcc, hr, hi⟩ := g
  have heq : resHeaders (hdrPairs p) p.body false false = dSet (hdrPairs p) nCL [48] := by
    rw [resHeaders_rebuild, hasKey_false hte, hb]; rfl
  have hH := resHeaders_hdrOK (hs := hdrPairs p) (body := p.body) (cc := false) (noCl := false)
    (wfHeaders_namesOf hi)
  have hnoTE := resHeaders_noTE (hs := hdrPairs p) (body := p.body) (cc := false) (noCl := false)
    (fun e he => isTEChunked_false_of (hte e he))
  have hmem := resHeaders_has_cl (hs := hdrPairs p) (body := p.body) (cc := false) hte
  have hHne : resHeaders (hdrPairs p) p.body false false ≠ [] := fun h => by rw [h] at hmem; simp at hmem
  obtain ⟨r, h1, h2⟩ := res_pkt_nobody cfg n (v := ver) p.reason _ hvt hr hHne hH hnoTE
    (fun e he hc' => by
      rcases resHeaders_cl' he hc' with h | rfl
      · exact hcl e h hc'
      · rw [hb]; exact pyInt10_zero)
  refine ⟨_, r, hbuild, ?_, ?_⟩
  · rw [buildResponse_eq, bodyTruthy_false_getD hb]; exact h1
  · rw [heq, hcc] at h2; exact h2

/-- **rebuild → reparse, response with a Content-Length framed body** -/
theorem build_parse_resp_cl (cfg : Cfg) (bufSize : Nat) (p : Parser) (ver code : Bytes) (n : Int)
    (g : ResGuard p ver code n) (hch : p.isChunked = false) (hb : bodyTruthy p.body = true)
    (hte : ∀ e ∈ hdrPairs p, lower e.1 ≠ kTE)
    (hcl : ∀ e ∈ hdrPairs p, isCL e = true → pyInt 10 e.2 = some (Int.ofNat (p.body.getD []).length))
    (hlen : (p.body.getD []).length < 10 ^ intMaxStrDigits) :
    ∃ raw r, buildResponseOf bufSize p = .ok raw ∧ parse cfg (init .response) raw = .ok r ∧
      ResResult r ver code (reasonSeen p.reason)
        (dSet (hdrPairs p) nCL (natToDec (p.body.getD []).length)) p.body false := by
  have hbc : bodyOrChunks bufSize p = .ok p.body := by
    unfold bodyOrChunks; cases p.body <;> simp [hch]
  have hbuild : buildResponseOf bufSize p = .ok (buildResponse n ver p.reason (hdrPairs p) p.body false false) := by
    rw [buildResponseOf_eq bufSize p ver code n g, hbc]
  obtain ⟨hty, hv, hc, hvt, hcne, hci, hcc, hr, hi⟩ := g
  obtain ⟨hne, hbeq⟩ := bodyTruthy_getD hb
  have heq : resHeaders (hdrPairs p) p.body false false =
      dSet (hdrPairs p) nCL (natToDec (p.body.getD []).length) := by
    rw [resHeaders_rebuild, hasKey_false hte, hb]; rfl
  have hH := resHeaders_hdrOK (hs := hdrPairs p) (body := p.body) (cc := false) (noCl := false)
    (wfHeaders_namesOf hi)
  have hnoTE := resHeaders_noTE (hs := hdrPairs p) (body := p.body) (cc := false) (noCl := false)
    (fun e he => isTEChunked_false_of (hte e he))
  have hmem := resHeaders_has_cl (hs := hdrPairs p) (body := p.body) (cc := false) hte
  obtain ⟨r, h1, h2⟩ := res_pkt_cl cfg n (v := ver) p.reason _ (p.body.getD []) hvt hr hH hnoTE
    (fun e he hc' => by
      rcases resHeaders_cl' he hc' with h | rfl
      · exact hcl e h hc'
      · rw [if_pos hb]; exact pyInt10_natToDec _ hlen)
    ⟨_, hmem, by simp [isCL, lower_builders.2.2.2.2.2.1]⟩ hne
  refine ⟨_, r, hbuild, ?_, ?_⟩
  · rw [buildResponse_eq]; exact h1
  · rw [heq, hcc, ← hbeq] at h2; exact h2

/-- **rebuild → reparse, chunked response** (including the empty body) -/
theorem build_parse_resp_chunked (cfg : Cfg) (bufSize : Nat) (hbs : bufSize ≠ 0) (p : Parser) (ver code bd : Bytes)
    (n : Int) (g : ResGuard p ver code n) (hch : p.isChunked = true) (hb : p.body = some bd)
    (hte : ∃ e ∈ hdrPairs p, isTEChunked e = true) (hcl : clValuesOK (hdrPairs p)) :
    ∃ raw r, buildResponseOf bufSize p = .ok raw ∧ parse cfg (init .response) raw = .ok r ∧
      ResResult r ver code (reasonSeen p.reason) (hdrPairs p) (some bd) true := by
  obtain ⟨s, hsv, hsd, hsr⟩ := toChunks_in_grammar bd bufSize hbs
  have hbc : bodyOrChunks bufSize p = .ok (some s.render) := by
    unfold bodyOrChunks; simp [hb, hch, hsr]
  have hbuild : buildResponseOf bufSize p =
      .ok (buildResponse n ver p.reason (hdrPairs p) (some s.render) false false) := by
    rw [buildResponseOf_eq bufSize p ver code n g, hbc]
  obtain ⟨hty, hv, hc, hvt, hcne, hci, hcc, hr, hi⟩ := g
  obtain ⟨t, ht, htc⟩ := hte
  have hkey : hasKey kTE (hdrPairs p) = true :=
    List.any_eq_true.2 ⟨t, ht, by simp [isTEChunked_key htc]⟩
  obtain ⟨r, h1, h2⟩ := res_pkt_chunked cfg n (v := ver) p.reason (hdrPairs p) s hvt hr
    (hdrPairs_hdrOK p hi) (List.any_eq_true.2 ⟨t, ht, htc⟩) hcl hsv
  refine ⟨_, r, hbuild, ?_, ?_⟩
  · rw [buildResponse_eq, resHeaders_rebuild, hkey]; simpa using h1
  · rw [hsd, hcc] at h2; exact h2

end Px.Codec
