import PxModel.Forward
import PxModel.DrvParser
namespace Px.Forward

def errStr : Err → String
  | .parse _ => "parse" | .incomplete => "incomplete" | .notProxy => "notProxy"
  | .tunnel => "tunnel" | .noHost => "noHost" | .build _ => "build"

/-- `fwd first <disableCSV|-> <segs…>` / `fwd later <disableCSV|-> <segs…>`:
    the bytes queued to upstream for one request (`ok <hex>`), or `none`;
    `fwd why first|later …` prints the reason instead (debugging aid);
    `fwd conn <disableCSV|-> <write…>`: the whole connection, write by write -/
def drv (args : List String) : String :=
  match args with
  | "conn" :: disable :: writes =>
    -- `fwd conn <disableCSV|-> <write…>`: per client write, the bytes that reach the origin
    let dis : Option (List Bytes) :=
      if disable == "-" then some [] else (disable.splitOn ",").mapM unhex
    match dis, Px.Parser.unhexAll writes with
    | some dis, some ws =>
      let cfg : Cfg := { disable := dis }
      let r := Conn.feed cfg Conn.start ws
      "ok " ++ " ".intercalate (r.1.map (fun es => hex (es.map Emit.bytes).flatten))
    | _, _ => "bad-op"
  | "why" :: which :: disable :: segs =>
    let dis : Option (List Bytes) :=
      if disable == "-" then some [] else (disable.splitOn ",").mapM unhex
    match dis, Px.Parser.unhexAll segs with
    | some dis, some segs =>
      let cfg : Cfg := { disable := dis }
      match (if which == "first" then forwardFirst cfg segs else forwardLater cfg segs) with
      | .ok _ => "ok"
      | .error e => "none " ++ errStr e
    | _, _ => "bad-op"
  | which :: disable :: segs =>
    let dis : Option (List Bytes) :=
      if disable == "-" then some [] else (disable.splitOn ",").mapM unhex
    match dis, Px.Parser.unhexAll segs with
    | some dis, some segs =>
      let cfg : Cfg := { disable := dis }
      let r := if which == "first" then some (forwardFirst cfg segs)
        else if which == "later" then some (forwardLater cfg segs) else none
      match r with
      | some (.ok x) => "ok " ++ hex x
      | some (.error _) => "none"
      | none => "bad-op"
    | _, _ => "bad-op"
  | _ => "bad-op"

end Px.Forward
