import PxProofs.C14
/-!
# C14, handler level: from the bytes of the first request to the connect call

`Same`: the parser fields that decide the destination (`host`, `port`, tunnel
flag, `url`, `version`) are written by the request line only — header and body
processing (`_process_headers`, `_process_body`, the completion logic of `parse`)
never change them, for ANY bytes that follow the request line.
`C14_end_to_end` composes this with `C14_roundtrip`, `C14_defaults`,
`C14_connect_addr`.
-/
namespace Px.Connect
open Px Px.Url Px.UrlL Px.Parser

/-- the fields that decide where the handler connects -/
structure Same (p q : Parser) : Prop where
  host : q.host = p.host
  port : q.port = p.port
  tunnel : q.isTunnel = p.isTunnel
  url : q.url = p.url
  version : q.version = p.version
  ty : q.ty = p.ty
  st : p.state ≠ .initialized → q.state ≠ .initialized

theorem Same.refl (p : Parser) : Same p p := ⟨rfl, rfl, rfl, rfl, rfl, rfl, id⟩
theorem Same.trans {p q r : Parser} (a : Same p q) (b : Same q r) : Same p r :=
  ⟨b.host.trans a.host, b.port.trans a.port, b.tunnel.trans a.tunnel, b.url.trans a.url,
   b.version.trans a.version, b.ty.trans a.ty, fun h => b.st (a.st h)⟩

theorem processHeader_same {p q : Parser} {line : Bytes} (h : processHeader p line = .ok q) :
    Same p q ∧ q.state = p.state := by
  unfold processHeader at h
  split at h
  rename_i key value _
  simp only [] at h
  split at h
  · split at h
    · simp at h
    · simp only [Except.ok.injEq] at h; subst h
      exact ⟨⟨rfl, rfl, rfl, rfl, rfl, rfl, id⟩, rfl⟩
  · split at h <;> (simp only [Except.ok.injEq] at h; subst h; exact ⟨⟨rfl, rfl, rfl, rfl, rfl, rfl, id⟩, rfl⟩)

theorem processHeaders_same (f : Nat) {p q : Parser} {raw r : Bytes} {m : Bool}
    (h : processHeaders f p raw = .ok (q, m, r)) : Same p q := by
  induction f generalizing p raw with
  | zero =>
    simp only [processHeaders, Except.ok.injEq, Prod.mk.injEq] at h
    rw [← h.1]; exact Same.refl p
  | succ f ih =>
    unfold processHeaders at h
    split at h
    · simp only [Except.ok.injEq, Prod.mk.injEq] at h; rw [← h.1]; exact Same.refl p
    · rename_i line rest _
      simp only [] at h
      split at h
      · simp at h
      · rename_i p1 hstep
        have hp1 : Same p p1 := by
          split at hstep
          · split at hstep
            · simp only [Except.ok.injEq] at hstep; rw [← hstep]
              exact ⟨rfl, rfl, rfl, rfl, rfl, rfl, fun _ => by simp⟩
            · obtain ⟨hs, hst⟩ := processHeader_same hstep
              exact ⟨hs.host, hs.port, hs.tunnel, hs.url, hs.version, hs.ty, fun _ => by rw [hst]; simp⟩
          · simp only [Except.ok.injEq] at hstep; rw [← hstep]; exact Same.refl p
        split at h
        · simp only [Except.ok.injEq, Prod.mk.injEq] at h; rw [← h.1]; exact hp1
        · exact hp1.trans (ih h)

theorem processBody_same {p q : Parser} {raw r : Bytes} {m : Bool}
    (h : processBody p raw = .ok (q, m, r)) : Same p q := by
  unfold processBody at h
  split at h
  · simp only [] at h
    split at h
    · simp at h
    · simp only [Except.ok.injEq, Prod.mk.injEq] at h
      rw [← h.1]
      split
      · exact ⟨rfl, rfl, rfl, rfl, rfl, rfl, fun _ => by simp⟩
      · exact ⟨rfl, rfl, rfl, rfl, rfl, rfl, id⟩
  · split at h
    · simp only [] at h
      split at h
      · simp at h
      · split at h
        · simp at h
        · simp only [Except.ok.injEq, Prod.mk.injEq] at h; rw [← h.1]
          refine ⟨rfl, rfl, rfl, rfl, rfl, rfl, fun _ => ?_⟩
          have ite_ne : ∀ (c : Prop) [Decidable c],
              (if c then PState.complete else PState.rcvingBody) ≠ PState.initialized := by
            intro c _; split <;> decide
          exact ite_ne _
    · simp only [Except.ok.injEq, Prod.mk.injEq] at h; rw [← h.1]
      exact ⟨rfl, rfl, rfl, rfl, rfl, rfl, fun _ => by simp⟩

theorem stepOnce_same {cfg : Cfg} {p q : Parser} {raw r : Bytes} {m : Bool}
    (h : stepOnce cfg p raw = .ok (q, m, r)) (hi : p.state ≠ .initialized) : Same p q := by
  unfold stepOnce at h
  simp only [] at h
  split at h
  · simp at h
  · rename_i q1 m1 r1 hr
    have hq1 : Same p q1 := by
      split at hr
      · exact processBody_same hr
      · split at hr
        · rename_i hst; simp at hst; exact absurd hst hi
        · exact processHeaders_same _ hr
    have hc : ∀ q2 : Parser, q2 = { q1 with state := .complete } → Same p q2 := by
      intro q2 e; subst e
      exact ⟨hq1.host, hq1.port, hq1.tunnel, hq1.url, hq1.version, hq1.ty, fun _ => by simp⟩
    split at h
    · simp only [Except.ok.injEq, Prod.mk.injEq] at h; rw [← h.1]; exact hc _ rfl
    · split at h
      · simp only [Except.ok.injEq, Prod.mk.injEq] at h; rw [← h.1]; exact hc _ rfl
      · simp only [Except.ok.injEq, Prod.mk.injEq] at h; rw [← h.1]; exact hq1

theorem loop_same {cfg : Cfg} (f : Nat) {p q : Parser} {more : Bool} {raw r : Bytes}
    (h : loop cfg f p more raw = .ok (q, r)) (hi : p.state ≠ .initialized) : Same p q := by
  induction f generalizing p more raw with
  | zero => simp only [loop, Except.ok.injEq, Prod.mk.injEq] at h; rw [← h.1]; exact Same.refl p
  | succ f ih =>
    unfold loop at h
    split at h
    · simp only [Except.ok.injEq, Prod.mk.injEq] at h; rw [← h.1]; exact Same.refl p
    · split at h
      · simp at h
      · rename_i p1 m1 r1 hs
        have := stepOnce_same hs hi
        exact this.trans (ih h (this.st hi))

/-- the first loop iteration on a request line -/
theorem stepOnce_request_line (cfg : Cfg) (p : Parser) (m u v rest : Bytes) (url : Url)
    (hst : p.state = .initialized) (hty : p.ty = .request) (hne : m ≠ []) (hm : SP ∉ m) (hu : SP ∉ u)
    (hlf : ∀ c ∈ m ++ SP :: (u ++ SP :: v), c ≠ LF) (he : fromBytes cfg.allowedSchemes u = .ok url) :
    ∃ p1, stepOnce cfg p (m ++ SP :: (u ++ SP :: v) ++ CRLF ++ rest) = .ok (p1, !rest.isEmpty, rest) ∧
      p1.state = .lineRcvd ∧ p1.version = some v ∧ p1.url = some url ∧
      p1.host = (setLineAttributes cfg { p with method := some m, isTunnel := p.isTunnel || m == cfg.connectMethod } url).host ∧
      p1.port = (setLineAttributes cfg { p with method := some m, isTunnel := p.isTunnel || m == cfg.connectMethod } url).port ∧
      p1.isTunnel = (p.isTunnel || m == cfg.connectMethod) := by
  have hpl := processLine_request cfg p m u v rest hty hne hm hu hlf
  rw [he] at hpl
  simp only at hpl
  refine ⟨{ setLineAttributes cfg
      { p with method := some m, isTunnel := p.isTunnel || m == cfg.connectMethod } url with
      version := some v, state := .lineRcvd }, ?_, rfl, rfl, ?_, rfl, rfl, ?_⟩
  · unfold stepOnce
    have h2 : ¬ (p.state.num ≥ PState.headersComplete.num) := by rw [hst]; decide
    have h3 : (p.state == PState.initialized) = true := by rw [hst]; decide
    simp only [h2, if_false, h3, if_true, hpl]
    have hty' : (setLineAttributes cfg { p with method := some m, isTunnel := p.isTunnel || m == cfg.connectMethod } url).ty
        = .request := by
      unfold setLineAttributes; split <;> exact hty
    simp [hty']
  · unfold setLineAttributes; split <;> rfl
  · unfold setLineAttributes; split <;> rfl

/-- **C14 end to end.**  First request of a connection, any header block / body
after the request line (`rest` is arbitrary): for a well-formed absolute-form or
authority-form target whose port is not 0, the handler either waits for more
bytes, answers 400 (e.g. unknown HTTP version, malformed header), or connects —
and then to exactly (host without brackets, explicit-or-default port), as a
tunnel iff the method is CONNECT — with and without `--enable-conn-pool` (`pool`;
then the address is the key handed to a fresh `UpstreamConnectionPool.acquire`,
which opens the new connection to that key).  It never drops the request
silently, never answers 502 before connecting, never connects anywhere else. -/
theorem C14_end_to_end (cfg : Cfg) (m v rest : Bytes) (t : Target)
    (h : t.WF cfg.allowedSchemes) (hf : t.form ≠ .origin) (hd : cfg.defaultHttpPort ≠ 0) (hg : t.port ≠ some 0)
    (hne : m ≠ []) (hm : SP ∉ m) (hu : SP ∉ renderT t)
    (hlf : ∀ c ∈ m ++ SP :: (renderT t ++ SP :: v), c ≠ LF) (pool : Bool) :
    match handleFirst cfg pool [m ++ SP :: (renderT t ++ SP :: v) ++ CRLF ++ rest] with
    | .connected a tn _ =>
      a = ⟨t.host.bare, derivedPort cfg (m == cfg.connectMethod) t.port⟩ ∧ tn = (m == cfg.connectMethod)
    | .closeSilent => False
    | .reject502 => False
    | .incomplete => True
    | .reject400 => True := by
  have hrt := C14_roundtrip _ t h
  unfold handleFirst parseAll
  cases hpar : parse cfg (init .request) (m ++ SP :: (renderT t ++ SP :: v) ++ CRLF ++ rest) with
  | error e => simp
  | ok pf =>
    simp only
    -- the parser after the whole segment agrees with the parser after the request line
    have hlen : (m ++ SP :: (renderT t ++ SP :: v) ++ CRLF ++ rest).length > 0 := by simp [CRLF]; omega
    unfold parse at hpar
    simp only [init, hlen, decide_true] at hpar
    split at hpar
    · simp at hpar
    · rename_i q r hl
      simp only [Except.ok.injEq] at hpar
      obtain ⟨p1, hs1, hst1, hv1, hu1, hh1, hp1, ht1⟩ := stepOnce_request_line cfg
        { ty := .request, totalSize := 0 + (m ++ SP :: (renderT t ++ SP :: v) ++ CRLF ++ rest).length, buffer := none }
        m (renderT t) v rest t.expected rfl rfl hne hm hu hlf hrt
      unfold loop at hl
      simp only [Bool.not_true, Bool.false_or, show (PState.initialized == PState.complete) = false by decide,
        Bool.false_eq_true, if_false, hs1] at hl
      have hsame := loop_same _ hl (by rw [hst1]; decide)
      have hpf : pf.host = q.host ∧ pf.port = q.port ∧ pf.isTunnel = q.isTunnel ∧ pf.url = q.url ∧
          pf.version = q.version ∧ pf.state = q.state := by rw [← hpar]; exact ⟨rfl, rfl, rfl, rfl, rfl, rfl⟩
      -- what the request line left in the parser
      have hq := C14_connect_addr cfg
        { ty := .request, totalSize := 0 + (m ++ SP :: (renderT t ++ SP :: v) ++ CRLF ++ rest).length, buffer := none,
          method := some m, isTunnel := false || m == cfg.connectMethod } t h hf hd hg
      replace hq := (hq pool).1
      simp only [Bool.false_or] at hq hh1 hp1 ht1
      have hhost : pf.host = (setLineAttributes cfg
          { ty := .request, totalSize := 0 + (m ++ SP :: (renderT t ++ SP :: v) ++ CRLF ++ rest).length, buffer := none,
            method := some m, isTunnel := m == cfg.connectMethod } t.expected).host := by
        rw [hpf.1, hsame.host, hh1]
      have hport : pf.port = (setLineAttributes cfg
          { ty := .request, totalSize := 0 + (m ++ SP :: (renderT t ++ SP :: v) ++ CRLF ++ rest).length, buffer := none,
            method := some m, isTunnel := m == cfg.connectMethod } t.expected).port := by
        rw [hpf.2.1, hsame.port, hp1]
      have htun : pf.isTunnel = (m == cfg.connectMethod) := by rw [hpf.2.2.1, hsame.tunnel, ht1]
      rw [← hhost, ← hport] at hq
      simp only [parseAll]
      by_cases hc : (pf.state != PState.complete) = true
      · rw [if_pos hc]; trivial
      · rw [if_neg hc]
        cases hproto : handlerProtocol pf with
        | none => simp
        | some bb =>
          cases bb with
          | false => simp
          | true => cases pool <;> simp only [hq, htun, poolAcquire] <;> trivial

/-- hypotheses of `C14_end_to_end` are satisfiable (those of `C14_request_line` plus the guards),
    and the model does connect on such a request -/
example : exT1.WF ({} : Cfg).allowedSchemes ∧ exT1.form ≠ .origin ∧ ({} : Cfg).defaultHttpPort ≠ 0 ∧
    exT1.port ≠ some 0 ∧ SP ∉ b "GET" ∧ SP ∉ renderT exT1 ∧
    (∀ c ∈ b "GET" ++ SP :: (renderT exT1 ++ SP :: b "HTTP/1.1"), c ≠ LF) := by decide +kernel
example : handleFirst {} true [b "GET" ++ SP :: (renderT exT1 ++ SP :: b "HTTP/1.1") ++ CRLF ++ b "Host: x\r\n\r\n"] =
    .connected ⟨b "2001:DB8::a", 8080⟩ false (b "GET /x;y?z=[1] HTTP/1.1") := by decide +kernel

end Px.Connect
