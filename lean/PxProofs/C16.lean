import PxModel.Ws
import PxModel.Sha1
import PxProofs.WsLemmas
import PxProofs.WsInstLemmas
/-!
# C16 — WebSocket frames round-trip for every size and flag combination

Property theorems only; helper lemmas are in `PxProofs/WsLemmas.lean`.
The model (`PxModel/Ws.lean`, `PxModel/Sha1.lean`) is tied to
`proxy/http/websocket/frame.py` by the correspondence check `harness/c16.py`.
-/
namespace Px.Ws

/-- **C16 round trip.**  For every frame accepted by `build()` — all 2⁴ flag
combinations, all 16 opcodes, masked with any 4-byte key (given, or drawn by
`secrets.token_bytes`) or unmasked, every payload shorter than 2⁶⁴ bytes — and
every sequence of following bytes `tail`: `build` succeeds, and parsing
`build f ++ tail` yields the same fields and payload, consumes exactly the one
frame and returns `tail` untouched. -/
theorem C16_roundtrip (rnd : Bytes) (f : Frame) (tail : Bytes) (h : f.WF rnd) :
    ∃ raw, build rnd f = .ok raw ∧ parse (raw ++ tail) = .ok (f.norm rnd, tail) :=
  roundtrip_lemma rnd f tail h

/-- masking is an involution for every key and payload -/
theorem C16_mask_involutive (key data : Bytes) (i : Nat) :
    maskAux key i (maskAux key i data) = data := maskAux_inv key i data

/-- **C16 RFC 6455 agreement.**  `build` produces, byte for byte, the encoding
written independently from the RFC's frame diagram (`rfcEncode`). -/
theorem C16_rfc (rnd : Bytes) (f : Frame) (h : f.WF rnd) :
    build rnd f = .ok (rfcEncode f (f.mask.getD rnd)) :=
  build_eq_rfc_lemma rnd f h.1 h.2.1 h.2.2

/-- what `build` rejects: an opcode that does not fit the first header byte -/
theorem C16_reject_wide_opcode (rnd : Bytes) (f : Frame) (h : byte0 f > 255) :
    build rnd f = .error .structError := by
  unfold build; rw [if_pos h]

/-- the guard is satisfiable by non-trivial frames (non-vacuity) -/
example : (⟨true, false, true, false, 9, true, some [1, 2, 3, 4], [104, 105]⟩ : Frame).WF [] := by
  simp [Frame.WF]
example : (⟨false, true, false, true, 15, true, none, []⟩ : Frame).WF [9, 9, 9, 9] := by
  simp [Frame.WF]

/-! ### Reused instances (the web server's websocket loop)

`WebsocketFrame` is mutable and `HttpWebServerPlugin.on_client_data` reuses one
instance for all frames of a segment (`parse`, hand over, `reset()`).  The
theorems below are about that object (`Inst`) and that loop (`webLoop`), for
every list of frames and every earlier history of the instance. -/

/-- `reset()` erases every trace of the instance's history: parsing after a
reset is parsing with a new object, whatever was parsed or built before. -/
theorem C16_reset_forgets (s : Inst) (raw : Bytes) :
    parseSt s.reset raw = parseSt Inst.fresh raw := rfl

/-- **C16 frames sharing a segment.**  For every list of frames (any flags,
any non-close opcode, masked with any key or not, any payload below 2⁶⁴ bytes)
sent back to back in ONE segment, the loop hands the route plugin exactly those
frames, one by one, in order, each with its own flags, key, declared length and
payload, nothing of a neighbour leaking in, and ends with nothing left over. -/
theorem C16_loop (fs : List (Bytes × Frame)) (hwf : ∀ p ∈ fs, p.2.WF p.1 ∧ p.2.opcode ≠ Px.Gen.wsOpClose) :
    webLoopTop (wire fs) = (fs.map fun p => deliv p.1 p.2, .drained) := by
  have hl := wire_len fs
  have h := webLoop_wire fs [] ((wire fs).length - fs.length) hwf
  have e : fs.length + ((wire fs).length - fs.length) = (wire fs).length := by omega
  rw [e, List.append_nil, webLoop_nil] at h
  simpa [webLoopTop] using h

/-- … and a close frame among them stops the loop there: the frames before it
are delivered, nothing after it is. -/
theorem C16_loop_close (fs : List (Bytes × Frame)) (rnd : Bytes) (c : Frame) (rest : Bytes)
    (hwf : ∀ p ∈ fs, p.2.WF p.1 ∧ p.2.opcode ≠ Px.Gen.wsOpClose) (hc : c.WF rnd) (h8 : c.opcode = Px.Gen.wsOpClose) :
    webLoopTop (wire fs ++ (rfcEncode c (c.mask.getD rnd) ++ rest)) =
      (fs.map fun p => deliv p.1 p.2, .closed) := by
  have hl := wire_len fs
  let t := rfcEncode c (c.mask.getD rnd) ++ rest
  have ht : 1 ≤ t.length := by simp only [t, rfcEncode, List.length_append, List.length_cons]; omega
  obtain ⟨m, hm⟩ : ∃ m, (wire fs).length + t.length - fs.length = m + 1 :=
    ⟨(wire fs).length + t.length - fs.length - 1, by omega⟩
  have h := webLoop_wire fs t (m + 1) hwf
  have e : fs.length + (m + 1) = (wire fs ++ t).length := by simp only [List.length_append]; omega
  have hstep : webLoop (m + 1) Inst.fresh t = ([], .closed) := by
    unfold webLoop
    simp only [t]
    rw [rfcEncode_ne_nil, parseSt_fresh_build rnd c rest hc]
    simp [deliv, h8]
  rw [e, hstep] at h
  simpa [webLoopTop, t] using h

/-- the loop's fuel (the input length) never runs out, for ANY input bytes -/
theorem C16_loop_total (raw : Bytes) : (webLoopTop raw).2 ≠ .fuel :=
  webLoop_no_fuel raw.length Inst.fresh raw (Nat.le_refl _)

/-- **C16 echo.**  `parse` followed by `build` on the same object (what an
echoing route plugin does with the instance it is handed) reproduces the
frame's bytes exactly — for every frame, every key, every following bytes,
every earlier history `s` of the instance and whatever `secrets.token_bytes`
would return. -/
theorem C16_echo (s : Inst) (rnd rnd' : Bytes) (f : Frame) (tail : Bytes) (h : f.WF rnd) :
    ∃ i, parseSt s (rfcEncode f (f.mask.getD rnd) ++ tail) = .ok (i, tail) ∧
      buildSt rnd' i = .ok (i, rfcEncode f (f.mask.getD rnd)) :=
  echo_lemma s rnd rnd' f tail h

/-- **C16 `text()`.**  What the server sends with `WebsocketFrame.text(data)`
is, for every payload below 2⁶⁴ bytes, a single final unmasked TEXT frame that
parses back to exactly `data` and leaves every following byte alone. -/
theorem C16_text (data tail : Bytes) (h : data.length < 2 ^ 64) :
    ∃ raw, text data = .ok raw ∧ parse (raw ++ tail) = .ok (textFrame data, tail) := by
  have := C16_roundtrip [] (textFrame data) tail ⟨by simp [textFrame, Px.Gen.wsOpText], h, by simp [textFrame]⟩
  simpa [text, Frame.norm, textFrame] using this

/-- **C16 build is repeatable.**  Building the same object again (nothing
assigned in between, same `secrets.token_bytes` outcome) yields the same bytes
and the same object: `build` stores nothing but the length it used. -/
theorem C16_build_idempotent (rnd : Bytes) (s s' : Inst) (raw : Bytes)
    (h : buildSt rnd s = .ok (s', raw)) : buildSt rnd s' = .ok (s', raw) := by
  simp only [buildSt] at h
  split at h
  · cases h
  · rename_i raw' hb
    injection h with h; injection h with h1 h2
    subst h1; subst h2
    simp only [buildSt, Option.getD_some, Inst.toFrame] at hb ⊢
    rw [hb]

/-- An API trap outside the property (no code in the repository does this; the
web loop `reset()`s, `text()` and the clients build new objects): assigning new
`data` to an object that was built or parsed before WITHOUT `reset()` keeps the
old `payload_length`, and the bytes built then do not parse back to the data. -/
theorem C16_stale_length_witness :
    ∃ i t j raw, parseSt Inst.fresh [0x81, 0x01, 0x61] = .ok (i, t) ∧
      buildSt [] { i with data := some [0x62, 0x63] } = .ok (j, raw) ∧
      raw = [0x81, 0x01, 0x62, 0x63] ∧
      (parse raw).toOption.map (·.1.data) = some [0x62] := by
  refine ⟨_, _, _, _, rfl, rfl, rfl, rfl⟩

/-- why `reset()` matters (witness): WITHOUT it the key of an earlier masked
frame stays visible on a later unmasked one. -/
theorem C16_no_reset_stale_mask_witness :
    ∃ i j t, parseSt Inst.fresh [0x81, 0x81, 1, 2, 3, 4, 0x60] = .ok (i, t) ∧
      parseSt i [0x81, 0x01, 0x61] = .ok (j, []) ∧ j.masked = false ∧ j.mask = some [1, 2, 3, 4] := by
  refine ⟨_, _, _, rfl, rfl, rfl, rfl⟩

/-- non-vacuity of the loop theorem: two frames, one masked -/
example : webLoopTop (wire [([], ⟨true, false, false, false, 1, true, some [1, 2, 3, 4], [0x61]⟩),
                           ([], ⟨true, false, false, false, 2, false, none, [0x62, 0x63]⟩)]) =
    ([⟨true, false, false, false, 1, true, some 1, some [1, 2, 3, 4], some [0x61]⟩,
      ⟨true, false, false, false, 2, false, some 2, none, some [0x62, 0x63]⟩], .drained) := by
  decide +kernel

end Px.Ws

namespace Px.Sha1

/-- **C16 accept token.**  The handshake accept token of the model is the RFC
formula `base64(SHA-1(key ++ GUID))`; the SHA-1 / base64 models are the
FIPS 180-4 / RFC 4648 algorithms (the RFC 6455 §1.3 example is reproduced by
kernel evaluation below, so the definitions are not vacuous), and
`hashlib` / `base64` are tied to them by the correspondence check. -/
theorem C16_accept (guid key : Bytes) : keyToAccept guid key = b64encode (sha1 (key ++ guid)) := rfl

theorem C16_accept_rfc_example :
    keyToAccept GUID (b "dGhlIHNhbXBsZSBub25jZQ==") = b "s3pPLMBiTxaQ9kYGzzhZRbK+xOo=" := by
  decide +kernel

end Px.Sha1
