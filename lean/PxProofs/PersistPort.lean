import PxModel.Parser
/-!
# C04 helper lemmas, part 4: a parsed plain request always has a connectable port

`PortOk p`: once the request line has been read (`url` set) and the request is
not a CONNECT, `port` is set and non-zero (`_set_line_attributes`: the URL's
port, or the default HTTP port when absent or `0`).  Holds for the fresh parser
and is kept by `HttpParser.parse` on every input: the request line is the only
writer of `url` / `port` / `_is_https_tunnel`.
-/
namespace Px.Persist
open Px Px.Parser

def PortOk (p : Parser) : Prop :=
  p.url.isSome = true → p.isTunnel = false → ∃ v, p.port = some v ∧ v ≠ 0

/-- `q` has the same request-line attributes as `p` -/
def SameLine (p q : Parser) : Prop := q.url = p.url ∧ q.port = p.port ∧ q.isTunnel = p.isTunnel

theorem SameLine.portOk {p q : Parser} (h : SameLine p q) (hp : PortOk p) : PortOk q := by
  intro hu ht
  rw [h.1] at hu; rw [h.2.2] at ht; rw [h.2.1]
  exact hp hu ht

theorem SameLine.refl (p : Parser) : SameLine p p := ⟨rfl, rfl, rfl⟩

theorem SameLine.trans {a b c : Parser} (h1 : SameLine a b) (h2 : SameLine b c) : SameLine a c :=
  ⟨h2.1.trans h1.1, h2.2.1.trans h1.2.1, h2.2.2.trans h1.2.2⟩

theorem portOk_init (ty : PType) : PortOk (init ty) := by
  intro h; simp [init] at h

theorem processHeader_same {p q : Parser} {line : Bytes} (h : processHeader p line = .ok q) : SameLine p q := by
  unfold processHeader at h
  split at h
  rename_i key value _
  simp only [] at h
  split at h
  · split at h
    · simp at h
    · simp only [Except.ok.injEq] at h; subst h; exact ⟨rfl, rfl, rfl⟩
  · split at h <;> (simp only [Except.ok.injEq] at h; subst h; exact ⟨rfl, rfl, rfl⟩)

theorem processHeaders_same (f : Nat) {p q : Parser} {raw r : Bytes} {m : Bool}
    (h : processHeaders f p raw = .ok (q, m, r)) : SameLine p q := by
  induction f generalizing p raw with
  | zero =>
    simp only [processHeaders, Except.ok.injEq, Prod.mk.injEq] at h
    rw [← h.1]; exact .refl p
  | succ f ih =>
    unfold processHeaders at h
    split at h
    · simp only [Except.ok.injEq, Prod.mk.injEq] at h; rw [← h.1]; exact .refl p
    · rename_i line rest _
      simp only [] at h
      split at h
      · simp at h
      · rename_i p1 hstep
        have hp1 : SameLine p p1 := by
          split at hstep
          · split at hstep
            · simp only [Except.ok.injEq] at hstep; rw [← hstep]; exact ⟨rfl, rfl, rfl⟩
            · exact (show SameLine p { p with state := .rcvingHeaders } from ⟨rfl, rfl, rfl⟩).trans
                (processHeader_same hstep)
          · simp only [Except.ok.injEq] at hstep; rw [← hstep]; exact .refl p
        split at h
        · simp only [Except.ok.injEq, Prod.mk.injEq] at h; rw [← h.1]; exact hp1
        · exact hp1.trans (ih h)

theorem processBody_same {p q : Parser} {raw r : Bytes} {m : Bool}
    (h : processBody p raw = .ok (q, m, r)) : SameLine p q := by
  unfold processBody at h
  split at h
  · simp only [] at h
    split at h
    · simp at h
    · simp only [Except.ok.injEq, Prod.mk.injEq] at h
      rw [← h.1]
      split <;> exact ⟨rfl, rfl, rfl⟩
  · split at h
    · simp only [] at h
      split at h
      · simp at h
      · split at h
        · simp at h
        · simp only [Except.ok.injEq, Prod.mk.injEq] at h; rw [← h.1]; exact ⟨rfl, rfl, rfl⟩
    · simp only [Except.ok.injEq, Prod.mk.injEq] at h; rw [← h.1]; exact ⟨rfl, rfl, rfl⟩

theorem setLineAttributes_portOk (cfg : Cfg) (hd : cfg.defaultHttpPort ≠ 0) (p : Parser) (u : Px.Url.Url) :
    PortOk (setLineAttributes cfg p u) ∧ (setLineAttributes cfg p u).isTunnel = p.isTunnel := by
  unfold setLineAttributes
  split
  · rename_i ht
    exact ⟨fun _ h => by simp [ht] at h, rfl⟩
  · refine ⟨fun _ _ => ?_, rfl⟩
    have hne : (Int.ofNat cfg.defaultHttpPort) ≠ 0 := by
      intro h; exact hd (Int.ofNat_eq_zero.mp h)
    cases hu : u.port with
    | none => exact ⟨_, rfl, hne⟩
    | some v =>
      by_cases hv : (v != 0) = true
      · exact ⟨v, by simp [hv], by simpa using hv⟩
      · exact ⟨_, by simp [hv], hne⟩

theorem processLine_portOk {cfg : Cfg} (hd : cfg.defaultHttpPort ≠ 0) {p q : Parser} {raw r : Bytes} {m : Bool}
    (h : processLine cfg p raw = .ok (q, m, r)) (hp : PortOk p) : PortOk q := by
  unfold processLine at h
  split at h
  · simp only [Except.ok.injEq, Prod.mk.injEq] at h; rw [← h.1]; exact hp
  · split at h
    · split at h
      · split at h
        · simp at h
        · split at h
          · simp at h
          · simp only [Except.ok.injEq, Prod.mk.injEq] at h
            rw [← h.1]
            rename_i url _
            intro hu ht
            exact (setLineAttributes_portOk cfg hd _ url).1 (by simpa using hu) (by simpa using ht)
      · simp at h
    · split at h
      · simp only [Except.ok.injEq, Prod.mk.injEq] at h; rw [← h.1]
        exact (show SameLine p _ from ⟨rfl, rfl, rfl⟩).portOk hp
      · simp only [Except.ok.injEq, Prod.mk.injEq] at h; rw [← h.1]
        exact (show SameLine p _ from ⟨rfl, rfl, rfl⟩).portOk hp
      · simp at h

theorem stepOnce_portOk {cfg : Cfg} (hd : cfg.defaultHttpPort ≠ 0) {p q : Parser} {raw r : Bytes} {m : Bool}
    (h : stepOnce cfg p raw = .ok (q, m, r)) (hp : PortOk p) : PortOk q := by
  unfold stepOnce at h
  simp only [] at h
  split at h
  · simp at h
  · rename_i q1 m1 r1 hr
    have hq1 : PortOk q1 := by
      split at hr
      · exact (processBody_same hr).portOk hp
      · split at hr
        · exact processLine_portOk hd hr hp
        · exact (processHeaders_same _ hr).portOk hp
    split at h
    · simp only [Except.ok.injEq, Prod.mk.injEq] at h; rw [← h.1]
      exact (show SameLine q1 _ from ⟨rfl, rfl, rfl⟩).portOk hq1
    · split at h
      · simp only [Except.ok.injEq, Prod.mk.injEq] at h; rw [← h.1]
        exact (show SameLine q1 _ from ⟨rfl, rfl, rfl⟩).portOk hq1
      · simp only [Except.ok.injEq, Prod.mk.injEq] at h; rw [← h.1]; exact hq1

theorem loop_portOk {cfg : Cfg} (hd : cfg.defaultHttpPort ≠ 0) (f : Nat) {p q : Parser} {more : Bool} {raw r : Bytes}
    (h : loop cfg f p more raw = .ok (q, r)) (hp : PortOk p) : PortOk q := by
  induction f generalizing p more raw with
  | zero => simp only [loop, Except.ok.injEq, Prod.mk.injEq] at h; rw [← h.1]; exact hp
  | succ f ih =>
    unfold loop at h
    split at h
    · simp only [Except.ok.injEq, Prod.mk.injEq] at h; rw [← h.1]; exact hp
    · split at h
      · simp at h
      · rename_i p1 m1 r1 hs
        exact ih h (stepOnce_portOk hd hs hp)

/-- **kept by `HttpParser.parse` on every input** -/
theorem parse_portOk {cfg : Cfg} (hd : cfg.defaultHttpPort ≠ 0) {p q : Parser} {x : Bytes}
    (h : parse cfg p x = .ok q) (hp : PortOk p) : PortOk q := by
  unfold parse at h
  simp only [] at h
  split at h
  · simp at h
  · rename_i q1 r1 hl
    simp only [Except.ok.injEq] at h
    rw [← h]
    have h1 : PortOk q1 := loop_portOk hd _ hl
      ((show SameLine p _ from ⟨rfl, rfl, rfl⟩).portOk hp)
    exact (show SameLine q1 _ from ⟨rfl, rfl, rfl⟩).portOk h1

end Px.Persist
