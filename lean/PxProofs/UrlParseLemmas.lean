import PxProofs.UrlAuthLemmas
/-!
# C14 lemmas, part 4: what `Url._parse` returns is a piece of its input;
`Url._parse` on well-formed authorities; `Url.from_bytes` per request-target form.
-/
namespace Px.UrlL
open Px Px.Url
open Px.Connect (isDig isHexDig decRender decDigitsAux stripBrackets)

theorem stripBrackets_infix (h : Bytes) : stripBrackets h <:+: h := by
  unfold stripBrackets
  split
  · exact (List.dropLast_prefix _).isInfix.trans (List.drop_suffix 1 h).isInfix
  · exact List.infix_refl h

theorem stripBrackets_wrap (h : Bytes) : stripBrackets ([LBR] ++ h ++ [RBR]) = h := by
  unfold stripBrackets
  have h1 : ([LBR] ++ h ++ [RBR]).head? = some LBR := by simp
  have h2 : ([LBR] ++ h ++ [RBR]).getLast? = some RBR := by
    rw [List.getLast?_append]; simp
  rw [h1, h2]
  simp

theorem stripBrackets_wrapV6_infix (h : Bytes) : stripBrackets (wrapV6 h) <:+: h := by
  unfold wrapV6
  split
  · rw [stripBrackets_wrap]; exact List.infix_refl h
  · exact stripBrackets_infix h

/-- what `Url._parse` can return for ANY authority text `a`: the connect host
    (brackets removed) is a contiguous piece of `a`, and a port is the `int()`
    value of the text after the last colon of `a`. -/
theorem hostPort_substring (raw hp : Bytes) (u p : Option Bytes)
    {u' p' : Option Bytes} {h : Bytes} {port : Option Int}
    (e : hostPort raw u p hp = .ok (u', p', h, port)) :
    stripBrackets h <:+: hp ∧
    (∀ v, port = some v → ∃ pre s, hp = pre ++ COLON :: s ∧ COLON ∉ s ∧ pyInt 10 s = some v) := by
  unfold hostPort at e
  split at e
  · rename_i h0 hs
    simp at e; obtain ⟨_, _, rfl, rfl⟩ := e
    have := splitN1_two_eq_single hs; subst this
    exact ⟨stripBrackets_infix _, by simp⟩
  · rename_i h0 p0 hs
    obtain ⟨hx, hh, hp0⟩ := splitN1_two_eq_pair hs
    split at e
    · rename_i v hv
      simp at e; obtain ⟨_, _, rfl, rfl⟩ := e
      refine ⟨(stripBrackets_infix _).trans ⟨[], COLON :: p0, by rw [hx]; simp⟩, ?_⟩
      intro v' hv'; simp at hv'; subst hv'
      exact ⟨h0, p0, hx, hp0, hv⟩
    · simp at e
  · rename_i a c last hs
    obtain ⟨hx, ha, hc⟩ := splitN1_two_eq_triple hs
    split at e
    · rename_i hu
      simp at e; obtain ⟨_, _, rfl, rfl⟩ := e
      unfold v6Split
      obtain ⟨init, y, hl, hy, hlast⟩ := splitAll1_last COLON last
      have hg : (splitAll1 COLON last).getLast?.getD [] = y := by rw [hl]; simp
      have hd : (splitAll1 COLON last).dropLast = init := by rw [hl]; simp
      rw [hg, hd]
      cases hv : pyInt 10 y with
      | none => exact ⟨stripBrackets_wrapV6_infix hp, by simp⟩
      | some v =>
        simp only
        refine ⟨(stripBrackets_wrapV6_infix _).trans
          ⟨[], (if init = [] then [] else [COLON]) ++ y, ?_⟩, ?_⟩
        · rw [hx, hlast]; simp
        · intro v' hv'; simp at hv'; subst hv'
          by_cases hi : init = []
          · subst hi
            simp [join] at hlast
            exact ⟨a ++ COLON :: c, y, by rw [hx, hlast]; simp, hy, hv⟩
          · simp only [hi, if_false] at hlast
            exact ⟨a ++ COLON :: (c ++ COLON :: join [COLON] init), y,
              by rw [hx, hlast]; simp, hy, hv⟩
    · simp at e
  · simp at e

theorem parseAuthority_substring (a : Bytes) {u p : Option Bytes} {h : Bytes} {port : Option Int}
    (e : parseAuthority a = .ok (u, p, h, port)) :
    ∃ hp, hp <:+ a ∧ (AT ∉ a → hp = a) ∧ stripBrackets h <:+: hp ∧
    (∀ v, port = some v → ∃ pre s, hp = pre ++ COLON :: s ∧ COLON ∉ s ∧ pyInt 10 s = some v) := by
  rw [parseAuthority_eq] at e
  split at e
  · obtain ⟨h1, h2⟩ := hostPort_substring a a none none e
    exact ⟨a, List.suffix_refl a, fun _ => rfl, h1, h2⟩
  · rename_i ui hp hs
    obtain ⟨hx, _⟩ := (splitOnce1_some_iff AT a ui hp).1 hs
    split at e
    · obtain ⟨h1, h2⟩ := hostPort_substring a hp _ _ e
      exact ⟨hp, ⟨ui ++ [AT], by rw [hx]; simp⟩, fun hn => absurd (by rw [hx]; simp) hn, h1, h2⟩
    · simp at e

/-! ### `Url._parse` on well-formed authorities -/

theorem hostPort_plain (raw : Bytes) (u p : Option Bytes) (h : Bytes) (hc : COLON ∉ h) :
    hostPort raw u p h = .ok (u, p, h, none) := by
  unfold hostPort; rw [splitN1_two_plain h hc]

theorem hostPort_plain_port (raw : Bytes) (u p : Option Bytes) (h ds : Bytes) (v : Int)
    (hc : COLON ∉ h) (hd : COLON ∉ ds) (hv : pyInt 10 ds = some v) :
    hostPort raw u p (h ++ COLON :: ds) = .ok (u, p, h, some v) := by
  unfold hostPort; rw [splitN1_two_pair h ds hc hd]; simp only [hv]

/-- IPv6 address text: hex digits, `:` and `.`, at least two colons -/
def V6Class (t : Bytes) : Prop := (∀ c ∈ t, isHexDig c = true ∨ c = COLON ∨ c = 46) ∧ 2 ≤ t.count COLON

theorem isHexDig_lt {c : UInt8} (h : isHexDig c = true) : c.toNat < 128 := by
  simp only [isHexDig, isDig, Bool.or_eq_true, Bool.and_eq_true, decide_eq_true_eq, UInt8.le_iff_toNat_le] at h
  simp at h
  omega

theorem V6Class.ascii {t : Bytes} (h : V6Class t) : ∀ c ∈ [LBR] ++ t ++ [RBR], c.toNat < 128 := by
  intro c hc
  simp only [List.append_assoc, List.mem_append, List.mem_cons, List.not_mem_nil, or_false] at hc
  rcases hc with rfl | hc | rfl
  · decide
  · rcases h.1 c hc with h | rfl | rfl
    · exact isHexDig_lt h
    · decide
    · decide
  · decide

/-- the last part of `(x ++ "]").split(":")` contains the bracket -/
theorem last_part_has_rbr (x : Bytes) :
    ∃ init y, splitAll1 COLON (x ++ [RBR]) = init ++ [y] ∧ RBR ∈ y := by
  obtain ⟨init, y, hl, hy, hlast⟩ := splitAll1_last COLON (x ++ [RBR])
  refine ⟨init, y, hl, ?_⟩
  have hg := congrArg List.getLast? hlast
  rw [List.getLast?_append] at hg
  simp only [List.getLast?_singleton, Option.some_or] at hg
  cases y with
  | nil =>
    exfalso
    by_cases hi : init = []
    · subst hi; simp [join] at hlast
    · simp only [hi, if_false, List.append_nil] at hg
      rw [List.getLast?_append] at hg
      simp at hg
      exact absurd hg (by decide)
  | cons d ds =>
    rw [List.getLast?_append] at hg
    have : (d :: ds).getLast? = some ((d :: ds).getLast (by simp)) := List.getLast?_eq_some_getLast (by simp)
    rw [this] at hg
    simp at hg
    rw [hg]
    exact List.getLast_mem _

theorem pyInt_none_of_rbr (y : Bytes) (h : RBR ∈ y) : pyInt 10 y = none :=
  pyInt_none_of_foreign y RBR h (by decide) (by decide) (by decide) (by decide) (by decide)

theorem wrapV6_of_head_lbr (h : Bytes) (hh : h.head? = some LBR) : wrapV6 h = h := by
  unfold wrapV6; simp [hh]

theorem hostPort_v6_noport (raw : Bytes) (u p : Option Bytes) (t : Bytes) (ht : V6Class t) :
    hostPort raw u p ([LBR] ++ t ++ [RBR]) = .ok (u, p, [LBR] ++ t ++ [RBR], none) := by
  obtain ⟨a, c, rest, he, ha, hc⟩ := two_colons t ht.2
  have e : [LBR] ++ t ++ [RBR] = (LBR :: a) ++ COLON :: (c ++ COLON :: (rest ++ [RBR])) := by
    rw [he]; simp
  have ha' : COLON ∉ LBR :: a := by
    simp only [List.mem_cons, not_or]; exact ⟨by decide, ha⟩
  have hu := utf8Valid_ascii _ ht.ascii
  have hw := wrapV6_of_head_lbr ([LBR] ++ t ++ [RBR]) (by simp)
  rw [e] at hu hw ⊢
  unfold hostPort
  rw [splitN1_two_triple _ c _ ha' hc]
  obtain ⟨init, y, hl, hy⟩ := last_part_has_rbr rest
  have hg : (splitAll1 COLON (rest ++ [RBR])).getLast?.getD [] = y := by rw [hl]; simp
  have hv : v6Split ((LBR :: a) ++ COLON :: (c ++ COLON :: (rest ++ [RBR]))) (LBR :: a) c (rest ++ [RBR]) =
      ((LBR :: a) ++ COLON :: (c ++ COLON :: (rest ++ [RBR])), none) := by
    unfold v6Split; rw [hg, pyInt_none_of_rbr y hy]
  simp only [hv, hu, if_true, hw]

theorem hostPort_v6_port (raw : Bytes) (u p : Option Bytes) (t ds : Bytes) (v : Int) (ht : V6Class t)
    (hd : COLON ∉ ds) (hv : pyInt 10 ds = some v) :
    hostPort raw u p ([LBR] ++ t ++ [RBR] ++ COLON :: ds) = .ok (u, p, [LBR] ++ t ++ [RBR], some v) := by
  obtain ⟨a, c, rest, he, ha, hc⟩ := two_colons t ht.2
  have e : [LBR] ++ t ++ [RBR] ++ COLON :: ds =
      (LBR :: a) ++ COLON :: (c ++ COLON :: ((rest ++ [RBR]) ++ COLON :: ds)) := by
    rw [he]; simp
  have ha' : COLON ∉ LBR :: a := by
    simp only [List.mem_cons, not_or]; exact ⟨by decide, ha⟩
  unfold hostPort
  rw [e, splitN1_two_triple _ c _ ha' hc]
  have hsp := splitAll1_append_last COLON (rest ++ [RBR]) ds hd
  have hg : (splitAll1 COLON ((rest ++ [RBR]) ++ COLON :: ds)).getLast?.getD [] = ds := by rw [hsp]; simp
  have hdl : (splitAll1 COLON ((rest ++ [RBR]) ++ COLON :: ds)).dropLast = splitAll1 COLON (rest ++ [RBR]) := by
    rw [hsp]; simp
  have hval : ∀ hp0, v6Split hp0 (LBR :: a) c ((rest ++ [RBR]) ++ COLON :: ds) = ([LBR] ++ t ++ [RBR], some v) := by
    intro hp0
    unfold v6Split
    rw [hg, hv, hdl, join_splitAll1, he]
    simp
  simp only [hval]
  rw [if_pos (utf8Valid_ascii _ ht.ascii), wrapV6_of_head_lbr _ (by simp)]

/-! ### userinfo -/

theorem splitAll1_pair (u p : Bytes) (hu : COLON ∉ u) (hp : COLON ∉ p) :
    splitAll1 COLON (u ++ COLON :: p) = [u, p] := by
  rw [splitAll1_append_last COLON u p hp, splitAll1_of_not_mem COLON u hu]; rfl

theorem parseAuthority_userinfo (u p hp : Bytes) (hu : COLON ∉ u) (hp' : COLON ∉ p) (hua : AT ∉ u) (hpa : AT ∉ p) :
    parseAuthority (u ++ COLON :: p ++ AT :: hp) =
      hostPort (u ++ COLON :: p ++ AT :: hp) (some u) (some p) hp := by
  rw [parseAuthority_eq]
  have hn : AT ∉ u ++ COLON :: p := by
    simp only [List.mem_append, List.mem_cons, not_or]
    exact ⟨hua, by decide, hpa⟩
  rw [splitOnce1_render AT _ hp hn]
  simp only [splitAll1_pair u p hu hp']

theorem parseAuthority_no_userinfo (a : Bytes) (h : AT ∉ a) : parseAuthority a = hostPort a none none a := by
  rw [parseAuthority_eq, splitOnce1_of_not_mem AT a h]

/-- number of parts of a full split -/
theorem splitN1_length (sep : UInt8) (n : Nat) (x : Bytes) (hn : x.count sep ≤ n) :
    (splitN1 sep n x).length = x.count sep + 1 := by
  induction n generalizing x with
  | zero =>
    have : sep ∉ x := fun hm => by have := List.count_pos_iff.2 hm; omega
    simp [splitN1, List.count_eq_zero_of_not_mem this]
  | succ n ih =>
    unfold splitN1
    cases h : splitOnce1 sep x with
    | none =>
      have := (splitOnce1_none_iff sep x).1 h
      simp [List.count_eq_zero_of_not_mem this]
    | some q =>
      obtain ⟨a, r⟩ := q
      obtain ⟨hx, ha⟩ := (splitOnce1_some_iff sep x a r).1 h
      have hc : x.count sep = r.count sep + 1 := by
        subst hx; simp [List.count_append, List.count_eq_zero_of_not_mem ha]
      simp only [List.length_cons]
      rw [ih r (by omega), hc]

/-- userinfo whose text does not contain exactly one colon: `ValueError` -/
theorem parseAuthority_bad_userinfo (ui hp : Bytes) (hat : AT ∉ ui) (hc : ui.count COLON ≠ 1) :
    parseAuthority (ui ++ AT :: hp) = .error .valueError := by
  rw [parseAuthority_eq, splitOnce1_render AT ui hp hat]
  have hl := splitN1_length COLON ui.length ui List.count_le_length
  simp only
  split
  · rename_i u p he
    unfold splitAll1 at he
    rw [he] at hl
    simp at hl; omega
  · rfl

/-! ### `Url.from_bytes` per form -/

theorem sep_eq : b "://" = [COLON, SLASH, SLASH] := by decide +kernel
theorem http_eq : b "http" = [104, 116, 116, 112] := by decide +kernel

/-- result of `from_bytes` once scheme and authority text are known -/
def mkUrl (scheme : Option Bytes) (rem : Option Bytes) : Except Err AuthRes → Except Err Url
  | .error e => .error e
  | .ok (u, p, h, port) =>
    .ok { scheme := scheme, username := u, password := p, hostname := some h, port := port, remainder := rem }

theorem fromBytes_origin (allowed : List Bytes) (tl : Bytes) (h : tl.head? ≠ some SLASH) :
    fromBytes allowed (SLASH :: tl) = .ok { remainder := some (SLASH :: tl) } := by
  unfold fromBytes
  cases tl with
  | nil => simp
  | cons c cs =>
    have : c ≠ SLASH := by simpa using h
    simp [this]

/-- authority-form (no scheme, no slash at all) -/
theorem fromBytes_authority (allowed : List Bytes) (a : Bytes) (hne : a ≠ []) (hs : SLASH ∉ a) :
    fromBytes allowed a = mkUrl none none (parseAuthority a) := by
  cases a with
  | nil => exact absurd rfl hne
  | cons c0 tl =>
    have hc0 : c0 ≠ SLASH := by
      intro e; apply hs; simp [e]
    have hsp : splitOnceSeq (b "://") (c0 :: tl) = none :=
      splitOnceSeq_none_of_not_mem' _ _ SLASH (by rw [sep_eq]; simp) hs
    have hb : (c0 == SLASH) = false := by simp [hc0]
    unfold fromBytes
    simp only [hb, Bool.false_and, Bool.not_false, Bool.and_true, Bool.false_eq_true,
      if_false, hsp, Bool.or_false]
    unfold mkUrl
    cases parseAuthority (c0 :: tl) with
    | error e => rfl
    | ok r => obtain ⟨u, p, h, port⟩ := r; rfl

/-- absolute-form: `scheme "://" authority [path]` -/
theorem fromBytes_absolute (allowed : List Bytes) (scheme a pathq : Bytes)
    (hal : allowed.contains scheme = true) (hsc : COLON ∉ scheme) (hss : SLASH ∉ scheme)
    (hs : SLASH ∉ a) (hp : pathq = [] ∨ pathq.head? = some SLASH) :
    fromBytes allowed (scheme ++ b "://" ++ a ++ pathq) =
      mkUrl (some scheme) (if pathq.isEmpty then none else some pathq) (parseAuthority a) := by
  have hsp : splitOnceSeq (b "://") (scheme ++ b "://" ++ (a ++ pathq)) = some (scheme, a ++ pathq) := by
    rw [sep_eq]; exact splitOnceSeq_render COLON _ scheme (a ++ pathq) hsc
  have hne : scheme ++ b "://" ++ a ++ pathq ≠ [] := by
    intro e
    have := congrArg List.length e
    simp [sep_eq] at this
  have hsl : splitOnce1 SLASH (a ++ pathq) =
      if pathq.isEmpty then none else some (a, pathq.drop 1) := by
    rcases hp with rfl | hp
    · simp [splitOnce1_of_not_mem SLASH a hs]
    · cases pathq with
      | nil => simp at hp
      | cons c cs =>
        simp at hp; subst hp
        simp [splitOnce1_render SLASH a cs hs]
  have hrem : (if pathq.isEmpty then none else some (SLASH :: pathq.drop 1)) =
      (if pathq.isEmpty then none else some pathq) := by
    rcases hp with rfl | hp
    · rfl
    · cases pathq with
      | nil => simp at hp
      | cons c cs => simp at hp; subst hp; simp
  rw [List.append_assoc (scheme ++ b "://")]
  generalize hraw : scheme ++ b "://" ++ (a ++ pathq) = raw at hsp
  cases raw with
  | nil =>
    exfalso; apply hne; rw [List.append_assoc, hraw]
  | cons c0 tl =>
    have hc0 : c0 ≠ SLASH := by
      intro e
      cases scheme with
      | nil => simp [sep_eq] at hraw; rw [← hraw.1] at e; exact absurd e (by decide)
      | cons d ds =>
        simp at hraw
        apply hss; rw [hraw.1, e]; simp
    have hb : (c0 == SLASH) = false := by simp [hc0]
    unfold fromBytes
    simp only [hb, Bool.false_and, Bool.not_false, Bool.and_true, Bool.false_eq_true,
      if_false, hsp, hal, if_true, Option.isSome_some, Bool.or_false, Option.getD_some, hsl]
    unfold mkUrl
    rw [← hrem]
    by_cases he : pathq.isEmpty
    · simp only [he, if_true]
      have hpe : pathq = [] := List.isEmpty_iff.1 he
      simp only [hpe, List.append_nil]
      cases parseAuthority a with
      | error e => rfl
      | ok r => obtain ⟨u, p, h, port⟩ := r; rfl
    · simp only [he, Bool.false_eq_true, if_false]
      cases parseAuthority a with
      | error e => rfl
      | ok r => obtain ⟨u, p, h, port⟩ := r; rfl

/-- For ANY input: if `from_bytes` returns a URL with a host, that host and the
    port come from `Url._parse` run on one contiguous piece `a` of the input —
    the whole input, or what lies between `scheme://` (or a leading `//`) and
    the next `/`. -/
theorem fromBytes_authority_piece (allowed : List Bytes) (x : Bytes) {u : Url} {h : Bytes}
    (e : fromBytes allowed x = .ok u) (hh : u.hostname = some h) :
    ∃ pre a post, x = pre ++ a ++ post ∧
      parseAuthority a = .ok (u.username, u.password, h, u.port) ∧
      ((pre = [] ∧ post = []) ∨
       ((pre = b "//" ∨ ∃ s, pre = s ++ b "://") ∧ SLASH ∉ a ∧ (post = [] ∨ post.head? = some SLASH))) := by
  cases x with
  | nil => simp [fromBytes] at e
  | cons c0 tl =>
    unfold fromBytes at e
    by_cases hc0 : c0 = SLASH
    · subst hc0
      cases tl with
      | nil => simp at e; subst e; simp at hh
      | cons c1 tl2 =>
        by_cases hc1 : c1 = SLASH
        · subst hc1
          simp only [beq_self_eq_true, Bool.and_self, Bool.not_true, Bool.and_false, Bool.false_eq_true,
            if_false, Option.isSome_none, Bool.or_true, if_true, List.drop_succ_cons, List.drop_zero,
            Option.getD_some] at e
          have hdd : b "//" = [SLASH, SLASH] := by decide +kernel
          cases hs : splitOnce1 SLASH tl2 with
          | none =>
            simp only [hs] at e
            cases hpa : parseAuthority tl2 with
            | error er => rw [hpa] at e; simp at e
            | ok r =>
              obtain ⟨un, pw, h', port⟩ := r
              rw [hpa] at e
              simp only [Except.ok.injEq] at e
              subst e
              simp only [Option.some.injEq] at hh
              subst hh
              exact ⟨b "//", tl2, [], by rw [hdd]; simp, hpa,
                Or.inr ⟨Or.inl rfl, (splitOnce1_none_iff SLASH tl2).1 hs, Or.inl rfl⟩⟩
          | some q =>
            obtain ⟨a, p⟩ := q
            obtain ⟨hx, ha⟩ := (splitOnce1_some_iff SLASH tl2 a p).1 hs
            simp only [hs] at e
            cases hpa : parseAuthority a with
            | error er => rw [hpa] at e; simp at e
            | ok r =>
              obtain ⟨un, pw, h', port⟩ := r
              rw [hpa] at e
              simp only [Except.ok.injEq] at e
              subst e
              simp only [Option.some.injEq] at hh
              subst hh
              exact ⟨b "//", a, SLASH :: p, by rw [hdd, hx]; simp, hpa,
                Or.inr ⟨Or.inl rfl, ha, Or.inr rfl⟩⟩
        · have hb : (c1 == SLASH) = false := by simp [hc1]
          simp [hb] at e
          subst e; simp at hh
    · have hb : (c0 == SLASH) = false := by simp [hc0]
      simp only [hb, Bool.false_and, Bool.not_false, Bool.and_true, Bool.false_eq_true, if_false, if_true,
        Bool.or_false] at e
      cases hsp : splitOnceSeq (b "://") (c0 :: tl) with
      | none =>
        rw [hsp] at e
        simp only [Option.isSome_none, Bool.false_eq_true, if_false] at e
        cases hpa : parseAuthority (c0 :: tl) with
        | error er => rw [hpa] at e; simp at e
        | ok r =>
          obtain ⟨un, pw, h', port⟩ := r
          rw [hpa] at e
          simp only [Except.ok.injEq] at e
          subst e
          simp only [Option.some.injEq] at hh
          subst hh
          exact ⟨[], c0 :: tl, [], by simp, hpa, Or.inl ⟨rfl, rfl⟩⟩
      | some q =>
        obtain ⟨s, r⟩ := q
        rw [hsp] at e
        simp only at e
        by_cases hal : s ∈ allowed
        · simp only [List.contains_iff_mem, hal, if_true, Option.isSome_some, Option.getD_some] at e
          have hxs := splitOnceSeq_some_eq _ hsp
          cases hs : splitOnce1 SLASH r with
          | none =>
            simp only [hs] at e
            cases hpa : parseAuthority r with
            | error er => rw [hpa] at e; simp at e
            | ok r2 =>
              obtain ⟨un, pw, h', port⟩ := r2
              rw [hpa] at e
              simp only [Except.ok.injEq] at e
              subst e
              simp only [Option.some.injEq] at hh
              subst hh
              exact ⟨s ++ b "://", r, [], by rw [hxs]; simp, hpa,
                Or.inr ⟨Or.inr ⟨s, rfl⟩, (splitOnce1_none_iff SLASH r).1 hs, Or.inl rfl⟩⟩
          | some q =>
            obtain ⟨a, p⟩ := q
            obtain ⟨hx, ha⟩ := (splitOnce1_some_iff SLASH r a p).1 hs
            simp only [hs] at e
            cases hpa : parseAuthority a with
            | error er => rw [hpa] at e; simp at e
            | ok r2 =>
              obtain ⟨un, pw, h', port⟩ := r2
              rw [hpa] at e
              simp only [Except.ok.injEq] at e
              subst e
              simp only [Option.some.injEq] at hh
              subst hh
              exact ⟨s ++ b "://", a, SLASH :: p, by rw [hxs, hx]; simp, hpa,
                Or.inr ⟨Or.inr ⟨s, rfl⟩, ha, Or.inr rfl⟩⟩
        · simp [hal] at e

end Px.UrlL
