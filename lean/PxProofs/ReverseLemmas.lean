import PxModel.Reverse
/-! Helper lemmas for C12 (reverse proxy routing). -/
namespace Px.Reverse

open Px.Parser (Parser Headers)
open Px.Url (Url utf8Valid)
open Px.Build (dSet rebuildHeaders buildRequest bodyOrChunks)

/-! ### specification of the selection order

`hits` lists, in plugin order, the position of every plugin that has a
matching route together with the *first* matching route of that plugin. -/

def hits (m : Nat → Bool) : Nat → Table → List (Nat × Route)
  | _, [] => []
  | i, p :: ps =>
    match firstMatch m p with
    | none => hits m (i + 1) ps
    | some r => (i, r) :: hits m (i + 1) ps

/-- the URL a hit yields (static: the chosen, parsed upstream URL; dynamic: the plugin's `Url`) -/
def urlOf (cfg : Cfg) (pick : Nat → Nat) (ir : Nat × Route) : Option Url :=
  match routeAct cfg (pick ir.1) ir.2 with
  | .url u => some u
  | _ => none

/-- the literal response a hit yields -/
def litOf (cfg : Cfg) (pick : Nat → Nat) (ir : Nat × Route) : Option Bytes :=
  match routeAct cfg (pick ir.1) ir.2 with
  | .lit r => some r
  | _ => none

/-- no matching branch raises: `random.choice` is in range, the chosen URL is
    accepted by `Url.from_bytes`, `handle_route` returns normally. -/
def Clean (cfg : Cfg) (pick : Nat → Nat) (hs : List (Nat × Route)) : Prop :=
  ∀ ir ∈ hs, ∀ e c, routeAct cfg (pick ir.1) ir.2 ≠ .fail e c

theorem hits_mem (m : Nat → Bool) (t : Table) (i0 j : Nat) (r : Route) :
    (j, r) ∈ hits m i0 t ↔ ∃ p, i0 ≤ j ∧ t[j - i0]? = some p ∧ firstMatch m p = some r := by
  induction t generalizing i0 with
  | nil => simp [hits]
  | cons p ps ih =>
    have step : (∃ q, i0 + 1 ≤ j ∧ ps[j - (i0 + 1)]? = some q ∧ firstMatch m q = some r) ↔
        (∃ q, i0 ≤ j ∧ j ≠ i0 ∧ (p :: ps)[j - i0]? = some q ∧ firstMatch m q = some r) := by
      constructor
      · rintro ⟨q, h1, h2, h3⟩
        refine ⟨q, by omega, by omega, ?_, h3⟩
        have : j - i0 = (j - (i0 + 1)) + 1 := by omega
        rw [this]; simpa using h2
      · rintro ⟨q, h1, hne, h2, h3⟩
        refine ⟨q, by omega, ?_, h3⟩
        have : j - i0 = (j - (i0 + 1)) + 1 := by omega
        rw [this] at h2; simpa using h2
    unfold hits
    cases hf : firstMatch m p with
    | none =>
      simp only []
      rw [ih, step]
      constructor
      · rintro ⟨q, h1, _, h2, h3⟩; exact ⟨q, h1, h2, h3⟩
      · rintro ⟨q, h1, h2, h3⟩
        refine ⟨q, h1, ?_, h2, h3⟩
        intro he; subst he
        simp at h2; subst h2; rw [hf] at h3; cases h3
    | some r0 =>
      simp only [List.mem_cons, Prod.mk.injEq]
      rw [ih, step]
      constructor
      · rintro (⟨rfl, rfl⟩ | ⟨q, h1, _, h2, h3⟩)
        · exact ⟨p, Nat.le_refl _, by simp, hf⟩
        · exact ⟨q, h1, h2, h3⟩
      · rintro ⟨q, h1, h2, h3⟩
        by_cases he : j = i0
        · subst he
          simp at h2; subst h2; rw [hf] at h3
          left; exact ⟨rfl, (Option.some.inj h3).symm⟩
        · right; exact ⟨q, h1, he, h2, h3⟩

/-- a hit is a route of the table whose pattern matches -/
theorem hits_sound (m : Nat → Bool) (t : Table) (j : Nat) (r : Route) (h : (j, r) ∈ hits m 0 t) :
    ∃ p, t[j]? = some p ∧ r ∈ p ∧ m r.pat = true ∧ firstMatch m p = some r := by
  obtain ⟨p, _, hp, hf⟩ := (hits_mem m t 0 j r).1 h
  refine ⟨p, by simpa using hp, ?_, ?_, hf⟩
  · exact List.mem_of_find?_eq_some hf
  · have := List.find?_some hf; simpa using this

theorem hits_nil_of_noMatch (m : Nat → Bool) (t : Table) (i : Nat) (h : anyMatch m t = false) :
    hits m i t = [] := by
  induction t generalizing i with
  | nil => rfl
  | cons p ps ih =>
    simp only [anyMatch, List.any_cons, Bool.or_eq_false_iff] at h
    have hf : firstMatch m p = none := by
      simp only [firstMatch, List.find?_eq_none]
      intro r hr
      have := h.1
      simp only [List.any_eq_false] at this
      simpa using this r hr
    unfold hits; rw [hf]; exact ih _ (by simpa [anyMatch] using h.2)

theorem hits_ne_nil_of_anyMatch (m : Nat → Bool) (t : Table) (i : Nat) (h : anyMatch m t = true) :
    hits m i t ≠ [] := by
  induction t generalizing i with
  | nil => simp [anyMatch] at h
  | cons p ps ih =>
    unfold hits
    cases hf : firstMatch m p with
    | some r => simp
    | none =>
      simp only []
      apply ih
      simp only [anyMatch, List.any_cons, Bool.or_eq_true] at h
      rcases h with h | h
      · exfalso
        simp only [firstMatch, List.find?_eq_none] at hf
        simp only [List.any_eq_true] at h
        obtain ⟨r, hr, hm⟩ := h
        exact hf r hr hm
      · simpa [anyMatch] using h

/-! ### the routes loop computes the specification -/

/-- the state after a loop in which no branch raised -/
def afterRoutes (cfg : Cfg) (pick : Nat → Nat) (hs : List (Nat × Route)) (s : St) : St :=
  { s with choice := ((hs.filterMap (urlOf cfg pick)).getLast?).or s.choice,
           client := { s.client with buffer := s.client.buffer ++ hs.filterMap (litOf cfg pick) } }

theorem routeLoop_clean (cfg : Cfg) (m : Nat → Bool) (pick : Nat → Nat) (t : Table) (i : Nat) (s : St)
    (needs : Bool) (hc : Clean cfg pick (hits m i t)) :
    routeLoop cfg m pick i t s needs =
      (afterRoutes cfg pick (hits m i t) s,
       needs || !((hits m i t).filterMap (urlOf cfg pick)).isEmpty, none) := by
  induction t generalizing i s needs with
  | nil =>
    cases s with | mk client choice upstream connects wraps closes =>
    cases client
    simp [routeLoop, hits, afterRoutes]
  | cons p ps ih =>
    unfold routeLoop hits
    cases hf : firstMatch m p with
    | none =>
      simp only []
      have hc' : Clean cfg pick (hits m (i + 1) ps) := by
        intro ir hir; apply hc; unfold hits; rw [hf]; exact hir
      exact ih (i + 1) s needs hc'
    | some r =>
      simp only []
      have hc' : Clean cfg pick (hits m (i + 1) ps) := by
        intro ir hir; apply hc; unfold hits; rw [hf]; exact List.mem_cons_of_mem _ hir
      have hhead := hc (i, r) (by unfold hits; rw [hf]; exact List.mem_cons_self)
      cases ha : routeAct cfg (pick i) r with
      | fail e c => exact absurd ha (hhead e c)
      | url u =>
        simp only []
        rw [ih (i + 1) _ true hc']
        have hu : urlOf cfg pick (i, r) = some u := by simp [urlOf, ha]
        have hl : litOf cfg pick (i, r) = none := by simp [litOf, ha]
        cases s with | mk client choice upstream connects wraps closes =>
        cases client with | mk buffer closed =>
        simp only [afterRoutes, List.filterMap_cons, hu, hl, List.getLast?_cons, Bool.true_or,
          List.isEmpty_cons, Bool.not_false, Bool.or_true]
        cases (List.filterMap (urlOf cfg pick) (hits m (i + 1) ps)).getLast? <;> simp
      | lit resp =>
        simp only []
        rw [ih (i + 1) _ needs hc']
        have hu : urlOf cfg pick (i, r) = none := by simp [urlOf, ha]
        have hl : litOf cfg pick (i, r) = some resp := by simp [litOf, ha]
        cases s with | mk client choice upstream connects wraps closes =>
        cases client with | mk buffer closed =>
        simp [afterRoutes, hu, hl, Conn.queue]

/-- a failing branch stops the loop there: nothing later is evaluated -/
theorem routeLoop_fail_head (cfg : Cfg) (m : Nat → Bool) (pick : Nat → Nat) (p : Plugin) (ps : Table) (i : Nat)
    (s : St) (needs : Bool) (r : Route) (e : Err) (hf : firstMatch m p = some r)
    (ha : routeAct cfg (pick i) r = .fail e none) :
    routeLoop cfg m pick i (p :: ps) s needs = (s, needs, some e) := by
  unfold routeLoop; rw [hf]; simp only []; rw [ha]

/-! ### the `if needs_upstream:` block -/

theorem forward_ok (cfg : Cfg) (req : Parser) (s : St) (u : Url) (h pkt : Bytes)
    (hc : s.choice = some u) (hh : u.hostname = some h) (hne : h ≠ []) (hu : utf8Valid h = true)
    (hb : Px.Build.build cfg.bufSize cfg.disableHeaders (retarget req u) none (hostArg cfg u h) = .ok pkt) :
    forward cfg true req s =
      ⟨{ s with upstream := some ⟨[pkt], false⟩,
                connects := s.connects ++ [(connectHost h, portOf cfg u)],
                wraps := if u.scheme == some cfg.httpsProto then s.wraps ++ [h] else s.wraps },
       false, none⟩ := by
  have hne' : h.isEmpty = false := by cases h <;> simp_all
  unfold forward
  simp only [hc, hh, hne', hu, Bool.not_true, Bool.false_eq_true, if_false]
  by_cases hs : (u.scheme == some cfg.httpsProto) = true
  · simp [hs, hb, Conn.queue]
  · simp [hs, hb, Conn.queue]

theorem forward_refused (cfg : Cfg) (req : Parser) (s : St) (u : Url) (h : Bytes)
    (hc : s.choice = some u) (hh : u.hostname = some h) (hne : h ≠ []) (hu : utf8Valid h = true) :
    forward cfg false req s =
      ⟨{ s with upstream := some ⟨[], true⟩, connects := s.connects ++ [(connectHost h, portOf cfg u)] },
       true, some .httpProtocol⟩ := by
  have hne' : h.isEmpty = false := by cases h <;> simp_all
  unfold forward
  simp [hc, hh, hne', hu]

/-! ### what `request.build(host=…)` is handed -/

/-- the request path written to the upstream: `self.path or b'/'` after `request.path = remainder` -/
def fwdPath (u : Url) : Bytes :=
  match u.remainder with
  | some x => if x.isEmpty then [SLASH] else x
  | none => [SLASH]

/-- the header dict handed to `build_http_request` -/
def fwdHeaders (cfg : Cfg) (req : Parser) (host : Option Bytes) : Px.Build.HDict :=
  match req.headers with
  | some h => if h.isEmpty then [] else rebuildHeaders h cfg.disableHeaders host
  | none => []

theorem bodyOrChunks_retarget (n : Nat) (req : Parser) (u : Url) :
    bodyOrChunks n (retarget req u) = bodyOrChunks n req := rfl

theorem bodyOrChunks_ok (n : Nat) (hn : n ≠ 0) (req : Parser) :
    ∃ body, bodyOrChunks n req = .ok body ∧ (req.isChunked = false → body = req.body) ∧
      (req.body = none → body = none) := by
  unfold bodyOrChunks
  cases hb : req.body with
  | none => exact ⟨none, rfl, fun _ => rfl, fun _ => rfl⟩
  | some bd =>
    by_cases hch : req.isChunked = true
    · simp only [hch, if_true]
      have : (n == 0) = false := by simpa using hn
      simp only [Px.Chunk.toChunks, this]
      exact ⟨_, rfl, by simp, by simp⟩
    · have hch' : req.isChunked = false := by simpa using hch
      simp only [hch', Bool.false_eq_true, if_false]
      exact ⟨_, rfl, fun _ => rfl, by simp⟩

theorem build_shape (cfg : Cfg) (req : Parser) (u : Url) (host : Option Bytes) (mth ver : Bytes)
    (body : Option Bytes)
    (hm : req.method = some mth) (hmne : mth ≠ []) (hv : req.version = some ver) (hvne : ver ≠ [])
    (hty : req.ty = .request) (hbody : bodyOrChunks cfg.bufSize req = .ok body) :
    Px.Build.build cfg.bufSize cfg.disableHeaders (retarget req u) none host =
      .ok (buildRequest [] mth (fwdPath u) ver none (fwdHeaders cfg req host) body false true) := by
  have h1 : mth.isEmpty = false := by cases mth <;> simp_all
  have h2 : ver.isEmpty = false := by cases ver <;> simp_all
  have hbc : ∀ q : Parser, q.body = req.body → q.isChunked = req.isChunked →
      bodyOrChunks cfg.bufSize q = .ok body := by
    intro q hq1 hq2
    rw [← hbody]; unfold bodyOrChunks; rw [hq1, hq2]
  unfold Px.Build.build
  simp only [retarget, hm, hv, hty, h1, h2]
  rw [hbc _ (by rfl) (by rfl)]
  rfl

/-! ### Host rewriting touches the Host value only -/

/-- replace the value of every field named Host (any case) -/
def setHost (hv : Bytes) (kv : Bytes × Bytes) : Bytes × Bytes :=
  if lower kv.1 == b "host" then (kv.1, hv) else kv

theorem setHost_fst (hv : Bytes) (kv : Bytes × Bytes) : (setHost hv kv).1 = kv.1 := by
  unfold setHost; split <;> rfl

theorem dSet_map_setHost (hv : Bytes) (acc : Px.Build.HDict) (name value : Bytes) :
    dSet (acc.map (setHost hv)) name (if lower name == b "host" then hv else value) =
      (dSet acc name value).map (setHost hv) := by
  have hany : (acc.map (setHost hv)).any (fun e => e.1 == name) = acc.any (fun e => e.1 == name) := by
    rw [List.any_map]; congr 1; funext e; simp [Function.comp, setHost_fst]
  unfold dSet
  rw [hany]
  by_cases ha : acc.any (fun e => e.1 == name) = true
  · simp only [ha, if_true, List.map_map]
    apply List.map_congr_left
    intro e _
    simp only [Function.comp, setHost_fst]
    by_cases hk : (e.1 == name) = true
    · simp only [hk, if_true]
      unfold setHost
      by_cases hh : (lower name == b "host") = true <;> simp [hh]
    · simp [hk]
  · simp only [ha, Bool.false_eq_true, if_false, List.map_append, List.map_cons, List.map_nil]
    congr 2
    unfold setHost
    by_cases hh : (lower name == b "host") = true <;> simp [hh]

theorem rebuildHeaders_host_aux (h : Headers) (dis : List Bytes) (hv : Bytes) (acc : Px.Build.HDict) :
    h.foldl (fun acc (e : Bytes × (Bytes × Bytes)) =>
        if dis.contains (lower e.1) then acc
        else dSet acc e.2.1 (if lower e.2.1 == b "host" then hv else e.2.2)) (acc.map (setHost hv)) =
      (h.foldl (fun acc (e : Bytes × (Bytes × Bytes)) =>
        if dis.contains (lower e.1) then acc else dSet acc e.2.1 e.2.2) acc).map (setHost hv) := by
  induction h generalizing acc with
  | nil => rfl
  | cons e es ih =>
    simp only [List.foldl_cons]
    by_cases hd : dis.contains (lower e.1) = true
    · simp only [hd, if_true]; exact ih acc
    · simp only [hd, Bool.false_eq_true, if_false]
      rw [dSet_map_setHost]; exact ih _

theorem rebuildHeaders_host (h : Headers) (dis : List Bytes) (hv : Bytes) :
    rebuildHeaders h dis (some hv) = (rebuildHeaders h dis none).map (setHost hv) := by
  have := rebuildHeaders_host_aux h dis hv []
  simpa [rebuildHeaders] using this

/-! ### without rewriting the fields are the client's, in order -/

theorem dSet_fresh (acc : Px.Build.HDict) (k v : Bytes) (h : k ∉ acc.map Prod.fst) :
    dSet acc k v = acc ++ [(k, v)] := by
  unfold dSet
  have : acc.any (fun e => e.1 == k) = false := by
    simp only [List.any_eq_false, beq_iff_eq]
    intro e he hk
    exact h (List.mem_map.2 ⟨e, he, hk⟩)
  simp [this]

theorem rebuildHeaders_none_aux (h : Headers) (dis : List Bytes) (acc : Px.Build.HDict)
    (hd : (acc.map Prod.fst ++ h.map (fun e => e.2.1)).Nodup) :
    h.foldl (fun acc (e : Bytes × (Bytes × Bytes)) =>
        if dis.contains (lower e.1) then acc else dSet acc e.2.1 e.2.2) acc =
      acc ++ (h.filter (fun e => !dis.contains (lower e.1))).map (fun e => e.2) := by
  induction h generalizing acc with
  | nil => simp
  | cons e es ih =>
    simp only [List.foldl_cons]
    have hd' := hd
    simp only [List.map_cons] at hd'
    rw [List.nodup_append] at hd'
    obtain ⟨hacc, hes, hdisj⟩ := hd'
    have hes' := List.nodup_cons.1 hes
    by_cases hdc : dis.contains (lower e.1) = true
    · simp only [hdc, if_true, List.filter_cons, Bool.not_true, Bool.false_eq_true, if_false]
      apply ih
      rw [List.nodup_append]
      exact ⟨hacc, hes'.2, fun a ha b hb => hdisj a ha b (List.mem_cons_of_mem _ hb)⟩
    · have hdc' : dis.contains (lower e.1) = false := by simpa using hdc
      simp only [hdc', Bool.false_eq_true, if_false, List.filter_cons, Bool.not_false, if_true, List.map_cons]
      have hfresh : e.2.1 ∉ acc.map Prod.fst := fun hin => hdisj _ hin _ List.mem_cons_self rfl
      rw [dSet_fresh acc e.2.1 e.2.2 hfresh, ih]
      · simp
      · simp only [List.map_append, List.map_cons, List.map_nil, List.append_assoc, List.singleton_append]
        rw [List.nodup_append]
        refine ⟨hacc, hes, fun a ha b hb => hdisj a ha b hb⟩

theorem rebuildHeaders_none (h : Headers) (dis : List Bytes) (hd : (h.map (fun e => e.2.1)).Nodup) :
    rebuildHeaders h dis none = (h.filter (fun e => !dis.contains (lower e.1))).map (fun e => e.2) := by
  have := rebuildHeaders_none_aux h dis [] (by simpa using hd)
  simpa [rebuildHeaders] using this

/-! ### relaying -/

/-- an event after which `read_from_descriptors` asks for teardown -/
def UpEv.terminal : UpEv → Bool
  | .seg raw => raw.isEmpty
  | .eof => true | .reset => true | .timedOut => true
  | .wantRead => false

/-- the segments received before the first terminal event, in order -/
def delivered : List UpEv → List Bytes
  | [] => []
  | e :: es =>
    if e.terminal then []
    else match e with
      | .seg raw => raw :: delivered es
      | _ => delivered es

theorem relay_spec (evs : List UpEv) (s : St) (c : Conn) (hu : s.upstream = some c) :
    relay evs s =
      ({ s with client := { s.client with buffer := s.client.buffer ++ delivered evs } },
       evs.any UpEv.terminal) := by
  induction evs generalizing s with
  | nil =>
    cases s with | mk client choice upstream connects wraps closes =>
    cases client; simp [relay, delivered]
  | cons e es ih =>
    cases s with | mk client choice upstream connects wraps closes =>
    cases client with | mk buffer closed =>
    simp only at hu
    subst hu
    cases e with
    | seg raw =>
      by_cases hr : raw.isEmpty = true
      · simp [relay, upstreamRead, delivered, UpEv.terminal, hr]
      · have hr' : raw.isEmpty = false := by simpa using hr
        simp only [relay, upstreamRead, hr', Bool.false_eq_true, if_false, handleUpstreamData, Conn.queue]
        rw [ih _ rfl]
        simp [delivered, UpEv.terminal, hr']
    | eof => simp [relay, upstreamRead, delivered, UpEv.terminal]
    | reset => simp [relay, upstreamRead, delivered, UpEv.terminal]
    | timedOut => simp [relay, upstreamRead, delivered, UpEv.terminal]
    | wantRead =>
      simp only [relay, upstreamRead]
      rw [ih _ rfl]
      simp [delivered, UpEv.terminal]

theorem delivered_segs (segs : List Bytes) (hne : ∀ x ∈ segs, x ≠ []) :
    delivered (segs.map .seg) = segs ∧ (segs.map UpEv.seg).any UpEv.terminal = false := by
  induction segs with
  | nil => simp [delivered]
  | cons x xs ih =>
    have hx : x.isEmpty = false := by
      have := hne x List.mem_cons_self
      cases x <;> simp_all
    have ih' := ih (fun y hy => hne y (List.mem_cons_of_mem _ hy))
    simp [delivered, UpEv.terminal, hx, ih'.1, ih'.2]

end Px.Reverse

/-! ### the parser keeps the original-case header names pairwise distinct

`HttpParser.add_header` keys the map on the lower-cased name; the invariant `HOk`
(keys are the lower-cased names and pairwise distinct) is preserved by every step
of `HttpParser.parse`, hence the names themselves are pairwise distinct. -/
namespace Px.Reverse.HdrInv
open Px.Parser

/-- keys are the lower-cased names and pairwise distinct -/
def HOk : Option Headers → Prop
  | none => True
  | some hs => (∀ e ∈ hs, e.1 = lower e.2.1) ∧ (hs.map (·.1)).Nodup

theorem hdrSet_ok (hs : Headers) (key value : Bytes) (h : HOk (some hs)) :
    HOk (some (hdrSet hs (lower key) (key, value))) := by
  obtain ⟨h1, h2⟩ := h
  unfold hdrSet
  by_cases ha : hs.any (fun e => e.1 == lower key) = true
  · simp only [ha, if_true]
    refine ⟨?_, ?_⟩
    · intro e he
      obtain ⟨e0, he0, rfl⟩ := List.mem_map.1 he
      by_cases hk : (e0.1 == lower key) = true
      · simp [hk]
      · simp only [hk, Bool.false_eq_true, if_false]; exact h1 e0 he0
    · have : (hs.map (fun e => if (e.1 == lower key) = true then (lower key, (key, value)) else e)).map (·.1)
          = hs.map (·.1) := by
        rw [List.map_map]; apply List.map_congr_left
        intro e _
        by_cases hk : (e.1 == lower key) = true
        · simp only [Function.comp, hk, if_true]; exact (beq_iff_eq.1 hk).symm
        · simp [Function.comp, hk]
      rw [this]; exact h2
  · have ha' : hs.any (fun e => e.1 == lower key) = false := Bool.eq_false_iff.2 ha
    simp only [ha', Bool.false_eq_true, if_false]
    refine ⟨?_, ?_⟩
    · intro e he
      rcases List.mem_append.1 he with he | he
      · exact h1 e he
      · simp at he; subst he; rfl
    · simp only [List.map_append, List.map_cons, List.map_nil]
      rw [List.nodup_append]
      refine ⟨h2, by simp, ?_⟩
      intro a ha b hb
      simp at hb; subst hb
      intro hab; subst hab
      obtain ⟨e, he, hk⟩ := List.mem_map.1 ha
      simp only [List.any_eq_false, beq_iff_eq] at ha'
      exact ha' e he hk

theorem addHeader_ok (p : Parser) (key value : Bytes) (h : HOk p.headers) :
    HOk (addHeader p key value).headers := by
  unfold addHeader
  simp only
  cases hh : p.headers with
  | none => exact hdrSet_ok [] key value ⟨by simp, by simp⟩
  | some hs => rw [hh] at h; exact hdrSet_ok hs key value h

theorem processHeader_ok (p p' : Parser) (line : Bytes) (h : HOk p.headers)
    (hp : processHeader p line = .ok p') : HOk p'.headers := by
  unfold processHeader at hp
  split at hp
  rename_i key value _
  have := addHeader_ok p key value h
  simp only at hp
  split at hp
  · split at hp
    · cases hp
    · cases hp; exact this
  · split at hp <;> (cases hp; exact this)


theorem processHeaders_ok (fuel : Nat) (p p' : Parser) (raw rest : Bytes) (more : Bool) (h : HOk p.headers)
    (hp : processHeaders fuel p raw = .ok (p', more, rest)) : HOk p'.headers := by
  induction fuel generalizing p raw with
  | zero => simp only [processHeaders] at hp; cases hp; exact h
  | succ n ih =>
    unfold processHeaders at hp
    cases hs : splitCRLF raw with
    | none => simp only [hs] at hp; cases hp; exact h
    | some lr =>
      obtain ⟨line, rst⟩ := lr
      simp only [hs] at hp
      split at hp
      · cases hp
      · rename_i q hstep
        have hq : HOk q.headers := by
          split at hstep
          · split at hstep
            · cases hstep; exact h
            · exact processHeader_ok _ _ _ (by exact h) hstep
          · cases hstep; exact h
        split at hp
        · cases hp; exact hq
        · exact ih q rst hq hp

theorem processLine_ok (cfg : Px.Parser.Cfg) (p p' : Parser) (raw rest : Bytes) (more : Bool) (h : HOk p.headers)
    (hp : processLine cfg p raw = .ok (p', more, rest)) : HOk p'.headers := by
  unfold processLine at hp
  cases hs : splitCRLF raw with
  | none => simp only [hs] at hp; cases hp; exact h
  | some lr =>
    obtain ⟨line, rst⟩ := lr
    simp only [hs] at hp
    cases hty : p.ty with
    | request =>
      simp only [hty] at hp
      split at hp
      · split at hp
        · cases hp
        · split at hp
          · cases hp
          · cases hp
            simp only [setLineAttributes]
            split <;> exact h
      · cases hp
    | response =>
      simp only [hty] at hp
      split at hp <;> first | (cases hp; exact h) | cases hp

theorem processBody_ok (p p' : Parser) (raw rest : Bytes) (more : Bool) (h : HOk p.headers)
    (hp : processBody p raw = .ok (p', more, rest)) : HOk p'.headers := by
  unfold processBody at hp
  by_cases hc : p.isChunked = true
  · simp only [hc, if_true] at hp
    split at hp
    · cases hp
    · cases hp
      split <;> exact h
  · simp only [hc, Bool.false_eq_true, if_false] at hp
    by_cases he : p.contentExpected = true
    · simp only [he, if_true] at hp
      split at hp
      · cases hp
      · split at hp
        · cases hp
        · cases hp; exact h
    · simp only [he, Bool.false_eq_true, if_false] at hp
      cases hp; exact h

theorem stepOnce_ok (cfg : Px.Parser.Cfg) (p p' : Parser) (raw rest : Bytes) (more : Bool) (h : HOk p.headers)
    (hp : stepOnce cfg p raw = .ok (p', more, rest)) : HOk p'.headers := by
  unfold stepOnce at hp
  simp only at hp
  split at hp
  · cases hp
  · rename_i q mr rw hr
    have hq : HOk q.headers := by
      split at hr
      · exact processBody_ok _ _ _ _ _ h hr
      · split at hr
        · exact processLine_ok _ _ _ _ _ _ h hr
        · exact processHeaders_ok _ _ _ _ _ _ h hr
    split at hp
    · cases hp; exact hq
    · split at hp <;> (cases hp; exact hq)

theorem loop_ok (cfg : Px.Parser.Cfg) (fuel : Nat) (p p' : Parser) (more : Bool) (raw rest : Bytes) (h : HOk p.headers)
    (hp : loop cfg fuel p more raw = .ok (p', rest)) : HOk p'.headers := by
  induction fuel generalizing p more raw with
  | zero => simp only [loop] at hp; cases hp; exact h
  | succ n ih =>
    unfold loop at hp
    split at hp
    · cases hp; exact h
    · split at hp
      · cases hp
      · rename_i q mr rw hs
        exact ih q mr rw (stepOnce_ok _ _ _ _ _ _ h hs) hp

theorem parse_ok (cfg : Px.Parser.Cfg) (p p' : Parser) (raw : Bytes) (h : HOk p.headers)
    (hp : parse cfg p raw = .ok p') : HOk p'.headers := by
  unfold parse at hp
  simp only at hp
  split at hp
  · cases hp
  · rename_i q rst hl
    cases hp
    exact loop_ok _ _ _ q _ _ _ (by exact h) hl

theorem parseAll_ok (cfg : Px.Parser.Cfg) (p p' : Parser) (segs : List Bytes) (h : HOk p.headers)
    (hp : parseAll cfg p segs = .ok p') : HOk p'.headers := by
  induction segs generalizing p with
  | nil => simp only [parseAll] at hp; cases hp; exact h
  | cons x xs ih =>
    unfold parseAll at hp
    split at hp
    · cases hp
    · rename_i q hq
      exact ih q (parse_ok _ _ _ _ h hq) hp

theorem nodup_of_map {α β : Type} (f : α → β) (l : List α) (h : (l.map f).Nodup) : l.Nodup := by
  induction l with
  | nil => exact List.nodup_nil
  | cons a as ih =>
    simp only [List.map_cons, List.nodup_cons] at h ⊢
    exact ⟨fun ha => h.1 (List.mem_map.2 ⟨a, ha, rfl⟩), ih h.2⟩

/-- the original-case names of a header map built by the parser are pairwise distinct -/
theorem names_nodup (hs : Headers) (h : HOk (some hs)) : (hs.map (fun e => e.2.1)).Nodup := by
  obtain ⟨h1, h2⟩ := h
  have : hs.map (·.1) = (hs.map (fun e => e.2.1)).map lower := by
    rw [List.map_map]; apply List.map_congr_left; intro e he; exact h1 e he
  rw [this] at h2
  exact nodup_of_map lower _ h2

end Px.Reverse.HdrInv
