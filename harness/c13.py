"""C13 — static file server confinement: correspondence of PxModel/StaticPath.lean
with proxy/http/server/web.py (_try_static_or_404 / on_request_complete),
proxy/http/server/plugin.py (serve_static_file), proxy/http/responses.py
(okResponse) and CPython's os.path.normpath, and the property oracle.

Case kinds
  np    {'s': text | 'sx': hex}                    os.path.normpath vs the model
  plug  {'dir', 'path' | 'pathx' | neither(None), 'mcl', 'en'}
        a real HttpWebServerPlugin (no routes) whose request.path is set to the
        given bytes; on_request_complete() is called; what it queued is read back
  e2e   {'dir', 'path' | 'pathx', 'mcl'}
        `GET <target> HTTP/1.1` fed to a real HttpProtocolHandler (real parser,
        real plugin discovery, real web plugin)
`dir` is a template: `{B}` is the absolute temporary directory holding the tree
below (root `{B}/aa`, nested root `{B}/aa/aa`); in paths `{B}` is the same
string (used to climb to `/` and come back).  Absolute dirs run against the
real tree on disk; relative dirs (outside the theorems' guard) run with an
`open` that only records the path and raises FileNotFoundError.
The `open` used by proxy.http.server.plugin is wrapped to record every path
the implementation hands to the file system.
"""
import os
import sys
import gzip
import atexit
import shutil
import socket
import logging
import tempfile
import itertools
import mimetypes
import subprocess

from harness.common import hx

PROPERTY = 'C13'
LEAN_TARGETS = ['PxProofs.C13']
THEOREMS = [
    'Px.Static.C13_confined', 'Px.Static.C13_opened_confined', 'Px.Static.C13_escape_404',
    'Px.Static.C13_inside_served', 'Px.Static.C13_decide_iff', 'Px.Static.C13_query_irrelevant',
    'Px.Static.C13_content', 'Px.Static.C13_fs_outside_irrelevant', 'Px.Static.C13_disabled_404',
    'Px.Static.C13_normpath_abs_clean', 'Px.Static.C13_normpath_idem_abs', 'Px.Static.C13_resolve_eq_normpath',
    'Px.Static.C13_escape_404_request', 'Px.Static.C13_relative_root_not_confined',
    'Px.Static.C13_nonutf8_rejected', 'Px.Static.C13_bytes_confined', 'Px.Static.C13_nul_not_served',
    'Px.Static.C13_bytes_served', 'Px.Static.C13_bytes_answered', 'Px.Static.C13_overlong_rejected',
    'Px.Static.C13_no_smuggling',
]
EXH_NP = {'quick': 6, 'thorough': 11}
EXH_PLUG = {'quick': 5, 'thorough': 9}
EXH_E2E = {'quick': 4, 'thorough': 7}
RULE = ('np: strings run through os.path.normpath and the model; plug/e2e: (static dir spelling, request path, '
        'min_compression_length) run through the real HttpWebServerPlugin / HttpProtocolHandler against a '
        'temporary tree with files inside the root, in subdirectories, in the parent and in sibling '
        'directories whose name extends the root\'s name, and through the model given the tree as fs; '
        'exhaustive part: every string over {a,/,.} up to the tier\'s length (np %s, plug %s, e2e %s; prefixed '
        'with "/" for plug/e2e), random part over name tokens, "/", ".", "..", "...", %%-sequences, "?" and '
        'the tree\'s own absolute path; byte-level part: every byte string over {a,/,.,00,c0,ae,af,80} up to '
        'length %s (plug) / %s (e2e) after "/", a corpus of traversal-smuggling spellings (overlong c0 ae / c0 af / '
        'e0 80 af / f0 80 80 af, lone continuation and lead bytes, truncated sequences, surrogates, NUL in every '
        'position) and random mixes of them; distinct by canonical JSON; non-trivial = absolute static dir '
        'with at least one component, static server enabled, request reaches the web plugin (ANY bytes as path)'
        % (EXH_NP, EXH_PLUG, EXH_E2E, {'quick': 3, 'thorough': 5}, {'quick': 2, 'thorough': 4}))
ASSUMPTIONS = [
    'no symbolic links below or above the static root (fs is keyed by the lexical path given to open())',
    'static_server_dir is absolute and is not the file-system root (theorem guard ProperAbs); relative dirs '
    'and "/" are run for model/code agreement only',
    'no web route is registered (routes take precedence over the static server and are C12\'s subject)',
    'UTF-8 strictness of bytes.decode is tied to the model decoder (utf8Decode) by correspondence on the '
    'byte-level cases',
    'gzip.compress / gzip.decompress are inverse (checked on every compressed response run); '
    'mimetypes.guess_type is an input of the model',
    'e2e requests are sent with --disable-http-proxy so that targets that are not origin-form never cause '
    'network activity',
]
EXHAUSTIVE = {'thorough': True}
EXPLANATION = ('exhaustive over the alphabet {a,/,.} up to the lengths given in the rule (the tree uses the '
               'names a, aa, aaa, .a, a.a, ... so that these strings reach files inside, above and beside '
               'the root); everything else is a seeded random sample')

logging.disable(logging.CRITICAL)

# ---------------------------------------------------------------------------------------------
# the tree

def _pad(tag, n):
    s = (tag * (n // len(tag) + 1))[:n]
    return s


FILES = {
    # outside the root {B}/aa
    'a': _pad(b'OUTSIDE:a;', 30),
    'secret.txt': _pad(b'OUTSIDE:secret.txt;', 40),
    'aa.txt': _pad(b'OUTSIDE:aa.txt;', 33),
    'aaa/a': _pad(b'OUTSIDE:aaa/a;', 29),
    'aaa/s.txt': _pad(b'OUTSIDE:aaa/s.txt;', 5),
    'aa.a/a': _pad(b'OUTSIDE:aa.a/a;', 31),
    # inside
    'aa/a': b'INSIDE:aa/a',
    'aa/aaa': _pad(b'INSIDE:aa/aaa;', 25),
    'aa/.a': _pad(b'INSIDE:aa/.a;', 24),
    'aa/a.a': b'INSIDE:aa/a.a',
    'aa/.../a': _pad(b'INSIDE:aa/.../a;', 22),
    'aa/aa/a': _pad(b'INSIDE:aa/aa/a;', 64),
    'aa/aa/b.css': _pad(b'INSIDE:aa/aa/b.css;', 45),
    'aa/aa/aa/a': _pad(b'INSIDE:aa/aa/aa/a;', 21),
    'aa/index.html': _pad(b'<html>INSIDE:aa/index.html</html>', 120),
    'aa/e.txt': b'',
    'aa/t20': _pad(b'INSIDE:t20;', 20),
    'aa/t21.js': _pad(b'INSIDE:t21;', 21),
    'aa/%2e%2e/p.txt': _pad(b'INSIDE:aa/%2e%2e/p.txt;', 30),
    'aa/é.txt': _pad(b'INSIDE:aa/e-acute.txt;', 26),
}

_WATCH = r'''
import os, sys, time, shutil
pid, path = int(sys.argv[1]), sys.argv[2]
while True:
    try:
        os.kill(pid, 0)
    except OSError:
        break
    time.sleep(0.3)
shutil.rmtree(path, ignore_errors=True)
'''

_BASE = None


def base():
    """Absolute path of the temporary tree (created once, in the process that
    first asks — ./check asks from the parent before any worker is forked —
    and removed when that process is gone, even through os._exit)."""
    global _BASE
    if _BASE is None:
        b = os.path.realpath(tempfile.mkdtemp(prefix='c13-'))
        for rel, content in FILES.items():
            p = os.path.join(b, rel)
            os.makedirs(os.path.dirname(p), exist_ok=True)
            with open(p, 'wb') as f:
                f.write(content)
        atexit.register(shutil.rmtree, b, True)
        subprocess.Popen([sys.executable, '-c', _WATCH, str(os.getpid()), b],
                         stdin=subprocess.DEVNULL, stdout=subprocess.DEVNULL, stderr=subprocess.DEVNULL,
                         start_new_session=True, close_fds=True)
        _BASE = b
    return _BASE


DIRS_GUARDED = [
    '{B}/aa', '{B}/aa/', '{B}//aa', '{B}/./aa', '{B}/aaa/../aa', '{B}/aa/.', '/{B}/aa', '{B}/aa//',
    '{B}/aa/aa', '{B}/aa/aa/', '{B}/aa/aa/../aa/', '/{B}/aa/aa',
]
DIRS_FSROOT = ['/', '//', '///', '/..', '/.']
DIRS_RELATIVE = ['aa', '.', '..', '../..', '', '../aa', './aa/', 'aa/..', '../aa/../..']


def dir_str(case):
    return case['dir'].replace('{B}', base())


def is_virtual(case):
    return not case['dir'].startswith(('/', '{B}'))


def path_bytes(case):
    if 'pathx' in case:
        return bytes.fromhex(case['pathx'])
    if case.get('path') is None:
        return None
    return case['path'].replace('{B}', base()).encode('utf-8')


# ---------------------------------------------------------------------------------------------
# driving the real code

_REC = {'log': None, 'virtual': False}
_real_open = open


def _recording_open(path, *a, **k):
    if _REC['log'] is not None:
        _REC['log'].append(path)
    if _REC['virtual']:
        raise FileNotFoundError(2, 'virtual file system of harness/c13.py', path)
    return _real_open(path, *a, **k)


def _install():
    import proxy.http.server.plugin as P
    if getattr(P, 'open', None) is not _recording_open:
        P.open = _recording_open


_FLAGS = {}


def _flags(dirv, mcl, en, e2e):
    key = (dirv, mcl, en, e2e)
    f = _FLAGS.get(key)
    if f is None:
        from proxy.common.flag import FlagParser
        args = ['--enable-web-server', '--static-server-dir', dirv, '--min-compression-length', str(mcl),
                '--log-level', 'CRITICAL']
        if en:
            args.append('--enable-static-server')
        if e2e:
            args.append('--disable-http-proxy')
        f = FlagParser.initialize(args, threadless=True)
        logging.disable(logging.CRITICAL)
        if len(_FLAGS) > 256:
            _FLAGS.clear()
        _FLAGS[key] = f
    return f


def run_real(case):
    """-> dict(exc, out, opened, web).  The REAL classes from /repo."""
    from proxy.http.handler import HttpProtocolHandler
    from proxy.http.connection import HttpClientConnection
    from proxy.http.parser import HttpParser, httpParserTypes
    from proxy.http.server.web import HttpWebServerPlugin
    _install()
    e2e = case['kind'] == 'e2e'
    flags = _flags(dir_str(case), case.get('mcl', 20), case.get('en', 1), e2e)
    a, b_ = socket.socketpair()
    a.setblocking(False)
    b_.setblocking(False)
    res = {'exc': None, 'out': b'', 'opened': [], 'web': True}
    _REC['log'] = res['opened']
    _REC['virtual'] = is_virtual(case)
    try:
        client = HttpClientConnection(a, ('127.0.0.1', 54321))
        pb = path_bytes(case)
        if e2e:
            h = HttpProtocolHandler(client, flags=flags)
            h.initialize()
            try:
                h.handle_data(memoryview(b'GET ' + pb + b' HTTP/1.1\r\nHost: x\r\n\r\n'))
            except Exception as e:      # what escapes goes to the executor (C05/C06)
                res['exc'] = e
            res['web'] = isinstance(h.plugin, HttpWebServerPlugin)
            buf = h.work.buffer
        else:
            req = HttpParser(httpParserTypes.REQUEST_PARSER)
            req.parse(memoryview(b'GET / HTTP/1.1\r\nHost: x\r\n\r\n'))
            assert req.is_complete
            req.path = pb
            plugin = HttpWebServerPlugin('uid', flags, client, req, None, None)
            try:
                plugin.on_request_complete()
            except Exception as e:
                res['exc'] = e
            buf = client.buffer
        res['out'] = b''.join(bytes(x) for x in buf)
    finally:
        _REC['log'] = None
        _REC['virtual'] = False
        a.close()
        b_.close()
    return res


def _opened_str(opened):
    if not opened:
        return 'None'
    if len(opened) > 1:
        return 'multi:' + ','.join(hx(os.fsencode(o)) for o in opened)
    return hx(os.fsencode(opened[0]))


def parse_ok(out):
    """-> (header block without Content-Length, gzip advertised, content-length ok, decoded body) or None"""
    if not out.startswith(b'HTTP/1.1 200 OK\r\n') or b'\r\n\r\n' not in out:
        return None
    head, raw = out.split(b'\r\n\r\n', 1)
    lines = head.split(b'\r\n')
    cl = [l for l in lines if l.startswith(b'Content-Length: ')]
    rest = [l for l in lines if not l.startswith(b'Content-Length: ')]
    enc = b'Content-Encoding: gzip' in lines
    clok = len(cl) == 1 and cl[0][len(b'Content-Length: '):] == str(len(raw)).encode()
    if enc:
        try:
            body = gzip.decompress(raw)
        except Exception:
            return None
    else:
        body = raw
    return b''.join(l + b'\r\n' for l in rest), enc, clok, body


def canon(res):
    from proxy.http.responses import NOT_FOUND_RESPONSE_PKT, BAD_REQUEST_RESPONSE_PKT
    op = _opened_str(res['opened'])
    if res['exc'] is not None:
        e = res['exc']
        return 'exc %s opened=%s' % ('valueError' if isinstance(e, ValueError) else type(e).__name__, op)
    out = res['out']
    if out == bytes(NOT_FOUND_RESPONSE_PKT):
        return '404 opened=' + op
    if out == bytes(BAD_REQUEST_RESPONSE_PKT):
        return '400 opened=' + op
    p = parse_ok(out)
    if p is None:
        return 'other opened=%s %s' % (op, hx(out))
    hdr, enc, clok, body = p
    return '200 opened=%s enc=%s clok=%d hdr=%s body=%s' % (op, 'gzip' if enc else 'None', clok, hx(hdr), hx(body))


def np_str(case):
    if 'sx' in case:
        return bytes.fromhex(case['sx']).decode('utf-8')
    return case['s']


def impl(case):
    if case['kind'] == 'np':
        return ['ok ' + hx(os.path.normpath(np_str(case)).encode('utf-8'))]
    res = run_real(case)
    if case['kind'] == 'e2e' and not res['web']:
        return ['notweb']
    return [canon(res)]


# ---------------------------------------------------------------------------------------------
# model side

_ENT = {}


def _entries(case):
    if is_virtual(case):
        return ''
    b = base()
    d = dir_str(case)
    two = (d.startswith('//') and not d.startswith('///')) or not lex_resolve([], d)
    if two not in _ENT:
        toks = []
        for pre in ([b, '/' + b] if two else [b]):
            for rel, content in FILES.items():
                p = pre + '/' + rel
                ct = mimetypes.guess_type(p)[0] or 'text/plain'
                toks += [hx(p.encode('utf-8')), hx(content), hx(ct.encode())]
        _ENT[two] = ' '.join(toks)
    return _ENT[two]


def model_lines(case):
    if case['kind'] == 'np':
        return ['static np ' + hx(np_str(case).encode('utf-8'))]
    pb = path_bytes(case)
    head = ['static', 'serve' if case['kind'] == 'plug' else 'e2e']
    if case['kind'] == 'plug':
        head.append(str(case.get('en', 1)))
    head += [hx(dir_str(case).encode('utf-8')), hx(pb), str(case.get('mcl', 20))]
    return [(' '.join(head) + ' ' + _entries(case)).rstrip()]


# ---------------------------------------------------------------------------------------------
# oracle: the property itself, on the implementation only

def lex_resolve(start, path):
    """Independent dot-segment resolution (RFC 3986 5.2.4 as a stack machine):
    walk `path`'s segments from the directory `start` (a list of names)."""
    out = list(start)
    i, n = 0, len(path)
    while i <= n:
        j = path.find('/', i)
        if j < 0:
            j = n
        seg = path[i:j]
        i = j + 1
        if seg == '' or seg == '.':
            continue
        if seg == '..':
            if out:
                del out[-1]
            continue
        out.append(seg)
    return out


def path_text(case):
    """The text the request path decodes to (`None`/empty path stands for '/'); None = not UTF-8."""
    pb = path_bytes(case) or b'/'
    try:
        return pb.decode('utf-8')
    except UnicodeDecodeError:
        return None


def in_quantifier(case):
    """Every byte string is a request path of the property (NUL and non-UTF-8 bytes included)."""
    if case['kind'] == 'np':
        return False
    if case.get('en', 1) != 1 or is_virtual(case):
        return False
    pb = path_bytes(case) or b'/'
    if case['kind'] == 'e2e' and not (pb.startswith(b'/') and not pb.startswith(b'//')):
        return False
    return len(lex_resolve([], dir_str(case))) > 0


def _observe(case):
    """-> ('404'|'400'|'200'|'exc'|'other', decoded body | None, opened list)"""
    from proxy.http.responses import NOT_FOUND_RESPONSE_PKT, BAD_REQUEST_RESPONSE_PKT
    res = run_real(case)
    if res['exc'] is not None:
        return 'exc', None, res['opened']
    if res['out'] == bytes(NOT_FOUND_RESPONSE_PKT):
        return '404', None, res['opened']
    if res['out'] == bytes(BAD_REQUEST_RESPONSE_PKT):
        return '400', None, res['opened']
    p = parse_ok(res['out'])
    if p is None and res['out'].startswith(b'HTTP/1.1 200 OK\r\n'):
        return 'body-does-not-undo-advertised-encoding', None, res['opened']
    if p is None or not p[2]:
        return 'other', None, res['opened']
    return '200', p[3], res['opened']


def _with_path(case, pb):
    c = {k: v for k, v in case.items() if k not in ('path', 'pathx')}
    c['pathx'] = pb.hex()
    return c


def oracle(case):
    if not in_quantifier(case):
        return None
    rootc = lex_resolve([], dir_str(case))
    status, body, opened = _observe(case)
    # whatever the bytes of the path: nothing outside the static dir is handed to the file system
    for o in opened:
        oc = lex_resolve([], o)
        if oc[:len(rootc)] != rootc:       # (the root directory itself is not outside)
            return 'opened-path-outside-root'
    full = path_text(case)
    if full is None:
        # not text: the path names no file; no content, no file access
        if status == '200':
            return 'file-content-served-for-non-utf8-path'
        if opened:
            return 'file-opened-for-non-utf8-path'
        if status not in ('400', '404'):
            return 'non-utf8-path-not-rejected:' + status
        return None
    named = full.split('?', 1)[0] if '?' in full else full
    loc = lex_resolve(rootc, named)
    inside = len(loc) > len(rootc) and loc[:len(rootc)] == rootc
    disk = None
    if inside:
        f = '/' + '/'.join(loc)
        if '\x00' not in f and os.path.isfile(f) and not os.path.islink(f):
            with _real_open(f, 'rb') as fh:
                disk = fh.read()
    if status == '200':
        if not inside:
            return 'file-content-served-for-path-outside-root'
        if disk is None or body != disk:
            return 'served-content-differs-from-file'
    elif status == '404':
        if disk is not None:
            return 'existing-file-inside-root-not-served'
    else:
        return 'neither-404-nor-file:' + status
    # the query string never influences which file is chosen
    pb = path_bytes(case)
    if not pb:
        return None
    if b'?' in pb:
        q = pb.split(b'?', 1)[0]
        if q == b'':
            return None
        other = _with_path(case, q)
    else:
        other = _with_path(case, pb + b'?' + QUERIES[sum(pb) % len(QUERIES)].encode())
    s2, b2, _ = _observe(other)
    if (s2, b2) != (status, body):
        return 'query-string-changes-the-answer'
    return None


QUERIES = ['x=1', '/../../a', '../../secret.txt', '?', '', '/..', 'a/../../aaa/a', '%2e%2e/a']


# ---------------------------------------------------------------------------------------------
# cases

def _plug(d, p, mcl=20, en=1):
    c = {'kind': 'plug', 'dir': d, 'mcl': mcl, 'en': en}
    if isinstance(p, bytes):
        c['pathx'] = p.hex()
    elif p is not None:
        c['path'] = p
    return c


def _e2e(d, p, mcl=20):
    c = {'kind': 'e2e', 'dir': d, 'mcl': mcl}
    if isinstance(p, bytes):
        c['pathx'] = p.hex()
    else:
        c['path'] = p
    return c


# the classic traversal smuggling bytes: overlong encodings of '.', '/' and NUL, lone continuation and
# lead bytes, truncated sequences, surrogates, > U+10FFFF, and real NUL bytes
SMUGGLE = [
    b'/\xff', b'/a\xc0\xaf', b'\x80', b'/\x80', b'/a\xbf', b'/\xfe\xff', b'/\xc0', b'/\xc3', b'/a/\xe2\x82',
    b'/\xed\xa0\x80', b'/\xf4\x90\x80\x80', b'/\xf8\x88\x80\x80\x80',
    b'/\xc0\xae\xc0\xae/secret.txt', b'/\xc0\xae\xc0\xae\xc0\xafsecret.txt', b'/..\xc0\xafsecret.txt',
    b'/\xc0\xae./secret.txt', b'/.\xc0\xae/secret.txt', b'/..\xc1\x9csecret.txt',
    b'/\xe0\x80\xae\xe0\x80\xae\xe0\x80\xafsecret.txt', b'/..\xe0\x80\xafsecret.txt', b'/\xe0\x80\xae\xe0\x80\xae/a',
    b'/\xf0\x80\x80\xae\xf0\x80\x80\xae\xf0\x80\x80\xafsecret.txt', b'/..\xf0\x80\x80\xafa',
    b'/\xc0\x80', b'/a\xc0\x80.txt', b'/../secret.txt\xc0\x80',
    b'/a\xc0\xaf..\xc0\xaf..\xc0\xafa', b'/aa/\xc0\xae\xc0\xae/\xc0\xae\xc0\xae/a', b'/\xc0\xae\xc0\xae/aaa/a',
    b'/a?\xff', b'/a?x=\xc0\xaf../', b'/\xff?/../a',
    b'/a\x00', b'/\x00', b'/\x00/../a', b'/a\x00/../a', b'/..\x00/secret.txt', b'/../secret.txt\x00',
    b'/../secret.txt\x00.html', b'/a\x00.txt', b'/index.html\x00/../../a', b'/aa\x00/a', b'/\x00../a',
    b'/.\x00./secret.txt', b'/a?\x00', b'/\x00?/../a', b'/a\x00\xff', b'/../aaa/a\x00', b'/..\x00',
    b'/\xc3\xa9.txt', b'/\xef\xbc\x8e\xef\xbc\x8e/secret.txt', b'/..\xe2\x88\x95secret.txt', b'/\xf0\x9f\x98\x80',
]
EXH_BYTES = [0x61, 0x2f, 0x2e, 0x00, 0xc0, 0xae, 0xaf, 0x80]
EXH_BPLUG = {'quick': 3, 'thorough': 5}
EXH_BE2E = {'quick': 2, 'thorough': 4}
BYTE_TOKS = [b'a', b'aa', b'aaa', b'.', b'..', b'..', b'..', b'secret.txt', b'index.html', b'a.a', b'',
             b'\x00', b'\x00', b'a\x00', b'\x00.txt', b'..\x00', b'\x80', b'\xbf', b'\xff', b'\xfe', b'\xc0', b'\xc3', b'\xe2\x82',
             b'\xc0\xae', b'\xc0\xae\xc0\xae', b'\xc0\xaf', b'..\xc0\xaf..', b'\xc1\x9c', b'\xe0\x80\xae\xe0\x80\xae', b'\xe0\x80\xaf',
             b'\xf0\x80\x80\xae', b'\xf0\x80\x80\xaf', b'\xc0\x80', b'\xed\xa0\x80', b'\xf4\x90\x80\x80',
             b'\xc3\xa9.txt', b'\xef\xbc\x8e\xef\xbc\x8e', b'\xe2\x88\x95', b'%c0%af', b'%00']
BYTE_SEPS = [b'/', b'/', b'/', b'/', b'//', b'\xc0\xaf', b'\xe0\x80\xaf', b'/./', b'/../']


def _rand_bytes_path(rng):
    if rng.random() < 0.3:
        # a text traversal with some '.', '/' replaced by smuggling spellings, or a NUL inserted
        p = _rand_path(rng).replace('{B}', '').encode('utf-8')
        out = bytearray()
        for c in p:
            r = rng.random()
            if c == 0x2e and r < 0.25:
                out += rng.choice([b'\xc0\xae', b'\xe0\x80\xae', b'\xf0\x80\x80\xae', b'.\x00', b'\xef\xbc\x8e'])
            elif c == 0x2f and r < 0.2:
                out += rng.choice([b'\xc0\xaf', b'\xe0\x80\xaf', b'\xc1\x9c', b'/\x00', b'\x00/'])
            else:
                out.append(c)
        if rng.random() < 0.3:
            k = rng.randrange(len(out) + 1)
            out[k:k] = rng.choice([b'\x00', b'\xff', b'\x80'])
        return bytes(out)
    p = b''
    for _ in range(rng.randrange(1, 7)):
        p += rng.choice(BYTE_SEPS) + rng.choice(BYTE_TOKS)
    if rng.random() < 0.15:
        p += rng.choice([b'?', b'?\xff', b'?\x00', b'?/../../a'])
    return p


def _byte_strings(maxlen):
    for n in range(maxlen + 1):
        for t in itertools.product(EXH_BYTES, repeat=n):
            yield bytes(t)


def corpus():
    base()
    R = '{B}/aa'
    cs = []
    for p in ['/a', '/a?x=1', '/../secret.txt', '/aa/../../secret.txt', '/../aaa/a', '/../aa.txt', '/../a',
              '/../aa.a/a', '/../aa/a', '/aa/a', '/aa/b.css', '/aa/aa/a', '/index.html', '/e.txt', '/t20',
              '/t21.js', '/%2e%2e/p.txt', '/%2e%2e/secret.txt', '/%2e%2e%2fsecret.txt', '/..%2fsecret.txt',
              '/é.txt', '/.../a', '/.a', '/a.a', '/aaa', '/', '', '/.', '/..', '/aa', '/aa/', '/a/',
              '/a/.', '/a/..', '/a/../a', '//a', '///a', 'a', '../a', '..', '/a?', '/?', '?', '/a?/../../a',
              '/..?/a', '/missing', '/a/b', '/..\\a', '/\\..\\secret.txt', '/../../../../../../../..{B}/aa/a',
              '/../../../../../../../..{B}/a', '/..{B}/aa/a', '/....//a', '/.//a', '/a%00', '/a\x00',
              '/\x00/../a', '/a#frag', '/a;x', '/aa/aa/../../a', '/aa/aa/../../../a']:
        cs.append(_plug(R, p))
        if p.startswith('/') or p in ('a', '?'):
            if ' ' not in p:
                cs.append(_e2e(R, p))
    for d in DIRS_GUARDED + DIRS_FSROOT + DIRS_RELATIVE:
        for p in ['/a', '/../a', '/aa/a', '/../aaa/a', '/{B}/aa/a', '/', 'a']:
            cs.append(_plug(d, p))
    for mcl in (0, 5, 19, 20, 21, 1000, -1):
        for p in ['/a', '/t20', '/t21.js', '/e.txt', '/index.html']:
            cs.append(_plug(R, p, mcl))
            cs.append(_e2e(R, p, mcl))
    cs.append(_plug(R, '/a', en=0))
    cs.append(_plug(R, '/../a', en=0))
    cs.append(_plug(R, None))
    cs.append(_plug(R, b''))
    for bad in SMUGGLE:
        for d in (R, '{B}/aa/aa', '/{B}/aa'):
            cs.append(_plug(d, bad))
            if bad.startswith(b'/') and not bad.startswith(b'//'):
                cs.append(_e2e(d, bad))
    cs.append(_plug(R, b'/\xff', en=0))
    cs.append(_plug(R, b'/a\x00', en=0))
    cs.append(_plug('..', b'/\xc0\xae\xc0\xae/x'))
    cs.append(_plug('..', b'/../x\x00'))
    for s in ['', '.', '..', '/', '//', '///', '////a', '//a//b', 'a/./b/../c', '../..', '/../..', '//..', 'a/..',
              'a/../..', './', '../a/..', '/a/b/../../..', 'é/../ü', 'a\x00/..', '...', '/...', 'a//..//b']:
        cs.append({'kind': 'np', 's': s})
    return cs


def _strings(alpha, maxlen):
    for n in range(maxlen + 1):
        for t in itertools.product(alpha, repeat=n):
            yield ''.join(t)


NAME_TOKS = ['a', 'aa', 'aaa', '.a', 'a.a', '...', 'index.html', 'e.txt', 't20', 't21.js', 'secret.txt', 's.txt',
             'aa.txt', 'aa.a', 'b.css', 'p.txt', '%2e%2e', '%2e', '%2f', '%2F..', '%5c', 'é.txt', '\\', '..\\',
             '{B}', 'b', '%', '%zz', '....', '. ', '~', 'a?', '..;']
SEPS = ['/', '/', '/', '//', '/./', '/../', '///']


def _rand_path(rng):
    r = rng.random()
    if r < 0.35:
        # a known file (inside or outside) reached through detours
        rel = rng.choice(list(FILES))
        up = rng.choice(['', '', '/..', '/../..', '/aa/..', '/../aa', '/../aaa/..', '/a/..', '/./', '/aa/aa/../..'])
        if rel.startswith('aa/') and rng.random() < 0.6:
            p = up + '/' + rel[3:]
        else:
            p = up + '/../' + rel
        if rng.random() < 0.2:
            p = p.replace('/', rng.choice(['//', '/./', '/']))
        if rng.random() < 0.15:
            p += rng.choice(['/', '/.', '//', '/..'])
    else:
        n = rng.randrange(0, 8)
        p = ''
        for _ in range(n):
            p += rng.choice(SEPS) + rng.choice(NAME_TOKS + ['.', '..', '..', '..', 'a', 'aa', ''])
        if rng.random() < 0.2:
            p += rng.choice(['/', '/.', '/..', '//'])
        if rng.random() < 0.1:
            p = p.lstrip('/')
    if rng.random() < 0.25:
        p += '?' + rng.choice(QUERIES + ['a=b&c=d', '/../', '..', '?/..'])
    return p


def generate(rng, tier):
    base()
    big = tier == 'thorough'
    R = '{B}/aa'
    # (a) normpath
    for s in _strings('a/.', EXH_NP[tier]):
        yield {'kind': 'np', 's': s}
    alpha = ['a', 'b', '/', '/', '.', '.', '..', '%2e', '?', 'é', '//', '/../', '/./', '\\', ' ', '∕', '．']
    for _ in range(6000 if big else 800):
        n = rng.randrange(1, 25)
        yield {'kind': 'np', 's': ''.join(rng.choice(alpha) for _ in range(n))}
    # (b) the real plugin / handler, exhaustive small scope
    for s in _strings('a/.', EXH_PLUG[tier]):
        yield _plug(R, '/' + s)
    for s in _strings('a/.', EXH_PLUG[tier] - 2):
        yield _plug('{B}/aa/aa', '/' + s)
        yield _plug(R, s)
        yield _plug(R, '/' + s, en=0) if len(s) <= 2 else _plug('{B}/aa/', '/' + s + '?' + s)
    for s in _strings('a/.', EXH_E2E[tier]):
        yield _e2e(R, '/' + s)
    # random
    for _ in range(25000 if big else 1300):
        r = rng.random()
        d = rng.choice(DIRS_GUARDED) if r < 0.8 else rng.choice(DIRS_FSROOT) if r < 0.87 else rng.choice(DIRS_RELATIVE)
        mcl = 20 if rng.random() < 0.7 else rng.choice([0, 1, 5, 19, 21, 24, 64, 1000, -1])
        p = _rand_path(rng)
        if rng.random() < 0.45 and ' ' not in p and p.startswith('/'):
            yield _e2e(d, p, mcl)
        else:
            yield _plug(d, p, mcl, en=0 if rng.random() < 0.02 else 1)
    # every byte string is a path: NUL and non-UTF-8 bytes, exhaustive small scope ...
    for q in _byte_strings(EXH_BPLUG[tier]):
        yield _plug(R, b'/' + q)
    for q in _byte_strings(EXH_BE2E[tier]):
        yield _e2e(R, b'/' + q)
    # ... and random (smuggling spellings of '.', '/', NUL; lone / truncated / out-of-range sequences)
    for _ in range(8000 if big else 700):
        r = rng.random()
        d = rng.choice(DIRS_GUARDED) if r < 0.85 else rng.choice(DIRS_FSROOT) if r < 0.9 else rng.choice(DIRS_RELATIVE)
        q = _rand_bytes_path(rng)
        if q.startswith(b'/') and not q.startswith(b'//') and b' ' not in q and rng.random() < 0.5:
            yield _e2e(d, q)
        else:
            yield _plug(d, q, en=0 if rng.random() < 0.02 else 1)


def neighbours(case):
    if case['kind'] == 'np':
        return
    p = case.get('path')
    if p is None:
        return
    for d in ('{B}/aa', '{B}/aa/aa', '{B}/aa/'):
        yield dict(case, dir=d)
    for pre in ('/..', '/../..', '/aa/..'):
        yield dict(case, path=pre + p)
    if '?' in p:
        yield dict(case, path=p.split('?', 1)[0])
    else:
        yield dict(case, path=p + '?/../../a')


def search(rng):
    base()
    out = []
    for s in _strings('a/.', 6):
        out.append(_plug('{B}/aa', '/' + s))
        out.append(_plug('{B}/aa/aa', '/' + s))
    for _ in range(3000):
        d = rng.choice(DIRS_GUARDED)
        p = _rand_path(rng)
        out.append(_e2e(d, p) if (p.startswith('/') and ' ' not in p and rng.random() < 0.5) else _plug(d, p))
    for q in SMUGGLE:
        out.append(_plug('{B}/aa', q))
    for q in _byte_strings(3):
        out.append(_plug('{B}/aa', b'/' + q))
    for _ in range(1500):
        out.append(_plug(rng.choice(DIRS_GUARDED), _rand_bytes_path(rng)))
    return out


def shrink(case, still_fails):
    if 'path' not in case:
        return case
    cur = case
    changed = True
    while changed:
        changed = False
        p = cur['path']
        for i in range(len(p)):
            for k in (3, 2, 1):
                q = p[:i] + p[i + k:]
                if q != p and (cur['kind'] != 'e2e' or (q.startswith('/') and not q.startswith('//'))):
                    c = dict(cur, path=q)
                    if still_fails(c):
                        cur, changed = c, True
                        break
            if changed:
                break
    return cur


def describe(case):
    if case['kind'] == 'np':
        return ['np']
    dk = 'relative' if is_virtual(case) else 'fsroot' if not lex_resolve([], dir_str(case)) else 'abs'
    out = [case['kind'] + ' dir=' + dk]
    pb = path_bytes(case)
    if pb is None:
        out.append('path=None')
        return out
    if b'\x00' in pb:
        out.append('has NUL')
    p = path_text(case)
    if p is None:
        out.append('not UTF-8')
        if any(x in pb for x in (b'\xc0\xae', b'\xc0\xaf', b'\xe0\x80\xae', b'\xe0\x80\xaf', b'\xf0\x80\x80')):
            out.append('overlong . or /')
        return out
    if 'pathx' in case:
        out.append('byte-level UTF-8')
    if '..' in p:
        out.append('has ..')
    if '?' in p:
        out.append('has ?')
    if '%' in p:
        out.append('has %')
    if dk == 'abs':
        rootc = lex_resolve([], dir_str(case))
        loc = lex_resolve(rootc, p.split('?', 1)[0])
        out.append('resolves ' + ('inside' if len(loc) > len(rootc) and loc[:len(rootc)] == rootc else 'outside'))
    return out


def nontrivial(case):
    return in_quantifier(case)
