import PxModel.Parser
import PxModel.Build
/-
  Model of HttpParser.update_body(body, content_type) (proxy/http/parser/parser.py)
  as the code is now.  `gzip.compress` is a parameter `gz : Bytes → Bytes`
  (its output is not byte-deterministic across zlib builds / clock values, and
  nothing but `gunzip ∘ gz = id` is ever needed about it).

  Branch by branch:
    * `content-encoding` present and equal to `gzip` (exact bytes, no case folding,
      no stripping beyond what the parser did) → body is compressed;
      present with any other value → the header is deleted;
    * chunked message → `content-length` is deleted and `self.body` keeps the DECODED (possibly
      compressed) body: `build()` / `build_response()` apply the chunked coding
      (fix 4312341; before it the stream was stored encoded and encoded again on rebuild, D23);
      otherwise `Content-Length: len(body)` is set;
    * `Content-Type` is set last.
  `bufSize` is no longer used (kept so that callers need not change).
-/
namespace Px.UpdateBody

open Px.Parser

inductive Err | valueError
  deriving DecidableEq, Repr

/-- `HttpParser.update_body(body, content_type)` -/
def updateBody (gz : Bytes → Bytes) (_bufSize : Nat) (p : Parser) (body ct : Bytes) : Except Err Parser :=
  -- content-encoding
  let (p, body) : Parser × Bytes :=
    if hasHeader p (b "content-encoding") then
      match header p (b "content-encoding") with
      | .ok v => if v == b "gzip" then (p, gz body) else (delHeader p (b "content-encoding"), body)
      | .error _ => (p, body)     -- unreachable: has_header was true
    else (p, body)
  -- transfer-encoding
  let r : Except Err (Parser × Bytes) :=
    if p.isChunked then .ok (delHeader p (b "content-length"), body)
    else .ok (addHeader p (b "Content-Length") (natToDec body.length), body)
  match r with
  | .error e => .error e
  | .ok (p, body) => .ok (addHeader { p with body := some body } (b "Content-Type") ct)

end Px.UpdateBody
