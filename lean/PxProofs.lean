import PxProofs.C16
import PxProofs.C20
import PxProofs.C18
import PxProofs.C13
import PxProofs.C19
