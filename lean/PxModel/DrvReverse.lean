import PxModel.Reverse
import PxModel.DrvParser
import PxModel.Persist
/-
  Driver glue for the reverse-proxy model (first token `rev`).

  `rev run <rewrite 0|1> <events 0|1> <connect ok|refused> <table> <matchbits> <picks> <upevents> <seg>...`

  table     `E` (no plugin) or plugins joined by `|`; a plugin is `e` (no route) or routes joined by `;`;
            a route is `s.<pat>.<url>,<url>…` (static; `e` for an empty url list),
            `u.<pat>.<url>` (dynamic, handle_route returns Url.from_bytes(url)),
            `m.<pat>.<url>.<suffix>` (dynamic, returns Url.from_bytes(url) with `remainder += suffix`),
            `l.<pat>.<resp>` (dynamic, literal response), `x.<pat>` (dynamic, handle_route raises)
  matchbits string of 0/1 indexed by pattern id (`-` = none)
  picks     comma separated indices, one per plugin position (`-` = none; missing = 0)
  upevents  `-` or comma separated: hex data | `E` eof | `R` reset | `T` timeout | `W` want-read
  seg       the client's request bytes, in the pieces they arrive in
  All byte strings in hex (`-` = empty).
-/
namespace Px.Reverse

def errStr : Err → String
  | .indexError => "indexError" | .valueError => "valueError" | .httpProtocol => "httpProtocol"
  | .assertion => "assertion" | .typeError => "typeError" | .plugin => "plugin" | .keyError => "keyError"

def parseRoute (s : String) : Option Route :=
  match s.splitOn "." with
  | ["s", p, urls] => do
    let p ← p.toNat?
    let us ← if urls == "e" then some [] else (urls.splitOn ",").mapM unhex
    some (.static p us)
  | ["u", p, url] => do
    let p ← p.toNat?
    let raw ← unhex url
    -- the generated plugin's handle_route is `return Url.from_bytes(url)`
    match Px.Url.fromBytes Px.Gen.defaultAllowedUrlSchemes raw with
    | .ok u => some (.dynamic p (.url u))
    | .error e => some (.dynamic p (.raises (urlErr e)))
  | ["m", p, url, sfx] => do
    let p ← p.toNat?
    let raw ← unhex url
    let sfx ← unhex sfx
    -- the generated plugin's handle_route is `u = Url.from_bytes(url); u.remainder += suffix; return u`
    -- (as the shipped proxy.plugin.ReverseProxyPlugin); `None += bytes` is a TypeError
    match Px.Url.fromBytes Px.Gen.defaultAllowedUrlSchemes raw with
    | .ok u =>
      match u.remainder with
      | some r => some (.dynamic p (.url { u with remainder := some (r ++ sfx) }))
      | none => some (.dynamic p (.raises .typeError))
    | .error e => some (.dynamic p (.raises (urlErr e)))
  | ["l", p, resp] => do
    let p ← p.toNat?
    let r ← unhex resp
    some (.dynamic p (.literal r))
  | ["x", p] => do
    let p ← p.toNat?
    some (.dynamic p (.raises .plugin))
  | _ => none

def parsePlugin (s : String) : Option Plugin :=
  if s == "e" then some [] else (s.splitOn ";").mapM parseRoute

def parseTable (s : String) : Option Table :=
  if s == "E" then some [] else (s.splitOn "|").mapM parsePlugin

def parseBits (s : String) : Nat → Bool :=
  let l := if s == "-" then [] else s.toList.map (· == '1')
  fun i => l.getD i false

def parsePicks (s : String) : Option (Nat → Nat) :=
  if s == "-" then some (fun _ => 0)
  else do
    let l ← (s.splitOn ",").mapM String.toNat?
    some (fun i => l.getD i 0)

def parseEv (s : String) : Option UpEv :=
  if s == "E" then some .eof else if s == "R" then some .reset
  else if s == "T" then some .timedOut else if s == "W" then some .wantRead
  else (unhex s).map .seg

def parseEvs (s : String) : Option (List UpEv) :=
  if s == "-" then some [] else (s.splitOn ",").mapM parseEv

def hexList (l : List Bytes) : String := "[" ++ ",".intercalate (l.map hex) ++ "]"

def connStr : Option Conn → String
  | none => "None"
  | some c => (if c.closed then "closed" else "open") ++ hexList c.buffer

def addrStr (a : Bytes × Int) : String := hex a.1 ++ ":" ++ toString a.2

def stStr (s : St) : String :=
  let cs := ",".intercalate (s.connects.map addrStr)
  s!"connects=[{cs}] wraps={hexList s.wraps} up={connStr s.upstream} client={hexList s.client.buffer}"

def b01 (x : Bool) : String := if x then "1" else "0"

def excStr : Option Err → String
  | none => "None"
  | some e => errStr e

/-- is this completed request one that `HttpProtocolHandler` hands to the web server plugin
    (`http_handler_protocol == WEB_SERVER`) -/
def isWebRequest (p : Px.Parser.Parser) : Bool :=
  (p.version == some Px.Gen.http11 || p.version == some Px.Gen.http10) &&
  p.host.isNone && (match p.url with | some u => u.hostname.isNone | none => false)

def drv (args : List String) : String :=
  match args with
  | "run" :: rw :: evq :: conn :: table :: bits :: picks :: evs :: segs =>
    match parseTable table, parsePicks picks, parseEvs evs, Px.Parser.unhexAll segs with
    | some t, some pick, some evs, some segs =>
      match Px.Parser.parseAll {} (Px.Parser.init .request) segs with
      | .error _ => "parse-exc"
      | .ok req =>
        if req.state != .complete then "incomplete"
        else if !isWebRequest req then "notweb"
        -- bytes after the first complete request are handed to the follow-up handling (C04), not C12's subject
        else if (match req.buffer with | some bf => !bf.isEmpty | none => false) then "leftover"
        else
          let cfg : Cfg := { rewriteHost := rw == "1" }
          let r := onRequestCompleteEv cfg (evq == "1") (parseBits bits) pick (conn == "ok") t req {}
          let (s2, rtd) := if r.teardown then (r.st, false) else relay evs r.st
          let s3 := onClientConnectionClose s2
          s!"ok td={b01 r.teardown} exc={excStr r.exc} {stStr r.st} rtd={b01 rtd} rclient={hexList s2.client.buffer} " ++
          s!"closes={s3.closes}"
    | _, _, _, _ => "bad-op"
  -- `rev follow <rewrite> <connect1> <table> <bits1> <picks1> <connect2> <bits2> <picks2> <seg1>… / <seg2>…`:
  -- a second request on the SAME connection, i.e. a second `handle_request` on the same `ReverseProxy` object
  -- (the follow-up loop of `HttpWebServerPlugin.on_client_data`), from the state the first request left
  | "follow" :: rw :: conn1 :: table :: bits1 :: picks1 :: conn2 :: bits2 :: picks2 :: segs =>
    let segs1 := segs.takeWhile (· != "/")
    let segs2 := (segs.dropWhile (· != "/")).drop 1
    match parseTable table, parsePicks picks1, parsePicks picks2, Px.Parser.unhexAll segs1, Px.Parser.unhexAll segs2 with
    | some t, some pick1, some pick2, some segs1, some segs2 =>
      match Px.Parser.parseAll {} (Px.Parser.init .request) segs1 with
      | .error _ => "parse-exc"
      | .ok req =>
        if req.state != .complete then "incomplete"
        else if !isWebRequest req then "notweb"
        else if (match req.buffer with | some bf => !bf.isEmpty | none => false) then "leftover"
        else
          let cfg : Cfg := { rewriteHost := rw == "1" }
          let r := onRequestCompleteEv cfg false (parseBits bits1) pick1 (conn1 == "ok") t req {}
          let first := s!"ok td={b01 r.teardown} exc={excStr r.exc} {stStr r.st}"
          if r.teardown then first ++ " || f none"
          else if !Px.Persist.isKeepAlive req then first ++ " || f notka"
          else
            match Px.Parser.parseAll {} (Px.Parser.init .request) segs2 with
            | .error _ => first ++ " || f parse-exc"
            | .ok req2 =>
              if req2.state != .complete then first ++ " || f incomplete"
              else if (match req2.buffer with | some bf => !bf.isEmpty | none => false) then first ++ " || f leftover"
              else
                let r2 := handleRequest cfg (parseBits bits2) pick2 (conn2 == "ok") t req2 r.st
                let cs := ",".intercalate (r2.st.connects.map addrStr)
                first ++ s!" || f exc={excStr r2.exc} connects=[{cs}] wraps={hexList r2.st.wraps} client={hexList r2.st.client.buffer}"
    | _, _, _, _, _ => "bad-op"
  | _ => "bad-op"

end Px.Reverse
