"""C07 — queued output is fully delivered before the proxy closes a connection.

Correspondence of PxModel/Relay.lean (tick / step / run / shutdown / flushLoop)
with the REAL HttpProtocolHandler (+ HttpProxyPlugin / web plugin / auth plugin)
in final-flush situations, and the property oracle.  Runner shared with c01.
"""
import logging

from harness.common import hx
from harness import sim
from harness import c01 as R

PROPERTY = 'C07'
LEAN_TARGETS = ['PxProofs.C07']
THEOREMS = [
    'Px.Relay.C07_no_early_close', 'Px.Relay.C07_no_early_close_run', 'Px.Relay.C07_upstream_write_failure_drains',
    'Px.Relay.C07_prompt', 'Px.Relay.C07_flushInv', 'Px.Relay.C07_reads_off', 'Px.Relay.C07_only_shrinks',
    'Px.Relay.C07_delivered', 'Px.Relay.C07_threaded', 'Px.Relay.C07_threaded_drains',
    'Px.Relay.C07_raised_only_app', 'Px.Relay.C07_not_reaped_while_pending', 'Px.Relay.C07_reaped_iff',
    'Px.Relay.C07_closed_only_when_drained',
]
RULE = ('reaper: schedules interleaved with idle-reaper events (real is_inactive() and real Threadless._cleanup_inactive() on a real '
        'LocalFdExecutor under the virtual clock; elapsed below/at/above the timeout; timeouts >0, 0, <0) vs Relay.runEv; '
        'relay: the real handler is brought into a final-flush state by a real request (400 / 404 / 407 / 502 '
        'packet, optionally more queued pieces up to ~130 KiB; or tunnel / HTTP exchange whose upstream sends '
        'data and then closes) and driven tick by tick with send scripts mixing short writes, would-block and '
        'failures vs Relay.step; shut: threaded shutdown()/_flush() with a scripted selector vs Relay.shutdown; '
        'distinct by canonical JSON; non-trivial = output was pending when the close was requested')
ASSUMPTIONS = R.ASSUMPTIONS[:3] + [
    'the selector reports only descriptors registered by get_events (Relay.step masks the tick); raw ticks are '
    'compared as well but the theorems about read interest use the masked step',
    'threaded _flush is modelled for a finite selector script; a client that never becomes writable keeps '
    '_flush looping (FlushEnd.looping), no claim is made about it',
    'outputs larger than ~130 KiB are covered by the theorems only (line protocol limit), multi-element and '
    'max_send-straddling outputs are run',
]
EXHAUSTIVE = {}
EXPLANATION = ('D15 (upstream write failure dropped queued client output) is fixed in /repo; the model follows HEAD, '
               'C07_no_early_close is stated without an upstream disjunct and the old witness schedule is a corpus '
               'case the oracle must pass')

logging.disable(logging.CRITICAL)


# --------------------------------------------------------------------------
# threaded shutdown
# --------------------------------------------------------------------------

def run_shut(case):
    args = []
    if case.get('max') is not None:
        args += ['--max-sendbuf-size', str(case['max'])]
    threaded = bool(case['threaded'])
    with sim.World(args=args, threadless=not threaded) as w:
        h, cs, cp = w.new_client()
        if threaded:
            assert h.selector is not None
            h.selector.close()
            sel = sim.ScriptedSelector([[] if e == 't' else None for e in case['sel']])
            h.selector = sel
        else:
            assert h.selector is None
        queued = b''
        for spec in case['out']:
            d = R.payload(spec)
            queued += d
            h.work.queue(memoryview(d))
        cs.script_send(*[R.send_outcome(e[1]) for e in case['sel'] if e != 't'])
        exc = None
        try:
            h.shutdown()
        except AssertionError as e:       # selector script exhausted: _flush still looping
            exc = e
        last = [e for e in cs.log if e[0] == 'send']
        end = 'None'
        if threaded and case['out']:
            end = 'drained'
            if exc is not None:
                end = 'looping'
            elif last and last[-1][2] == 'brokenPipe':
                end = 'brokenPipe'
            elif last and last[-1][2] in ('oserror', 'wantWrite'):
                end = 'osError'
        closed = cs.closed_by_proxy and end != 'looping'
        line = 'end=%s closed=%d plugin=%d sent=%s cb=%s' % (
            end, closed, bool(cs.shutdown_calls) and end != 'looping', R.digest(bytes(cs.sent)),
            R.buf_str(sim.elems(h.work)))
        cp.pump()
        return {'line': line, 'end': end, 'queued': queued, 'sent': bytes(cs.sent), 'peer': bytes(cp.inbox),
                'eof': cp.eof, 'rest': sim.flat(h.work), 'closed': cs.closed_by_proxy}


def shut_model_line(case):
    mx = case.get('max')
    if mx is None:
        from proxy.common.constants import DEFAULT_MAX_SEND_SIZE
        mx = DEFAULT_MAX_SEND_SIZE
    els = [R.payload(s) for s in case['out']]
    buf = '.' if not els else ','.join(hx(e) for e in els)
    sel = ' '.join('t' if e == 't' else 'y' + R.send_tok(e[1]) for e in case['sel'])
    return 'relay shut %d %d %s %s' % (case['threaded'], mx, buf, sel)


# --------------------------------------------------------------------------
# interface
# --------------------------------------------------------------------------

def impl(case):
    if case['kind'] == 'shut':
        return [run_shut(case)['line']]
    return [R.run_relay(case)['line']]


def model_lines(case):
    if case['kind'] == 'shut':
        return [shut_model_line(case)]
    return [R.relay_model_line(case)]


def _tick_failures(step):
    """which scripted I/O failures were actually consumed in this tick"""
    c_send = any(e[0] == 'send' and e[2] in ('brokenPipe', 'oserror', 'wantWrite') for e in step['clog'])
    c_recv = any(e[0] == 'recv' and e[1] in ('reset', 'timedout', 'oserror', 'blocking') for e in step['clog'])
    u_send = any(e[0] == 'send' and e[2] in ('brokenPipe', 'oserror') for e in step['ulog'])
    return c_send, c_recv, u_send


def oracle(case):
    """C07 on the implementation only.
    (a) handle_events returns True while client output is still buffered only if a
        client-side I/O failure was scripted in that very tick;
    (b) in a final-flush state (must_flush_before_shutdown or reads_teared) the tick
        that empties the client buffer returns True (prompt close);
    (c) end to end: when the work is torn down without any client-side failure, the
        client peer has read every byte ever queued for it, in order, then sees EOF;
    (d) threaded shutdown(): closes with output pending only after a send failure;
    (e) reaper events (real is_inactive() / Threadless._cleanup_inactive() under the virtual clock):
        a connection with pending client output is never closed by the reaper, for every clock
        reading and timeout (zero / negative included); once drained and idle past the timeout it is."""
    if case['kind'] == 'shut':
        r = run_shut(case)
        if r['end'] == 'looping':
            return None
        if not r['closed']:
            return 'shutdown-did-not-close'
        if r['sent'] + r['rest'] != r['queued'] or r['peer'] != r['sent']:
            return 'threaded-flush: bytes lost or reordered'
        if case['threaded'] and r['rest'] and r['end'] not in ('brokenPipe', 'osError'):
            return 'threaded-shutdown-closed-with-pending-output'
        if case['threaded'] and not r['rest'] and not (r['peer'] == r['queued'] and r['eof']):
            return 'threaded-shutdown: client did not get everything before EOF'
        return None

    def after(w, h, cs, cp, us, res):
        if res['ret'] in ('t', 'x'):
            h.shutdown()        # what Threadless._cleanup does next
    r = R.run_relay(case, after)
    any_client_failure = False
    queued_total = r['init_c']
    sig = None
    T = R.timeout_units(case)
    for st in r['steps']:
        if st.get('reap'):
            # (e) the idle reaper never closes a connection with pending client output, whatever the
            #     clock and the timeout; a drained connection idle past the timeout is closed
            if st['closed'] and st['pending']:
                sig = 'reaped-with-pending-client-output'
                break
            if st['pending_n'] == 0 and st['elapsed'] > T and not st['closed']:
                sig = 'drained-idle-connection-not-reaped'
                break
            if st['closed'] and not st['elapsed'] > T:
                sig = 'reaped-before-timeout'
                break
            continue
        c_send, c_recv, u_send = _tick_failures(st)
        any_client_failure = any_client_failure or c_send or c_recv
        for e in st['ulog']:
            if e[0] == 'recv' and e[1] == 'data':
                queued_total += e[2]
        pending = len(st['cflat']) > 0
        if st['ret'] == 't' and pending and not (c_send or c_recv):
            sig = 'teardown-with-pending-client-output:' + ('upstream-write-failure' if u_send else 'no-io-failure')
            break
        if st['ret'] == 'x' and pending and r['kind'] != 'http':
            sig = 'exception-with-pending-client-output'
            break
        if st['ret'] == 'c' and (st['pre']['mf'] or st['pre']['rt']) and st['cn'] == 0 and st['pre']['cbuf']:
            sig = 'final-flush-done-but-no-teardown'
            break
    if sig:
        return sig
    if r['ret'] in ('t', 'r') and not any_client_failure:
        if r['cpeer'] != queued_total:
            return 'client-peer-missed-output-before-close'
        if not r['cpeer_eof']:
            return 'client-peer-saw-no-eof-after-teardown'
    return None


def d15_schedule():
    """The schedule that lost output before the D15 fix (kept as a corpus case: the
    oracle must pass on it; a revert of the fix is reported with it as failing input).
    Tunnel: upstream sent two segments (client not yet writable), the client then
    sends data, and the upstream flush of that data fails with BrokenPipeError.
    Before the fix handle_events returned True at once and the acknowledgement and
    both segments, still queued for the client, were dropped by shutdown(); now reads
    stop and the client buffer is drained first."""
    return R.relay_case('tunnel', [
        ['m0010', 'b', 'b', ['d', {'hex': b'SERVER-HELLO-1'.hex()}], 'b'],
        ['m0010', 'b', 'b', ['d', {'hex': b'SERVER-HELLO-2'.hex()}], 'b'],
        ['m1000', ['d', {'hex': b'client-data'.hex()}], 'b', 'b', 'b'],
        ['m0001', 'b', 'b', 'b', 'p'],
        ['m0101', 'b', ['s', 10 ** 6], 'b', 'p'],
        ['m0100', 'b', ['s', 10 ** 6], 'b', 'b'],
        ['m0100', 'b', ['s', 10 ** 6], 'b', 'b'],
    ])


# -- generators ---------------------------------------------------------------

LOCAL = ['400', '404', '407', '502']


def flush_ticks(rng, n, pfail, kind_local=True):
    """ticks of a final flush: mostly client-writable with short writes / would-block"""
    out = []
    for _ in range(n):
        fl = R.gen_flags(rng, 0.1)
        if rng.random() < 0.7:
            fl = fl[0] + fl[1] + '1' + fl[3:]
        cr = rng.choice(['e', 'r', 'b', 'w', 'o', 't']) if kind_local else R.gen_recv(rng, pfail, lambda: R.small_spec(rng))
        if kind_local and fl[0] == 'r':
            fl = 'r0' + fl[2:]          # raw ticks never read a client whose request handling is out of scope
        out.append([fl, cr, R.gen_send(rng, pfail), R.gen_recv(rng, pfail, lambda: R.small_spec(rng)),
                    R.gen_send(rng, pfail)])
    return out


def gen_local(rng, big=False):
    setup = rng.choice(LOCAL)
    mx = rng.choice([None, None, 1, 7, 50, 0]) if not big else rng.choice([None, 0, 100000])
    extra = []
    if big:
        extra = [R.big_spec(rng, rng.choice([65535, 65536, 65537, 66000]))]
        if rng.random() < 0.5:
            extra.append(R.small_spec(rng))
    elif rng.random() < 0.5:
        extra = [R.small_spec(rng, 0, 30) for _ in range(rng.randint(1, 4))]
    n = rng.randint(2, 40 if mx in (1, 7) else 14)
    return R.relay_case(setup, flush_ticks(rng, n, rng.choice([0.0, 0.0, 0.05])), mx, extra)


def gen_upstream_close(rng, setup):
    """upstream data, then upstream EOF at some point, client reads at its own pace"""
    mx = rng.choice([None, 1, 3, 8, 0])
    pfail = rng.choice([0.0, 0.0, 0.04])
    if setup == 'http' and rng.random() < 0.7:
        # a structured response stream (every framing, Connection: close / keep-alive / absent), cut at
        # structural boundaries and at random positions, then the upstream close and the final flush
        data, bounds = R.structured_stream(rng)
        segs = R.struct_cut(rng, data, bounds)
        tail = R.rnd_bytes(rng, rng.randint(1, 20)) if rng.random() < 0.4 else None
        return R.relay_case('http', R.stream_schedule(rng, segs, tail, eof=True), rng.choice([None, None, 3, 8]))
    pre = R.gen_ticks(rng, rng.randint(1, 8), pfail, lambda: R.small_spec(rng), lambda: R.small_spec(rng),
                      client_data=(setup == 'tunnel'))
    eof = [[R.gen_flags(rng, 0.0)[0] + rng.choice('01') + rng.choice('01') + '1' + rng.choice('01'),
            'b', R.gen_send(rng, pfail), rng.choice(['e', 'e', 'r', 'o']), R.gen_send(rng, pfail)]]
    post = flush_ticks(rng, rng.randint(1, 30 if mx in (1, 3) else 10), pfail, kind_local=False)
    if setup == 'http':
        for t in post:
            if isinstance(t[1], list):
                t[1] = 'b'
    return R.relay_case(setup, pre + eof + post, mx)


with_reaps = R.with_reaps


def gen_reap(rng):
    k = rng.random()
    if k < 0.45:
        c = gen_local(rng)
    elif k < 0.8:
        c = gen_upstream_close(rng, rng.choice(['tunnel', 'tunnel', 'http']))
    else:
        c = R.gen_relay_case(rng, 'tunnel')          # ordinary relay states
    return with_reaps(rng, c)


def gen_shut(rng, big=False):
    mx = rng.choice([None, 1, 4, 0, 65536]) if not big else rng.choice([None, 0, 65536, 100000, 30000])
    out = [R.small_spec(rng, 0, 20) for _ in range(rng.randint(0, 4))]
    if big:
        out.insert(rng.randint(0, len(out)), R.big_spec(rng, rng.choice([65535, 65537, 70000])))
    sel = []
    pf = rng.choice([0.0, 0.0, 0.1])
    for _ in range(rng.randint(0, 12)):
        sel.append('t' if rng.random() < 0.25 else ['y', R.gen_send(rng, pf)])
    total = sum(len(R.payload(s)) for s in out)
    eff = 65536 if mx in (None, 0) else mx
    if rng.random() < 0.9:
        # make the script long enough for _flush to terminate
        sel += [['y', ['s', 10 ** 6]]] * (total // eff + len(out) + 2)
    return {'kind': 'shut', 'threaded': int(rng.random() < 0.85), 'max': mx, 'out': out, 'sel': sel}


def corpus():
    cs = [d15_schedule()]
    # seeded regression "is_inactive() ignores the pending buffer": a paused client must not be reaped
    cs.append(dict(R.relay_case('404', [['m0100', 'b', ['s', 5], 'b', 'b'], ['R', 4 * 1024], ['m0100', 'b', ['s', 10 ** 6], 'b', 'b']],
                                None, [{'n': 3000, 'a': 7, 'b': 1}]), timeout=1))
    cs.append(dict(R.relay_case('tunnel', [R.MENU[0], ['R', 10 ** 7], R.MENU[4], R.MENU[4], ['R', 10240], ['R', 10241]]), timeout=10))
    cs.append(R.relay_case('400', [['m0100', 'b', ['s', 10], 'b', 'b'], ['m0100', 'b', 'b', 'b', 'b'],
                                   ['m1100', 'b', ['s', 10 ** 6], 'b', 'b']]))
    cs.append(R.relay_case('407', [['m0100', 'b', ['s', 1], 'b', 'b']] * 3 + [['m0100', 'b', ['s', 10 ** 6], 'b', 'b']], 50))
    cs.append(R.relay_case('502', [['m0100', 'b', 'p', 'b', 'b']]))
    cs.append(R.relay_case('404', [['m0100', 'b', ['s', 10 ** 6], 'b', 'b']], None, [{'hex': 'aabb'}, {'hex': ''}, {'hex': 'cc'}]))
    # upstream data then upstream EOF, slow client
    cs.append(R.relay_case('tunnel', [R.MENU[0], R.MENU[1], R.MENU[8], R.MENU[3], R.MENU[5], R.MENU[4], R.MENU[4],
                                      R.MENU[4], R.MENU[4]], 4))
    cs.append({'kind': 'shut', 'threaded': 1, 'max': 4, 'out': [{'hex': '0102030405'}, {'hex': '06'}],
               'sel': ['t', ['y', ['s', 3]], ['y', 'b'], 't', ['y', ['s', 9]], ['y', ['s', 9]], ['y', ['s', 9]]]})
    cs.append({'kind': 'shut', 'threaded': 1, 'max': None, 'out': [{'hex': '0102'}], 'sel': [['y', 'p']]})
    cs.append({'kind': 'shut', 'threaded': 1, 'max': None, 'out': [{'hex': '0102'}], 'sel': [['y', 'o']]})
    cs.append({'kind': 'shut', 'threaded': 0, 'max': None, 'out': [{'hex': '0102'}], 'sel': []})
    return cs


def systematic(depth):
    import itertools
    menu = [
        ['m0100', 'b', ['s', 1], 'b', 'b'], ['m0100', 'b', ['s', 10 ** 6], 'b', 'b'], ['m0100', 'b', 'b', 'b', 'b'],
        ['m1100', 'e', ['s', 2], 'b', 'b'], ['m0100', 'b', 'p', 'b', 'b'], ['m1000', 'r', 'b', 'b', 'b'],
        ['m0110', 'b', ['s', 3], 'e', 'b'],
    ]
    for setup, extra, mx in (('400', [], 40), ('502', [{'hex': 'a1a2a3'}], 30), ('404', [{'hex': ''}], 64)):
        for d in range(1, depth + 1):
            for combo in itertools.product(range(len(menu)), repeat=d):
                yield R.relay_case(setup, [menu[i] for i in combo], mx, extra)


def reap_systematic():
    """pending / drained x clock below, at, above the timeout x timeout sign, on every setup"""
    for setup in LOCAL + ['tunnel', 'http']:
        for T in (-2, 0, 1, 10):
            tu = T * R.UNIT
            for e in sorted({0, max(0, tu - 1), max(0, tu), tu + 1 if tu + 1 > 0 else 1, 10 ** 8}):
                drain = ['m0100', 'b', ['s', 10 ** 6], 'b', 'b']
                part = ['m0100', 'b', ['s', 1], 'b', 'b']
                up = ['m0010', 'b', 'b', ['d', {'hex': 'a1b2c3'}], 'b']
                yield dict(R.relay_case(setup, [['R', e], part, ['R', e], drain, ['R', e]], 64), timeout=T)
                if setup in ('tunnel', 'http'):
                    yield dict(R.relay_case(setup, [up, ['R', e], drain, drain, ['R', e], up, ['R', e]], 64), timeout=T)


def generate(rng, tier):
    big = tier == 'thorough'
    for c in systematic(3 if not big else 4):
        yield c
    for _ in range(2500 if not big else 25000):
        yield gen_local(rng)
    for _ in range(2500 if not big else 25000):
        yield gen_upstream_close(rng, rng.choice(['tunnel', 'tunnel', 'http']))
    for _ in range(8 if not big else 60):
        yield gen_local(rng, big=True)
    for _ in range(2000 if not big else 20000):
        yield gen_reap(rng)
    for c in reap_systematic():
        yield c
    for _ in range(1500 if not big else 12000):
        yield gen_shut(rng)
    for _ in range(6 if not big else 40):
        yield gen_shut(rng, big=True)


def neighbours(case):
    if case['kind'] != 'relay':
        return
    t = case['ticks']
    for i in range(len(t)):
        yield dict(case, ticks=t[:i] + t[i + 1:])
    for setup in LOCAL:
        if case['setup'] in LOCAL:
            yield dict(case, setup=setup)


def search(rng):
    out = list(systematic(3))
    out += [gen_local(rng) for _ in range(1500)]
    out += [gen_upstream_close(rng, rng.choice(['tunnel', 'http'])) for _ in range(1500)]
    out += [gen_shut(rng) for _ in range(800)]
    out += [gen_reap(rng) for _ in range(1500)] + list(reap_systematic())
    return out


def describe(case):
    if case['kind'] == 'shut':
        return ['shut threaded=%d' % case['threaded'], 'shut pieces=%d' % min(len(case['out']), 4)]
    n = len(case['ticks'])
    reaps = sum(1 for t in case['ticks'] if t[0] == 'R')
    if reaps:
        T = case.get('timeout')
        return ['relay+reaper ' + case['setup'], 'reaper timeout ' + ('<0' if T < 0 else '0' if T == 0 else '>0'),
                'reaper events ' + ('1' if reaps == 1 else '<=4' if reaps <= 4 else '>4')]
    total = sum(len(R.payload(s)) for s in case.get('extra', []))
    return ['relay ' + case['setup'], 'relay ticks ' + ('<=3' if n <= 3 else '<=10' if n <= 10 else '>10'),
            'relay max=%s' % case.get('max'), 'relay extra ' + ('0' if not total else '<64K' if total < 65536 else '>=64K')]


def nontrivial(case):
    if case['kind'] == 'shut':
        return bool(case['out']) and bool(case['threaded'])
    return True
