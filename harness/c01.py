"""C01 — relayed byte streams arrive exactly once, in order, unmodified.

Correspondence of PxModel/Conn.lean + PxModel/Relay.lean with the REAL
TcpClientConnection / TcpServerConnection (layer test) and the REAL
HttpProtocolHandler + HttpProxyPlugin driven tick by tick over scripted
sockets (harness/sim.py), and the property oracle.

The relay runner (`run_relay`, `relay_model_line`, tick generators) is shared
with harness/c07.py.
"""
import zlib
import logging
import functools

from harness.common import hx
from harness import sim

# import the implementation once in the parent process (the engine forks its workers):
# a worker that has to import the whole package under load can exceed the per-case guard
import proxy.http.handler            # noqa: E402,F401
import proxy.http.proxy.server       # noqa: E402,F401
import proxy.http.server.web         # noqa: E402,F401
import proxy.http.proxy.auth         # noqa: E402,F401
import proxy.core.connection         # noqa: E402,F401
import proxy.common.flag             # noqa: E402,F401

PROPERTY = 'C01'
LEAN_TARGETS = ['PxProofs.C01']
THEOREMS = [
    'Px.Conn.C01_flush_fifo', 'Px.Relay.C01_tunnel_down', 'Px.Relay.C01_tunnel_up',
    'Px.Relay.C01_http_down', 'Px.Relay.C01_only_injection', 'Px.Relay.C01_pending_is_suffix',
    'Px.Conn.C01_progress', 'Px.Relay.C01_progress_tick', 'Px.Relay.C01_no_empty_elements',
    'Px.Relay.C01_tunnel_early', 'Px.Relay.C01_not_reaped_while_pending',
]
RULE = ('flush: op sequences (queue sizes 0..140 KiB straddling max_send, every send outcome) on the real '
        'TcpClientConnection/TcpServerConnection vs Conn.flush; relay: tick schedules (readiness subsets, every '
        'recv/send outcome, masked by get_events or raw) on the real HttpProtocolHandler+HttpProxyPlugin after a '
        'real CONNECT / GET establishment vs Relay.step/tick; distinct by canonical JSON; non-trivial = at least '
        'one byte relayed')
ASSUMPTIONS = [
    'default configuration: no HttpProxyBasePlugin chain, no connection pool, no TLS interception',
    'send() reports at most the number of bytes it was offered (kernel contract, built into Conn.flush)',
    'response inspection (HttpProxyPlugin.response parser, inside try/except since the D14 fix) is not modelled: '
    'it cannot change what is queued',
    'follow-up client data on a plain-HTTP exchange goes through the request pipeline parser, whose effect is the '
    'abstract input Tick.app (computed in the harness by a shadow run of the real HttpParser); C01 claims nothing '
    'about that direction',
    'the invariant is claimed up to and including the tick that returns teardown; bytes still buffered at that '
    'moment are the subject of C07',
]
EXHAUSTIVE = {}
EXPLANATION = ('theorems quantify over all tick lists (all segmentations, readiness subsets, send/recv outcomes); '
               'the runs tie the model to the code on sampled and small systematic schedules')

logging.disable(logging.CRITICAL)

CONNECT_REQ = b'CONNECT example.org:443 HTTP/1.1\r\nHost: example.org:443\r\n\r\n'
HTTP_REQ = b'GET http://example.org/a HTTP/1.1\r\nHost: example.org\r\n\r\n'

SEND_CODES = {'b': ('blocking',), 'p': ('brokenPipe',), 'o': ('oserror',), 'w': ('wantWrite',)}
RECV_CODES = {'e': ('eof',), 'r': ('reset',), 't': ('timedout',), 'o': ('oserror',), 'b': ('blocking',),
              'w': ('wantRead',)}
UNIT = 1024      # clock units per second for reaper events (float arithmetic stays exact)
CLIENT_SEND_FAIL = ('p', 'o', 'w')
UP_SEND_FAIL = ('p', 'o')


def payload(spec):
    if 'hex' in spec:
        return bytes.fromhex(spec['hex'])
    n, a, b = spec['n'], spec['a'], spec['b']
    return bytes((a * i + b) & 0xff for i in range(n))


def digest(x):
    return '%d:%d' % (len(x), zlib.crc32(bytes(x)) & 0xffffffff)


def buf_str(elements):
    return ('.' if not elements else ','.join(str(len(e)) for e in elements)) + ';' + digest(b''.join(elements))


def send_outcome(o):
    return ('sent', o[1]) if isinstance(o, list) else SEND_CODES[o]


def recv_outcome(o):
    return ('data', payload(o[1])) if isinstance(o, list) else RECV_CODES[o]


def send_tok(o):
    return 's%d' % o[1] if isinstance(o, list) else o


def recv_tok(o):
    return 'd' + hx(payload(o[1])) if isinstance(o, list) else o


# --------------------------------------------------------------------------
# layer test: real TcpConnection.queue / flush
# --------------------------------------------------------------------------

def _layer_conn(side):
    import socket
    from proxy.core.connection import TcpClientConnection, TcpServerConnection
    a, b = socket.socketpair()
    peer = sim.Peer(b)
    s = sim.ScriptedSocket(a, side, peer, strict=True)
    if side == 'client':
        conn = TcpClientConnection(s, ('127.0.0.1', 1))
    else:
        conn = TcpServerConnection('h', 1)
        conn._conn = s
        conn.closed = False
    return conn, s, peer


def run_flush(case):
    import ssl
    conn, s, peer = _layer_conn(case['side'])
    out = []
    queued = b''
    try:
        for op in case['ops']:
            if op[0] == 'q':
                d = payload(op[1])
                queued += d
                conn.queue(memoryview(d))
                out.append('q ' + buf_str(sim.elems(conn)))
            else:
                s.clear_scripts()
                s.script_send(send_outcome(op[1]))
                n0 = len(s.log)
                exc = 'None'
                acc = 0
                try:
                    acc = conn.flush(case['max'] or None) if case.get('none_max') else conn.flush(case['max'])
                except ssl.SSLWantWriteError:
                    exc = 'sslWantWrite'
                except BrokenPipeError:
                    exc = 'brokenPipe'
                except OSError:
                    exc = 'osError'
                off = 'None'
                if len(s.log) > n0:
                    off = digest(s.log[n0][1])
                out.append('f off=%s acc=%d exc=%s hb=%d %s' % (
                    off, acc, exc, conn.has_buffer(), buf_str(sim.elems(conn))))
        peer.pump()
        return {'line': ' | '.join(out), 'queued': queued, 'sent': bytes(s.sent), 'rest': sim.flat(conn),
                'peer': bytes(peer.inbox)}
    finally:
        peer.close()
        try:
            s._real.close()
        except OSError:
            pass


def flush_model_line(case):
    toks = []
    for op in case['ops']:
        toks.append('q' + hx(payload(op[1])) if op[0] == 'q' else 'f' + send_tok(op[1]))
    return 'relay flush %d . %s' % (case['max'], ' '.join(toks))


# --------------------------------------------------------------------------
# relay: real handler + proxy plugin, tick by tick
# --------------------------------------------------------------------------

SETUPS = {
    # name: (args, opts, request bytes, model kind)
    'tunnel': ([], {}, CONNECT_REQ, 'tunnel'),
    'http': ([], {}, HTTP_REQ, 'http'),
    '400': ([], {}, b'GET\r\n\r\n', 'local'),
    '404': (['--enable-web-server'], {}, b'GET /nothing-here HTTP/1.1\r\nHost: x\r\n\r\n', 'local'),
    '407': (['--basic-auth', 'user:pass'], {}, HTTP_REQ, 'local'),
    '502': ([], {}, HTTP_REQ, 'local'),
}


class Shadow:
    """Shadow of HttpProxyPlugin.on_client_data's request pipeline (plain-HTTP exchange,
    default flags) on the real HttpParser: yields the abstract `Tick.app` input."""

    def __init__(self, flags):
        self.flags = flags
        self.pipe = None

    def feed(self, raw):
        from proxy.http.parser import HttpParser, httpParserTypes
        from proxy.http.exception import HttpProtocolException
        from proxy.http.headers import httpHeaders
        if self.pipe is not None and self.pipe.is_connection_upgrade:
            return 'a/%s/None/0' % hx(raw)
        if self.pipe is None:
            self.pipe = HttpParser(httpParserTypes.REQUEST_PARSER)
        try:
            self.pipe.parse(memoryview(raw))
            up = None
            if self.pipe.is_complete:
                self.pipe.del_headers([httpHeaders.PROXY_AUTHORIZATION, httpHeaders.PROXY_CONNECTION])
                up = self.pipe.build(disable_headers=self.flags.disable_headers)
                if not self.pipe.is_connection_upgrade:
                    self.pipe = None
            return 'a/%s/None/0' % (hx(up) if up is not None else 'None')
        except HttpProtocolException:
            return 'a/None/None/1'
        except Exception:      # noqa: BLE001
            return 'r'


def timeout_units(case):
    t = case.get('timeout')
    if t is None:
        from proxy.common.constants import DEFAULT_TIMEOUT
        t = DEFAULT_TIMEOUT
    return t * UNIT


def _args(case):
    args, opts, req, kind = SETUPS[case['setup']]
    args = list(args)
    if case.get('early') is not None:
        # bytes sharing the TCP segment with the establishing request (early tunnel payload /
        # bytes following the first HTTP request)
        req = req + payload(case['early'])
    if case.get('max') is not None:
        args += ['--max-sendbuf-size', str(case['max'])]
    if case.get('timeout') is not None:
        args += ['--timeout=%d' % case['timeout']]
    return args, dict(opts), req, kind


def establish(w, case):
    """Feed the establishing request to a fresh real handler; returns (h, cs, cp, us)."""
    args, opts, req, kind = _args(case)
    if case['setup'] == '502':
        w.connect_plan.append(ConnectionRefusedError(111, 'scripted refusal'))
    h, cs, cp = w.new_client()
    cs.script_recv(('data', req))
    r = w.tick(h, [cs.fileno()], [])
    if r is not False:
        raise AssertionError('establishment returned %r' % (r,))
    us = w.upstreams[0][0] if w.upstreams else None
    for spec in case.get('extra', []):
        h.work.queue(memoryview(payload(spec)))
    return h, cs, cp, us


def _up_elems(h):
    p = h.plugin
    up = getattr(p, 'upstream', None) if p is not None else None
    return sim.elems(up) if up is not None else []


def st_str(w, h, cs, us, trc, tru):
    return 'mf=%d rt=%d wt=%d cs=%s us=%s cb=%s ub=%s ev=%s' % (
        h.must_flush_before_shutdown, h.reads_teared, h.writes_teared, trc, tru,
        buf_str(sim.elems(h.work)), buf_str(_up_elems(h)),
        ''.join('1' if x else '0' for x in w.interest(h, cs, us)))


def _trace(sock, n0):
    for e in sock.log[n0:]:
        if e[0] == 'send':
            return '%s:%d' % (digest(e[1]), e[2] if isinstance(e[2], int) else 0)
    return 'None'


@functools.lru_cache(maxsize=64)
def _http_req_queued(setup, mx, early_hex=None):
    """what the REAL establishment queues for the upstream (boundary to C02: its content is a given here)"""
    case = {'setup': setup, 'max': mx}
    if early_hex is not None:
        case['early'] = {'hex': early_hex}
    args, opts, req, kind = _args(case)
    with sim.World(args=args, **opts) as w:
        h, cs, cp, us = establish(w, case)
        return tuple(_up_elems(h))


def _init_state(setup, mx, extra_key, early=None):
    """The established state the model starts from, fixed by the harness (NOT read from the
    implementation, so that a wrong establishment shows up in the `init` observation):
    kind, client buffer (the canned packet of proxy.http.responses + extra pieces), upstream
    buffer, must_flush_before_shutdown, reads_teared."""
    from proxy.http import responses as RS
    kind = SETUPS[setup][3]
    pkt = {
        'tunnel': RS.PROXY_TUNNEL_ESTABLISHED_RESPONSE_PKT, '400': RS.BAD_REQUEST_RESPONSE_PKT,
        '404': RS.NOT_FOUND_RESPONSE_PKT, '407': RS.PROXY_AUTH_FAILED_RESPONSE_PKT,
        '502': RS.BAD_GATEWAY_RESPONSE_PKT,
    }
    cb = [bytes(pkt[setup])] if setup in pkt else []
    cb += [payload(sp) for sp in _unkey(extra_key)]
    ub = _http_req_queued(setup, mx, early.hex() if early is not None else None) if setup == 'http' else ()
    if setup == 'tunnel' and early:
        ub = (early,)        # early tunnel payload is queued for the upstream exactly as received
    return (kind, tuple(cb), tuple(ub), kind == 'local', False)


def _key(extra):
    return tuple(tuple(sorted(s.items())) for s in extra)


def _unkey(k):
    return [dict(t) for t in k]


def run_relay(case, after=None):
    """Drive the real handler through case['ticks']; returns a dict with the canonical
    line and the raw material for the oracles."""
    args, opts, req, kind = _args(case)
    with sim.World(args=args, **opts) as w:
        h, cs, cp, us = establish(w, case)
        shadow = Shadow(w.flags)
        init_c = sim.flat(h.work)
        init_u = b''.join(_up_elems(h))
        obs = ['init ' + st_str(w, h, cs, us, 'None', 'None')]
        apps = []
        steps = []          # per tick: dict for the oracles
        ret = 'c'
        ex = None
        for t in case['ticks']:
            if t[0] == 'R':
                # the idle reaper looks at the connection when time.time() - last_activity
                # is exactly t[1] clock units (1/1024 s): real is_inactive(), then the real
                # Threadless._cleanup_inactive() of a real LocalFdExecutor holding the handler
                w.clock.now = h.last_activity + t[1] / float(UNIT)
                ia = bool(h.is_inactive())
                wid = cs.fileno()
                if ex is None:
                    ex = w.executor({wid: h})
                pending = sim.flat(h.work)
                pending_n = len(h.work.buffer)
                w.reap(ex)
                closed = wid not in ex.works
                obs.append('reap ia=%d closed=%d' % (ia, closed))
                apps.append(None)
                steps.append({'reap': True, 'ia': ia, 'closed': closed, 'pending': pending, 'pending_n': pending_n,
                              'elapsed': t[1], 'clog': [], 'ulog': [], 'ret': 'r' if closed else 'c',
                              'cflat': pending, 'uflat': b''.join(_up_elems(h)), 'cn': pending_n,
                              'pre': {'mf': False, 'rt': False, 'cbuf': 0}, 'exc': None})
                if closed:
                    ret = 'r'
                    break
                continue
            fl, cr, cso, ur, uso = t
            masked = fl[0] == 'm'
            bits = [c == '1' for c in fl[1:5]]
            if masked:
                bits = [a and b for a, b in zip(bits, w.interest(h, cs, us))]
            R, W = [], []
            if bits[0]:
                R.append(cs.fileno())
            if bits[1]:
                W.append(cs.fileno())
            if us is not None:
                if bits[2]:
                    R.append(us.fileno())
                if bits[3]:
                    W.append(us.fileno())
            cs.clear_scripts()
            cs.script_recv(recv_outcome(cr))
            cs.script_send(send_outcome(cso))
            nc = len(cs.log)
            nu = 0
            if us is not None:
                us.clear_scripts()
                us.script_recv(recv_outcome(ur))
                us.script_send(send_outcome(uso))
                nu = len(us.log)
            # abstract application effect of a client segment on a plain-HTTP exchange
            app = 'a/None/None/0'
            pre = {'mf': bool(h.must_flush_before_shutdown), 'rt': bool(h.reads_teared),
                   'cbuf': len(h.work.buffer), 'ev': w.interest(h, cs, us), 'bits': bits, 'fl': fl}
            r = w.tick(h, R, W)
            clog = cs.log[nc:]
            ulog = us.log[nu:] if us is not None else []
            if kind == 'http' and any(e[0] == 'recv' and e[1] == 'data' for e in clog):
                app = shadow.feed([e for e in clog if e[0] == 'recv'][0][2])
            apps.append(app)
            ret = 'c' if r is False else 't' if r is True else 'x'
            obs.append('ret=%s %s' % (ret, st_str(w, h, cs, us, _trace(cs, nc), _trace(us, nu) if us is not None else 'None')))
            steps.append({
                'ret': ret, 'pre': pre, 'clog': clog, 'ulog': ulog,
                'cflat': sim.flat(h.work), 'uflat': b''.join(_up_elems(h)), 'cn': len(h.work.buffer),
                'exc': repr(r[1]) if isinstance(r, tuple) else None,
            })
            if ret != 'c':
                break
        res = {
            'line': ' | '.join(obs), 'apps': apps, 'steps': steps, 'ret': ret, 'kind': kind,
            'init_c': init_c, 'init_u': init_u, 'csent': None, 'usent': None,
        }
        if after is not None:
            after(w, h, cs, cp, us, res)
        cp.pump()
        res['csent'] = bytes(cs.sent)
        res['usent'] = bytes(us.sent) if us is not None else b''
        res['cpeer'] = bytes(cp.inbox)
        res['cpeer_eof'] = cp.eof
        if us is not None:
            w.upstreams[0][1].pump()
            res['upeer'] = bytes(w.upstreams[0][1].inbox)
        return res


def relay_model_line(case, apps=None):
    kind, cb, ub, mf, rt = _init_state(case['setup'], case.get('max'), _key(case.get('extra', [])),
                                       payload(case['early']) if case.get('early') is not None else None)
    mx = case.get('max')
    if mx is None:
        from proxy.common.constants import DEFAULT_MAX_SEND_SIZE
        mx = DEFAULT_MAX_SEND_SIZE
    toks = []
    if apps is None and kind == 'http' and any(t[0] != 'R' and isinstance(t[1], list) for t in case['ticks']):
        apps = run_relay(case)['apps']
    for i, t in enumerate(case['ticks']):
        if t[0] == 'R':
            toks.append('R%d,%d' % (t[1], timeout_units(case)))
            continue
        fl, cr, cso, ur, uso = t
        app = apps[i] if apps is not None and i < len(apps) and apps[i] is not None else 'a/None/None/0'
        toks.append(':'.join([fl, recv_tok(cr), send_tok(cso), recv_tok(ur), send_tok(uso), app]))

    def b(elements):
        return '.' if not elements else ','.join(hx(e) for e in elements)
    return 'relay run %s %d %d %d %s %s %s' % (kind, mx, mf, rt, b(cb), b(ub), ' '.join(toks))


# --------------------------------------------------------------------------
# harness interface
# --------------------------------------------------------------------------

def impl(case):
    if case['kind'] == 'flush':
        return [run_flush(case)['line']]
    return [run_relay(case)['line']]


def model_lines(case):
    if case['kind'] == 'flush':
        return [flush_model_line(case)]
    return [relay_model_line(case)]


def _ack():
    from proxy.http.responses import PROXY_TUNNEL_ESTABLISHED_RESPONSE_PKT
    return bytes(PROXY_TUNNEL_ESTABLISHED_RESPONSE_PKT)


def oracle(case):
    """C01 on the implementation only: at every tick, the bytes accepted by client-side
    sends followed by what is still buffered are exactly ack + everything received
    from the upstream so far (exactly once, in order, unmodified); same upward for
    tunnels; what the far ends really read is what the sends accepted."""
    if case['kind'] == 'flush':
        r = run_flush(case)
        if r['sent'] + r['rest'] != r['queued']:
            return 'flush-layer: sent+buffered differs from queued'
        if r['peer'] != r['sent']:
            return 'flush-layer: peer read something else than send accepted'
        return None
    if case['setup'] not in ('tunnel', 'http'):
        return None
    checks = []

    def after(w, h, cs, cp, us, res):
        pass
    # re-run while checking per tick (run_relay records per-tick flats; sends/recvs are in the logs)
    r = run_relay(case, after)
    inj = _ack() if case['setup'] == 'tunnel' else b''
    if r['init_c'] != inj:
        return 'established state holds unexpected client output'
    recv_u = b''
    recv_c = payload(case['early']) if case['setup'] == 'tunnel' and case.get('early') is not None else b''
    if case['setup'] == 'tunnel' and r['init_u'] != recv_c:
        return 'early tunnel payload not queued for the upstream exactly as received'
    sent_c = b''
    sent_u = b''
    terminal = False     # something happened after which the proxy may stop relaying
    for i, st in enumerate(r['steps']):
        if st.get('reap'):
            # nothing pending is dropped by an idle check: the reaper (real is_inactive() / real
            # Threadless._cleanup_inactive(), any clock reading, any timeout, before or after the
            # upstream's close) closes the connection only when everything received has been delivered
            if st['closed'] and st['pending']:
                return 'reaper closed the connection with relayed bytes still pending'
            if st['closed'] and sent_c != inj + recv_u:
                return 'reaper closed the connection before everything received was delivered'
            if sent_c + st['cflat'] != inj + recv_u:
                return 'downstream: delivered+pending differs from received (at a reaper event)'
            continue
        # the relay keeps going: while neither peer has closed / failed (and the client sent nothing
        # that ends a plain-HTTP exchange), upstream read interest stays registered, a readable
        # upstream is read in that very tick, and handle_events does not ask for teardown
        c_send_fail = any(e[0] == 'send' and e[2] in ('brokenPipe', 'oserror', 'wantWrite') for e in st['clog'])
        u_send_fail = any(e[0] == 'send' and e[2] in ('brokenPipe', 'oserror') for e in st['ulog'])
        c_recv_end = any(e[0] == 'recv' and e[1] in ('eof', 'reset', 'timedout', 'oserror', 'blocking') for e in st['clog'])
        c_data_http = case['setup'] == 'http' and any(e[0] == 'recv' and e[1] == 'data' for e in st['clog'])
        u_recv_end = any(e[0] == 'recv' and e[1] in ('eof', 'reset', 'timedout', 'oserror', 'blocking') for e in st['ulog'])
        before_read = terminal or c_send_fail or u_send_fail or c_recv_end or c_data_http
        if not terminal and not st['pre']['ev'][2]:
            return 'upstream read interest dropped while the exchange is open'
        if not before_read and st['pre']['bits'][2] and not any(e[0] == 'recv' for e in st['ulog']):
            return 'readable upstream not read while the exchange is open'
        terminal = before_read or u_recv_end
        if not terminal and st['ret'] != 'c':
            return 'teardown while both peers are open'
        for e in st['clog']:
            if e[0] == 'recv' and e[1] == 'data':
                recv_c += e[2]
            if e[0] == 'send' and isinstance(e[2], int):
                sent_c += e[1][:e[2]]
        for e in st['ulog']:
            if e[0] == 'recv' and e[1] == 'data':
                recv_u += e[2]
            if e[0] == 'send' and isinstance(e[2], int):
                sent_u += e[1][:e[2]]
        if sent_c + st['cflat'] != inj + recv_u:
            return 'downstream: delivered+pending differs from %sreceived' % ('ack+' if inj else '')
        if case['setup'] == 'tunnel' and st['ret'] != 'x':
            if not (sent_u + st['uflat'] == recv_c):
                return 'upstream: delivered+pending differs from received'
    if r['cpeer'] != sent_c or r['csent'] != sent_c:
        return 'client peer read something else than the sends accepted'
    if case['setup'] == 'tunnel' and r.get('upeer') != sent_u:
        return 'upstream peer read something else than the sends accepted'
    del checks
    return None


# -- generators ---------------------------------------------------------------

def rnd_bytes(rng, n):
    return bytes(rng.randrange(256) for _ in range(n))


def small_spec(rng, lo=1, hi=24):
    return {'hex': rnd_bytes(rng, rng.randint(lo, hi)).hex()}


def big_spec(rng, n):
    return {'n': n, 'a': rng.randrange(1, 256, 2), 'b': rng.randrange(256)}


def gen_send(rng, pfail, ks=(1, 1, 2, 3, 5, 7, 16, 100, 65535, 65536, 65537, 10 ** 6, 10 ** 6, 10 ** 6)):
    x = rng.random()
    if x < pfail:
        return rng.choice(['p', 'o', 'w'])
    if x < pfail + 0.15:
        return 'b'
    if x < pfail + 0.17:
        return ['s', 0]
    return ['s', rng.choice(ks)]


def gen_recv(rng, pfail, data):
    x = rng.random()
    if x < pfail:
        return rng.choice(['r', 't', 'o', 'b', 'e', 'e'])
    if x < pfail + 0.05:
        return 'w'
    return ['d', data()]


def gen_flags(rng, raw_p=0.15):
    m = 'r' if rng.random() < raw_p else 'm'
    p = rng.choice([0.3, 0.6, 0.9])
    return m + ''.join('1' if rng.random() < p else '0' for _ in range(4))


def gen_ticks(rng, n, pfail, cdata, udata, raw_p=0.15, client_data=True):
    out = []
    for _ in range(n):
        fl = gen_flags(rng, raw_p)
        cr = gen_recv(rng, pfail, cdata) if client_data else rng.choice(['e', 'r', 'b', 'w', 'o', 't'])
        out.append([fl, cr, gen_send(rng, pfail), gen_recv(rng, pfail, udata), gen_send(rng, pfail)])
    return out


CONN_HEADERS = [None, b'Connection: close', b'connection: Close', b'CONNECTION: CLOSE', b'Connection: keep-alive',
                b'connection: Keep-Alive']
FRAMINGS = ['cl', 'cl0', 'chunked', 'close', 'nobody']


def one_response(rng, framing=None, conn=0, body=None):
    """One well-formed HTTP/1.x response as (bytes, structural boundaries): offsets after the status
    line, after every header line, after the blank line, after every chunk-size line / chunk data /
    the last chunk / every trailer line, and the end of the message."""
    framing = framing or rng.choice(FRAMINGS)
    if conn == 0:
        conn = rng.choice(CONN_HEADERS)
    out = bytearray()
    bounds = []

    def put(x, mark=True):
        out.extend(x)
        if mark:
            bounds.append(len(out))
    ver = b'HTTP/1.0' if framing == 'close' and rng.random() < 0.5 else b'HTTP/1.1'
    if framing == 'nobody':
        put(ver + rng.choice([b' 204 No Content', b' 304 Not Modified', b' 204']) + b'\r\n')
    else:
        put(ver + rng.choice([b' 200 OK', b' 200 OK', b' 404 Not Found', b' 200']) + b'\r\n')
    hdrs = [b'Server: x', b'Content-Type: application/octet-stream'][:rng.randint(0, 2)]
    if conn is not None:
        hdrs.insert(rng.randint(0, len(hdrs)), conn)
    if body is None:
        body = rnd_bytes(rng, rng.choice([0, 1, 5, 40, 300]))
    if framing == 'cl':
        hdrs.append(b'Content-Length: %d' % len(body))
    elif framing == 'cl0':
        hdrs.append(b'content-length: 0')
        body = b''
    elif framing == 'chunked':
        hdrs.append(rng.choice([b'Transfer-Encoding: chunked', b'transfer-encoding: Chunked']))
    for h_ in hdrs:
        put(h_ + b'\r\n')
    put(b'\r\n')
    if framing == 'cl':
        if body:
            put(body)
    elif framing == 'chunked':
        rest = body
        while rest:
            n = rng.randint(1, max(1, min(40, len(rest))))
            put(b'%x' % n + rng.choice([b'', b'', b';ext=1', b';a;b="q"']) + b'\r\n')
            put(rest[:n], mark=True)
            put(b'\r\n')
            rest = rest[n:]
        put(b'0' + rng.choice([b'', b';last']) + b'\r\n')
        if rng.random() < 0.4:
            put(b'X-Trailer: v\r\n')
            put(b'Y: z\r\n')
        put(b'\r\n')
    elif framing == 'close':
        # close-delimited: the body runs until the upstream closes
        if body:
            k = rng.randint(0, len(body))
            if 0 < k < len(body):
                put(body[:k])
                put(body[k:])
            else:
                put(body)
    return bytes(out), bounds


def structured_stream(rng, framing=None, conn=0):
    """A stream of well-formed responses (optional 1xx interim responses, optional pipelining;
    a close-delimited response can only be the last one) with all structural boundaries."""
    data = bytearray()
    bounds = []

    def add(x, bs):
        base = len(data)
        data.extend(x)
        bounds.extend(base + b_ for b_ in bs)
    n = rng.choice([1, 1, 1, 2, 3])
    for i in range(n):
        if rng.random() < 0.2:
            x = rng.choice([b'HTTP/1.1 100 Continue\r\n\r\n', b'HTTP/1.1 103 Early Hints\r\nLink: </s>\r\n\r\n'])
            first = x.index(b'\r\n') + 2
            add(x, sorted({first, len(x) - 2, len(x)}))
        last = i == n - 1
        f = framing if (framing and last) else rng.choice(FRAMINGS if last else [f_ for f_ in FRAMINGS if f_ != 'close'])
        x, bs = one_response(rng, f, conn if last else 0)
        add(x, bs)
    bs = sorted({b_ for b_ in bounds if 0 < b_ < len(data)})
    return bytes(data), bs


def response_stream(rng):
    return structured_stream(rng)[0]


def cut_at(data, cuts):
    out, last = [], 0
    for c in sorted(set(cuts)) + [len(data)]:
        if c > last:
            out.append(data[last:c])
            last = c
    return out


def struct_cut(rng, data, bounds):
    """segments of `data`: at every structural boundary / at one boundary / boundaries plus random
    positions / random positions / every byte of the head"""
    if len(data) < 2:
        return [data] if data else []
    mode = rng.choice(['all', 'all', 'one', 'one', 'mixed', 'random', 'bytes'])
    rnd = lambda k: rng.sample(range(1, len(data)), min(k, len(data) - 1))     # noqa: E731
    if mode == 'all' or not bounds:
        cuts = list(bounds) if bounds else rnd(2)
    elif mode == 'one':
        cuts = [rng.choice(bounds)]
    elif mode == 'mixed':
        cuts = rng.sample(bounds, rng.randint(1, len(bounds))) + rnd(rng.randint(0, 3))
    elif mode == 'random':
        cuts = rnd(rng.choice([1, 2, 4, 8]))
    else:
        cuts = list(range(1, min(len(data), 48))) + [b_ for b_ in bounds]
    return cut_at(data, cuts)


def stream_schedule(rng, segs, tail=None, eof=True, slow=None):
    """deliver the upstream segments one per tick with client flushes in between (pace `slow`),
    then optional extra upstream bytes, the upstream close, and the final flush"""
    slow = rng.choice([0.0, 0.3, 0.7]) if slow is None else slow
    ticks = []
    big = ['s', 10 ** 6]
    for sg in segs + ([tail] if tail else []):
        ticks.append(['m' + rng.choice('01') + '1' + '1' + rng.choice('01'), 'w',
                      rng.choice([big, big, ['s', 3], 'b']), ['d', {'hex': sg.hex()}], rng.choice([big, 'b'])])
        while rng.random() < slow:
            ticks.append(['m0100', 'b', rng.choice([big, ['s', 1], ['s', 7], 'b']), 'b', 'b'])
    if eof:
        ticks.append(['m0110', 'b', big, 'e', 'b'])
        for _ in range(3):
            ticks.append(['m0100', 'b', big, 'b', 'b'])
    return ticks


def structural_systematic(rng, per_shape=1):
    """every framing x Connection header variant, cut at EACH single structural boundary and at
    all of them, followed by more upstream bytes where the framing allows (close-delimited)"""
    for framing in FRAMINGS:
        for conn in CONN_HEADERS:
            for _ in range(per_shape):
                data, bounds = structured_stream(random_fork(rng), framing, conn)
                tail = rnd_bytes(rng, rng.randint(1, 30)) if framing == 'close' else None
                for cuts in [[b_] for b_ in bounds] + [bounds]:
                    yield relay_case('http', stream_schedule(rng, cut_at(data, cuts), tail, slow=0.0),
                                     rng.choice([None, None, 5]))


def random_fork(rng):
    import random as _r
    return _r.Random(rng.getrandbits(64))


def cut(rng, data, pieces=None):
    if not data:
        return []
    if pieces is None:
        pieces = rng.choice([1, 2, 3, 5, 9, len(data)])
    pieces = max(1, min(pieces, len(data)))
    cuts = sorted(rng.sample(range(1, len(data)), pieces - 1)) if pieces > 1 else []
    out, last = [], 0
    for c in cuts + [len(data)]:
        out.append(data[last:c])
        last = c
    return out


def relay_case(setup, ticks, mx=None, extra=None, kind='relay', early=None):
    c = {'kind': kind, 'setup': setup, 'max': mx, 'ticks': ticks}
    if extra:
        c['extra'] = extra
    if early is not None:
        c['early'] = early
    return c


TLS_HELLO = bytes.fromhex('16030100c2010000be0303') + bytes(range(32)) + b'\x00\x00\x02\x13\x01\x01\x00'
EARLY_TUNNEL = [b'', b'\r\n', b'\r\nX', b'\r\n\r\n', b'\n', b'\r', b'\n\r\nab', b'\r\r\n', b'\x00', b'\x00\xff\r\n', TLS_HELLO,
                b'\r\n' + TLS_HELLO, b'GET / HTTP/1.1\r\n\r\n', b' ', b'\r\n ' * 3]
# (a first request followed by a stray CRLF in the same segment makes the real handler tear the
#  connection down at once - not an established exchange, reported to the C04/C06 owners)
EARLY_HTTP = [b'GET http://example.org/b HTTP/1.1\r\nHost: example.org\r\n\r\n', b'GET http://example.org/c HT',
              b'POST http://example.org/d HTTP/1.1\r\nHost: example.org\r\nContent-Length: 3\r\n\r\nabc', b'G']


def early_cases(rng, n_random=0, big=False):
    """establishment with bytes sharing the segment of the establishing request"""
    drain = [['m0001', 'b', 'b', 'b', ['s', 10 ** 6]], ['m0101', 'b', ['s', 10 ** 6], 'b', ['s', 3]],
             ['m1001', ['d', {'hex': 'c1c2c3'}], 'b', 'b', ['s', 10 ** 6]], ['m0001', 'b', 'b', 'b', ['s', 10 ** 6]]]
    for e in EARLY_TUNNEL:
        for mx in (None, 2):
            yield relay_case('tunnel', [list(t) for t in drain], mx, early={'hex': e.hex()})
    for e in EARLY_HTTP:
        yield relay_case('http', [MENU[7], MENU[0], MENU[4]], None, early={'hex': e.hex()})
    for _ in range(n_random):
        k = rng.random()
        if k < 0.5:
            e = rng.choice([b'', b'\r\n', b'\n', b'\r']) + rnd_bytes(rng, rng.randint(0, 40))
        elif k < 0.8:
            e = rnd_bytes(rng, rng.randint(1, 300))
        else:
            e = rng.choice(EARLY_TUNNEL) + rnd_bytes(rng, rng.randint(0, 5))
        c = gen_relay_case(rng, 'tunnel')
        c['early'] = {'hex': e.hex()}
        yield c
    yield relay_case('tunnel', [['m0001', 'b', 'b', 'b', ['s', 10 ** 6]] for _ in range(3)], None,
                     early={'n': 70000, 'a': 253, 'b': 13})      # > 64 KiB, starts with CR LF
    for _ in range(2 if not big else 12):
        n = rng.choice([65536, 65537, 70000])
        yield relay_case('tunnel', [['m0001', 'b', 'b', 'b', gen_send(rng, 0.0, ks=(1, 65535, 65536, 10 ** 6))] for _ in range(4)],
                         rng.choice([None, 0]), early={'n': n, 'a': rng.randrange(1, 256, 2), 'b': rng.choice([13, 10, rng.randrange(256)])})


MENU = [
    # a small alphabet of ticks for the systematic schedules
    ['m0010', 'b', 'b', ['d', {'hex': '5501'}], 'b'],           # upstream segment arrives
    ['m0010', 'b', 'b', ['d', {'hex': '66aa02'}], 'b'],
    ['m1000', ['d', {'hex': 'c1c2'}], 'b', 'b', 'b'],           # client segment arrives
    ['m0100', 'b', ['s', 1], 'b', 'b'],                         # client accepts one byte
    ['m0100', 'b', ['s', 1000000], 'b', 'b'],                   # client accepts everything offered
    ['m0100', 'b', 'b', 'b', 'b'],                              # client would block
    ['m0001', 'b', 'b', 'b', ['s', 1]],                         # upstream accepts one byte
    ['m0001', 'b', 'b', 'b', ['s', 1000000]],
    ['m0010', 'b', 'b', 'e', 'b'],                              # upstream closes
    ['m1000', 'e', 'b', 'b', 'b'],                              # client half-closes
    ['m1111', ['d', {'hex': 'c3'}], ['s', 2], ['d', {'hex': '77'}], ['s', 2]],
    ['m0101', 'b', 'p', 'b', ['s', 1]],                         # client send fails
    ['m0001', 'b', 'b', 'b', 'p'],                              # upstream send fails
    ['m1000', 'r', 'b', 'b', 'b'],                              # client reset
]


def corpus():
    cs = []
    # layer
    cs.append({'kind': 'flush', 'side': 'client', 'max': 4, 'ops': [
        ['q', {'hex': '0102030405'}], ['f', ['s', 3]], ['f', ['s', 9]], ['f', 'b'], ['f', ['s', 1]], ['f', 'p']]})
    cs.append({'kind': 'flush', 'side': 'server', 'max': 0, 'ops': [
        ['q', {'n': 65537, 'a': 3, 'b': 1}], ['q', {'hex': ''}], ['q', {'hex': 'ff'}],
        ['f', ['s', 10 ** 6]], ['f', ['s', 10 ** 6]], ['f', ['s', 0]], ['f', ['s', 1]], ['f', ['s', 1]]]})
    # tunnel: two upstream segments, partial client writes, client data upward
    cs.append(relay_case('tunnel', [MENU[0], MENU[1], MENU[3], MENU[4], MENU[2], MENU[6], MENU[7], MENU[4], MENU[4],
                                    MENU[8], MENU[4]], mx=3))
    cs.append(relay_case('http', [MENU[7], MENU[0], MENU[4], MENU[8]]))
    # the D14 class of streams (chunk extension) is relayed like anything else
    cs.append(relay_case('http', [
        ['m0011', 'b', 'b', ['d', {'hex': (b'HTTP/1.1 200 OK\r\nTransfer-Encoding: chunked\r\n\r\n5;ext\r\nhello\r\n0\r\n\r\n').hex()}], ['s', 10 ** 6]],
        MENU[4]]))
    # CONNECT + early tunnel payload in the same segment, payload starting with CRLF
    cs.append(relay_case('tunnel', [['m0001', 'b', 'b', 'b', ['s', 10 ** 6]]], None, early={'hex': (b'\r\n' + TLS_HELLO).hex()}))
    # follow-up request on a plain-HTTP exchange (abstract app effect)
    cs.append(relay_case('http', [
        ['m1001', ['d', {'hex': b'GET http://example.org/b HTTP/1.1\r\nHost: example.org\r\n\r\n'.hex()}], 'b', 'b', ['s', 10 ** 6]],
        MENU[7], MENU[0]]))
    return cs


def gen_flush_case(rng, big):
    mx = rng.choice([0, 1, 2, 3, 7, 64, 65536, 65536, 100000])
    ops = []
    total = 0
    for _ in range(rng.randint(1, 14)):
        if rng.random() < 0.4:
            if big and total < 70000 and rng.random() < 0.5:
                n = rng.choice([65535, 65536, 65537, 70000])
                ops.append(['q', big_spec(rng, n)])
                total += n
            else:
                ops.append(['q', small_spec(rng, 0, 12)])
        else:
            ops.append(['f', gen_send(rng, 0.1)])
    c = {'kind': 'flush', 'side': rng.choice(['client', 'server']), 'max': mx, 'ops': ops}
    if mx == 0 and rng.random() < 0.5:
        c['none_max'] = 1
    return c


def gen_relay_case(rng, setup, big=False):
    mx = rng.choice([None, None, 1, 2, 3, 5, 8, 0])
    pfail = rng.choice([0.0, 0.0, 0.03, 0.12])
    n = rng.randint(3, 30)
    if setup == 'http':
        stream, bounds = structured_stream(rng)
        if rng.random() < 0.5:
            # delivered in order, one segment per tick, with the stream continuing / closing afterwards
            segs = struct_cut(rng, stream, bounds)
            tail = rnd_bytes(rng, rng.randint(1, 20)) if rng.random() < 0.3 else None
            return relay_case('http', stream_schedule(rng, segs, tail, eof=rng.random() < 0.7), mx)
        segs = struct_cut(rng, stream, bounds)
        segs.reverse()

        def udata():
            return {'hex': (segs.pop() if segs else rnd_bytes(rng, rng.randint(1, 9))).hex()}
        ticks = gen_ticks(rng, n, pfail, lambda: small_spec(rng), udata, client_data=False)
        if rng.random() < 0.15:
            # a follow-up request (or garbage) from the client somewhere in the schedule
            req = rng.choice([
                b'GET http://example.org/b HTTP/1.1\r\nHost: example.org\r\n\r\n',
                b'POST http://example.org/c HTTP/1.1\r\nHost: example.org\r\nContent-Length: 3\r\n\r\nabc',
                b'GET http://example.org/d HT', b'\x00\x01garbage\r\n\r\n', b'GET / HTTP/1.1\r\nContent-Length: zz\r\n\r\n',
            ])
            i = rng.randrange(len(ticks))
            ticks[i][1] = ['d', {'hex': req.hex()}]
            ticks[i][0] = ticks[i][0][0] + '1' + ticks[i][0][2:]
        return relay_case('http', ticks, mx)
    if big:
        mx = rng.choice([None, None, 0, 100000])
        sizes = [rng.choice([65535, 65536, 65537, 66000])]
        ticks = [['m0010', 'b', 'b', ['d', big_spec(rng, sizes[0])], 'b']]
        if rng.random() < 0.5:
            ticks.append(['m1000', ['d', big_spec(rng, rng.choice([65536, 65537]))], 'b', 'b', 'b'])
        for _ in range(rng.randint(3, 8)):
            ticks.append([gen_flags(rng, 0.0), 'b', gen_send(rng, 0.02, ks=(1, 65535, 65536, 65537, 10 ** 6, 10 ** 6)),
                          rng.choice(['b', 'e', 'w']), gen_send(rng, 0.02, ks=(1, 65535, 65536, 10 ** 6))])
        return relay_case('tunnel', ticks, mx)
    ticks = gen_ticks(rng, n, pfail, lambda: small_spec(rng), lambda: small_spec(rng))
    return relay_case('tunnel', ticks, mx)


def systematic(depth, menu=None, setup='tunnel', mx=2):
    import itertools
    menu = menu or MENU
    for d in range(1, depth + 1):
        for combo in itertools.product(range(len(menu)), repeat=d):
            yield relay_case(setup, [menu[i] for i in combo], mx)


def with_reaps(rng, case):
    """interleave idle-reaper events (clock far beyond / around / below the timeout; timeouts
    positive, zero and negative) into a relay schedule"""
    T = rng.choice([10, 10, 1, 0, 0, -1, -3, 2])
    tu = T * UNIT

    def elapsed():
        return max(0, rng.choice([tu - 1, tu, tu + 1, tu + 1, 0, 1, tu + 5 * UNIT, 10 ** 7, 10 ** 9, rng.randrange(0, 40000)]))
    ticks = []
    p = rng.choice([0.2, 0.5, 1.0])
    for t in case['ticks']:
        while rng.random() < p * 0.6:
            ticks.append(['R', elapsed()])
        ticks.append(t)
    ticks.append(['R', elapsed()])
    if rng.random() < 0.5:
        ticks.append(['R', tu + 1 + rng.randrange(0, 5000)])
    return dict(case, ticks=ticks, timeout=T)


def reap_cases(rng, n):
    """relay schedules with the idle reaper looking in: systematic (pending / drained x before / after the
    upstream's close x clock below, at, above, far beyond the timeout x timeout sign) and random"""
    up = ['m0010', 'b', 'b', ['d', {'hex': 'a1b2c3d4'}], 'b']
    eof = ['m0010', 'b', 'b', 'e', 'b']
    part = ['m0100', 'b', ['s', 1], 'b', 'b']
    drain = ['m0100', 'b', ['s', 10 ** 6], 'b', 'b']
    for setup in ('tunnel', 'http'):
        for T in (-2, 0, 1, 10):
            tu = T * UNIT
            for e in sorted({0, max(0, tu - 1), max(0, tu), max(1, tu + 1), tu + 5 * UNIT if tu > 0 else 5 * UNIT, 10 ** 8}):
                r_ = ['R', e]
                yield dict(relay_case(setup, [r_, up, r_, part, r_, eof, r_, part, r_, drain, drain, r_], 64), timeout=T)
                yield dict(relay_case(setup, [up, up, r_, drain, drain, drain, r_, up, r_, eof, r_, drain, r_], 64), timeout=T)
    for _ in range(n):
        k = rng.random()
        if k < 0.5:
            c = gen_relay_case(rng, rng.choice(['tunnel', 'http']))
        else:
            data, bounds = structured_stream(rng)
            c = relay_case('http', stream_schedule(rng, struct_cut(rng, data, bounds), None, eof=True, slow=0.5),
                           rng.choice([None, 3, 8]))
        yield with_reaps(rng, c)


def generate(rng, tier):
    big = tier == 'thorough'
    for _ in range(2000 if not big else 20000):
        yield gen_flush_case(rng, big=False)
    for _ in range(12 if not big else 120):
        yield gen_flush_case(rng, big=True)
    for c in systematic(3):
        yield c
    for c in systematic(2, setup='http', mx=None):
        yield c
    for c in structural_systematic(rng, 1 if not big else 6):
        yield c
    for c in early_cases(rng, 300 if not big else 4000, big):
        yield c
    for c in reap_cases(rng, 600 if not big else 8000):
        yield c
    if big:
        for c in systematic(4, mx=1):
            yield c
        for c in systematic(3, setup='http', mx=3):
            yield c
    for _ in range(1200 if not big else 25000):
        yield gen_relay_case(rng, 'tunnel')
    for _ in range(800 if not big else 15000):
        yield gen_relay_case(rng, 'http')
    for _ in range(6 if not big else 40):
        yield gen_relay_case(rng, 'tunnel', big=True)


def neighbours(case):
    if case['kind'] != 'relay':
        return
    t = case['ticks']
    for i in range(len(t)):
        yield dict(case, ticks=t[:i] + t[i + 1:])
    for mx in (None, 1, 3):
        yield dict(case, max=mx)


def search(rng):
    out = list(systematic(3))
    out += [gen_relay_case(rng, 'tunnel') for _ in range(1500)]
    out += [gen_relay_case(rng, 'http') for _ in range(800)] + list(structural_systematic(rng, 1))
    out += list(early_cases(rng, 200)) + list(reap_cases(rng, 400))
    out += [gen_flush_case(rng, False) for _ in range(1500)] + [gen_flush_case(rng, True) for _ in range(10)]
    return out


def describe(case):
    if case['kind'] == 'flush':
        return ['flush side=' + case['side'], 'flush max=%s' % case['max']]
    n = len(case['ticks'])
    fails = sum(1 for t in case['ticks'] if t[0] != 'R' for o in (t[2], t[4]) if o in ('p', 'o', 'w'))
    return ['relay ' + case['setup'] + ('+early' if case.get('early') is not None else ''), 'relay ticks ' + ('<=3' if n <= 3 else '<=10' if n <= 10 else '>10'),
            'relay max=%s' % case.get('max'), 'relay send-failures=%d' % min(fails, 3)]


def nontrivial(case):
    if case['kind'] == 'flush':
        return any(op[0] == 'f' and isinstance(op[1], list) and op[1][1] > 0 for op in case['ops']) \
            and any(op[0] == 'q' for op in case['ops'])
    return any(t[0] != 'R' and (isinstance(t[3], list) or isinstance(t[1], list)) for t in case['ticks'])
