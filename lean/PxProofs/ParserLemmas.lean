import PxModel.Parser
import PxProofs.ChunkLemmas
/-!
# Lemmas about the HTTP parser model (`PxModel/Parser.lean`) for C03, part A

The byte counter `totalSize` and the `buffer` field are never read by the
automaton (`*_setTB`); `parse_eq` (the body of `parse` as a `loop` over
`buffer ++ input`); `buffer_carry` (the carried-over buffer is unread input).
-/
namespace Px.Parser

/-- overwrite the byte counter -/
def setTotal (t : Nat) (p : Parser) : Parser := { p with totalSize := t }

/-- overwrite the two fields the automaton never reads: byte counter and buffer -/
def setTB (t : Nat) (bf : Option Bytes) (p : Parser) : Parser := { p with totalSize := t, buffer := bf }

def liftT (t : Nat) (bf : Option Bytes) (r : Parser × Bool × Bytes) : Parser × Bool × Bytes :=
  (setTB t bf r.1, r.2)

theorem processHeader_setTB (t : Nat) (bf : Option Bytes) (p : Parser) (line : Bytes) :
    processHeader (setTB t bf p) line = (processHeader p line).map (setTB t bf) := by
  unfold processHeader
  split
  rename_i key value _
  simp only []
  split
  · split <;> rfl
  · split <;> rfl

theorem processLine_setTB (cfg : Cfg) (t : Nat) (bf : Option Bytes) (p : Parser) (raw : Bytes) :
    processLine cfg (setTB t bf p) raw = (processLine cfg p raw).map (liftT t bf) := by
  unfold processLine
  split
  · rfl
  · have hty : (setTB t bf p).ty = p.ty := rfl
    rw [hty]
    split
    · split
      · split
        · rfl
        · split
          · rfl
          · simp only [setLineAttributes]
            have hti : (setTB t bf p).isTunnel = p.isTunnel := rfl
            rw [hti]
            split <;> rfl
      · rfl
    · split <;> rfl

theorem processHeaders_setTB (t : Nat) (bf : Option Bytes) (f : Nat) (p : Parser) (raw : Bytes) :
    processHeaders f (setTB t bf p) raw = (processHeaders f p raw).map (liftT t bf) := by
  induction f generalizing p raw with
  | zero => rfl
  | succ f ih =>
    unfold processHeaders
    split
    · rfl
    · rename_i line rest _
      have hst : (setTB t bf p).state = p.state := rfl
      simp only [hst]
      have hstep : (if (p.state == .lineRcvd || p.state == .rcvingHeaders) = true then
            (if (strip line).isEmpty = true then Except.ok { setTB t bf p with state := .headersComplete }
             else processHeader { setTB t bf p with state := .rcvingHeaders } line)
          else Except.ok (setTB t bf p)) =
          (if (p.state == .lineRcvd || p.state == .rcvingHeaders) = true then
            (if (strip line).isEmpty = true then Except.ok { p with state := .headersComplete }
             else processHeader { p with state := .rcvingHeaders } line)
          else Except.ok p).map (setTB t bf) := by
        split
        · split
          · rfl
          · exact processHeader_setTB t bf { p with state := .rcvingHeaders } line
        · rfl
      rw [hstep]
      cases (if (p.state == .lineRcvd || p.state == .rcvingHeaders) = true then
            (if (strip line).isEmpty = true then Except.ok { p with state := .headersComplete }
             else processHeader { p with state := .rcvingHeaders } line)
          else Except.ok p) with
      | error e => rfl
      | ok q =>
        simp only [Except.map]
        have hq : (setTB t bf q).state = q.state := rfl
        rw [hq]
        split
        · rfl
        · exact ih q rest

theorem processBody_setTB (t : Nat) (bf : Option Bytes) (p : Parser) (raw : Bytes) :
    processBody (setTB t bf p) raw = (processBody p raw).map (liftT t bf) := by
  unfold processBody
  have h1 : (setTB t bf p).isChunked = p.isChunked := rfl
  have h2 : (setTB t bf p).contentExpected = p.contentExpected := rfl
  have h3 : (setTB t bf p).chunk = p.chunk := rfl
  have h4 : (setTB t bf p).body = p.body := rfl
  have h5 : header (setTB t bf p) (b "content-length") = header p (b "content-length") := rfl
  simp only [h1, h2, h3, h4, h5]
  split
  · split
    · rfl
    · split <;> rfl
  · split
    · split
      · rfl
      · split <;> rfl
    · rfl

theorem stepOnce_setTB (cfg : Cfg) (t : Nat) (bf : Option Bytes) (p : Parser) (raw : Bytes) :
    stepOnce cfg (setTB t bf p) raw = (stepOnce cfg p raw).map (liftT t bf) := by
  unfold stepOnce
  have hst : (setTB t bf p).state = p.state := rfl
  simp only [hst]
  have hr : (if p.state.num ≥ PState.headersComplete.num then processBody (setTB t bf p) raw
      else if (p.state == .initialized) = true then processLine cfg (setTB t bf p) raw
      else processHeaders (raw.length + 1) (setTB t bf p) raw) =
      (if p.state.num ≥ PState.headersComplete.num then processBody p raw
      else if (p.state == .initialized) = true then processLine cfg p raw
      else processHeaders (raw.length + 1) p raw).map (liftT t bf) := by
    split
    · exact processBody_setTB t bf p raw
    · split
      · exact processLine_setTB cfg t bf p raw
      · exact processHeaders_setTB t bf _ p raw
  rw [hr]
  cases (if p.state.num ≥ PState.headersComplete.num then processBody p raw
      else if (p.state == .initialized) = true then processLine cfg p raw
      else processHeaders (raw.length + 1) p raw) with
  | error e => rfl
  | ok r =>
    obtain ⟨q, more, raw'⟩ := r
    simp only [Except.map, liftT]
    have a1 : (setTB t bf q).ty = q.ty := rfl
    have a2 : (setTB t bf q).state = q.state := rfl
    have a3 : (setTB t bf q).contentExpected = q.contentExpected := rfl
    have a4 : (setTB t bf q).isChunked = q.isChunked := rfl
    have a5 : hasHeader (setTB t bf q) (b "content-length") = hasHeader q (b "content-length") := rfl
    simp only [a1, a2, a3, a4, a5]
    split
    · rfl
    · split <;> rfl

def liftL (t : Nat) (bf : Option Bytes) (r : Parser × Bytes) : Parser × Bytes := (setTB t bf r.1, r.2)

theorem loop_setTB (cfg : Cfg) (t : Nat) (bf : Option Bytes) (f : Nat) (p : Parser) (more : Bool) (raw : Bytes) :
    loop cfg f (setTB t bf p) more raw = (loop cfg f p more raw).map (liftL t bf) := by
  induction f generalizing p more raw with
  | zero => rfl
  | succ f ih =>
    unfold loop
    have hst : (setTB t bf p).state = p.state := rfl
    simp only [hst]
    split
    · rfl
    · rw [stepOnce_setTB]
      cases stepOnce cfg p raw with
      | error e => rfl
      | ok r =>
        obtain ⟨q, more', raw'⟩ := r
        exact ih q more' raw'

/-- write back the unconsumed bytes, as the last line of `HttpParser.parse` does -/
def finish (r : Parser × Bytes) : Parser :=
  { r.1 with buffer := if r.2.isEmpty then none else some r.2 }

/-- the carried-over bytes of a parser -/
def bufBytes (p : Parser) : Bytes := p.buffer.getD []

theorem parse_eq (cfg : Cfg) (p : Parser) (x : Bytes) :
    parse cfg p x = (loop cfg ((bufBytes p ++ x).length + 8)
      { p with totalSize := p.totalSize + x.length, buffer := none } (decide (x.length > 0))
      (bufBytes p ++ x)).map finish := by
  unfold parse bufBytes
  rcases hb : p.buffer with _ | bf
  · simp only [Option.getD_none, List.nil_append]
    split <;> simp_all [Except.map, finish]
  · cases bf with
    | nil =>
      simp only [Option.getD_some, List.nil_append, List.isEmpty_nil, if_true]
      split <;> simp_all [Except.map, finish]
    | cons c cs =>
      simp only [Option.getD_some, List.isEmpty_cons, Bool.false_eq_true, if_false]
      split <;> simp_all [Except.map, finish]

theorem buffer_carry (cfg : Cfg) (p : Parser) (bf x : Bytes) (hb : p.buffer = some bf) (hx : x ≠ []) :
    parse cfg p x =
      (parse cfg { p with buffer := none } (bf ++ x)).map (setTotal (p.totalSize + x.length)) := by
  rw [parse_eq, parse_eq]
  have h1 : bufBytes p = bf := by simp [bufBytes, hb]
  have h2 : bufBytes { p with buffer := none } = [] := rfl
  have hx1 : decide (x.length > 0) = true := by simpa using List.length_pos_iff.2 hx
  have hx2 : decide ((bf ++ x).length > 0) = true := by
    simp only [List.length_append, gt_iff_lt, decide_eq_true_eq]
    have := List.length_pos_iff.2 hx; omega
  rw [h1, h2, hx1, hx2, List.nil_append]
  have : ({ p with totalSize := p.totalSize + x.length, buffer := none } : Parser) =
      setTB (p.totalSize + x.length) none
        { ({ p with buffer := none } : Parser) with
          totalSize := ({ p with buffer := none } : Parser).totalSize + (bf ++ x).length, buffer := none } := rfl
  rw [this, loop_setTB]
  cases loop cfg ((bf ++ x).length + 8) _ true (bf ++ x) with
  | error e => rfl
  | ok r => rfl
end Px.Parser
