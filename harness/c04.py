"""C04 — each request on a persistent connection is answered in order by the right origin.

Correspondence of PxModel/Persist.lean with the REAL classes, in-process:

  fwd  forward proxy: real HttpProtocolHandler + HttpProxyPlugin from the first byte of the
       connection, driven tick by tick over scripted sockets (harness/sim.py; tick tokens and
       state line of harness/c01.py) vs `Persist.fstepWith` (= Relay.step/tick with the
       application effect computed by the parser / builder models)
  web  built-in web server with 1-3 generated recording route plugins (HttpWebServerBasePlugin
       subclasses): client segments vs `Persist.wrun`; observables: handle_request call log
       (plugin, method, path, body), every element queued for the client, pipeline parser
  rev  reverse proxy (ReverseProxy + a generated recording ReverseProxyBasePlugin with static
       routes): client segments / upstream flushes / origin data vs `Persist.rrun`; observables:
       connect attempts, bytes each upstream peer read, current upstream, client queue

A case:
  {'kind': 'fwd', 'max': None|n, 'connect': 'ok'|'refused', 'ticks': [[flags, cRecv, cSend, uRecv, uSend], ...],
   'meta': {'reqs': [{'o': [host, port], 'm', 't', 'b', 'n': rawlen}], 'segs': [hex, ...], 'inq': 0|1}}
  {'kind': 'web', 'plugins': [[regex, ...], ...], 'segs': [hex, ...], 'meta': {'reqs': [{'m','t','b','ka','n'}], 'inq'}}
  {'kind': 'rev', 'routes': [[regex, urlhex], ...], 'rewrite': 0|1, 'evs': ['c<hex>' | 'f' | 'u<i>.<hex>'],
   'meta': {'reqs': [...], 'inq'}}
`meta` is what the generator meant (used by the oracle and the classifiers, never by the model).

Oracle (implementation only): the requests of `meta` are sent in the case's packing to the real
server, scripted origins answer every request they read (in order, on the connection it arrived on)
with a response naming themselves and the request; the client must read exactly one response per
request, in request order, each from the origin / route the request names, and the proxy must not
tear the connection down.  Reverse proxy: the same on the REAL executor (harness/simexec.RealWorld,
real selector, real descriptor reuse).
"""
import os
import re
import json
import zlib
import random
import select
import logging

from harness.common import hx, VERIF
from harness import sim
from harness.c01 import (payload, digest, buf_str, send_outcome, recv_outcome, send_tok, recv_tok,
                         st_str, _trace, gen_send, one_response, structured_stream, struct_cut)
from harness import httpgen

import proxy.http.handler            # noqa: E402,F401
import proxy.http.proxy.server       # noqa: E402,F401
import proxy.http.server.web         # noqa: E402,F401
import proxy.http.server.reverse     # noqa: E402,F401
import proxy.http.server             # noqa: E402,F401
import proxy.core.connection         # noqa: E402,F401
import proxy.common.flag             # noqa: E402,F401

PROPERTY = 'C04'
LEAN_TARGETS = ['PxProofs.C04']
THEOREMS = [
    'Px.Persist.C04_partial_forward', 'Px.Persist.C04_forward_relay', 'Px.Persist.C04_forward_segments',
    'Px.Persist.C04_partial_web', 'Px.Persist.C04_partial_reverse',
    'Px.Persist.C04_regression_F1', 'Px.Persist.C04_regression_F1_followup', 'Px.Persist.C04_regression_F1_split',
    'Px.Persist.C04_witness_F2', 'Px.Persist.C04_witness_F3', 'Px.Persist.C04_witness_F4',
    'Px.Persist.frun_refines', 'Px.Persist.pipeLoop_stream', 'Px.Persist.loopSegs_all', 'Px.Persist.parse_portOk',
]
RULE = ('fwd: 1..6 generated requests (methods, CL / chunked / no body, proxy-only headers) to 1..2 origins, packed '
        'one per segment / split anywhere inside a request / several per segment / cut anywhere, turned into tick '
        'schedules (readiness subsets, partial sends, upstream response segments interleaved) on the real handler vs '
        'the model, plus malformed / CONNECT / refused / upgrade / abort variants; web: 1..3 generated route plugins x '
        '1..6 requests x packings; rev: static route tables x 1..4 requests x flush / origin-data interleavings; '
        'distinct by canonical JSON; non-trivial = at least two requests inside the property quantifier')
ASSUMPTIONS = [
    'forward proxy: default configuration (no HttpProxyBasePlugin chain, no connection pool, no TLS interception, '
    'no proxy protocol); web server: route regexes of different plugins are distinct strings, no websocket routes, '
    'static server off, route plugins keep the base-class on_client_data; reverse proxy: static routes with one '
    'upstream URL each, connects succeed, before_routing is the identity',
    'F5: the proxy relays upstream bytes without matching them to requests; "one response per request, in request '
    'order" therefore rests on the origin answering the requests it reads in order on the single upstream '
    'connection (an assumption about origins, made by the oracle\'s scripted origins and by C04_forward_relay)',
    'response inspection (HttpProxyPlugin.response / pipeline_response parsers, inside try/except) is not modelled',
    'C04_partial_forward / _web / _reverse hold for every packing of the requests into TCP segments (fix 84c574d); '
    'C04_partial_forward is over requests naming one origin, C04_partial_web over requests whose path selects the '
    'first request\'s route plugin, C04_partial_reverse over routes answered by the plugin itself (no upstream)',
    'web / reverse models are segment-level (every flush complete); partial writes are C01 / C07',
    'handler-level reverse-proxy runs keep replaced upstream sockets open (the harness holds a reference); '
    'what the executor does after the replacement (descriptor number reuse) is exercised by the oracle only',
]
EXHAUSTIVE = {}
EXPLANATION = ('the partial theorems quantify over all request lists, all packings into segments and all benign tick '
               'schedules; the runs tie the model to the code, including on the three violated classes')
NO_FORK = False

logging.disable(logging.CRITICAL)


# --------------------------------------------------------------------------------------------
# known findings (classes judged by the oracle only once listed as open for C04)
# --------------------------------------------------------------------------------------------

def _open_ids():
    try:
        fs = json.load(open(os.path.join(VERIF, 'known_findings.json')))['findings']
    except Exception:   # noqa: BLE001
        return set()
    return {f['id'] for f in fs if f.get('property') == 'C04' and f.get('status') == 'open'}


OPEN = _open_ids()
FINDING_IDS = ('D13b', 'D13c', 'D12')


# --------------------------------------------------------------------------------------------
# class predicates (on what the generator meant)
# --------------------------------------------------------------------------------------------

def packed(case):
    """some TCP segment holds bytes of two requests"""
    meta = case['meta']
    if case['kind'] == 'rev':
        segs = [bytes.fromhex(e[1:]) if e[1:] != '-' else b'' for e in case['evs'] if e[0] == 'c']
    else:
        segs = [bytes.fromhex(s) for s in meta['segs']]
    bounds = []
    pos = 0
    for r in meta['reqs']:
        pos += r['n']
        bounds.append(pos)
    off = 0
    for s in segs:
        a, b_ = off, off + len(s)
        off = b_
        if any(a < x < b_ for x in bounds):
            return True
    return False


def diff_origin(case):
    rs = case['meta']['reqs']
    return case['kind'] == 'fwd' and bool(rs) and any(r['o'] != rs[0]['o'] for r in rs[1:])


def _route_of(plugins, path):
    """first route in table order whose regex matches (independent of the implementation)"""
    seen = {}
    for k, regs in enumerate(plugins):
        for rx in regs:
            seen[rx] = k          # dict semantics: first position, last value
    for rx, k in seen.items():
        if re.compile(rx).match(path.decode('utf-8', 'replace')):
            return k
    return None


def diff_route(case):
    if case['kind'] != 'web':
        return False
    rs = case['meta']['reqs']
    if not rs:
        return False
    first = _route_of(case['plugins'], bytes.fromhex(rs[0]['t']))
    return first is not None and any(_route_of(case['plugins'], bytes.fromhex(r['t'])) != first for r in rs[1:])


def rev_keepalive(case):
    return case['kind'] == 'rev' and len(case['meta']['reqs']) >= 2


def finding_classes(case):
    out = []
    if diff_origin(case):
        out.append('D13b')
    if diff_route(case):
        out.append('D13c')
    if rev_keepalive(case):
        out.append('D12')
    return out


def in_quantifier(case):
    return bool(case['meta'].get('inq'))


def in_partial(case):
    return in_quantifier(case) and not finding_classes(case)


# --------------------------------------------------------------------------------------------
# forward proxy: tick runner
# --------------------------------------------------------------------------------------------

def _bufopt(x):
    return 'None' if x is None else digest(bytes(x))


def _pipe_str(p):
    if p is None:
        return 'None'
    return '%d/%s/%d' % (p.state, _bufopt(p.buffer), bool(p.is_connection_upgrade))


def _phase(h, ret):
    if ret != 'c' or h.must_flush_before_shutdown:
        return '-'      # being closed: a parser an exception went through is half-updated, nothing reads it again
    p = h.plugin
    up = getattr(p, 'upstream', None) if p is not None else None
    if up is not None and not up.closed:
        if h.request.is_https_tunnel:
            return 'tunnel'
        return 'http:rb=%s:%s' % (_bufopt(h.request.buffer), _pipe_str(p.pipeline_request))
    if p is not None:
        return 'done'
    return 'first:%d/%s' % (h.request.state, _bufopt(h.request.buffer))


def _fwd_args(case):
    args = []
    if case.get('max') is not None:
        args += ['--max-sendbuf-size', str(case['max'])]
    return args


def run_fwd(case):
    with sim.World(args=_fwd_args(case)) as w:
        if case.get('connect') == 'refused':
            w.connect_plan.append(ConnectionRefusedError(111, 'scripted refusal'))
        h, cs, cp = w.new_client()
        us = None
        obs = ['init %s ph=%s' % (st_str(w, h, cs, None, 'None', 'None'), _phase(h, 'c'))]
        ret = 'c'
        for t in case['ticks']:
            fl, cr, cso, ur, uso = t
            bits = [c == '1' for c in fl[1:5]]
            if fl[0] == 'm':
                bits = [a and b_ for a, b_ in zip(bits, w.interest(h, cs, us))]
            R, W = [], []
            if bits[0]:
                R.append(cs.fileno())
            if bits[1]:
                W.append(cs.fileno())
            if us is not None:
                if bits[2]:
                    R.append(us.fileno())
                if bits[3]:
                    W.append(us.fileno())
            cs.clear_scripts()
            cs.script_recv(recv_outcome(cr))
            cs.script_send(send_outcome(cso))
            nc = len(cs.log)
            nu = 0
            if us is not None:
                us.clear_scripts()
                us.script_recv(recv_outcome(ur))
                us.script_send(send_outcome(uso))
                nu = len(us.log)
            r = w.tick(h, R, W)
            tru = _trace(us, nu) if us is not None else 'None'
            if us is None and w.upstreams:
                us = w.upstreams[0][0]
            ret = 'c' if r is False else 't' if r is True else 'x'
            obs.append('ret=%s %s ph=%s' % (ret, st_str(w, h, cs, us, _trace(cs, nc), tru), _phase(h, ret)))
            if ret != 'c':
                break
        line = ' | '.join(obs) + ' || connects=[%s]' % ','.join('%s:%d' % (hx(a[0].encode()), a[1]) for a in w.connects)
        return line


def fwd_model_line(case):
    mx = case.get('max')
    if mx is None:
        from proxy.common.constants import DEFAULT_MAX_SEND_SIZE
        mx = DEFAULT_MAX_SEND_SIZE
    toks = [':'.join([t[0], recv_tok(t[1]), send_tok(t[2]), recv_tok(t[3]), send_tok(t[4])]) for t in case['ticks']]
    return 'persist fwd %d %d - %s' % (mx, case.get('connect') != 'refused', ' '.join(toks))


# --------------------------------------------------------------------------------------------
# web server: segment runner with recording route plugins
# --------------------------------------------------------------------------------------------

def rec_response(k, method, path, body):
    pl = b'route%d|%s|%s|%s' % (k, method or b'', path or b'', body or b'')
    return b'HTTP/1.1 200 OK\r\nContent-Length: %d\r\n\r\n' % len(pl) + pl


def _mk_web_plugins(plugins, calls):
    from proxy.http.server import HttpWebServerBasePlugin, httpProtocolTypes
    out = []
    for k, regs in enumerate(plugins):
        def routes(self, _r=tuple(regs)):
            return [(httpProtocolTypes.HTTP, rx) for rx in _r]

        def handle_request(self, request, _k=k):
            m = None if request.method is None else bytes(request.method)
            p = None if request.path is None else bytes(request.path)
            b_ = None if request.body is None else bytes(request.body)
            calls.append((_k, m, p, b_))
            self.client.queue(memoryview(rec_response(_k, m, p, b_)))
        cls = type('VerifRoute%d' % k, (HttpWebServerBasePlugin,), {'routes': routes, 'handle_request': handle_request})
        cls.__qualname__ = 'VerifRoute%d' % k
        out.append(cls)
    return out


def _spy_queue(h, log):
    orig = h.work.queue

    def queue(mv):
        log.append(bytes(mv))
        return orig(mv)
    h.work.queue = queue


def _flush_client(w, h, cs):
    """client writable until nothing is pending; returns the value of the last handle_events"""
    r = False
    for _ in range(10000):
        if not h.work.has_buffer():
            break
        r = w.tick(h, [], [cs.fileno()])
        if r is not False:
            break
    return r


def _drive_web(case, reactive=None):
    """Feed the segments; returns observations.  `reactive` unused (web answers locally)."""
    from proxy.http.server import HttpWebServerPlugin
    calls, out = [], []
    classes = _mk_web_plugins(case['plugins'], calls)
    with sim.World(args=['--enable-web-server'], strict=False, plugins=classes) as w:
        h, cs, cp = w.new_client()
        _spy_queue(h, out)
        ph = 'first'
        td = False
        for k_, s in enumerate(case['segs']):
            if ph in ('closing', 'raised', 'other'):
                break
            if k_ % 2 == 1:
                # readable, but the (TLS) record is incomplete: SSLWantReadError is retried later
                cs.script_recv(('wantRead',))
                r0 = w.tick(h, [cs.fileno()], [])
                if r0 is not False:
                    ph = 'raised' if isinstance(r0, tuple) else 'closing'
                    td = True
                    break
            cs.script_recv(('data', bytes.fromhex(s)))
            r = w.tick(h, [cs.fileno()], [])
            if isinstance(r, tuple):
                ph = 'raised'
                break
            r2 = _flush_client(w, h, cs) if r is False else r
            if isinstance(r2, tuple):
                ph = 'raised'
                break
            p = h.plugin
            if r is True or r2 is True or h.must_flush_before_shutdown:
                ph = 'closing'
                td = True
            elif p is None:
                ph = 'first'
            elif not isinstance(p, HttpWebServerPlugin) or p.switched_protocol is not None:
                ph = 'other'
            elif p.route is not None:
                ph = 'routed'
        p = h.plugin
        route = None
        pipe = None
        if isinstance(p, HttpWebServerPlugin):
            pipe = p.pipeline_request
            if p.route is not None:
                route = int(type(p.route).__name__[len('VerifRoute'):])
        cp.pump()
        return {'ph': ph, 'rq': '%d/%s' % (h.request.state, _bufopt(h.request.buffer)), 'route': route,
                'pipe': _pipe_str(pipe) if ph in ('first', 'routed') else '-', 'calls': calls, 'out': out, 'client': bytes(cp.inbox), 'td': td}


def run_web(case):
    o = _drive_web(case)
    if o['ph'] == 'other':
        # not modelled beyond the dispatch
        return 'ph=other'
    calls = ','.join('%d:%s:%s:%s' % (k, hx(m), hx(p), hx(b_)) for k, m, p, b_ in o['calls'])
    return 'ph=%s rq=%s route=%s pipe=%s calls=[%s] out=%s' % (
        o['ph'], o['rq'], o['route'], o['pipe'], calls, buf_str(o['out']))


def _web_tables(case):
    """routes[HTTP] in dict order as (pattern id, plugin), and the match table of every path in the case"""
    order = {}
    for k, regs in enumerate(case['plugins']):
        for rx in regs:
            order[rx] = k
    pats = list(order.items())
    return pats


def _paths_of(segs):
    """every request path a parser could come across in this byte stream (over-approximation: every
    token that starts with a slash)"""
    data = b''.join(segs)
    out = []
    for tok in re.split(rb'[ \r\n]', data):
        if tok.startswith(b'/') and tok not in out:
            out.append(tok)
    return out


def _match_table(regexes, paths):
    rows = []
    for p in paths:
        if not p:
            continue
        try:
            text = p.decode('utf-8')
        except UnicodeDecodeError:
            continue
        bits = ''.join('1' if re.compile(rx).match(text) else '0' for rx in regexes)
        rows.append('%s=%s' % (p.hex(), bits or '0'))
    return ';'.join(rows) if rows else '-'


def web_model_line(case):
    pats = _web_tables(case)
    routes = ','.join('%d.%d' % (i, k) for i, (rx, k) in enumerate(pats)) or '-'
    segs = [bytes.fromhex(s) for s in case['segs']]
    mt = _match_table([rx for rx, _ in pats], _paths_of(segs) + [b'/'])
    return 'persist web %s %s %s' % (routes, mt, ' '.join(s.hex() or '-' for s in segs))


# --------------------------------------------------------------------------------------------
# reverse proxy: event runner
# --------------------------------------------------------------------------------------------

def _mk_rev_plugin(routes, handled):
    from proxy.http.server import ReverseProxyBasePlugin
    table = [(rx, [bytes.fromhex(u)]) for rx, u in routes]

    def routes_(self, _t=table):
        return _t

    def before_routing(self, request):
        handled.append(None if request.path is None else bytes(request.path))
        return request
    # the name identifies the route table (harness/simexec caches flags by the repr of their options)
    name = 'VerifReverse_%08x' % (zlib.crc32(json.dumps(routes).encode()) & 0xffffffff)
    return type(name, (ReverseProxyBasePlugin,), {'routes': routes_, 'before_routing': before_routing})


def _rev_up(h):
    p = h.plugin
    route = getattr(p, 'route', None) if p is not None else None
    return getattr(route, 'upstream', None) if route is not None else None


def run_rev(case):
    from proxy.http.server import HttpWebServerPlugin
    handled, out = [], []
    cls = _mk_rev_plugin(case['routes'], handled)
    args = ['--enable-web-server', '--enable-reverse-proxy'] + (['--rewrite-host-header'] if case.get('rewrite') else [])
    with sim.World(args=args, strict=False, plugins=[cls]) as w:
        h, cs, cp = w.new_client()
        _spy_queue(h, out)
        ph = 'first'
        for e in case['evs']:
            if ph in ('closing', 'raised', 'other'):
                break           # handle_events returned True / raised, or the handler only flushes: not modelled further
            if e[0] == 'c':
                cs.script_recv(('data', bytes.fromhex(e[1:])))
                r = w.tick(h, [cs.fileno()], [])
                p = h.plugin
                if isinstance(r, tuple):
                    ph = 'raised'
                elif r is True or h.must_flush_before_shutdown:
                    ph = 'closing'
                elif p is None:
                    ph = 'first'
                elif not isinstance(p, HttpWebServerPlugin) or p.switched_protocol is not None:
                    ph = 'other'
                elif p.route is not None:
                    ph = 'routed'
            elif e[0] == 'f':
                up = _rev_up(h)
                if up is not None and not up.closed:
                    for _ in range(1000):
                        if not up.has_buffer():
                            break
                        r = w.tick(h, [], [up.connection.fileno()])
                        if r is not False:
                            break
            else:
                i, data = e[1:].split('.')
                i = int(i)
                data = bytes.fromhex(data)
                if i < len(w.upstreams) and data:
                    try:
                        w.upstreams[i][1].send(data)
                    except OSError:
                        pass
                    ev = w.events(h)
                    fds = [fd for fd, m in ev.items() if m & 1 and fd != cs.fileno()]
                    ready = select.select(fds, [], [], 0)[0] if fds else []
                    if ready and ph != 'raised':
                        r = w.tick(h, ready, [])
                        if isinstance(r, tuple):
                            ph = 'raised'
        if ph == 'other':
            return 'ph=other'
        up = _rev_up(h)
        cur = None
        if up is not None:
            for i, (s, _, _) in enumerate(w.upstreams):
                if up._conn is s:
                    cur = i
        wrote = []
        for s, peer, _ in w.upstreams:
            peer.pump()
            wrote.append(bytes(peer.inbox))
        p = h.plugin
        pipe = p.pipeline_request if isinstance(p, HttpWebServerPlugin) else None
        upstr = 'None' if up is None else ('closed' if up.closed else 'open') + '[' + ','.join(hx(x) for x in sim.elems(up)) + ']'
        return 'ph=%s rq=%d/%s pipe=%s handled=%d connects=[%s] cur=%s up=%s wrote=[%s] client=%s' % (
            ph, h.request.state, _bufopt(h.request.buffer), _pipe_str(pipe) if ph in ('first', 'routed') else '-', len(handled),
            ','.join('%s:%d' % (hx(a[0].encode()), a[1]) for a in w.connects), cur, upstr,
            ','.join(hx(x) for x in wrote), buf_str(out))


def rev_model_line(case):
    table = ';'.join('s.%d.%s' % (i, u) for i, (rx, u) in enumerate(case['routes'])) or 'e'
    segs = [bytes.fromhex(e[1:]) for e in case['evs'] if e[0] == 'c']
    mt = _match_table([rx for rx, _ in case['routes']], _paths_of(segs) + [b'/'])
    return 'persist rev %d %s %s %s' % (bool(case.get('rewrite')), table, mt, ' '.join(case['evs']))


# --------------------------------------------------------------------------------------------
# harness interface: impl / model
# --------------------------------------------------------------------------------------------

def impl(case):
    k = case['kind']
    if k == 'fwd':
        return [run_fwd(case)]
    if k == 'web':
        return [run_web(case)]
    return [run_rev(case)]


def model_lines(case):
    k = case['kind']
    if k == 'fwd':
        return [fwd_model_line(case)]
    if k == 'web':
        return [web_model_line(case)]
    return [rev_model_line(case)]


# --------------------------------------------------------------------------------------------
# oracle: the property itself, on the implementation only
# --------------------------------------------------------------------------------------------

def read_requests(data):
    """Independent reader of a request stream (what an origin server does): [(method, target, body)], rest"""
    out = []
    while True:
        i = data.find(b'\r\n\r\n')
        if i < 0:
            return out, data
        head = data[:i].split(b'\r\n')
        parts = head[0].split(b' ')
        if len(parts) != 3:
            return out, data
        hdrs = {}
        for ln in head[1:]:
            k, _, v = ln.partition(b':')
            hdrs[k.strip().lower()] = v.strip()
        rest = data[i + 4:]
        if hdrs.get(b'transfer-encoding', b'').lower() == b'chunked':
            body = b''
            while True:
                j = rest.find(b'\r\n')
                if j < 0:
                    return out, data
                n = int(rest[:j].split(b';')[0], 16)
                if len(rest) < j + 2 + n + 2:
                    return out, data
                body += rest[j + 2:j + 2 + n]
                rest = rest[j + 2 + n + 2:]
                if n == 0:
                    break
        else:
            n = int(hdrs.get(b'content-length', b'0'))
            if len(rest) < n:
                return out, data
            body, rest = rest[:n], rest[n:]
        out.append((parts[0], parts[1], body))
        data = rest


def origin_tag(origin, method, target, body):
    return b'%s:%d|%s|%s|%d:%d' % (origin[0].encode(), origin[1], method, target, len(body), zlib.crc32(body))


def origin_response(origin, method, target, body):
    pl = origin_tag(origin, method, target, body)
    return b'HTTP/1.1 200 OK\r\nContent-Length: %d\r\n\r\n' % len(pl) + pl


def origin_pieces(origin, method, target, body, last):
    """What the scripted origin answers to one request, as the segments it writes: optionally an interim
    1xx response first, then the final response naming origin and request — Content-Length, chunked
    (extensions, trailers) or, for the last request of a connection, delimited by close — with any
    Connection header, cut at structural boundaries (harness/c01.py one_response / struct_cut).
    A function of its arguments only, so that the expectation is computed independently of the run."""
    rng = random.Random(zlib.crc32(repr((origin[0], origin[1], method, target, body, last)).encode()))
    out = []
    if rng.random() < 0.4:
        out.append(rng.choice([b'HTTP/1.1 100 Continue\r\n\r\n', b'HTTP/1.1 103 Early Hints\r\nLink: </s>\r\n\r\n']))
    framing = rng.choice(['cl', 'cl', 'chunked', 'chunked', 'close'] if last else ['cl', 'cl', 'chunked'])
    data, bounds = one_response(rng, framing, 0, body=origin_tag(origin, method, target, body))
    bounds = [x for x in bounds if 0 < x < len(data)]
    out += struct_cut(rng, data, bounds)
    return [x for x in out if x], framing == 'close'


def split_responses(stream):
    """[(headers+body bytes)] of a stream of Content-Length responses"""
    out = []
    while stream:
        i = stream.find(b'\r\n\r\n')
        if i < 0:
            out.append(stream)
            break
        m = re.search(rb'Content-Length: (\d+)', stream[:i])
        n = int(m.group(1)) if m else 0
        out.append(stream[:i + 4 + n])
        stream = stream[i + 4 + n:]
    return out


def _verdict(prefix, got, want, torn, alt=None):
    """transcript equality: the client stream must be the responses `want`, in order, every byte;
    `alt(i)`: what a WRONG origin (the connected one) would have answered to request i"""
    off = 0
    for i, x in enumerate(want):
        seg = got[off:off + len(x)]
        if seg == x:
            off += len(x)
            continue
        if x.startswith(got[off:]):
            return '%s-torn-down' % prefix if torn else '%s-missing-response' % prefix
        if alt is not None:
            y = alt(i)
            if y is not None and y != x and got[off:off + len(y)] == y:
                return '%s-wrong-origin' % prefix
        return '%s-wrong-response' % prefix
    if len(got) > off:
        return '%s-extra-response' % prefix
    if torn:
        return '%s-torn-down' % prefix
    return None


def oracle_fwd(case):
    meta = case['meta']
    reqs = meta['reqs']
    with sim.World(args=[], strict=False) as w:
        h, cs, cp = w.new_client()
        answered = {}          # upstream index -> number of requests answered
        st = {'torn': False, 'origin_closed': False}

        def flush_client():
            for _ in range(10000):
                cp.pump()           # the client program keeps reading (many small writes fill a socketpair)
                if not h.work.has_buffer():
                    return
                r = w.tick(h, [], [cs.fileno()])
                if r is not False:
                    if not st['origin_closed']:
                        st['torn'] = True
                    return

        def settle():
            for _ in range(200):
                if st['torn'] or st['origin_closed']:
                    return
                moved = False
                ev = w.events(h)
                W = [fd for fd, m in ev.items() if m & 2]
                if W:
                    r = w.tick(h, [], W)
                    moved = True
                    if r is not False:
                        st['torn'] = True
                        return
                for i, (us, peer, addr) in enumerate(w.upstreams):
                    peer.pump()
                    got, _ = read_requests(bytes(peer.inbox))
                    k = answered.get(i, 0)
                    if len(got) > k and us.fileno() in w.events(h):
                        m, t, b_ = got[k]
                        last = sum(answered.values()) == len(reqs) - 1
                        answered[i] = k + 1
                        pieces, closes = origin_pieces(addr, m, t, b_, last)
                        for piece in pieces:
                            us.script_recv(('data', piece))
                            r = w.tick(h, [us.fileno()], [])
                            if r is not False:
                                st['torn'] = True
                                return
                            flush_client()      # the client reads what it is given before more arrives
                            if st['torn']:
                                return
                        if closes:
                            st['origin_closed'] = True      # the origin ends the close-delimited body
                            us.script_recv(('eof',))
                            w.tick(h, [us.fileno()], [])
                            flush_client()
                            return
                        moved = True
                if not moved:
                    return
        for k_, s_ in enumerate(meta['segs']):
            if st['torn'] or st['origin_closed'] or h.must_flush_before_shutdown:
                break
            if k_ % 2 == 1:
                # readable, but the (TLS) record is not complete yet: retried later, nothing else happens
                cs.script_recv(('wantRead',))
                if w.tick(h, [cs.fileno()], []) is not False:
                    st['torn'] = True
                    break
            cs.script_recv(('data', bytes.fromhex(s_)))
            r = w.tick(h, [cs.fileno()], [])
            if r is not False:
                st['torn'] = True
                break
            settle()
        settle()
        cp.pump()
        n = len(reqs)

        def pieces_of(i, origin):
            r = reqs[i]
            return b''.join(origin_pieces(origin, bytes.fromhex(r['m']), bytes.fromhex(r['t']),
                                          bytes.fromhex(r['b']), i == n - 1)[0])
        want = [pieces_of(i, (r['o'][0], r['o'][1])) for i, r in enumerate(reqs)]
        first = w.connects[0] if w.connects else None
        torn = st['torn'] or (bool(h.must_flush_before_shutdown) and not st['origin_closed'])
        return _verdict('fwd', bytes(cp.inbox), want, torn,
                        (lambda i: pieces_of(i, first)) if first is not None else None)


def oracle_web(case):
    from proxy.http.responses import NOT_FOUND_RESPONSE_PKT
    meta = case['meta']
    o = _drive_web({'plugins': case['plugins'], 'segs': meta['segs']})
    want = []
    closed = False
    for r in meta['reqs']:
        path = bytes.fromhex(r['t'])
        k = _route_of(case['plugins'], path)
        if k is None:
            want.append(bytes(NOT_FOUND_RESPONSE_PKT))
            closed = True
            break
        want.append(rec_response(k, bytes.fromhex(r['m']), path, bytes.fromhex(r['b']) or None))
        if not r['ka']:
            closed = True
            break
    got = o['client']
    g = split_responses(got)
    for i, x in enumerate(want):
        if i >= len(g):
            return 'web-missing-response'
        if g[i] != x:
            gb, xb = g[i].split(b'\r\n\r\n', 1)[-1], x.split(b'\r\n\r\n', 1)[-1]
            if gb.split(b'|')[0] != xb.split(b'|')[0] or x.startswith(b'HTTP/1.1 404') != g[i].startswith(b'HTTP/1.1 404'):
                return 'web-wrong-route'
            return 'web-wrong-response'
    if len(g) > len(want):
        return 'web-extra-response'
    if o['td'] and not closed:
        return 'web-torn-down'
    if o['ph'] == 'raised':
        return 'web-raised'
    return None


def oracle_rev(case):
    """sequential keep-alive requests through the REAL executor (real selector, real descriptor reuse)"""
    from harness import simexec
    meta = case['meta']
    handled = []
    cls = _mk_rev_plugin(case['routes'], handled)
    w = simexec.RealWorld(args=('--enable-web-server', '--enable-reverse-proxy'), plugins=[cls])
    try:
        c = w.client()
        w.pump([c], 2)
        answered = {}
        want = []
        for r in meta['reqs']:
            path = bytes.fromhex(r['t'])
            url = None
            for rx, u in case['routes']:
                if re.compile(rx).match(path.decode('utf-8', 'replace')):
                    url = bytes.fromhex(u)
                    break
            if url is None:
                return None     # unrouted requests are outside this oracle
            m = re.match(rb'http://(\[[^\]]+\]|[^:/]+)(?::(\d+))?(/.*)?$', url)
            origin = (m.group(1).decode().strip('[]'), int(m.group(2) or 80))
            want.append(b''.join(origin_pieces(origin, bytes.fromhex(r['m']), m.group(3) or b'/', bytes.fromhex(r['b']),
                                               False)[0]))
            c.send(bytes.fromhex(r['raw']))
            for _ in range(6):
                w.pump([c] + [u[1] for u in w.upstreams], 2)
                for i, (addr, p) in enumerate(w.upstreams):
                    got, _ = read_requests(p.rx)
                    k = answered.get(i, 0)
                    if len(got) > k:
                        answered[i] = k + 1
                        for piece in origin_pieces((addr[0], addr[1]), got[k][0], got[k][1], got[k][2], False)[0]:
                            p.send(piece)
                            w.pump([c], 2)
            c.drain()
        c.drain()
        v = _verdict('rev', bytes(c.rx), want, bool(c.eof) or not w.ex.works)
        if v == 'rev-torn-down':
            return 'rev-connection-closed'
        if v == 'rev-missing-response':
            return 'rev-stalled'
        return v
    finally:
        w.close()


def oracle(case):
    if not in_quantifier(case):
        return None
    cls = finding_classes(case)
    if any(c not in OPEN for c in cls):
        return None           # class known to fail, not (yet) listed: correspondence only
    k = case['kind']
    if k == 'fwd':
        return oracle_fwd(case)
    if k == 'web':
        return oracle_web(case)
    return oracle_rev(case)


FAILURES = {
    'D13b': ('fwd-wrong-origin',),
    'D13c': ('web-wrong-route',),
    'D12': ('rev-connection-closed', 'rev-stalled'),
}


def classify(case, sig):
    for fid in finding_classes(case):
        if sig in FAILURES[fid]:
            return fid
    return None


# --------------------------------------------------------------------------------------------
# generators
# --------------------------------------------------------------------------------------------

ORIGINS = [['a.example', 80], ['b.example', 8080], ['10.1.2.3', 81]]
FPATHS = [b'/', b'/1', b'/a/b.txt', b'/get?x=1&y=2', b'/p%20q', b'', b'/long/' + b'z' * 30]
FMETHODS = [b'GET', b'GET', b'POST', b'PUT', b'DELETE', b'OPTIONS', b'PATCH', b'FOO']
SAFE_HEADERS = [
    (b'User-Agent', b'curl/7.88'), (b'Accept', b'*/*'), (b'X-A', b'1'), (b'Cookie', b'a=b; c=d'),
    (b'proxy-connection', b'keep-alive'), (b'Proxy-Authorization', b'Basic dXNlcjpwYXNz'), (b'Via', b'1.0 fred'),
    (b'X-Empty', b''), (b'accept-ENCODING', b'gzip, deflate'),
]


def rbody(rng, n):
    m = rng.randrange(3)
    if m == 0:
        return bytes(rng.randrange(256) for _ in range(n))
    if m == 1:
        return (b'\r\n0\r\n\r\nGET http://x/ HTTP/1.1\r\n\r\n' * (n // 20 + 1))[:n]
    return bytes(rng.choice(b'abc \r\n0123456789:;') for _ in range(n))


def framed(rng, method, headers):
    """returns (header lines incl. framing, payload bytes, decoded body)"""
    fr = rng.choice(['none', 'none', 'cl', 'chunked', 'cl0']) if method not in (b'GET', b'DELETE', b'OPTIONS') \
        else rng.choice(['none', 'none', 'none', 'cl'])
    body = b''
    pay = b''
    hs = list(headers)
    if fr == 'cl':
        body = rbody(rng, rng.choice([1, 2, 5, 17, 60]))
        hs.insert(rng.randrange(len(hs) + 1), (rng.choice([b'Content-Length', b'content-length']), b'%d' % len(body)))
        pay = body
    elif fr == 'cl0':
        hs.insert(rng.randrange(len(hs) + 1), (b'Content-Length', b'0'))
    elif fr == 'chunked':
        body = rbody(rng, rng.choice([0, 1, 7, 30]))
        hs.insert(rng.randrange(len(hs) + 1), (b'Transfer-Encoding', rng.choice([b'chunked', b'Chunked'])))
        i = 0
        while i < len(body):
            n = rng.choice([1, 2, 5, len(body) - i])
            n = min(n, len(body) - i)
            pay += b'%x' % n + rng.choice([b'', b'', b';e=1']) + b'\r\n' + body[i:i + n] + b'\r\n'
            i += n
        pay += b'0\r\n\r\n'
    return hs, pay, body


def gen_fwd_req(rng, origin, version=b'HTTP/1.1'):
    method = rng.choice(FMETHODS)
    path = rng.choice(FPATHS)
    host, port = origin
    auth = host.encode() + (b'' if port == 80 and rng.random() < 0.7 else b':%d' % port)
    hs = [(b'Host', auth)]
    if rng.random() < 0.5:
        pool = list(SAFE_HEADERS)
        rng.shuffle(pool)
        hs += pool[:rng.randrange(0, 4)]
    else:
        # the shared header grammar (any casing, odd values); Upgrade would make it a protocol switch
        hs += httpgen.rheaders(rng, rng.randrange(0, 6), exclude=(b'content-length', b'transfer-encoding', b'upgrade',
                                                                  b'host', b'connection'))
    if rng.random() < 0.45:
        hs.insert(rng.randrange(1, len(hs) + 1),
                  (httpgen.rcase(rng, b'Connection'), httpgen.rcase(rng, rng.choice([b'close', b'close', b'keep-alive']))))
    hs, pay, body = framed(rng, method, hs)
    raw = method + b' http://' + auth + path + b' ' + version + b'\r\n' + \
        b''.join(k + b':' + rng.choice([b' ', b'', b'  ']) + v + b'\r\n' for k, v in hs) + b'\r\n' + pay
    return {'o': [host, port], 'm': method.hex(), 't': (path or b'/').hex(), 'b': body.hex(), 'n': len(raw)}, raw


def pack(rng, raws, mode):
    """one: one request per segment; split: every request cut at random places (never across requests);
    pairs: some neighbours glued into one segment; any: the whole stream cut anywhere"""
    if mode == 'one':
        return list(raws)
    if mode == 'split':
        out = []
        for r in raws:
            k = rng.choice([0, 1, 1, 2, 3, len(r) - 1 if len(r) < 40 else 4])
            cuts = sorted(rng.sample(range(1, len(r)), min(k, len(r) - 1))) if len(r) > 1 else []
            last = 0
            for c_ in cuts + [len(r)]:
                out.append(r[last:c_])
                last = c_
        return out
    if mode == 'pairs':
        out = []
        i = 0
        while i < len(raws):
            if i + 1 < len(raws) and rng.random() < 0.6:
                out.append(raws[i] + raws[i + 1])
                i += 2
            else:
                out.append(raws[i])
                i += 1
        if len(out) == len(raws) and len(raws) > 1:
            out = [raws[0] + raws[1]] + list(raws[2:])
        return out
    data = b''.join(raws)
    k = rng.randrange(0, 2 * len(raws) + 1)
    cuts = sorted(rng.sample(range(1, len(data)), min(k, len(data) - 1))) if len(data) > 1 else []
    out, last = [], 0
    for c_ in cuts + [len(data)]:
        out.append(data[last:c_])
        last = c_
    return out


RESP = [
    b'HTTP/1.1 200 OK\r\nContent-Length: 5\r\n\r\nhello',
    b'HTTP/1.1 200 OK\r\nTransfer-Encoding: chunked\r\n\r\n3\r\nabc\r\n0\r\n\r\n',
    b'HTTP/1.1 204 No Content\r\n\r\n',
    b'HTTP/1.1 404 Not Found\r\nContent-Length: 0\r\n\r\n',
]


def fwd_ticks(rng, segs, nresp, benign=True):
    """client segments in order, interleaved with upstream response pieces and flushes"""
    ups = []
    for _ in range(nresp):
        if rng.random() < 0.3:
            r = rng.choice(RESP)
            c_ = rng.randrange(1, len(r))
            ups += [r[:c_], r[c_:]] if rng.random() < 0.5 else [r]
        else:
            # structure-aware streams: every framing, 1xx prefixes, cut at structural boundaries; whatever
            # follows in `ups` is more upstream data arriving after the cut
            data, bounds = structured_stream(rng)
            ups += [x for x in struct_cut(rng, data, bounds) if x]
    cseg = list(segs)
    ticks = []
    big = ['s', 10 ** 6]
    first = True
    while cseg or ups:
        x = rng.random()
        if cseg and (first or x < 0.45 or not ups):
            s = cseg.pop(0)
            bits = '1' + rng.choice('01') + rng.choice('01') + rng.choice('01')
            ur = ['d', {'hex': ups.pop(0).hex()}] if (bits[2] == '1' and ups and not first and rng.random() < 0.5) else 'w'
            ticks.append(['m' + bits, ['d', {'hex': s.hex()}], gen_send(rng, 0.0), ur, gen_send(rng, 0.0)])
            first = False
        elif ups and x < 0.8:
            # (client bit set with 'w': the socket is readable but recv raises SSLWantReadError — an
            # incomplete TLS record; it must be retried later, not treated as a failure)
            bits = rng.choice('001') + rng.choice('01') + '1' + rng.choice('01')
            ticks.append(['m' + bits, 'w', gen_send(rng, 0.0), ['d', {'hex': ups.pop(0).hex()}], gen_send(rng, 0.0)])
        else:
            bits = rng.choice('001') + rng.choice('01') + '0' + rng.choice('011')
            ticks.append(['m' + bits, 'w', rng.choice([big, ['s', 3], 'b']), 'w', rng.choice([big, big, ['s', 7], 'b'])])
    for _ in range(rng.randrange(0, 4)):
        ticks.append(['m0101', 'w', big, 'w', big])
    if not benign:
        i = rng.randrange(len(ticks) + 1)
        bad = rng.choice([
            ['m1000', 'e', 'b', 'b', 'b'], ['m0010', 'b', 'b', 'e', 'b'], ['m0001', 'b', 'b', 'b', 'p'],
            ['m0100', 'b', 'p', 'b', 'b'], ['m1000', 'r', 'b', 'b', 'b'], ['r1111', 'b', 'b', 'b', 'b'],
            ['m0010', 'b', 'b', 'r', 'b'], ['m1111', ['d', {'hex': '00'}], 'o', 'o', 'o'],
        ])
        ticks.insert(i, bad)
    return ticks


def mk_fwd(rng, n, origins, mode, benign=True, mx=None, inq=1, version=b'HTTP/1.1'):
    metas, raws = [], []
    for i in range(n):
        m, raw = gen_fwd_req(rng, origins[i], version)
        metas.append(m)
        raws.append(raw)
    segs = pack(rng, raws, mode)
    return {'kind': 'fwd', 'max': mx, 'connect': 'ok', 'ticks': fwd_ticks(rng, segs, rng.randrange(0, n + 1), benign),
            'meta': {'reqs': metas, 'segs': [s.hex() for s in segs], 'inq': inq if benign else 0}}


def mk_fwd_upgrade(rng, n, origin, frames):
    """n-1 ordinary requests, then a connection-upgrade request cut into several segments; `frames`: raw
    protocol data sent after it (then the case is outside the quantifier: correspondence only)"""
    metas, raws = [], []
    for i in range(n - 1):
        m, raw = gen_fwd_req(rng, origin)
        metas.append(m)
        raws.append(raw)
    host, port = origin
    auth = host.encode() + (b'' if port == 80 else b':%d' % port)
    hs = [(b'Host', auth), (rng.choice([b'Connection', b'connection']), b'Upgrade'), (b'Upgrade', b'websocket'),
          (b'Sec-WebSocket-Key', b'dGhlIHNhbXBsZSBub25jZQ=='), (b'X-A', b'1'), (b'Accept', b'*/*')]
    rng.shuffle(hs)
    path = rng.choice([b'/ws', b'/chat?x=1'])
    raw = b'GET http://' + auth + path + b' HTTP/1.1\r\n' + b''.join(k + b': ' + v + b'\r\n' for k, v in hs) + b'\r\n'
    metas.append({'o': [host, port], 'm': b'GET'.hex(), 't': path.hex(), 'b': '', 'n': len(raw)})
    segs = pack(rng, raws, rng.choice(['one', 'split']))
    k = rng.choice([1, 2, 3, 5, 8])
    cuts = sorted(rng.sample(range(1, len(raw)), k))
    last = 0
    for c_ in cuts + [len(raw)]:
        segs.append(raw[last:c_])
        last = c_
    for _ in range(frames):
        segs.append(bytes(rng.randrange(256) for _ in range(rng.randrange(1, 12))))
    return {'kind': 'fwd', 'max': None, 'connect': 'ok', 'ticks': fwd_ticks(rng, segs, rng.randrange(0, n + 1)),
            'meta': {'reqs': metas, 'segs': [s.hex() for s in segs], 'inq': 0 if frames else 1}}


def raw_fwd(segs, mx=None, connect='ok', ticks=None, reqs=None, inq=0):
    """hand-made forward case: one client tick per segment followed by a full upstream flush"""
    if ticks is None:
        ticks = []
        for s in segs:
            ticks.append(['m1000', ['d', {'hex': s.hex()}], 'b', 'w', 'b'])
            ticks.append(['m0001', 'w', 'b', 'w', ['s', 10 ** 6]])
    return {'kind': 'fwd', 'max': mx, 'connect': connect, 'ticks': ticks,
            'meta': {'reqs': reqs or [], 'segs': [s.hex() for s in segs], 'inq': inq}}


def _simple(host, port, path, method=b'GET', body=None):
    auth = host.encode() + (b'' if port == 80 else b':%d' % port)
    raw = method + b' http://' + auth + path + b' HTTP/1.1\r\nHost: ' + auth + b'\r\n'
    if body is not None:
        raw += b'Content-Length: %d\r\n' % len(body)
    raw += b'\r\n' + (body or b'')
    return {'o': [host, port], 'm': method.hex(), 't': (path or b'/').hex(), 'b': (body or b'').hex(), 'n': len(raw)}, raw


WEB_REGEX = [r'/a$', r'/a/.*', r'/b$', r'/c\d+$', r'/(x|y)$', r'/b/deep', r'/']
WEB_PATHS = [b'/a', b'/a/1', b'/b', b'/c7', b'/x', b'/y', b'/b/deep', b'/nothing', b'/zzz?q=1', b'/a?x=1']


def gen_web_req(rng, path, ka=True, version=b'HTTP/1.1'):
    method = rng.choice([b'GET', b'GET', b'POST', b'PUT'])
    hs = [(b'Host', b'x')]
    if ka is True and rng.random() < 0.6:
        hs.append((rng.choice([b'Connection', b'connection']), rng.choice([b'keep-alive', b'Keep-Alive'])))
    elif ka is False:
        hs.append((b'Connection', b'close'))
    pool = [(b'User-Agent', b'curl/7.88'), (b'Accept', b'*/*'), (b'X-A', b'1')]
    rng.shuffle(pool)
    hs += pool[:rng.randrange(0, 3)]
    hs, pay, body = framed(rng, method, hs)
    raw = method + b' ' + path + b' ' + version + b'\r\n' + b''.join(k + b': ' + v + b'\r\n' for k, v in hs) + b'\r\n' + pay
    return {'m': method.hex(), 't': path.hex(), 'b': body.hex(), 'ka': bool(ka) and version == b'HTTP/1.1', 'n': len(raw),
            'raw': raw.hex()}, raw


def gen_web_plugins(rng):
    regs = list(WEB_REGEX[:-1])
    rng.shuffle(regs)
    n = rng.randrange(1, 4)
    plugins = [[] for _ in range(n)]
    for rx in regs[:rng.randrange(n, 6)]:
        plugins[rng.randrange(n)].append(rx)
    for p in plugins:
        if not p:
            p.append(regs.pop())
    return plugins


def mk_web(rng, n, mode, same_route=True, inq=1):
    plugins = gen_web_plugins(rng)
    routed = [p for p in WEB_PATHS if _route_of(plugins, p) is not None]
    first = rng.choice(routed)
    k0 = _route_of(plugins, first)
    same = [p for p in routed if _route_of(plugins, p) == k0]
    metas, raws = [], []
    for i in range(n):
        if i == 0:
            path = first
        elif same_route:
            path = rng.choice(same)
        else:
            path = rng.choice(WEB_PATHS)
        ka = True if i < n - 1 else rng.choice([True, True, False])
        m, raw = gen_web_req(rng, path, ka)
        metas.append(m)
        raws.append(raw)
    segs = pack(rng, raws, mode)
    return {'kind': 'web', 'plugins': plugins, 'segs': [s.hex() for s in segs],
            'meta': {'reqs': metas, 'segs': [s.hex() for s in segs], 'inq': inq}}


REV_ROUTES = [
    [[r'/a', b'http://ua.example:9001/x'.hex()], [r'/b', b'http://ub.example/y'.hex()]],
    [[r'/a$', b'http://ua.example:9001/x'.hex()], [r'/a/', b'http://ub.example:9002'.hex()], [r'/c', b'http://uc.example:9003/z?q=1'.hex()]],
    [[r'/', b'http://only.example:8000/r'.hex()]],
    [[r'/a', b'http://[::1]:9004/v'.hex()], [r'/b', b'http://[2001:db8::2]/w'.hex()]],
]
REV_PATHS = [b'/a', b'/a/1', b'/b', b'/c', b'/nomatch']
UP_RESP = [b'HTTP/1.1 200 OK\r\nContent-Length: 2\r\n\r\nr1', b'HTTP/1.1 200 OK\r\nContent-Length: 3\r\n\r\nr-2']


def mk_rev(rng, n, mode='one', inq=1):
    routes = rng.choice(REV_ROUTES)
    ok_paths = [p for p in REV_PATHS if any(re.compile(rx).match(p.decode()) for rx, _ in routes)]
    metas, raws = [], []
    for i in range(n):
        path = rng.choice(ok_paths) if (inq or rng.random() < 0.7) else rng.choice(REV_PATHS)
        ka = True if i < n - 1 else rng.choice([True, False])
        m, raw = gen_web_req(rng, path, ka)
        metas.append(m)
        raws.append(raw)
    segs = pack(rng, raws, mode)
    evs = []
    nup = 0
    for s in segs:
        evs.append('c' + s.hex())
        nup += 1
        for _ in range(rng.randrange(0, 3)):
            x = rng.random()
            if x < 0.5:
                evs.append('f')
            else:
                evs.append('u%d.%s' % (rng.randrange(0, max(1, min(nup, n))), rng.choice(UP_RESP).hex()))
    evs.append('f')
    return {'kind': 'rev', 'routes': routes, 'rewrite': rng.randrange(2), 'evs': evs,
            'meta': {'reqs': metas, 'inq': inq}}


# --------------------------------------------------------------------------------------------
# corpus / witnesses
# --------------------------------------------------------------------------------------------

def _wit_fwd(origins, glue):
    ms, raws = [], []
    for i, o in enumerate(origins):
        m, raw = _simple(o[0], o[1], b'/%d' % (i + 1))
        ms.append(m)
        raws.append(raw)
    segs = [raws[0] + raws[1]] + raws[2:] if glue else raws
    return raw_fwd(segs, reqs=ms, inq=1)


def _wit_web(paths, plugins, glue):
    ms, raws = [], []
    for p in paths:
        raw = b'GET ' + p + b' HTTP/1.1\r\nHost: x\r\nConnection: keep-alive\r\n\r\n'
        ms.append({'m': b'GET'.hex(), 't': p.hex(), 'b': '', 'ka': True, 'n': len(raw), 'raw': raw.hex()})
        raws.append(raw)
    segs = [raws[0] + raws[1]] + raws[2:] if glue else raws
    return {'kind': 'web', 'plugins': plugins, 'segs': [s.hex() for s in segs],
            'meta': {'reqs': ms, 'segs': [s.hex() for s in segs], 'inq': 1}}


def _wit_rev(paths):
    ms, evs = [], []
    for p in paths:
        raw = b'GET ' + p + b' HTTP/1.1\r\nHost: x\r\nConnection: keep-alive\r\n\r\n'
        ms.append({'m': b'GET'.hex(), 't': p.hex(), 'b': '', 'ka': True, 'n': len(raw), 'raw': raw.hex()})
        evs += ['c' + raw.hex(), 'f', 'u%d.%s' % (len(ms) - 1, UP_RESP[0].hex())]
    return {'kind': 'rev', 'routes': REV_ROUTES[0], 'rewrite': 0, 'evs': evs, 'meta': {'reqs': ms, 'inq': 1}}


def finding_witnesses():
    A, B = ORIGINS[0], ORIGINS[1]
    return {
        'D13b': _wit_fwd([A, B], False),
        'D13c': _wit_web([b'/a', b'/b'], [[r'/a$'], [r'/b$']], False),
        'D12': _wit_rev([b'/a', b'/a']),
    }


def corpus():
    A, B = ORIGINS[0], ORIGINS[1]
    cs = list(finding_witnesses().values())
    cs.append(_wit_fwd([A, A, A], False))                       # sequential, one origin
    cs.append(_wit_fwd([A, A], True))                           # [A1+A2]: regression of fixed finding D13a
    cs.append(_wit_fwd([A, A, A], True))                        # F1: first + second in one segment
    m1, r1 = _simple('a.example', 80, b'/1')
    m2, r2 = _simple('a.example', 80, b'/2')
    m3, r3 = _simple('a.example', 80, b'/3', b'POST', b'abc')
    cs.append(raw_fwd([r1, r2 + r3, r3], reqs=[m1, m2, m3, m3], inq=1))         # F1: leftover of a follow-up parser
    cs.append(raw_fwd([r1 + r2[:10], r2[10:]], reqs=[m1, m2], inq=1))           # F1: head of 2nd glued to 1st
    cs.append(raw_fwd([r1, r2 + r3[:10], r3[10:]], reqs=[m1, m2, m3], inq=1))   # F1: ... of a follow-up
    cs.append(raw_fwd([r3 + r1], reqs=[m3, m1], inq=1))                         # body + next request
    cs.append(raw_fwd([r1[:20], r1[20:], r2[:5], r2[5:30], r2[30:]], reqs=[m1, m2], inq=1))
    # outside the quantifier: model must still agree
    cs.append(raw_fwd([b'GET\r\n\r\n']))
    cs.append(raw_fwd([b'GET / HTTP/1.1\r\nHost: x\r\n\r\n']))
    cs.append(raw_fwd([b'CONNECT b.example:443 HTTP/1.1\r\n\r\n', b'\x16\x03\x01hello']))
    cs.append(raw_fwd([r1], connect='refused'))
    cs.append(raw_fwd([b'CONNECT b.example:443 HTTP/1.1\r\n\r\n\x16\x03\x01hello', b'more']))     # tunnel data glued to CONNECT
    cs.append(raw_fwd([r1 + b'GARBAGE\r\n\r\n']))                                      # leftover that does not parse
    cs.append(raw_fwd([r1 + r2 + b'GET http://a.example/x HTTP/1.1\r\nContent-Length: zz\r\n\r\n']))
    cs.append(raw_fwd([r1, b'GARBAGE\r\n\r\n']))
    cs.append(raw_fwd([r1, b'GET http://a.example/x HTTP/1.1\r\nContent-Length: zz\r\n\r\n']))
    cs.append(raw_fwd([r1, b'GET http://a.example/ws HTTP/1.1\r\nHost: a.example\r\nConnection: Upgrade\r\nUpgrade: websocket\r\n\r\n',
                       b'\x81\x05hello', b'GET http://a.example/9 HTTP/1.1\r\n\r\n']))
    cs.append(raw_fwd([r1, b'GET http://a.example/ws HTTP/1.1\r\nHost: a.example\r\nConnection: Upgrade\r\n',
                       b'Upgrade: websocket\r\n\r\n', b'\x81\x05hello']))
    up = b'GET http://a.example/ws HTTP/1.1\r\nHost: a.example\r\nConnection: Upgrade\r\nUpgrade: websocket\r\nX-A: 1\r\n\r\n'
    mu = {'o': ['a.example', 80], 'm': b'GET'.hex(), 't': b'/ws'.hex(), 'b': '', 'n': len(up)}
    cs.append(raw_fwd([r1, up[:90], up[90:]], reqs=[m1, mu], inq=1))             # upgrade request in two segments
    cs.append(raw_fwd([r1, b'GET /rel HTTP/1.1\r\nHost: a.example\r\n\r\n', b'CONNECT b.example:443 HTTP/1.1\r\n\r\n']))
    cs.append(raw_fwd([b'GET http://\xff\xfe/ HTTP/1.1\r\n\r\n']))
    cs.append(raw_fwd([b'CONNECT h:0 HTTP/1.1\r\n\r\n']))
    # web
    cs.append(_wit_web([b'/a', b'/a', b'/a'], [[r'/a$'], [r'/b$']], False))
    cs.append(_wit_web([b'/a', b'/a', b'/a'], [[r'/a$'], [r'/b$']], True))
    cs.append(_wit_web([b'/a', b'/nothing'], [[r'/a$'], [r'/b$']], False))
    cs.append(_wit_web([b'/nothing', b'/a'], [[r'/a$'], [r'/b$']], False))
    cs.append({'kind': 'web', 'plugins': [[r'/a$']], 'segs': [b'GET http://h/ HTTP/1.1\r\n\r\n'.hex()],
               'meta': {'reqs': [], 'segs': [], 'inq': 0}})
    cs.append({'kind': 'web', 'plugins': [[r'/a$']], 'segs': [
        b'GET /a HTTP/1.1\r\nHost: x\r\n\r\n'.hex(), b'GET /a HTTP/1.0\r\n\r\n'.hex(), b'GET /a HTTP/1.1\r\n\r\n'.hex()],
        'meta': {'reqs': [], 'segs': [], 'inq': 0}})
    cs.append({'kind': 'web', 'plugins': [[r'/a$']], 'segs': [
        b'GET /a HTTP/1.0\r\nHost: x\r\n\r\n'.hex(), b'GET /a HTTP/1.1\r\n\r\n'.hex()],
        'meta': {'reqs': [], 'segs': [], 'inq': 0}})
    cs.append({'kind': 'web', 'plugins': [[r'/a$']], 'segs': [
        b'GET /a HTTP/1.1\r\nHost: x\r\n\r\n'.hex(), b'BROKEN\r\n\r\n'.hex()], 'meta': {'reqs': [], 'segs': [], 'inq': 0}})
    cs.append({'kind': 'web', 'plugins': [[r'/a$']], 'segs': [
        b'GET /a HTTP/1.1\r\nHost: x\r\n\r\n'.hex(), b'POST /a HTTP/1.1\r\nContent-Length: x\r\n\r\n'.hex()],
        'meta': {'reqs': [], 'segs': [], 'inq': 0}})
    # request paths that are not UTF-8: 400 before any routing (fix eb09b1e), also in front of the reverse proxy
    for path in (b'/a\xff', b'/\xc3', b'/b/\xfe\xff?x=1'):
        cs.append({'kind': 'web', 'plugins': [[r'/a'], [r'/b']], 'segs': [
            (b'GET ' + path + b' HTTP/1.1\r\nHost: x\r\n\r\n').hex(), b'GET /a HTTP/1.1\r\nHost: x\r\n\r\n'.hex()],
            'meta': {'reqs': [], 'segs': [], 'inq': 0}})
        cs.append({'kind': 'web', 'plugins': [[r'/a']], 'segs': [
            b'GET /a HTTP/1.1\r\nHost: x\r\n\r\n'.hex(), (b'GET ' + path + b' HTTP/1.1\r\nHost: x\r\n\r\n').hex()],
            'meta': {'reqs': [], 'segs': [], 'inq': 0}})
        cs.append({'kind': 'rev', 'routes': REV_ROUTES[0], 'rewrite': 0, 'evs': [
            'c' + (b'GET ' + path + b' HTTP/1.1\r\nHost: x\r\n\r\n').hex(), 'f'], 'meta': {'reqs': [], 'inq': 0}})
    cs.append({'kind': 'web', 'plugins': [[r'/a']], 'segs': [
        b'GET /a\xff HTTP/1.1\r\nHost: x\r\nConnection: Upgrade\r\nUpgrade: websocket\r\n\r\n'.hex()],
        'meta': {'reqs': [], 'segs': [], 'inq': 0}})
    cs.append(raw_fwd([b'GET http://a\xffb.example:81/x HTTP/1.1\r\nHost: a\r\n\r\n', b'GET http://a.example/ HTTP/1.1\r\n\r\n']))
    # reverse
    cs.append(_wit_rev([b'/a']))
    cs.append(_wit_rev([b'/a', b'/b', b'/a']))
    w = _wit_rev([b'/a', b'/a'])
    w['evs'] = [w['evs'][0], w['evs'][3], 'f', 'u0.' + UP_RESP[0].hex(), 'u1.' + UP_RESP[1].hex()]
    cs.append(w)                                                   # second request before the first was flushed
    w = _wit_rev([b'/a', b'/nomatch'])
    cs.append(w)
    return cs


def generate(rng, tier):
    big = tier == 'thorough'
    A = ORIGINS[0]
    k = 1 if not big else 28      # thorough stays well under 10 min also on a loaded machine
    # forward: the partial class
    for _ in range(260 * k):
        n = rng.choice([1, 2, 2, 3, 3, 4, 5, 6])
        o = rng.choice(ORIGINS)
        yield mk_fwd(rng, n, [o] * n, rng.choice(['one', 'split', 'split']), mx=rng.choice([None, None, None, 7, 64]),
                     version=rng.choice([b'HTTP/1.1', b'HTTP/1.1', b'HTTP/1.0']))
    # forward: packed / different origins / aborted
    for _ in range(150 * k):
        n = rng.choice([2, 2, 3, 4, 6])
        yield mk_fwd(rng, n, [A] * n, rng.choice(['pairs', 'any']), mx=rng.choice([None, None, 9]))
    for _ in range(100 * k):
        n = rng.choice([2, 3, 4])
        yield mk_fwd(rng, n, [rng.choice(ORIGINS) for _ in range(n)], rng.choice(['one', 'split', 'any']))
    for _ in range(100 * k):
        n = rng.choice([1, 2, 3])
        yield mk_fwd(rng, n, [A] * n, rng.choice(['one', 'split', 'any']), benign=False, mx=rng.choice([None, 5]))
    for _ in range(60 * k):
        yield mk_fwd_upgrade(rng, rng.choice([1, 2, 3]), rng.choice(ORIGINS), rng.choice([0, 0, 1, 3]))
    # web
    for _ in range(220 * k):
        yield mk_web(rng, rng.choice([1, 2, 3, 3, 4, 6]), rng.choice(['one', 'split', 'split']))
    for _ in range(120 * k):
        yield mk_web(rng, rng.choice([2, 3, 4, 6]), rng.choice(['pairs', 'any']))
    for _ in range(120 * k):
        yield mk_web(rng, rng.choice([2, 3, 4]), rng.choice(['one', 'split', 'any']), same_route=False)
    # reverse
    for _ in range(40 * k):
        yield mk_rev(rng, 1, rng.choice(['one', 'split']))
    for _ in range(90 * k):
        yield mk_rev(rng, rng.choice([2, 2, 3, 4]), rng.choice(['one', 'split', 'any']))
    for _ in range(30 * k):
        yield mk_rev(rng, rng.choice([1, 2, 3]), rng.choice(['one', 'any']), inq=0)
    if big:
        # small exhaustive scope: three requests to one origin, every way of cutting the stream into <= 3 segments
        m1, r1 = _simple('a.example', 80, b'/1')
        m2, r2 = _simple('a.example', 80, b'/2', b'POST', b'xy')
        m3, r3 = _simple('a.example', 80, b'/3')
        data = r1 + r2 + r3
        n = len(data)
        for i in range(1, n):
            yield raw_fwd([data[:i], data[i:]], reqs=[m1, m2, m3], inq=1)
        for i in range(1, n, 3):
            for j in range(i + 1, n, 3):
                yield raw_fwd([data[:i], data[i:j], data[j:]], reqs=[m1, m2, m3], inq=1)
        # the same for the web server: every 2-cut and a grid of 3-cuts of three keep-alive requests
        w3 = _wit_web([b'/a', b'/a', b'/a'], [[r'/a$'], [r'/b$']], False)
        wdata = b''.join(bytes.fromhex(x) for x in w3['segs'])
        for i in range(1, len(wdata)):
            segs = [wdata[:i].hex(), wdata[i:].hex()]
            yield dict(w3, segs=segs, meta=dict(w3['meta'], segs=segs))
        for i in range(1, len(wdata), 3):
            for j in range(i + 1, len(wdata), 3):
                segs = [wdata[:i].hex(), wdata[i:j].hex(), wdata[j:].hex()]
                yield dict(w3, segs=segs, meta=dict(w3['meta'], segs=segs))


def neighbours(case):
    if case['kind'] == 'fwd':
        t = case['ticks']
        for i in range(len(t)):
            yield dict(case, ticks=t[:i] + t[i + 1:], meta=dict(case['meta'], inq=0))
    elif case['kind'] == 'web':
        s = case['segs']
        for i in range(len(s)):
            yield dict(case, segs=s[:i] + s[i + 1:], meta=dict(case['meta'], inq=0))


def search(rng):
    return list(generate(rng, 'quick'))


def describe(case):
    out = [case['kind'], '%s requests=%d' % (case['kind'], len(case['meta']['reqs'])),
           '%s in-quantifier=%d' % (case['kind'], in_quantifier(case))]
    if in_quantifier(case):
        cls = finding_classes(case)
        out.append('%s class=%s' % (case['kind'], '+'.join(cls) if cls else 'partial'))
    return out


def nontrivial(case):
    return in_quantifier(case) and len(case['meta']['reqs']) >= 2
