"""C02 — the forwarded HTTP request is semantically identical to the client's.

Correspondence of PxModel/Forward.lean (`Conn.feed`: every client write of a connection — first request,
leftover handed to on_client_data, the _handle_pipeline_data loop over the requests of a write, CONNECT /
upgrade relay, teardown on an exception) with the REAL
HttpProtocolHandler + HttpProxyPlugin driven in-process (harness/sim.py: scripted client socket,
patched connect handing out a socketpair end): the exact bytes the upstream peer reads per
client write vs the model's `fwd conn` output.  Requests are generated from the *specification
side* (the Python mirror of PxModel/ReqSpec.lean `Req` / `render`), cut into segments, and sent
sequentially (a follow-up after the previous response was relayed) or pipelined (neighbouring
requests share a client write).  Observable: what the upstream peer reads after each client write.

Oracle (implementation only): what the upstream received is parsed with h11 (an independent
HTTP/1.1 parser) and compared with the generated request under `semEq (fwdSpec …)`.
"""
import logging

from harness.common import hx
from harness import sim
from harness import httpgen as G

PROPERTY = 'C02'
LEAN_TARGETS = ['PxProofs.C02']
THEOREMS = [
    'Px.Forward.C02_first', 'Px.Forward.C02_later_partial', 'Px.Forward.C02_later_witness_noVia',
    'Px.Forward.C02_connection', 'Px.Forward.C02_headers', 'Px.Forward.C02_no_credentials',
    'Px.Forward.C02_chunked', 'Px.Forward.C02_content_length', 'Px.Forward.C02_content_length_repeated',
    'Px.Forward.C02_via_appended', 'Px.Forward.C02_forwarded_fields_wellformed',
    'Px.Forward.C02_first_request', 'Px.Forward.C02_later_request_partial', 'Px.Forward.C02_no_credentials_request',
    'Px.Forward.parse_render', 'Px.Forward.semEq_impl_spec', 'Px.Forward.parse_pinv', 'Px.Forward.feed_clean',
]
RULE = ('connections of 1-3 requests (sequential, or pipelined with neighbours sharing a client write) generated from the specification-side Req (method, absolute-form target, '
        'version, 0-12 fields with random name casing / OWS incl. Proxy-Authorization, Proxy-Connection, '
        '--disable-headers names and client Via, Content-Length / chunked / no body, chunk layouts incl. 1-byte '
        'chunks, extensions and the empty body), rendered, cut at random / at every position / byte-wise, fed to the '
        'real handler; plus malformed or out-of-quantifier last requests for the correspondence only; distinct by '
        'canonical JSON; non-trivial = every request of the connection inside the property quantifier')
ASSUMPTIONS = [
    'default plugin configuration: no HttpProxyBasePlugin in the chain, no connection pool, no TLS interception, '
    '--enable-proxy-protocol off',
    'theorems C02_first / C02_later_partial / C02_connection: each request arrives in writes of its own (any number '
    'of non-empty pieces, the next request after the previous one\'s last byte); requests sharing a write '
    '(pipelining, /repo 84c574d) are covered by the correspondence runs and the oracle; C02_no_credentials covers '
    'every sequence of writes',
    'an exception inside a client write tears the connection down before the upstream queue is flushed: what was '
    'queued during that write does not reach the origin (model: the write emits nothing, state dead)',
    'CfgOk: --disable-headers does not name via, content-length, transfer-encoding (the operator would remove '
    'framing / the Via the property demands); the re-chunking size is positive',
    'a segment is one non-empty recv() result not larger than the client receive buffer; the schedule respects '
    'get_events() (a handler that stopped reading its client is not handed further segments) and the upstream '
    'socket is writable at once',
    'theorems: scheme http, host = reg-name / IPv4 literal in visible ASCII (IPv6 literals, userinfo: C14), '
    'field names are tokens with case-insensitively unique names, values without CR/LF/control bytes, '
    'Content-Length = 1*DIGIT that int() reads as the body length, chunk sizes 1*HEXDIG, no trailer part (D22), '
    'body length below 10^4300 (CPython int-max-str-digits, LenReadable); the oracle additionally runs IPv6-free '
    'requests with non-ASCII path bytes',
    'h11 (oracle) rejects non-ASCII request targets and HTTP/1.1 requests without Host: such requests are judged '
    'by a minimal RFC 7230 reader written for the oracle instead (recorded in the histogram as reader=rfc); the same '
    'reader judges forwarded messages h11 calls "conflicting Content-Length" because the two spellings differ '
    '(001 and 1): RFC 7230 3.3.2 speaks of the same decimal value',
    'semEq counts equal-valued repetitions of Content-Length once: a client field spelled other than '
    '"Content-Length" is forwarded next to the builder\'s own (C02_content_length_repeated)',
]
EXHAUSTIVE = {}
EXPLANATION = ('theorems quantify over all well-formed requests and all segmentations (through the C03 segmentation '
               'theorem, the C15 codec lemmas and the C14 target lemmas, all imported, none assumed); the runs tie '
               'the model to the code on generated connections')

logging.disable(logging.CRITICAL)


def _warm():
    """Import everything the runs need once, in the parent process, before the engine forks its
    pool (a first FlagParser.initialize per worker costs seconds on a loaded machine)."""
    import h11  # noqa: F401
    import proxy.http.handler  # noqa: F401
    import proxy.http.proxy.server  # noqa: F401
    import proxy.core.connection.server  # noqa: F401
    from proxy.common.flag import FlagParser
    FlagParser.initialize([], threadless=True)
    FlagParser.initialize(['--disable-headers', 'x-a'], threadless=True)


_warm()

CRLF = b'\r\n'
RESPONSES = [
    b'HTTP/1.1 200 OK\r\nContent-Length: 2\r\n\r\nok',
    b'HTTP/1.1 204 No Content\r\n\r\n',
    b'HTTP/1.1 200 OK\r\nTransfer-Encoding: chunked\r\n\r\n3\r\nabc\r\n0\r\n\r\n',
    b'HTTP/1.1 404 Not Found\r\nContent-Length: 0\r\n\r\n',
]
NEVER_DISABLE = (b'via', b'content-length', b'transfer-encoding')


def L(s):
    return s.encode('latin-1')


def S(b):
    return bytes(b).decode('latin-1')


# ---------------------------------------------------------------- specification side (mirror of ReqSpec.lean)

def body_of(spec):
    if 'hex' in spec:
        return bytes.fromhex(spec['hex'])
    n, a, b = spec['n'], spec['a'], spec['b']
    return bytes((a * i + b) & 0xff for i in range(n))


def size_text(n, style):
    t = '%x' % n
    if 'X' in style:
        t = t.upper()
    if 'z' in style:
        t = '0' + t
    if 'Z' in style:
        t = '000' + t
    return t.encode()


def chunks_of(req):
    """[(size text, ext, data)] and (last size text, last ext)"""
    body = body_of(req['body'])
    lay = req['lay']
    out = []
    i = 0
    if 'uni' in lay:
        k = lay['uni']
        while i < len(body):
            d = body[i:i + k]
            out.append((size_text(len(d), lay.get('style', '')), b'', d))
            i += k
    else:
        for n, style, ext in lay['chunks']:
            d = body[i:i + n]
            out.append((size_text(n, style), L(ext), d))
            i += n
        assert i == len(body)
    last = lay.get('last', ['0', ''])
    return out, (L(last[0]), L(last[1]))


def fields_of(req):
    """the field list: the explicit fields, then `hgen` = {'n', 'vlen'}: n generated fields
    `X-Gen-<i>: <vlen bytes>` of normal size (a large header section without a large JSON case)"""
    g = req.get('hgen')
    if not g:
        return req['h']
    out = list(req['h'])
    for i in range(g['n']):
        nm = ('X-Gen-%d' % i) if i % 3 else ('x-gEN-%d' % i)
        out.append([nm, ' ' if i % 5 else '\t ', chr(97 + i % 26) * g['vlen'], '' if i % 7 else ' '])
    return out


def render_target(req):
    if req.get('origin'):
        return L(req['pq'])
    return b'http://' + L(req['host']) + (b':' + L(req['port']) if req.get('port') is not None else b'') + L(req['pq'])


def render(req):
    if 'raw' in req:
        return bytes.fromhex(req['raw'])
    out = L(req['m']) + b' ' + render_target(req) + b' ' + L(req['ver']) + CRLF
    for name, pre, value, post in fields_of(req):
        out += L(name) + b':' + L(pre) + L(value) + L(post) + CRLF
    out += CRLF
    if req['fr'] == 'cl':
        out += body_of(req['body'])
    elif req['fr'] == 'chunked':
        cs, (lsz, lext) = chunks_of(req)
        for sz, ext, d in cs:
            out += sz + ext + CRLF + d + CRLF
        out += lsz + lext + CRLF + CRLF
    return out


def segments(req):
    raw = render(req)
    cuts = req.get('cuts', [])
    if cuts == 'bytes':
        return [raw[i:i + 1] for i in range(len(raw))]
    return [s for s in G.split_at(raw, [c for c in cuts if 0 < c < len(raw)]) if s]


TCHAR = set(b"!#$%&'*+-.^_`|~0123456789abcdefghijklmnopqrstuvwxyzABCDEFGHIJKLMNOPQRSTUVWXYZ")
HEXD = set(b'0123456789abcdefABCDEF')


def _token(x):
    return len(x) > 0 and all(c in TCHAR for c in x)


def _value_ok(v):
    return all((c >= 32 and c != 127) or c == 9 for c in v) and (not v or (v[0] not in b' \t' and v[-1] not in b' \t'))


def _target_bytes(x):
    return all(c >= 33 and c != 127 for c in x)


def _pyint(x, base):
    try:
        return int(x, base)
    except ValueError:
        return None


def _size_line_ok(sz, ext, n):
    return (len(sz) > 0 and all(c in HEXD for c in sz) and _pyint(sz, 16) == n and
            (not ext or ext[:1] == b';') and b'\r' not in ext and b'\n' not in ext)


def wf(req):
    """Python mirror of `Req.WF` (+ absolute-form): is the request inside the property's quantifier?"""
    if 'raw' in req or req.get('origin'):
        return False
    m, host, pq, ver = L(req['m']), L(req['host']), L(req['pq']), L(req['ver'])
    if not _token(m) or m == b'CONNECT':
        return False
    if not host or not all(33 <= c < 127 for c in host) or any(c in b':@/?#[]' for c in host):
        return False
    if req.get('port') is not None:
        p = L(req['port'])
        if not p or not p.isdigit() or len(p) > 4300:
            return False
    if not _target_bytes(pq) or (pq and pq[:1] != b'/'):
        return False
    if ver not in (b'HTTP/1.1', b'HTTP/1.0'):
        return False
    names = []
    for name, pre, value, post in fields_of(req):
        name, pre, value, post = L(name), L(pre), L(value), L(post)
        if not _token(name) or any(c not in b' \t' for c in pre + post) or not _value_ok(value):
            return False
        names.append(name.lower())
    if len(set(names)) != len(names):
        return False
    hd = {L(h[0]).lower(): L(h[2]) for h in fields_of(req)}
    body = body_of(req['body'])
    if req['fr'] == 'none':
        return not body and b'content-length' not in hd and b'transfer-encoding' not in hd
    if req['fr'] == 'cl':
        v = hd.get(b'content-length')
        return (b'transfer-encoding' not in hd and v is not None and len(v) > 0 and v.isdigit() and
                len(v) <= 4300 and int(v) == len(body))
    if req['fr'] == 'chunked':
        if b'content-length' in hd or hd.get(b'transfer-encoding', b'').lower() != b'chunked':
            return False
        cs, (lsz, lext) = chunks_of(req)
        return all(_size_line_ok(sz, ext, len(d)) and len(d) > 0 for sz, ext, d in cs) and _size_line_ok(lsz, lext, 0)
    return False


def via_value():
    from proxy.common.constants import PROXY_AGENT_HEADER_VALUE
    return b'1.1 ' + PROXY_AGENT_HEADER_VALUE


def fwd_spec(req, disable, via):
    """Python mirror of `fwdSpecWith`: (method, origin-form target, version, [(name, value)], body)."""
    pq = L(req['pq'])
    removed = {b'proxy-authorization', b'proxy-connection'} | set(disable)
    kept = [(L(n), L(v)) for n, _, v, _ in fields_of(req) if L(n).lower() not in removed]
    if via:
        if any(n.lower() == b'via' for n, _ in kept):
            kept = [(n, v + b', ' + via_value()) if n.lower() == b'via' else (n, v) for n, v in kept]
        else:
            kept.append((b'Via', via_value()))
    return L(req['m']), pq or b'/', L(req['ver']), kept, body_of(req['body'])


# ---------------------------------------------------------------- the real code

def _args(case):
    dis = case.get('disable') or []
    return ['--disable-headers', ','.join(dis)] if dis else []


def writes_of(case):
    """The client writes of the connection: [(bytes, respond_after)] — the segments of each request in
    order; where `glue[i]` is set the last segment of request i and the first of request i+1 travel in
    one write (pipelining), otherwise the origin answers request i before request i+1 is sent."""
    glue = case.get('glue') or []
    ws = []
    for i, req in enumerate(case['reqs']):
        segs = segments(req)
        if not segs:
            continue
        if ws and i > 0 and i - 1 < len(glue) and glue[i - 1]:
            ws[-1] = (ws[-1][0] + segs[0], False)
            segs = segs[1:]
        for sg in segs:
            ws.append((sg, False))
        ws[-1] = (ws[-1][0], True)
    return ws


def run_conn(case):
    """Drive one client connection through the real handler.  Returns, per client write, the exact bytes
    the upstream peer read after it (b'' = nothing).  The upstream socket is writable at once: whatever
    is queued for it is flushed after every client write that did not tear the connection down."""
    out = []
    with sim.World(args=_args(case), strict=False) as w:
        h, cs, cp = w.new_client()
        dead = False

        def flush_upstream():
            nonlocal dead
            if not w.upstreams:
                return b''
            us, up, _addr = w.upstreams[0]
            upstream = getattr(h.plugin, 'upstream', None)
            for _ in range(4000):
                if dead or upstream is None or upstream.closed or not upstream.has_buffer():
                    break
                if w.tick(h, [], [us.fileno()]) is not False:
                    dead = True
                up.pump()
            up.pump()
            got = bytes(up.inbox)
            del up.inbox[:]
            return got

        ws = writes_of(case)
        nresp = 0
        for k, (seg, respond) in enumerate(ws):
            # the schedule respects get_events(): a handler that no longer reads its client
            # (error response pending, teardown after flush) is not handed further segments
            if not dead and not w.interest(h, cs)[0]:
                dead = True
            if dead:
                out.append(b'')
                continue
            cs.script_recv(('data', seg))
            if w.tick(h, [cs.fileno()], []) is not False:
                dead = True
                out.append(b'')
                continue
            got = flush_upstream()
            out.append(got)
            if dead or not respond or not w.upstreams or k == len(ws) - 1:
                continue
            # the origin answers; the answer is relayed to the client before the next request is sent
            us, up, _addr = w.upstreams[0]
            resp = RESPONSES[(nresp + len(got)) % len(RESPONSES)]
            nresp += 1
            up.send(resp)
            if w.tick(h, [us.fileno()], []) is not False:
                dead = True
                continue
            for _ in range(100):
                if not h.work.has_buffer():
                    break
                r = w.tick(h, [], [cs.fileno()])
                cp.pump()
                if r is not False:
                    dead = True
                    break
            cp.pump()
            del cp.inbox[:]
    return out


def impl(case):
    return ['ok ' + ' '.join(hx(x) for x in run_conn(case))]


def model_lines(case):
    dis = ','.join(L(d).hex() for d in (case.get('disable') or [])) or '-'
    return ['fwd conn %s %s' % (dis, ' '.join(sg.hex() for sg, _ in writes_of(case)))]


def canon(line):
    return line


# ---------------------------------------------------------------- oracle

def _h11_read(raw):
    """(method, target, version, [(raw name, value)], body, trailing) by h11; raises on protocol errors"""
    import h11
    c = h11.Connection(h11.SERVER, max_incomplete_event_size=1 << 22)
    c.receive_data(raw)
    req = None
    body = bytearray()
    while True:
        e = c.next_event()
        if isinstance(e, h11.Request):
            req = e
        elif isinstance(e, h11.Data):
            body += e.data
        elif isinstance(e, h11.EndOfMessage):
            if len(e.headers):
                raise ValueError('trailers')
            break
        else:
            raise ValueError('incomplete message (%r)' % (e,))
    trailing = bytes(c.trailing_data[0])
    return (bytes(req.method), bytes(req.target), b'HTTP/' + bytes(req.http_version),
            [(bytes(k), bytes(v)) for k, v in req.headers.raw_items()], bytes(body), trailing)


def _rfc_read(raw):
    """A minimal RFC 7230 reader for messages h11 refuses for reasons outside this property (non-ASCII
    target bytes, HTTP/1.1 without Host).  Written for the oracle; strict about framing."""
    head, sep, rest = raw.partition(b'\r\n\r\n')
    if not sep:
        raise ValueError('no header block end')
    lines = head.split(b'\r\n')
    parts = lines[0].split(b' ')
    if len(parts) != 3:
        raise ValueError('request line')
    method, target, version = parts
    if not _token(method) or not target or not _target_bytes(target):
        raise ValueError('request line tokens')
    hs = []
    for ln in lines[1:]:
        name, colon, val = ln.partition(b':')
        if not colon or not _token(name):
            raise ValueError('field line %r' % ln)
        val = val.strip(b' \t')
        if not _value_ok(val):
            raise ValueError('field value %r' % val)
        hs.append((name, val))
    hd = {}
    for k, v in hs:
        hd.setdefault(k.lower(), []).append(v)
    if b'transfer-encoding' in hd:
        if [v.lower() for v in hd[b'transfer-encoding']] != [b'chunked']:
            raise ValueError('transfer-encoding')
        body = bytearray()
        while True:
            ln, sep, rest = rest.partition(b'\r\n')
            if not sep:
                raise ValueError('chunk size line')
            sz = ln.split(b';', 1)[0]
            if not sz or any(c not in HEXD for c in sz):
                raise ValueError('chunk size %r' % sz)
            n = int(sz, 16)
            if n == 0:
                if rest[:2] != b'\r\n':
                    raise ValueError('terminator')
                rest = rest[2:]
                break
            if len(rest) < n + 2 or rest[n:n + 2] != b'\r\n':
                raise ValueError('chunk data')
            body += rest[:n]
            rest = rest[n + 2:]
        # duplicates are listed once like h11 does
        return method, target, version, hs, bytes(body), rest
    if b'content-length' in hd:
        vals = set(hd[b'content-length'])
        if len({int(v) for v in vals if v.isdigit()}) != 1 or not all(v.isdigit() for v in vals):
            raise ValueError('content-length')
        n = int(next(iter(vals)))
        if len(rest) < n:
            raise ValueError('short body')
        seen = set()
        hs2 = []
        for k, v in hs:
            if k.lower() == b'content-length':
                if int(v) in seen:
                    continue
                seen.add(int(v))
            hs2.append((k, v))
        return method, target, version, hs2, rest[:n], rest[n:]
    return method, target, version, hs, b'', rest


def read_forwarded(raw):
    """('h11'|'rfc', parsed) or raises"""
    import h11
    try:
        return 'h11', _h11_read(raw)
    except h11.RemoteProtocolError as e:
        msg = str(e)
        if 'illegal request line' in msg or 'Missing mandatory Host' in msg or 'conflicting Content-Length' in msg:
            return 'rfc', _rfc_read(raw)
        raise


def _norm_fields(fields):
    """non-Content-Length fields as a sorted list of (lower name, value) and the set of Content-Length values"""
    other = sorted((k.lower(), v.lower() if k.lower() == b'transfer-encoding' else v)
                   for k, v in fields if k.lower() != b'content-length')
    cl = {_pyint(v, 10) for k, v in fields if k.lower() == b'content-length'}
    return other, cl


def judge(req, disable, stream, first):
    """(None or a failure signature, rest of the stream) for the next request of a connection; `stream` is
    what the origin has received from this request on."""
    sig, rest = _judge(req, disable, stream, first)
    return sig, rest


def _judge(req, disable, got, first):
    if not got:
        return 'nothing-forwarded', b''
    try:
        _reader, (m, t, ver, fields, body, trailing) = read_forwarded(got)
    except Exception as e:      # noqa: BLE001
        return 'forwarded-message-not-wellformed:' + type(e).__name__, b''
    return _compare(req, disable, first, m, t, ver, fields, body), trailing


def _compare(req, disable, first, m, t, ver, fields, body):
    em, et, ever, efields, ebody = fwd_spec(req, disable, True)
    if m != em:
        return 'method-differs'
    if t != et:
        return 'target-differs'
    if ver != ever:
        return 'version-differs'
    if body != ebody:
        return 'decoded-body-differs'
    low = [k.lower() for k, _ in fields]
    if b'proxy-authorization' in low:
        return 'proxy-credentials-forwarded'
    if b'proxy-connection' in low:
        return 'proxy-connection-forwarded'
    if any(k in disable_set(disable) for k in low):
        return 'disabled-header-forwarded'
    want = _norm_fields(efields)
    have = _norm_fields(fields)
    if have != want:
        # is the only difference the missing Via of a follow-up request?
        _m, _t, _v, nfields, _b = fwd_spec(req, disable, False)
        if not first and _norm_fields(nfields) == have and _spelling_ok(fields, nfields):
            return 'follow-up-forwarded-without-via'
        if have[1] != want[1]:
            return 'content-length-fields-differ'
        if sorted(k for k, _ in have[0]) == sorted(k for k, _ in want[0]):
            return 'header-value-differs'
        return 'header-fields-differ'
    if not _spelling_ok(fields, efields):
        return 'header-name-spelling-changed'
    return None


def disable_set(disable):
    return set(disable)


def _spelling_ok(got_fields, want_fields):
    """names intact: every forwarded field other than Via / Content-Length is spelled as the client spelled it"""
    want = {}
    for k, _ in want_fields:
        want[k.lower()] = k
    for k, _ in got_fields:
        if k.lower() in (b'via', b'content-length'):
            continue
        if want.get(k.lower()) != k:
            return False
    return True


def in_quantifier(case):
    return all(wf(r) for r in case['reqs']) and not any(L(d) in NEVER_DISABLE for d in case.get('disable') or [])


def oracle(case):
    if not in_quantifier(case):
        return None
    stream = b''.join(run_conn(case))
    dis = [L(d) for d in case.get('disable') or []]
    sigs = []
    for i, req in enumerate(case['reqs']):
        sig, stream = judge(req, dis, stream, i == 0)
        sigs.append(sig)
        if sig and sig != 'follow-up-forwarded-without-via' and not stream:
            break
    if stream and not any(s and s != 'follow-up-forwarded-without-via' for s in sigs):
        sigs.append('bytes-after-forwarded-message')
    other = [s for s in sigs if s and s != 'follow-up-forwarded-without-via']
    if other:
        return other[0]
    if any(sigs):
        return 'follow-up-forwarded-without-via'
    return None


def classify(case, sig):
    """D10v: exactly "a follow-up request was forwarded without a Via field, everything else equal"."""
    if sig == 'follow-up-forwarded-without-via' and len(case['reqs']) >= 2 and in_quantifier(case):
        return 'D10v'
    return None


def finding_witnesses():
    return {'D10v': _conn([_simple(b'GET', 'example.com', None, '/1', [('Host', ' ', 'example.com', '')]),
                           _simple(b'GET', 'example.com', None, '/2', [('Host', ' ', 'example.com', '')])])}


# ---------------------------------------------------------------- generation

def _simple(m, host, port, pq, hs, fr='none', body=b'', lay=None, ver='HTTP/1.1', cuts=()):
    r = {'m': S(m), 'host': host, 'port': port, 'pq': pq, 'ver': ver, 'h': [list(x) for x in hs], 'fr': fr,
         'body': {'hex': bytes(body).hex()}, 'cuts': list(cuts) if cuts != 'bytes' else 'bytes'}
    if lay is not None:
        r['lay'] = lay
    return r


def _conn(reqs, disable=(), glue=None):
    c = {'kind': 'conn', 'disable': list(disable), 'reqs': reqs}
    if glue and any(glue):
        c['glue'] = [bool(g) for g in glue]
    return c


METHODS = [b'GET', b'POST', b'PUT', b'DELETE', b'OPTIONS', b'PATCH', b'HEAD', b'M-SEARCH', b'FOO', b'get', b'X!y~z']
HOSTS = ['example.com', 'a.b-c.example', 'localhost', '10.1.2.3', 'xn--bcher-kva.example', 'h', 'UPPER.example']
PORTS = [None, None, None, '80', '8080', '1', '65535', '0080']
PATHS = ['/', '/a', '/a/b.txt', '/get?x=1&y=2', '/p%20q', '/a;b=c', '/\xc3\xa9', '/a//b/', '/?', '/a#frag', '', '//x',
         '/http://other/']
DISABLE_SETS = [[], [], ['x-a'], ['cookie', 'x-b-c'], ['user-agent', 'accept-encoding', 'x_under']]
PRE = [' ', ' ', ' ', '', '  ', '\t', ' \t ']
POST = ['', '', '', ' ', '\t ', '  ']


def gen_fields(rng, k, disable):
    pool = [h for h in G.HEADER_POOL]
    rng.shuffle(pool)
    names = pool[:k]
    # make sure the interesting ones show up often
    for special, p in ((b'Proxy-Authorization', 0.35), (b'Proxy-Connection', 0.35), (b'Host', 0.85), (b'Via', 0.15)):
        if special not in names and rng.random() < p:
            names.insert(rng.randrange(len(names) + 1), special)
    for d in disable:
        if rng.random() < 0.7 and all(n.lower() != L(d) for n in names):
            match = [h for h in G.HEADER_POOL if h.lower() == L(d)]
            if match:
                names.insert(rng.randrange(len(names) + 1), match[0])
    out = []
    for nm in names:
        low = nm.lower()
        if low == b'host':
            v = b'example.com'
        elif low == b'via':
            v = rng.choice([b'1.0 fred', b'1.1 a.example, 1.0 b', b'HTTP/1.1 gw'])
        elif low == b'connection':
            v = rng.choice([b'keep-alive', b'close', b'Keep-Alive'])
        else:
            v = rng.choice(G.VALUE_POOL)
        out.append([S(G.rcase(rng, nm)), rng.choice(PRE), S(v), rng.choice(POST)])
    return out


def gen_layout(rng, n, big):
    if n == 0:
        return {'chunks': []}
    if big or rng.random() < 0.15:
        return {'uni': rng.choice([1, 1, 2, 7, 255, 4096] if not big else [4096, 16384, 65535, 100000]),
                'style': rng.choice(['', 'X', 'z'])}
    chunks = []
    left = n
    while left:
        s = min(left, rng.choice([1, 1, 2, 3, 5, 9, 16, 17, 255, 256, 1000, left]))
        ext = rng.choice(['', '', '', ';ext', ';a=b', '; q="x"', ';'])
        chunks.append([s, rng.choice(['', '', 'X', 'z', 'Z', 'Xz']), ext])
        left -= s
    return {'chunks': chunks}


def gen_req(rng, disable, first, nbody=None, allow_upgrade=True):
    m = rng.choice(METHODS)
    fr = rng.choice(['none', 'none', 'cl', 'cl', 'cl0', 'chunked', 'chunked'])
    n = nbody if nbody is not None else rng.choice([0, 1, 2, 5, 17, 100, 200])
    big = n > 4000
    if fr in ('none', 'cl0'):
        n = 0
    if fr == 'cl' and n == 0:
        n = 1
    fields = gen_fields(rng, rng.randrange(0, 10), disable)
    fields = [f for f in fields if L(f[0]).lower() not in (b'content-length', b'transfer-encoding')]
    if not allow_upgrade:
        fields = [f for f in fields if L(f[0]).lower() != b'upgrade']
    if n <= 64 and rng.random() < 0.5:
        body = {'hex': G.rbody(rng, n).hex()}
    else:
        body = {'n': n, 'a': rng.randrange(256), 'b': rng.randrange(256)}
    req = {'m': S(m), 'host': rng.choice(HOSTS), 'port': rng.choice(PORTS), 'pq': rng.choice(PATHS),
           'ver': rng.choice(['HTTP/1.1', 'HTTP/1.1', 'HTTP/1.0']), 'h': fields, 'fr': 'cl' if fr == 'cl0' else fr,
           'body': body}
    pos = rng.randrange(len(fields) + 1)
    if fr in ('cl', 'cl0'):
        txt = str(n) if rng.random() < 0.85 else '0' * rng.randrange(1, 3) + str(n)
        fields.insert(pos, [S(G.rcase(rng, b'Content-Length')), rng.choice(PRE), txt, rng.choice(POST)])
    elif fr == 'chunked':
        fields.insert(pos, [S(G.rcase(rng, b'Transfer-Encoding')), rng.choice(PRE), S(G.rcase(rng, b'chunked')),
                            rng.choice(POST)])
        req['lay'] = gen_layout(rng, n, big)
        if rng.random() < 0.2:
            req['lay']['last'] = [rng.choice(['0', '00', '000']), rng.choice(['', ';last', ';x=y'])]
    raw_len = len(render(req))
    k = rng.choice([0, 0, 1, 1, 2, 3, 5, 8])
    req['cuts'] = G.cuts(rng, raw_len, k)
    return req


BAD_RAW = [
    b'GET / HTTP/1.1\r\nHost: a\r\n\r\n',                                        # origin-form: not a proxy request
    b'GET http://h/ HTTP/1.1\r\nContent-Length: x\r\n\r\n',                      # unreadable length
    b'GET http://h/ HTTP/2.0\r\n\r\n',                                           # unknown version
    b'GET ftp://h/ HTTP/1.1\r\n\r\n',
    b'GET\r\n\r\n',
    b'POST http://h/ HTTP/1.1\r\nTransfer-Encoding: chunked\r\n\r\n-1\r\nX',
    b'POST http://h/ HTTP/1.1\r\nTransfer-Encoding: chunked\r\n\r\nzz\r\n',
    b'GET http://a@b@c/ HTTP/1.1\r\n\r\n',
    b'GET http:/// HTTP/1.1\r\n\r\n',
]
ODD_RAW = [   # accepted and forwarded, but outside the property's quantifier (correspondence only)
    b'POST http://h/ HTTP/1.1\r\nContent-Length: 3\r\ncontent-length: 3\r\n\r\nabc',
    b'POST http://h/ HTTP/1.1\r\nX-A: 1\r\nx-a: 2\r\nX-a: 3\r\n\r\n',
    b'POST http://h/ HTTP/1.1\r\nContent-Length: +3\r\n\r\nabc',
    b'POST http://h/ HTTP/1.1\r\nContent-Length: 3\r\nTransfer-Encoding: chunked\r\n\r\n1\r\na\r\n0\r\n\r\n',
    b'GET http://[::1]:8080/x HTTP/1.1\r\nHost: [::1]\r\n\r\n',
    b'GET http://u:p@h:81/x HTTP/1.1\r\n\r\n',
    b'GET http://h/a\tb HTTP/1.1\r\nX:\x0b v \x0c\r\n\r\n',
    b'GET http://h/ HTTP/1.1\r\nNoColonLine\r\nX : y\r\n\r\n',
    b'GET https://h/x HTTP/1.1\r\nVia: a\r\nVIA: b\r\n\r\n',
    b'POST http://h/ HTTP/1.1\r\nTransfer-Encoding: chunked\r\n\r\n0x3\r\nabc\r\n0\r\n\r\n',
    b'GET http://h?x=1 HTTP/1.1\r\n\r\n',
    b'GET //h/x HTTP/1.1\r\n\r\n',
]


def corpus():
    cs = []
    host = [('Host', ' ', 'example.com', '')]
    # the fixed D25 defect: a client Via must be appended to, not replaced
    cs.append(_conn([_simple(b'POST', 'example.com', '8080', '/a', host + [('Via', ' ', '1.0 fred', ''),
                                                                            ('Content-Length', ' ', '5', '')],
                             'cl', b'hello')]))
    cs.append(_conn([_simple(b'GET', 'example.com', None, '/a', host + [('vIA', '', '1.0 fred, 1.1 x', ' ')])]))
    # the fixed D4b defect: empty chunked body keeps its terminator
    te = ('Transfer-Encoding', ' ', 'chunked', '')
    cs.append(_conn([_simple(b'POST', 'example.com', None, '/', host + [te], 'chunked', b'', {'chunks': []})]))
    cs.append(_conn([_simple(b'POST', 'example.com', None, '/', host + [te], 'chunked', b'', {'chunks': []}),
                     _simple(b'POST', 'example.com', None, '/2', host + [te], 'chunked', b'',
                             {'chunks': [], 'last': ['000', ';l']})]))
    # the fixed D10 defect: credentials on follow-ups
    cred = [('Proxy-Authorization', ' ', 'Basic dXNlcjpwYXNz', ''), ('proxy-connection', '', 'keep-alive', ' ')]
    cs.append(_conn([_simple(b'GET', 'h', None, '/1', host + cred), _simple(b'GET', 'h', None, '/2', cred + host),
                     _simple(b'GET', 'h', None, '/3', cred + host + [('X-A', ' ', '1', '')])], ['x-a']))
    # the Content-Length trap: other casing is forwarded AND Content-Length is added
    cs.append(_conn([_simple(b'POST', 'h', None, '/p', host + [('content-length', ' ', '5', '')], 'cl', b'hello')]))
    cs.append(_conn([_simple(b'POST', 'h', None, '/p', host + [('Content-Length', ' ', '005', '')], 'cl', b'hello')]))
    cs.append(_conn([_simple(b'POST', 'h', None, '/p', host + [('CONTENT-LENGTH', ' ', '0', '')], 'cl', b'')]))
    # chunk layouts, every 2-cut and byte-wise
    msg = _simple(b'POST', 'h', '80', '/c?d', host + [te, ('X-B-C', '\t', 'val with  spaces', ' ')], 'chunked',
                  b'hello world', {'chunks': [[5, '', ''], [1, 'z', ';e=1'], [5, 'X', '']], 'last': ['00', ';t']})
    n = len(render(msg))
    for i in range(1, n):
        cs.append(_conn([dict(msg, cuts=[i])]))
    cs.append(_conn([dict(msg, cuts='bytes')]))
    msg = _simple(b'PUT', 'h', None, '', [('content-length', '', '3', '')] + host, 'cl', b'\r\n\r')
    n = len(render(msg))
    for i in range(1, n):
        cs.append(_conn([dict(msg, cuts=[i])]))
    cs.append(_conn([dict(msg, cuts='bytes'), dict(msg, cuts='bytes')]))
    # past harness failure: the parse error is raised by a middle segment (400 queued, client no longer read)
    raw = b'GET http://h/ HTTP/1.1\r\nContent-Length: x\r\n\r\n'
    cs.append(_conn([{'raw': raw.hex(), 'cuts': [24, 43]}]))
    cs.append(_conn([{'raw': raw.hex(), 'cuts': [16, 43]}]))
    # a request cut inside its request line / inside a header whose next piece carries the rest of the
    # header section plus more than 64 KiB of body (escaped seeded change, round 3)
    for nb in (65535, 65536, 65537, 70000, 131073):
        big = {'n': nb, 'a': 7, 'b': 3}
        rc = _simple(b'POST', 'h', None, '/big', host + [('Content-Length', ' ', str(nb), '')], 'cl')
        rc['body'] = big
        rk = _simple(b'POST', 'h', None, '/big', host + [te], 'chunked', lay={'uni': 16384})
        rk['body'] = big
        for r_, first in ((rc, 7), (rk, 40), (rc, 45), (rk, 12)):
            raw_len = len(render(r_))
            cuts = [first]
            while raw_len - cuts[-1] > 131072:
                cuts.append(cuts[-1] + 131072)
            cs.append(_conn([dict(r_, cuts=cuts)]))
        cs.append(_conn([_simple(b'GET', 'h', None, '/1', host), dict(rc, cuts=[9] + ([9 + 131072] if len(render(rc)) - 9 > 131072 else []))]))
    # header section larger than 64 KiB made of many normal-size fields
    hb = _simple(b'GET', 'h', None, '/hdrs', host)
    hb['hgen'] = {'n': 1500, 'vlen': 40}
    cs.append(_conn([hb]))
    cs.append(_conn([dict(hb, cuts=[5])]))
    cs.append(_conn([dict(hb, cuts=[60, 40000, 90000])]))
    cs.append(_conn([_simple(b'GET', 'h', None, '/1', host), dict(hb, cuts=[30])]))
    # requests sharing a write (pipelining, fixed by 84c574d): all in one write, tail+head in one write
    g1 = _simple(b'GET', 'h', None, '/1', host)
    p2 = _simple(b'POST', 'h', None, '/2', host + [('Content-Length', ' ', '3', '')], 'cl', b'abc')
    c3 = _simple(b'POST', 'h', None, '/3', host + [te], 'chunked', b'xy', {'chunks': [[1, '', ''], [1, '', ';e']]})
    cs.append(_conn([g1, p2, c3], glue=[True, True]))
    cs.append(_conn([c3, g1, p2, g1], glue=[True, True, True]))
    cs.append(_conn([dict(p2, cuts=[30]), dict(c3, cuts=[20, 60]), g1], glue=[True, True]))
    cs.append(_conn([g1, dict(p2, cuts=[10])], ['x-a'], glue=[True]))
    # a complete request followed in the same write by bytes that make the next parse raise: the
    # connection is torn down before the queued request is flushed
    for junk in (b'GARBAGE\r\n\r\n', b'GET ftp://h/ HTTP/1.1\r\n\r\n', b'G', b'GET http://h/x HTTP/1.1\r\nContent-Length: x\r\n\r\n'):
        cs.append(_conn([g1, {'raw': junk.hex(), 'cuts': []}], glue=[True]))
        cs.append(_conn([g1, p2, {'raw': junk.hex(), 'cuts': []}], glue=[False, True]))
    # relay modes: CONNECT tunnel, follow-up upgrade request
    cs.append(_conn([{'raw': b'CONNECT h:443 HTTP/1.1\r\nHost: h:443\r\n\r\n'.hex(), 'cuts': []},
                     {'raw': b'\x16\x03\x01hello'.hex(), 'cuts': [3]}]))
    cs.append(_conn([{'raw': b'CONNECT h:443 HTTP/1.1\r\n\r\n'.hex(), 'cuts': []},
                     {'raw': b'early-data'.hex(), 'cuts': []}], glue=[True]))
    up = _simple(b'GET', 'h', None, '/ws', host + [('Connection', ' ', 'Upgrade', ''), ('Upgrade', ' ', 'websocket', '')])
    cs.append(_conn([g1, up, {'raw': b'\x81\x02hi'.hex(), 'cuts': []}]))
    cs.append(_conn([g1, up, {'raw': b'\x81\x02hi'.hex(), 'cuts': []}], glue=[False, True]))
    for raw in BAD_RAW + ODD_RAW:
        cs.append(_conn([{'raw': raw.hex(), 'cuts': []}]))
        cs.append(_conn([{'raw': raw.hex(), 'cuts': [len(raw) // 2]}]))
        cs.append(_conn([_simple(b'GET', 'h', None, '/1', host), {'raw': raw.hex(), 'cuts': [len(raw) // 3]}]))
    return cs


def generate(rng, tier):
    thorough = tier == 'thorough'
    n_conn = 5000 if thorough else 420
    for _ in range(n_conn):
        disable = rng.choice(DISABLE_SETS)
        k = rng.choice([1, 1, 2, 2, 3])
        reqs = []
        for i in range(k):
            nb = None
            if thorough and rng.random() < 0.03:
                nb = rng.choice([3000, 5000, 20000])
            reqs.append(gen_req(rng, disable, i == 0, nbody=nb, allow_upgrade=(i == k - 1)))
        yield _conn(reqs, disable)
        # the same requests pipelined: neighbours share a write (no answer in between)
        if k > 1 and rng.random() < 0.35:
            glue = [rng.random() < 0.7 for _ in range(k - 1)]
            if rng.random() < 0.3:
                yield _conn([dict(r, cuts=[]) for r in reqs], disable, glue=[True] * (k - 1))
            else:
                yield _conn(reqs, disable, glue=glue)
        # every cut position / byte-wise feeding of small requests
        r0 = reqs[0]
        n = len(render(r0))
        if n <= 220 and rng.random() < (0.12 if thorough else 0.06):
            for i in range(1, n):
                yield _conn([dict(r0, cuts=[i])] + reqs[1:], disable)
        if n <= 400 and rng.random() < 0.25:
            yield _conn([dict(r, cuts='bytes') if len(render(r)) <= 400 else r for r in reqs], disable)
        # a malformed / out-of-quantifier request as the last one (correspondence only)
        if rng.random() < 0.2:
            raw = rng.choice(BAD_RAW + ODD_RAW)
            if rng.random() < 0.5:
                raw = G.mutate(rng, render(rng.choice(reqs)))
            if raw:
                pre = reqs[:rng.randrange(0, len(reqs))]
                yield _conn(pre + [{'raw': raw.hex(), 'cuts': G.cuts(rng, len(raw), rng.choice([0, 1, 2]))}], disable,
                            glue=[rng.random() < 0.4 for _ in pre])
    # large bodies: a handful, benign cuts
    for nb in ([65535, 65536, 70 * 1024, 71000, 131071, 131072, 131073, 200000, 262145] if thorough
               else [65536, 131073]):
        for fr in ('cl', 'chunked'):
            disable = rng.choice(DISABLE_SETS)
            r = _big_req(rng, disable, nb, fr)
            raw_len = len(render(r))
            r['cuts'] = sorted(set(list(range(60000, raw_len, 60000)) + G.cuts(rng, raw_len, 3)))
            yield _conn([r, gen_req(rng, disable, False)], disable)
    # large bodies whose FIRST cut lies inside the request line or inside a header line and whose next
    # piece carries the rest of the header section plus as much body as a recv() can return
    for nb in ([65535, 65536, 65537, 70000, 131073, 200000] if thorough else [65535, 65536, 65537, 70000, 131073]):
        for fr in ('cl', 'chunked'):
            for where in (('line', 'header') if thorough else (rng.choice(['line', 'header']),)):
                disable = rng.choice(DISABLE_SETS)
                r = _big_req(rng, disable, nb, fr)
                r['cuts'] = _early_cut(rng, r, where)
                pos = rng.choice([0, 1]) if thorough else (nb % 2)
                if pos == 0:
                    yield _conn([r, gen_req(rng, disable, False)], disable)
                else:
                    yield _conn([gen_req(rng, disable, True, allow_upgrade=False), r], disable)
    # header sections larger than 64 KiB made of many normal-size fields (and one just below)
    for n, vlen in ([(1500, 40), (700, 90), (1200, 40)] if thorough else [(1500, 40), (1200, 40)]):
        disable = rng.choice(DISABLE_SETS)
        r = gen_req(rng, disable, True, nbody=rng.choice([0, 5, 100]))
        r['hgen'] = {'n': n, 'vlen': vlen}
        raw_len = len(render(r))
        for cuts in ([], _early_cut(rng, r, 'header'), sorted(set(G.cuts(rng, raw_len, 4)))):
            yield _conn([dict(r, cuts=cuts), gen_req(rng, disable, False)], disable)
        yield _conn([gen_req(rng, disable, True, allow_upgrade=False), dict(r, cuts=_early_cut(rng, r, 'line'))], disable)


RECV_MAX = 131072


def _big_req(rng, disable, nb, fr):
    r = gen_req(rng, disable, True, nbody=nb)
    while r['fr'] != fr or body_of(r['body']) == b'':
        r = gen_req(rng, disable, True, nbody=nb)
    return r


def _early_cut(rng, req, where):
    """first cut inside the request line / inside a header line; then pieces as large as recv() allows"""
    raw = render(req)
    eol = raw.index(CRLF)
    end = raw.index(CRLF + CRLF)
    if where == 'line' or end <= eol + 3:
        first = rng.randrange(1, eol + 1)
    else:
        first = rng.randrange(eol + 3, end + 1)      # inside the header block, before the blank line is complete
    cuts = [first]
    while len(raw) - cuts[-1] > RECV_MAX:
        cuts.append(cuts[-1] + RECV_MAX)
    return cuts


def neighbours(case):
    for i, r in enumerate(case['reqs']):
        if 'raw' in r:
            continue
        n = len(render(r))
        if n > 300:
            continue
        for c in range(1, n, max(1, n // 40)):
            reqs = list(case['reqs'])
            reqs[i] = dict(r, cuts=[c])
            yield dict(case, reqs=reqs)
    if len(case['reqs']) > 1:
        yield dict(case, reqs=case['reqs'][:1], glue=[])
        yield dict(case, glue=[True] * (len(case['reqs']) - 1))
        yield dict(case, glue=[])
    yield dict(case, disable=[])


def search(rng):
    return list(generate(rng, 'quick'))


def _reader_of(req):
    import h11
    try:
        _h11_read(render(req))
        return 'h11'
    except h11.RemoteProtocolError:
        return 'rfc'
    except Exception:       # noqa: BLE001
        return 'rfc'


def describe(case):
    out = ['requests=%d' % len(case['reqs']), 'in-quantifier=%d' % in_quantifier(case),
           'disable=%d' % len(case.get('disable') or []), 'shared-writes=%d' % sum(case.get('glue') or [])]
    for i, r in enumerate(case['reqs']):
        if 'raw' in r:
            out.append('raw-request')
            continue
        n = len(body_of(r['body']))
        out.append('%s framing=%s body%s' % ('first' if i == 0 else 'later', r['fr'],
                                             '=0' if n == 0 else '<256' if n < 256 else '<64K' if n < 65536 else '>=64K'))
        segs = r.get('cuts')
        out.append('pieces=%s' % ('bytewise' if segs == 'bytes' else min(len(segs) + 1, 5)))
        low = [L(h[0]).lower() for h in fields_of(r)]
        if r.get('hgen'):
            out.append('header-section>64K' if r['hgen']['n'] * (r['hgen']['vlen'] + 12) > 65536 else 'many-fields')
        for nm in (b'proxy-authorization', b'proxy-connection', b'via'):
            if nm in low:
                out.append('has ' + nm.decode())
        if wf(r):
            out.append('reader=' + _reader_of(r))
    return out


def nontrivial(case):
    return in_quantifier(case)
