import PxModel.Exec
import PxProofs.ExecLemmas
import PxProofs.C05
import PxProofs.ExecRemoteLemmas
/-!
# C10 — every connection's resources are released exactly once, however it ends

Property theorems only; lemmas in `PxProofs/ExecLemmas.lean`.  Same model and
correspondence as C05.  "Released" is about the executor's bookkeeping
(`works`, `registered_events_by_work_ids`, the selector map) and the kernel
descriptor table; which descriptors a work's `shutdown()` closes is the
environment's (`Shutdown.closes`) — for the real `HttpProtocolHandler` in every
role and for every abort point that is what `harness/c10.py` observes on the
implementation (every socket created for the connection is closed).
-/
namespace Px.Exec
open Px.Sel

/-- **C10 release (the cleanup itself).**  After `_cleanup(w)` — whatever
called it, whether or not `shutdown()` raised, whether or not some of `w`'s
descriptors had already left the selector — `w` is in neither `works` nor the
registry, no selector key carries `data = w`, and every descriptor the
environment says `shutdown()` closes is closed and gone from the epoll set. -/
theorem C10_release (x y : Exec) (w : WorkId) (sd : Shutdown) (hi : Inv x) (h : cleanup x w sd = .ok y) :
    Released y w ∧ ∀ fd ∈ sd.closes, (cell y.sk fd).isOpen = false ∧ (cell y.sk fd).interest = none :=
  cleanup_release x y w sd hi h

/-- the bookkeeping never contains anything of a work that is over: in every
reachable state a work id outside `works` has no registry entry and no selector key -/
theorem C10_no_residue {x : Exec} (h : Reach x) (w : WorkId) (hw : w ∉ x.works) : Released x w :=
  released_of_not_mem x (C05_reach_inv h) w hw

/-- **C10 release, every cause.**  After the round in which a work ends —
(1) its task returned `True` or raised, (2) `get_events()` raised,
(3) refreshing its selector events failed in any other way (`failed_work_ids`),
(4) its `initialize()` raised — the work is released; works not concerned stay. -/
theorem C10_release_round (x : Exec) (env : RoundEnv) (hi : Inv x) (ha : ArriveOk x env) :
    ∃ y log, runOnce x env = .ok (y, log) ∧
      (∀ w ∈ log.tasks.map (·.1), (env.beh w).task ≠ .fls → Released y w) ∧
      (∀ w ∈ x.works, (env.beh w).events = .exc → (∀ a, env.arrive = some a → a.fd ≠ w) → Released y w) ∧
      (∀ w ∈ log.failed, (∀ a, env.arrive = some a → a.fd ≠ w) → Released y w) ∧
      (∀ a, env.arrive = some a → a.initRaises = true → Released y a.fd) := by
  obtain ⟨y, log, hr, hiy, hlog, h1, h2, _, _, h5⟩ := runOnce_facts x env hi ha
  refine ⟨y, log, hr, ?_, ?_, ?_, ?_⟩
  · intro w hw ht
    apply released_of_not_mem y hiy
    apply h1 w hw
    unfold teardown
    cases h : (env.beh w).task <;> simp_all
  · intro w hw he hna
    apply released_of_not_mem y hiy
    apply h2 w _ hna
    rw [hlog]
    exact updAll_failed_exc env x.works x w hw he
  · intro w hw hna
    exact released_of_not_mem y hiy w (h2 w hw hna)
  · intro a ha1 hr1
    exact released_of_not_mem y hiy a.fd (h5 a ha1 hr1)

/-- **C10 reaper.**  `_cleanup_inactive` removes exactly the works whose
`is_inactive()` is true, through the same `_cleanup`, and releases each of them. -/
theorem C10_reap (x : Exec) (inactive : WorkId → Bool) (sd : WorkId → Shutdown) (hi : Inv x) :
    ∃ y, reap x inactive sd = .ok y ∧ y.works = x.works.filter (fun v => !inactive v) ∧
      ∀ w, inactive w = true → Released y w := by
  obtain ⟨y, hr, hiy, hw⟩ := reap_ok x inactive sd hi
  refine ⟨y, hr, hw, ?_⟩
  intro w hin
  apply released_of_not_mem y hiy
  rw [hw]
  simp [List.mem_filter, hin]

theorem eq_nil_of_aget_none {ν : Type} (l : List (Int × ν)) (h : ∀ k, aget l k = none) : l = [] := by
  cases l with
  | nil => rfl
  | cons e r =>
    obtain ⟨k, v⟩ := e
    have := h k
    simp [aget_cons] at this

/-- **C10 return to start.**  In every reachable state — after ANY history of connections, in
any number, sequential or concurrent, each ending in any way — in which no connection is alive
any more, the executor's bookkeeping is literally what it was before the first connection was
accepted: `works`, the registry and the selector map are empty.  Hence repeating any history any
number of times cannot grow the bookkeeping (each repetition starts from and returns to the empty
bookkeeping; with other connections alive, `C10_no_residue` says nothing of the finished ones
remains and `C05_noninterference` that the live ones are unaffected). -/
theorem C10_return_to_start {x : Exec} (h : Reach x) (hw : x.works = []) :
    x.registered = [] ∧ x.sk.map = [] := by
  have hi := C05_reach_inv h
  have hreg : ∀ w, aget x.registered w = none := by
    intro w
    cases hr : aget x.registered w with
    | none => rfl
    | some r => have := hi.regWorks w (by rw [hr]; simp); rw [hw] at this; cases this
  refine ⟨eq_nil_of_aget_none _ hreg, eq_nil_of_aget_none _ ?_⟩
  intro fd
  cases hk : aget x.sk.map fd with
  | none => rfl
  | some q =>
    obtain ⟨m, d⟩ := q
    have := hi.mapReg fd m d (by simp [cell, hk])
    simp [regOf, hreg d] at this

/-- the footprint of one connection is the same (empty) before it is accepted and after it is
    cleaned up, whatever happened in between and whatever the other connections do -/
theorem C10_footprint_before_after {x y : Exec} (hx : Reach x) (hy : Reach y) (f : WorkId)
    (hbefore : f ∉ x.works) (hafter : f ∉ y.works) : Released x f ∧ Released y f :=
  ⟨C10_no_residue hx f hbefore, C10_no_residue hy f hafter⟩

/-- the kernel model's allocation is lowest-free: the number handed out is not open and every smaller
    one is (this is why a closed descriptor's number comes back, the D12 family of scenarios) -/
theorem C10_alloc_lowest_free (k : Kernel) :
    k.alloc ∉ k.open_ ∧ ∀ m : Nat, (m : Int) < k.alloc → (m : Int) ∈ k.open_ := alloc_fresh k

/-- non-vacuity: a connection is accepted, registers two descriptors, and its task asks for teardown -/
example : ∃ y log, runOnce (fresh ⟨[5, 6], []⟩)
      { beh := fun _ => ⟨.ok [(5, 1)], .tru, [], ⟨[5], true⟩⟩, ready := [], arrive := some ⟨5, false⟩, prio := [] }
      = .ok (y, log) ∧ y.works = [5] := ⟨_, _, rfl, rfl⟩

/-! ## Remote executors: the raw descriptor received from the acceptor

A remote worker owns the raw descriptor `recv_handle` gave it and must
`os.close()` it exactly once, whichever way the work ends — including a work
whose `initialize()` raised.  (`PxModel/ExecRemote.lean`; tied to the real
`RemoteFdExecutor` by the `remote` cases of `harness/c10.py`.) -/

/-- **C10 remote release.**  A successful `_cleanup` closes the work's raw
descriptor — it is no longer owned afterwards, every other owned descriptor
stays owned — and keeps "owned raw descriptors = ids of live works, each once". -/
theorem C10_remote_release (x y : RExec) (w : WorkId) (sd : Shutdown) (hi : RInv x)
    (h : cleanupR x w sd = .ok y) : w ∉ y.raw ∧ y.raw = x.raw.erase w ∧ RInv y :=
  let r := cleanupR_inv x y w sd hi h; ⟨r.2.1, r.2.2, r.1⟩

/-- **C10 remote, failing `initialize()`.**  A connection whose `initialize()`
raises leaves the set of owned raw descriptors exactly as it was before the
connection arrived: its descriptor was closed on the spot. -/
theorem C10_remote_init_failure (x y : RExec) (a : Arrive) (sd : Shutdown) (hi : RInv x)
    (hnew : a.fd ∉ x.ex.works) (hr : a.initRaises = true) (h : acceptR x a sd = .ok y) :
    y.raw = x.raw ∧ RInv y :=
  let r := acceptR_inv x y a sd hi hnew h; ⟨r.2.1 hr, r.1⟩

/-- **C10 remote, every history.**  After ANY sequence of arrivals (with or
without initialize failure) and clean-ups that the executor survives, the raw
descriptors still open are exactly those of the works still alive; once no
work is left, none is. -/
theorem C10_remote_no_leak (x0 : Exec) (h0 : x0.works = []) (ops : List ROp) (y : RExec)
    (hok : ROpsOk ⟨x0, []⟩ ops) (h : runR ⟨x0, []⟩ ops = .ok y) :
    (∀ f, f ∈ y.raw ↔ f ∈ y.ex.works) ∧ y.raw.Nodup ∧ (y.ex.works = [] → y.raw = []) := by
  have hi : RInv ⟨x0, []⟩ := ⟨List.nodup_nil, by intro f; simp [h0]⟩
  have hy := runR_inv ops _ y hi hok h
  refine ⟨hy.2, hy.1, ?_⟩
  intro hw
  cases hr : y.raw with
  | nil => rfl
  | cons f l =>
    have := (hy.2 f).1 (by rw [hr]; exact List.mem_cons_self)
    rw [hw] at this; cases this

/-- non-vacuity: an arrival that fails to initialize between two that do not, then one clean-up -/
example : (runR ⟨fresh ⟨[5, 6, 7], []⟩, []⟩
    [.arrive ⟨5, false⟩ ⟨[], false⟩, .arrive ⟨6, true⟩ ⟨[6], true⟩, .arrive ⟨7, false⟩ ⟨[], false⟩,
     .clean 5 ⟨[5], false⟩]).toOption.map (·.raw) = some [7] := by
  decide +kernel

end Px.Exec
