import PxProofs.ParserLemmasC
/-!
# Lemmas about the HTTP parser model for C03, part D

`closeDelimited` (the excluded framing) and the central induction
`go_append`: the `parse` loop on `u ++ b` equals the loop on `u` followed by the
loop (as started by the next `parse` call) on what was left `++ b` — phase by
phase: body (`go_append_body`, using the chunk decoder's `parse_append`),
headers (`go_append_hdr`), start line (`go_append_line`).
-/
namespace Px.Parser
open Px.Chunk (Chunk)

/-- The framing for which the answer of the real parser legitimately depends on
    segmentation: a response past its header block with neither
    `Transfer-Encoding: chunked` nor a `Content-Length` header, still reading
    (a close-delimited body). -/
def closeDelimited (q : Parser) : Bool :=
  q.ty == .response && (q.state == .headersComplete || q.state == .rcvingBody) &&
    !q.isChunked && !hasHeader q (b "content-length")

/-- feed `b` after a finished loop: what `parse` does on the next call -/
def resume (cfg : Cfg) (b : Bytes) (x : Except Err (Parser × Bytes)) : Except Err (Parser × Bytes) :=
  match x with
  | .error e => .error e
  | .ok R => go cfg R.1 (R.2 ++ b)

theorem core_body {cfg : Cfg} {p : Parser} (u : Bytes) (h : p.state = .headersComplete ∨ p.state = .rcvingBody) :
    core cfg p u = processBody p u := by
  rcases h with h | h <;> simp [core, h, PState.num]

theorem core_hdr {cfg : Cfg} {p : Parser} (u : Bytes) (h : p.state = .lineRcvd ∨ p.state = .rcvingHeaders) :
    core cfg p u = processHeaders (u.length + 1) p u := by
  rcases h with h | h <;> simp [core, h, PState.num]

theorem core_line {cfg : Cfg} {p : Parser} (u : Bytes) (h : p.state = .initialized) :
    core cfg p u = processLine cfg p u := by
  simp [core, h, PState.num]

theorem post_chunked {q : Parser} (m : Bool) (r : Bytes) (hc : q.isChunked = true)
    (hs : q.state ≠ .lineRcvd) : post (q, m, r) = (q, m, r) := by
  unfold post
  have a : (q.state == .lineRcvd) = false := by simp [hs]
  simp [a, hc]

theorem post_expected {q : Parser} (m : Bool) (r : Bytes) (hc : q.contentExpected = true)
    (hs : q.state ≠ .lineRcvd) : post (q, m, r) = (q, m, r) := by
  unfold post
  have a : (q.state == .lineRcvd) = false := by simp [hs]
  simp [a, hc]

/-- a close-delimited response swallows whatever follows as body -/
theorem go_closeDelimited (cfg : Cfg) {q : Parser} (x : Bytes) (hi : Inv q)
    (hs : q.state = .headersComplete ∨ q.state = .rcvingBody) (hc : q.isChunked = false)
    (he : q.contentExpected = false) :
    go cfg q x = .ok ({ q with state := .rcvingBody, body := some x }, []) := by
  have hnc : q.state ≠ .complete := by rcases hs with h | h <;> simp [h]
  rw [go_unfold cfg x hi hnc, stepOnce_eq, core_body x hs, processBody_neither hc he]
  simp only [Except.map]
  rw [post_other _ _ (by simp) (by simp), next_stop cfg _ (.inl rfl)]

theorem closeDelimited_of {q : Parser} (x : Bytes) (ht : q.ty = .response) (hc : q.isChunked = false)
    (hh : hasHeader q (b "content-length") = false) :
    closeDelimited { q with state := .rcvingBody, body := some x } = true := by
  unfold closeDelimited
  have h2 : hasHeader { q with state := .rcvingBody, body := some x } (b "content-length") = false := hh
  rw [h2]
  simp [ht, hc]

theorem resume_ok (cfg : Cfg) (b : Bytes) (q : Parser) (r : Bytes) :
    resume cfg b (.ok (q, r)) = go cfg q (r ++ b) := rfl

theorem go_append_body (cfg : Cfg) {P : Parser} {u b : Bytes} (hi : Inv P)
    (hst : P.state = .headersComplete ∨ P.state = .rcvingBody) (hu : u ≠ []) (hb : b ≠ [])
    (hg : ∀ Q r, go cfg P (u ++ b) = .ok (Q, r) → closeDelimited Q = false) :
    go cfg P (u ++ b) = resume cfg b (go cfg P u) := by
  have hnc : P.state ≠ .complete := by rcases hst with h | h <;> simp [h]
  have hnl : P.state ≠ .lineRcvd := by rcases hst with h | h <;> simp [h]
  obtain ⟨hic, hfr⟩ := id hi
  by_cases hch : P.isChunked = true
  · have hwf := chunk_getD_wf hic
    have happ := Px.Chunk.parse_append (hwf.live u) b
    rw [go_unfold cfg (u ++ b) hi hnc, go_unfold cfg u hi hnc, stepOnce_eq, stepOnce_eq,
      core_body _ hst, core_body _ hst, processBody_chunked hch, processBody_chunked hch, happ]
    cases hp : Px.Chunk.parse (P.chunk.getD Px.Chunk.init) u with
    | error e => rfl
    | ok t =>
      obtain ⟨c1, r1⟩ := t
      obtain ⟨hwf1, hrem⟩ := Px.Chunk.parse_wf (hwf.live u) hp
      by_cases hcc : c1.state = .complete
      · rw [Px.Chunk.andThen_complete hcc]
        simp only [hcc, beq_self_eq_true, if_true, Except.map]
        have e1 : ∀ m r, post ({ P with chunk := some c1, body := some c1.body, state := .complete }, m, r) =
            ({ P with chunk := some c1, body := some c1.body, state := .complete }, m, r) :=
          fun m r => post_other m r (by simp) (by simp)
        rw [e1, e1, next_stop cfg _ (.inl rfl), next_stop cfg _ (.inl rfl), resume_ok, go_done cfg _ rfl]
      · have hr1 : r1 = [] := by
          false_or_by_contra; rename_i h; exact hcc (hrem h)
        subst hr1
        rw [Px.Chunk.andThen_ok_nil]
        have hcf : (c1.state == .complete) = false := by simp [hcc]
        simp only [hcf, Bool.false_eq_true, if_false, Except.map]
        have hi1 : Inv { P with chunk := some c1 } :=
          ⟨⟨fun c hc => by simp only [Option.some.injEq] at hc; exact hc ▸ hwf1, hic.clOk,
            hic.bodyLt, hic.early, hic.line⟩, fun _ => .inl hch⟩
        rw [post_chunked (q := { P with chunk := some c1 }) _ _ hch hnl, next_stop cfg _ (.inl rfl),
          resume_ok, List.nil_append,
          go_unfold cfg b hi1 hnc, stepOnce_eq, core_body (p := { P with chunk := some c1 }) _ hst,
          processBody_chunked (p := { P with chunk := some c1 }) hch]
        rfl
  · simp only [Bool.not_eq_true] at hch
    by_cases hce : P.contentExpected = true
    · obtain ⟨clv, cl, h1, h2, h3⟩ := hic.clOk hce
      have hlt := hic.bodyLt hnc hce clv cl h1 h2
      have hlt' : ((P.body.getD []).length : Int) < cl := hlt
      rw [go_unfold cfg (u ++ b) hi hnc, go_unfold cfg u hi hnc, stepOnce_eq, stepOnce_eq,
        core_body _ hst, core_body _ hst, processBody_cl hch hce h1 h2 hlt,
        processBody_cl hch hce h1 h2 hlt]
      simp only [Except.map, Int.ofNat_eq_natCast]
      generalize hk : (cl - ((P.body.getD []).length : Int)).toNat = k
      have hkk : (k : Int) = cl - ((P.body.getD []).length : Int) := by
        rw [← hk]; exact Int.toNat_of_nonneg (by omega)
      have hue : u.isEmpty = false := by simp [hu]
      have hube : (u ++ b).isEmpty = false := by simp [hu]
      have hbe : b.isEmpty = false := by simp [hb]
      by_cases hshort : u.length < k
      · have htu : u.take k = u := List.take_of_length_le (by omega)
        have hdu : u.drop k = [] := List.drop_eq_nil_of_le (by omega)
        have htb : (u ++ b).take k = u ++ b.take (k - u.length) := by rw [List.take_append, htu]
        have hdb : (u ++ b).drop k = b.drop (k - u.length) := by
          rw [List.drop_append, hdu, List.nil_append]
        rw [htu, hdu, htb, hdb]
        have hst1 : (!(P.body.getD [] ++ u).isEmpty &&
            (((P.body.getD [] ++ u).length : Nat) : Int) == cl) = false := by
          have : ((((P.body.getD [] ++ u).length : Nat) : Int) == cl) = false := by
            simp only [beq_eq_false_iff_ne, ne_eq, List.length_append]; omega
          rw [this, Bool.and_false]
        simp only [hst1, Bool.false_eq_true, if_false, hue, hube, Bool.not_false]
        have hlt1 : Int.ofNat ((some (P.body.getD [] ++ u)).getD []).length < cl := by
          simp only [Option.getD_some, List.length_append, Int.ofNat_eq_natCast]; omega
        have hi1 : Inv { P with state := .rcvingBody, body := some (P.body.getD [] ++ u) } := by
          refine ⟨⟨hic.chunkWF, hic.clOk, ?_, fun hn => by simp [PState.num] at hn,
            fun hn => by simp [PState.num] at hn⟩, fun _ => .inr (.inl hce)⟩
          intro _ _ clv' cl' h1' h2'
          have : clv' = clv := header_inj h1' h1
          subst this
          rw [h2] at h2'; simp only [Option.some.injEq] at h2'; subst h2'
          exact hlt1
        have hnc1 : ({ P with state := .rcvingBody, body := some (P.body.getD [] ++ u) } : Parser).state ≠
            .complete := by simp
        have epost : ∀ (x : Bytes) m r, post ({ P with state := .rcvingBody, body := some x }, m, r) =
            ({ P with state := .rcvingBody, body := some x }, m, r) :=
          fun x m r => post_other m r (by simp) (by simp)
        have hgo1 : go cfg { P with state := .rcvingBody, body := some (P.body.getD [] ++ u) } [] =
            .ok ({ P with state := .rcvingBody, body := some (P.body.getD [] ++ u) }, []) := by
          rw [go_unfold cfg [] hi1 hnc1, stepOnce_eq, core_body _ (.inr rfl),
            processBody_cl (p := { P with state := .rcvingBody, body := some (P.body.getD [] ++ u) })
              hch hce h1 h2 hlt1]
          simp only [Except.map, Option.getD_some, List.take_nil, List.append_nil, List.drop_nil,
            List.isEmpty_nil, Bool.not_true, Int.ofNat_eq_natCast, hst1, Bool.false_eq_true, if_false]
          rw [epost, next_stop cfg _ (.inl rfl)]
        rw [epost, next_go cfg _ hnc1, hgo1, resume_ok, List.nil_append, go_unfold cfg b hi1 hnc1,
          stepOnce_eq, core_body _ (.inr rfl),
          processBody_cl (p := { P with state := .rcvingBody, body := some (P.body.getD [] ++ u) })
            hch hce h1 h2 hlt1]
        have hk1 : (cl - (((P.body.getD [] ++ u).length : Nat) : Int)).toNat = k - u.length := by
          simp only [List.length_append]; omega
        simp only [hk1, Except.map, Option.getD_some, List.append_assoc, hbe, Bool.not_false,
          Int.ofNat_eq_natCast]
      · have hle : k ≤ u.length := by omega
        have htb : (u ++ b).take k = u.take k := List.take_append_of_le_length hle
        have hdb : (u ++ b).drop k = u.drop k ++ b := List.drop_append_of_le_length hle
        rw [htb, hdb]
        have hst1 : (!(P.body.getD [] ++ u.take k).isEmpty &&
            (((P.body.getD [] ++ u.take k).length : Nat) : Int) == cl) = true := by
          have hl : (P.body.getD [] ++ u.take k).length = (P.body.getD []).length + k := by
            simp only [List.length_append, List.length_take]; omega
          have hne : (P.body.getD [] ++ u.take k) ≠ [] := by
            intro he; rw [he] at hl; simp only [List.length_nil] at hl; omega
          simp only [Bool.and_eq_true, Bool.not_eq_true', List.isEmpty_eq_false_iff, ne_eq, hne,
            not_false_eq_true, beq_iff_eq, true_and, hl]
          omega
        simp only [hst1, if_true]
        have epost : ∀ m r, post ({ P with body := some (P.body.getD [] ++ u.take k), state := .complete }, m, r) =
            ({ P with body := some (P.body.getD [] ++ u.take k), state := .complete }, m, r) :=
          fun m r => post_other m r (by simp) (by simp)
        rw [epost, epost, next_stop cfg _ (.inr rfl), next_stop cfg _ (.inr rfl), resume_ok,
          go_done cfg _ rfl]
    · simp only [Bool.not_eq_true] at hce
      exfalso
      rcases hfr hst with h | h | ⟨hty, hh⟩
      · simp [hch] at h
      · simp [hce] at h
      · have := hg _ _ (go_closeDelimited cfg (u ++ b) hi hst hch hce)
        rw [closeDelimited_of _ hty hch hh] at this
        simp at this

theorem go_append_hdr (cfg : Cfg) {P : Parser} {u b : Bytes} (hi : Inv P)
    (hst : P.state = .lineRcvd ∨ P.state = .rcvingHeaders) (hb : b ≠ [])
    (hg : ∀ Q r, go cfg P (u ++ b) = .ok (Q, r) → closeDelimited Q = false) :
    go cfg P (u ++ b) = resume cfg b (go cfg P u) := by
  have hnc : P.state ≠ .complete := by rcases hst with h | h <;> simp [h]
  have hnh : P.state ≠ .headersComplete := by rcases hst with h | h <;> simp [h]
  obtain ⟨hic, hfr⟩ := id hi
  have hW : go cfg P (u ++ b) =
      (match (processHeaders ((u ++ b).length + 1) P (u ++ b)).map post with
        | .error e => .error e
        | .ok t => next cfg t) := by
    rw [go_unfold cfg _ hi hnc, stepOnce_eq, core_hdr _ hst]
    rfl
  rw [go_unfold cfg u hi hnc, stepOnce_eq, core_hdr _ hst]
  obtain ⟨herr, hok⟩ := processHeaders_append (u.length + 1) ((u ++ b).length + 1) P u b hnh
    (by omega) (by omega) hb
  cases hp : processHeaders (u.length + 1) P u with
  | error e => rw [hW, herr e hp]; rfl
  | ok t =>
    obtain ⟨Q1, m1, r1⟩ := t
    obtain ⟨hq, hs⟩ := hok Q1 m1 r1 hp
    obtain ⟨hi1, hty1, hc1⟩ := processHeaders_spec _ hst hic (by omega) hp
    simp only [Except.map]
    rcases hc1 with ⟨hQ, hm⟩ | ⟨hQ, hm, hsp⟩
    · have hnc1 : Q1.state ≠ .complete := by simp [hQ]
      have hnl1 : Q1.state ≠ .lineRcvd := by simp [hQ]
      rw [hq hQ] at hW
      simp only [Except.map] at hW
      by_cases hexp : Q1.contentExpected = true ∨ Q1.isChunked = true
      · have ep : ∀ m r, post (Q1, m, r) = (Q1, m, r) := by
          intro m r
          rcases hexp with h | h
          · exact post_expected m r h hnl1
          · exact post_chunked m r h hnl1
        have hI1 : Inv Q1 := ⟨hi1, fun _ => by
          rcases hexp with h | h
          · exact .inr (.inl h)
          · exact .inl h⟩
        rw [ep, next_go cfg _ hnc1] at hW
        rw [ep, hW]
        by_cases hr : r1 = []
        · subst hr
          have : m1 = false := by simp [hm]
          subst this
          rw [next_stop cfg _ (.inl rfl), resume_ok]
        · have : m1 = true := by simp [hm, hr]
          subst this
          rw [next_go cfg _ hnc1]
          exact go_append_body cfg hI1 (.inl hQ) hr hb (fun Q r h => hg Q r (hW.trans h))
      · have hce : Q1.contentExpected = false := by
          cases h : Q1.contentExpected with
          | false => rfl
          | true => exact absurd (.inl h) hexp
        have hch : Q1.isChunked = false := by
          cases h : Q1.isChunked with
          | false => rfl
          | true => exact absurd (.inr h) hexp
        by_cases hB : Q1.ty = .request ∨ hasHeader Q1 (Px.b "content-length") = true
        · have ep : ∀ m r, post (Q1, m, r) = ({ Q1 with state := .complete }, m, r) := by
            intro m r
            unfold post
            rcases hB with h | h <;> simp [hQ, hce, hch, h]
          rw [ep, next_stop cfg _ (.inr rfl)] at hW
          rw [ep, hW, next_stop cfg _ (.inr rfl), resume_ok, go_done cfg _ rfl]
        · exfalso
          have hty : Q1.ty = .response := by
            cases h : Q1.ty with
            | request => exact absurd (.inl h) hB
            | response => rfl
          have hh : hasHeader Q1 (Px.b "content-length") = false := by
            cases h : hasHeader Q1 (Px.b "content-length") with
            | false => rfl
            | true => exact absurd (.inr h) hB
          have hne : (r1 ++ b).isEmpty = false := by simp [hb]
          have ep : post (Q1, true, r1 ++ b) = (Q1, true, r1 ++ b) := by
            unfold post
            simp [hQ, hce, hch, hty, hh, hne]
          have hI1 : Inv Q1 := ⟨hi1, fun _ => .inr (.inr ⟨hty, hh⟩)⟩
          rw [ep, next_go cfg _ hnc1, go_closeDelimited cfg _ hI1 (.inl hQ) hch hce] at hW
          have := hg _ _ hW
          rw [closeDelimited_of _ hty hch hh] at this
          simp at this
    · have hnq : Q1.state ≠ .headersComplete := by rcases hQ with h | h <;> simp [h]
      have hnc1 : Q1.state ≠ .complete := by rcases hQ with h | h <;> simp [h]
      have hI1 : Inv Q1 := ⟨hi1, fun h => by
        rcases h with h | h <;> rcases hQ with h' | h' <;> simp [h'] at h⟩
      subst hm
      have hcr : (r1 == CRLF) = false := by
        cases h : r1 == CRLF with
        | false => rfl
        | true =>
          have : r1 = CRLF := by simpa using h
          rw [this] at hsp; simp [CRLF, splitCRLF] at hsp
      have ep : post (Q1, false, r1) = (Q1, false, r1) := by
        unfold post
        have : (Q1.state == .headersComplete) = false := by simp [hnq]
        simp [hcr, this]
      rw [ep, next_stop cfg _ (.inl rfl), resume_ok, go_unfold cfg (r1 ++ b) hI1 hnc1, stepOnce_eq,
        core_hdr _ hQ, hW, hs hnq]
      rfl

/-- after the start line: the header-less-response special case of `parse` agrees with
    running the header automaton on the same bytes -/
theorem next_post_lineRcvd (cfg : Cfg) {Q1 : Parser} (hs : Q1.state = .lineRcvd) (hi1 : InvCore Q1)
    (x : Bytes) : next cfg (post (Q1, true, x)) = go cfg Q1 x := by
  obtain ⟨hce, hch, _⟩ := hi1.line (by simp [hs, PState.num])
  have hnc : Q1.state ≠ .complete := by simp [hs]
  by_cases hx : (Q1.ty == .response && x == CRLF) = true
  · simp only [Bool.and_eq_true, beq_iff_eq] at hx
    obtain ⟨hty, rfl⟩ := hx
    have ep : post (Q1, true, CRLF) = ({ Q1 with state := .complete }, true, []) := by
      unfold post; simp [hs, hty]
    have hI1 : Inv Q1 := ⟨hi1, fun h => by rcases h with h | h <;> simp [hs] at h⟩
    rw [ep, next_stop cfg _ (.inr rfl), go_unfold cfg _ hI1 hnc, stepOnce_eq, core_hdr _ (.inl hs)]
    have hsp : splitCRLF CRLF = some ([], []) := rfl
    have hh : hdrStep Q1 [] = .ok { Q1 with state := .headersComplete } := by
      unfold hdrStep; simp [hs, strip, rstrip, lstrip]
    have hph : processHeaders (CRLF.length + 1) Q1 CRLF =
        .ok ({ Q1 with state := .headersComplete }, false, []) := by
      rw [processHeaders_succ, hsp]; simp only [hh]; rfl
    rw [hph]
    simp only [Except.map]
    have ep2 : post ({ Q1 with state := .headersComplete }, false, []) =
        ({ Q1 with state := .complete }, false, []) := by
      unfold post; simp [hce, hch]
    rw [ep2, next_stop cfg _ (.inl rfl)]
  · have ep : post (Q1, true, x) = (Q1, true, x) := by
      unfold post
      have h2 : (Q1.state == .headersComplete) = false := by simp [hs]
      simp only [Bool.not_eq_true] at hx
      simp only [hs, beq_self_eq_true, Bool.and_true] at hx ⊢
      simp [hx]
    rw [ep, next_go cfg _ hnc]

theorem go_append_line (cfg : Cfg) {P : Parser} {u b : Bytes} (hi : Inv P)
    (hst : P.state = .initialized) (hb : b ≠ [])
    (hg : ∀ Q r, go cfg P (u ++ b) = .ok (Q, r) → closeDelimited Q = false) :
    go cfg P (u ++ b) = resume cfg b (go cfg P u) := by
  have hnc : P.state ≠ .complete := by simp [hst]
  obtain ⟨hic, hfr⟩ := id hi
  have hW : go cfg P (u ++ b) =
      (match (match splitCRLF (u ++ b) with
          | none => Except.ok (P, false, u ++ b)
          | some (line, rest) => (lineStep cfg P line).map (fun q => (q, !rest.isEmpty, rest))).map post with
        | .error e => .error e
        | .ok t => next cfg t) := by
    rw [go_unfold cfg _ hi hnc, stepOnce_eq, core_line _ hst, processLine_eq]
    rfl
  rw [go_unfold cfg u hi hnc, stepOnce_eq, core_line _ hst, processLine_eq]
  cases hsp : splitCRLF u with
  | none =>
    simp only [Except.map]
    rw [post_other _ _ (by simp [hst]) (by simp [hst]), next_stop cfg _ (.inl rfl), resume_ok]
  | some pr =>
    obtain ⟨line, rest⟩ := pr
    rw [splitCRLF_append_some hsp b] at hW
    simp only at hW ⊢
    cases hl : lineStep cfg P line with
    | error e => rw [hW, hl]; rfl
    | ok Q1 =>
      obtain ⟨hs1, hf1⟩ := lineStep_spec hl
      have hi1 := invCore_lineRcvd hic hst hs1 hf1
      have hI1 : Inv Q1 := ⟨hi1, fun h => by rcases h with h | h <;> simp [hs1] at h⟩
      have hne : (rest ++ b).isEmpty = false := by simp [hb]
      rw [hl] at hW
      simp only [Except.map, hne, Bool.not_false] at hW ⊢
      rw [next_post_lineRcvd cfg hs1 hi1] at hW
      rw [hW]
      by_cases hr : rest = []
      · subst hr
        have ep : post (Q1, false, []) = (Q1, false, []) := by
          unfold post
          have h2 : (Q1.state == .headersComplete) = false := by simp [hs1]
          have h3 : (([] : Bytes) == CRLF) = false := by simp [CRLF]
          simp [h2, h3]
        simp only [List.isEmpty_nil, Bool.not_true]
        rw [ep, next_stop cfg _ (.inl rfl), resume_ok]
      · have : rest.isEmpty = false := by simp [hr]
        simp only [this, Bool.not_false]
        rw [next_post_lineRcvd cfg hs1 hi1]
        exact go_append_hdr cfg hI1 (.inl hs1) hb (fun Q r h => hg Q r (hW.trans h))

/-- **the loop on `u ++ b` = the loop on `u`, then (as the next `parse` call does) on what it left ++ `b`** -/
theorem go_append (cfg : Cfg) {P : Parser} {u b : Bytes} (hi : Inv P) (hu : u ≠ []) (hb : b ≠ [])
    (hg : ∀ Q r, go cfg P (u ++ b) = .ok (Q, r) → closeDelimited Q = false) :
    go cfg P (u ++ b) = resume cfg b (go cfg P u) := by
  cases hst : P.state with
  | initialized => exact go_append_line cfg hi hst hb hg
  | lineRcvd => exact go_append_hdr cfg hi (.inl hst) hb hg
  | rcvingHeaders => exact go_append_hdr cfg hi (.inr hst) hb hg
  | headersComplete => exact go_append_body cfg hi (.inl hst) hu hb hg
  | rcvingBody => exact go_append_body cfg hi (.inr hst) hu hb hg
  | complete => rw [go_done cfg _ hst, go_done cfg _ hst, resume_ok, go_done cfg _ hst]
end Px.Parser
