import PxProofs.PersistReq
import PxProofs.PersistWeb
/-!
# C04 — each request on a persistent connection is answered in order by the right origin

Property theorems; helper lemmas are in `PxProofs/Persist{Lemmas,Refine,Seg,Port,Web,Req}.lean`.
The model (`PxModel/Persist.lean`, over `Relay.lean`, `Parser.lean`, `Build.lean`, `Forward.lean`,
`Connect.lean`, `Reverse.lean`) is tied to `proxy/http/handler.py`, `proxy/http/proxy/server.py`,
`proxy/http/server/web.py`, `proxy/http/server/reverse.py`, `proxy/core/base/tcp_upstream.py` by the
correspondence check `harness/c04.py`.

## The full statement (NOT claimed)

`C04_full`: for every list of well-formed requests `r₁ … rₙ` sent on one client connection to
the forward proxy / web server / reverse proxy, for EVERY way of cutting the byte stream
`render r₁ ++ … ++ render rₙ` into TCP segments and every benign schedule, the i-th request is
handed — exactly once, in order — to the origin / route that `rᵢ` names, the client receives the
responses in request order, and the proxy does not tear the connection down.

It does not hold for the code as it is; the theorems `C04_witness_F1 … F4` below exhibit, on the
model (kernel-evaluated), a concrete history for each of the four violated classes:

* F1 (finding D13a): a segment that holds bytes of two requests — the second request stays in
  `request.buffer` / is discarded with the follow-up parser and is never forwarded;
* F2 (finding D13b): a follow-up request naming another origin is written to the FIRST origin's connection;
* F3 (finding D13c): the web server hands every follow-up request to the FIRST request's route plugin;
* F4 (finding D12): the reverse proxy opens a new upstream connection per request and abandons the
  previous one (with whatever was not yet written to / read from it).

## What is proved (partial)

* `C04_partial_forward`: requests to one origin, no segment holding bytes of two requests — otherwise
  every cut, every benign tick schedule (readiness subsets, partial writes, upstream data
  interleaved anywhere): the upstream byte stream is exactly `fwd r₁ ++ fwd r₂ ++ …` (first
  request with Via, later ones stripped, no Via: C02), one connect, no teardown, and (C01) what the
  client has received plus what is queued for it is what the upstream sent, in order.
  `C04_forward_relay` / `C04_forward_segments` are the same for arbitrary byte strings that parse as
  one request each (no grammar assumed).
* `C04_partial_web`: web server, keep-alive requests, no shared segments: `handle_request` of the
  first request's route plugin is invoked once per request, in order, with that request.
* `C04_partial_reverse`: reverse proxy, routes answered by the plugin itself (literal responses):
  one answer per request, in order, no upstream connection.

Missing for the full statement: segments shared by two requests (F1), per-request origin selection
(F2), per-request web routing (F3), a persistent upstream connection per reverse-proxied client
(F4).  Responses are relayed as a byte stream (`C04_forward_relay`, last clause = C01): that each
request gets exactly one response, in request order, additionally rests on the origin answering the
requests it reads in order on that connection (assumption F5, stated in the harness).
-/
namespace Px.Persist
open Px Px.Relay Px.Parser

/-! ## forward proxy -/

/-- **C04, forward proxy, segments.**  `x₁` is exactly one request that, as first request, leads to a
connect to `a` and to `q₁` queued; `xs` are byte strings that are exactly one request each, forwarded
as `qs`, none a protocol switch.  For every way of cutting each of them into non-empty pieces
(`Cuts`: pieces of different requests never share a segment), the application steps over the
concatenated segments end established with an idle pipeline parser, having queued for the upstream
exactly `q₁ ++ q₂ ++ …` in order, with one connect. -/
theorem C04_forward_segments (cfg : Forward.Cfg) (ok : Bool) (x₁ : Bytes) (P₁ : Parser) (a : Connect.Addr)
    (q₁ : Bytes) (xs qs : List Bytes) (segs₁ : List Bytes) (segss : List (List Bytes))
    (h1 : FirstOk cfg ok x₁ P₁ a q₁) (hl : All₂ (LaterOk cfg) xs qs)
    (hc1 : Cuts segs₁ x₁) (hc : All₂ Cuts segss xs) :
    segRun cfg ok (.first (init .request)) (segs₁ ++ segss.flatten) =
      some (.http P₁ none, q₁ ++ qs.flatten, [a]) :=
  segRun_requests cfg ok x₁ P₁ a q₁ xs qs segs₁ segss h1 hl hc1 hc

/-- **C04, forward proxy, connection level.**  The same, for the whole connection under every
benign tick schedule (`benign`: no peer closes, no `send`/`recv` fails; any readiness subset, any
partial write, upstream data at any time) whose client reads deliver those segments: after the
run the proxy has not torn the connection down, the pipeline parser is idle, the bytes written to
the upstream plus those queued for it are exactly `q₁ ++ q₂ ++ …`, there was one connect, and
(C01) delivered-to-client ++ queued-for-client = everything read from the upstream. -/
theorem C04_forward_relay (cfg : Forward.Cfg) (m : Nat) (x₁ : Bytes) (P₁ : Parser) (a : Connect.Addr)
    (q₁ : Bytes) (xs qs : List Bytes) (segs₁ : List Bytes) (segss : List (List Bytes))
    (h1 : FirstOk cfg true x₁ P₁ a q₁) (hl : All₂ (LaterOk cfg) xs qs)
    (hc1 : Cuts segs₁ x₁) (hc : All₂ Cuts segss xs)
    (ticks : List Tick) (hb : ∀ t ∈ ticks, benign t = true)
    (hsegs : clientSegs ticks = segs₁ ++ segss.flatten) :
    (frun cfg true (finit m) ticks).2 = .cont ∧
    (frun cfg true (finit m) ticks).1.phase = .http P₁ none ∧
    (frun cfg true (finit m) ticks).1.rs.sentU ++ (frun cfg true (finit m) ticks).1.rs.upstream.buffer.flatten
      = q₁ ++ qs.flatten ∧
    (frun cfg true (finit m) ticks).1.connects = [a] ∧
    (frun cfg true (finit m) ticks).1.rs.sentC ++ (frun cfg true (finit m) ticks).1.rs.client.buffer.flatten
      = (frun cfg true (finit m) ticks).1.rs.recvU := by
  obtain ⟨i1, i2, i3, i4, i5⟩ := finit_ok m
  have hs := C04_forward_segments cfg true x₁ P₁ a q₁ xs qs segs₁ segss h1 hl hc1 hc
  have r := frun_refines cfg true ticks (finit m) i1 i2 i3 hb (.http P₁ none) (q₁ ++ qs.flatten) [a]
    (by rw [hsegs]; exact hs)
  refine ⟨r.cont, r.phase, ?_, ?_, r.down⟩
  · have := r.up; rw [i4] at this; simpa [U] using this
  · have := r.connects; rw [i5] at this; simpa using this

/-- the origin (host, port text) a request names -/
def originOf (r : Forward.Req) : Option (Bytes × Option Bytes) :=
  match r.target with
  | .absolute host port _ => some (host, port)
  | .origin _ => none

/-- the host a request names -/
def hostOf (r : Forward.Req) : Option Bytes := (originOf r).map (·.1)

/-- **C04 (forward proxy), partial.**  For every non-empty list `r₁ :: rs` of well-formed
absolute-form requests (C02's `Req.WF`: any method but CONNECT, any fields with unique names, no
body / Content-Length / chunked in any layout), the follow-ups not protocol switches and naming
`r₁`'s origin (host and port), delivered so that no TCP segment holds bytes of two requests — each `render rᵢ` cut
anywhere into non-empty pieces — under every benign tick schedule: the proxy does not tear the
connection down; it connects once, to `r₁`'s host; written to + queued for that upstream is exactly
`render (fwdImpl true cfg r₁) ++ render (fwdImpl false cfg r₂) ++ …` (by C02 each the forward form of
its request: first with Via, later without — finding D10v); every request names the connected
host; and (C01) the client has received / will receive the upstream's byte stream in order. -/
theorem C04_partial_forward (cfg : Forward.Cfg) (hcfg : Forward.CfgOk cfg) (m : Nat)
    (r₁ : Forward.Req) (rs : List Forward.Req)
    (hwf : ∀ r ∈ r₁ :: rs, r.WF ∧ r.isAbsolute = true)
    (hnu : ∀ r ∈ rs, notUpgrade r = true) (hsame : ∀ r ∈ rs, originOf r = originOf r₁)
    (segs₁ : List Bytes) (segss : List (List Bytes))
    (hc1 : Cuts segs₁ (Forward.render r₁)) (hc : All₂ Cuts segss (rs.map Forward.render))
    (ticks : List Tick) (hb : ∀ t ∈ ticks, benign t = true)
    (hsegs : clientSegs ticks = segs₁ ++ segss.flatten) :
    ∃ (P₁ : Parser) (a : Connect.Addr),
      (frun cfg true (finit m) ticks).2 = .cont ∧
      (frun cfg true (finit m) ticks).1.phase = .http P₁ none ∧
      (frun cfg true (finit m) ticks).1.rs.sentU ++ (frun cfg true (finit m) ticks).1.rs.upstream.buffer.flatten
        = Forward.render (Forward.fwdImpl true cfg r₁) ++
            (rs.map (fun r => Forward.render (Forward.fwdImpl false cfg r))).flatten ∧
      (frun cfg true (finit m) ticks).1.connects = [a] ∧
      (∀ r ∈ r₁ :: rs, ∃ host, hostOf r = some host ∧ a.host = Connect.stripBrackets host) ∧
      (frun cfg true (finit m) ticks).1.rs.sentC ++ (frun cfg true (finit m) ticks).1.rs.client.buffer.flatten
        = (frun cfg true (finit m) ticks).1.rs.recvU := by
  obtain ⟨host, port, pq, ht⟩ : ∃ host port pq, r₁.target = .absolute host port pq := by
    have := (hwf r₁ (by simp)).2
    cases htg : r₁.target with
    | absolute h p q => exact ⟨h, p, q, rfl⟩
    | origin q => simp [Forward.Req.isAbsolute, htg] at this
  obtain ⟨P₁, v, h1⟩ := firstOk_render cfg hcfg r₁ (hwf r₁ (by simp)).1 ht
  have hl : All₂ (LaterOk cfg) (rs.map Forward.render)
      (rs.map (fun r => Forward.render (Forward.fwdImpl false cfg r))) := by
    have : ∀ l : List Forward.Req, (∀ r ∈ l, r.WF ∧ r.isAbsolute = true ∧ notUpgrade r = true) →
        All₂ (LaterOk cfg) (l.map Forward.render) (l.map (fun r => Forward.render (Forward.fwdImpl false cfg r))) := by
      intro l
      induction l with
      | nil => intro _; exact .nil
      | cons r l ih =>
        intro h
        obtain ⟨w, ab, nu⟩ := h r (by simp)
        exact .cons (laterOk_render cfg hcfg r w ab nu) (ih (fun r' hr' => h r' (by simp [hr'])))
    exact this rs (fun r hr => ⟨(hwf r (by simp [hr])).1, (hwf r (by simp [hr])).2, hnu r hr⟩)
  obtain ⟨c1, c2, c3, c4, c5⟩ := C04_forward_relay cfg m (Forward.render r₁) P₁ _ _ _ _ segs₁ segss h1 hl hc1 hc
    ticks hb hsegs
  refine ⟨P₁, _, c1, c2, c3, c4, ?_, c5⟩
  have h0 : hostOf r₁ = some host := by simp [hostOf, originOf, ht]
  intro r hr
  rcases List.mem_cons.1 hr with rfl | hr
  · exact ⟨host, h0, rfl⟩
  · exact ⟨host, by unfold hostOf; rw [hsame r hr]; exact h0, rfl⟩

/-! ## built-in web server -/

/-- **C04 (web server), partial.**  `x₁` is exactly one web-server request whose path selects route
plugin `k` (`_try_route`), `xs` are exactly one request each, all HTTP/1.1 keep-alive; every cut that
keeps the requests in separate segments: `handle_request` of plugin `k` is invoked exactly once per
request, in order, with exactly that request (`calls`), its answers are queued for the client in
that order (`out`), the pipeline parser is idle and the connection stays routed (not closed).
For requests whose paths all select plugin `k` this is the route each of them names. -/
theorem C04_partial_web (cfg : WCfg) (x₁ : Bytes) (P₁ : Parser) (k : Nat) (xs : List Bytes) (Ps : List Parser)
    (segs₁ : List Bytes) (segss : List (List Bytes))
    (h1 : WebFirstOk cfg x₁ P₁ k) (hl : All₂ WebLaterOk xs Ps) (hc1 : Cuts segs₁ x₁) (hc : All₂ Cuts segss xs)
    (hroute : ∀ P ∈ Ps, tryRoute cfg (webPath P) = some k) :
    (wrun cfg {} (segs₁ ++ segss.flatten)).calls = (P₁ :: Ps).map (fun P => ((tryRoute cfg (webPath P)).getD 0, P)) ∧
    (wrun cfg {} (segs₁ ++ segss.flatten)).out = (P₁ :: Ps).map (fun P => cfg.respond ((tryRoute cfg (webPath P)).getD 0) P) ∧
    (wrun cfg {} (segs₁ ++ segss.flatten)).phase = .routed ∧
    (wrun cfg {} (segs₁ ++ segss.flatten)).pipe = none := by
  rw [wrun_requests cfg x₁ P₁ k xs Ps segs₁ segss h1 hl hc1 hc]
  have hr1 : tryRoute cfg (webPath P₁) = some k := h1.2.2.2.2.1
  refine ⟨?_, ?_, rfl, rfl⟩
  · simp only [List.map_cons, hr1, Option.getD_some, List.cons.injEq, true_and]
    exact List.map_congr_left (fun P hP => by rw [hroute P hP]; rfl)
  · simp only [List.map_cons, hr1, Option.getD_some, List.cons.injEq, true_and]
    exact List.map_congr_left (fun P hP => by rw [hroute P hP]; rfl)

/-! ## reverse proxy -/

/-- **C04 (reverse proxy), partial.**  Requests all of whose matching routes are answered by the
plugin itself (`handle_route` returns a literal response), HTTP/1.1 keep-alive, kept in separate
segments: one `ReverseProxy.handle_request` per request, the answers are queued for the client in
request order, no upstream connection is opened, the connection stays open. -/
theorem C04_partial_reverse (cfg : RCfg) (x₁ : Bytes) (P₁ : Parser) (xs : List Bytes) (Ps : List Parser)
    (segs₁ : List Bytes) (segss : List (List Bytes))
    (h1 : RevFirstOk cfg x₁ P₁) (hl : All₂ (RevLaterOk cfg) xs Ps) (hc1 : Cuts segs₁ x₁) (hc : All₂ Cuts segss xs) :
    let s := rrun cfg {} ((segs₁ ++ segss.flatten).map .cseg)
    s.rv.client.buffer = revAnswer cfg true P₁ ++ (Ps.map (revAnswer cfg false)).flatten ∧
    s.handled = 1 + Ps.length ∧ s.rv.connects = [] ∧ s.rv.upstream = none ∧ s.phase = .routed ∧ s.pipe = none := by
  intro s
  have e : s = _ := rrun_requests cfg x₁ P₁ xs Ps segs₁ segss h1 hl hc1 hc
  rw [e]
  exact ⟨rfl, rfl, rfl, rfl, rfl, rfl⟩

/-! ## witnesses: the full statement fails on the model (kernel-evaluated) -/

/-- `GET http://a.example/<n> HTTP/1.1` + Host -/
def reqA (n : Nat) : Bytes :=
  b "GET http://a.example/" ++ natToDec n ++ b " HTTP/1.1\r\nHost: a.example\r\n\r\n"
/-- `GET http://b.example/1 HTTP/1.1` + Host -/
def reqB : Bytes := b "GET http://b.example/1 HTTP/1.1\r\nHost: b.example\r\n\r\n"
/-- forward form of `reqA n` as first request (with Via) / as follow-up (without) -/
def fwdA (first : Bool) (n : Nat) : Bytes :=
  b "GET /" ++ natToDec n ++ b " HTTP/1.1\r\nHost: a.example\r\n" ++
    (if first then b "Via: 1.1 " ++ Px.Gen.proxyAgentHeaderValue ++ CRLF else []) ++ CRLF

/-- the client socket delivers `x`; nothing else is ready -/
def tickC (x : Bytes) : Tick := ⟨true, false, false, false, .data x, .sslWantRead, .blocking, .blocking, .raised⟩
/-- the upstream socket is writable and accepts everything -/
def tickUW : Tick := ⟨false, false, false, true, .sslWantRead, .sslWantRead, .blocking, .sent 1000000, .raised⟩

/-- bytes the first request's parser keeps and nobody reads again -/
def Phase.leftover : Phase → Option Bytes
  | .http req _ => req.buffer
  | _ => none

def Phase.pipe : Phase → Option Parser
  | .http _ pl => pl
  | _ => none

/-- **F1 (D13a): two requests in one segment.**  The client sends `reqA 1 ++ reqA 2` in ONE
segment (a benign schedule; the upstream is then writable twice).  The connection is established and
stays up, but the upstream was sent the first request only; the second sits in `request.buffer` of
the completed first-request parser and no pipeline parser exists: it is never forwarded. -/
theorem C04_witness_F1 :
    let r := frun {} true (finit 0) [tickC (reqA 1 ++ reqA 2), tickUW, tickUW]
    r.2 = .cont ∧ r.1.rs.sentU = fwdA true 1 ∧ r.1.rs.upstream.buffer = [] ∧
    r.1.phase.leftover = some (reqA 2) ∧ r.1.phase.pipe = none ∧
    ([tickC (reqA 1 ++ reqA 2), tickUW, tickUW].all benign) = true := by
  decide +kernel

/-- **F1 (D13a), follow-up parser.**  `reqA 1`, then `reqA 2 ++ reqA 3` in one segment: the upstream
is sent requests 1 and 2; request 3 was left in the follow-up parser's buffer and went away with it
(`pipeline_request = None`): the pipeline parser is idle and nothing is pending. -/
theorem C04_witness_F1_followup :
    let r := frun {} true (finit 0) [tickC (reqA 1), tickUW, tickC (reqA 2 ++ reqA 3), tickUW, tickUW]
    r.2 = .cont ∧ r.1.rs.sentU = fwdA true 1 ++ fwdA false 2 ∧ r.1.rs.upstream.buffer = [] ∧
    r.1.phase.leftover = none ∧ r.1.phase.pipe = none := by
  decide +kernel

/-- **F2 (D13b): a follow-up request naming another origin.**  `reqA 1` then `reqB`
(`http://b.example/1`): there is one connect, to `a.example:80`, and the request for `b.example` is
written to that connection. -/
theorem C04_witness_F2 :
    let r := frun {} true (finit 0) [tickC (reqA 1), tickUW, tickC reqB, tickUW]
    r.2 = .cont ∧ r.1.connects = [⟨b "a.example", 80⟩] ∧
    r.1.rs.sentU = fwdA true 1 ++ b "GET /1 HTTP/1.1\r\nHost: b.example\r\n\r\n" := by
  decide +kernel

/-- two route plugins: plugin 0 serves `/a`, plugin 1 serves `/b`; an answer names its plugin -/
def webCfg2 : WCfg :=
  { routes := [(0, 0), (1, 1)]
    matchPat := fun path i => (i == 0 && path == b "/a") || (i == 1 && path == b "/b")
    respond := fun k _ => [UInt8.ofNat (48 + k)] }

def webReq (path : String) : Bytes := b "GET " ++ b path ++ b " HTTP/1.1\r\nHost: x\r\nConnection: keep-alive\r\n\r\n"

/-- **F3 (D13c): web server follow-ups go to the first request's route.**  `GET /a` then `GET /b`:
`/b` selects plugin 1, but both requests are handed to plugin 0 and answered by it. -/
theorem C04_witness_F3 :
    let s := wrun webCfg2 {} [webReq "/a", webReq "/b"]
    s.calls.map (·.1) = [0, 0] ∧ s.calls.map (·.2.path) = [some (b "/a"), some (b "/b")] ∧
    s.out = [[48], [48]] ∧ tryRoute webCfg2 (b "/b") = some 1 := by
  decide +kernel

/-- one reverse-proxy plugin with the static route `/a → http://ua.example:9001/x` -/
def revCfg1 : RCfg :=
  { table := [[.static 0 [b "http://ua.example:9001/x"]]]
    matchPat := fun path i => i == 0 && path == b "/a" }

def revFwd : Bytes := b "GET /x HTTP/1.1\r\nHost: x\r\nConnection: keep-alive\r\n\r\n"

/-- **F4 (D12): reverse proxy keep-alive.**  Two `GET /a` on one connection, each flushed to its
upstream; then the origin behind the FIRST upstream connection answers.  There were two connects,
`self.upstream` is the second connection, each connection was written one request — and the first
origin's answer is never relayed (only `self.upstream` is read): the client gets nothing for
request 1.  (On the real executor the replaced socket is closed by reference counting and its
descriptor number reused, which ends in a torn-down or stalled connection: harness oracle.) -/
theorem C04_witness_F4 :
    let s := rrun revCfg1 {} [.cseg (webReq "/a"), .uflush, .cseg (webReq "/a"), .uflush, .useg 0 (b "HTTP/1.1 200 OK\r\n\r\n")]
    s.rv.connects = [(b "ua.example", 9001), (b "ua.example", 9001)] ∧ s.current = some 1 ∧
    s.wrote = [revFwd, revFwd] ∧ s.handled = 2 ∧ s.rv.client.buffer = [] ∧
    (rstep revCfg1 s (.useg 1 (b "R2"))).rv.client.buffer = [b "R2"] := by
  decide +kernel

/-! ## non-vacuity: inhabitants of the hypotheses -/

/-- `GET http://example.com/<c> HTTP/1.1` with a Host field; `POST http://example.com/p` chunked -/
def exR (c : UInt8) : Forward.Req :=
  { method := [71, 69, 84]
    target := .absolute [101, 120, 97, 109, 112, 108, 101, 46, 99, 111, 109] none [47, c]
    version := Px.Gen.http11
    fields := [⟨[72, 111, 115, 116], [32], [101, 120, 97, 109, 112, 108, 101, 46, 99, 111, 109], []⟩]
    body := []
    framing := .none }

def exPost : Forward.Req :=
  { method := [80, 79, 83, 84]
    target := .absolute [101, 120, 97, 109, 112, 108, 101, 46, 99, 111, 109] none [47, 112]
    version := Px.Gen.http11
    fields := [⟨[72, 111, 115, 116], [32], [101, 120, 97, 109, 112, 108, 101, 46, 99, 111, 109], []⟩,
      ⟨[84, 114, 97, 110, 115, 102, 101, 114, 45, 69, 110, 99, 111, 100, 105, 110, 103], [32], [99, 104, 117, 110, 107, 101, 100], []⟩]
    body := [104, 105]
    framing := .chunked [⟨[50], [], [104, 105]⟩] [48] [] }

example : (exR 49).WF ∧ (exR 50).WF ∧ exPost.WF := by decide +kernel
example : ∀ r ∈ [exR 50, exPost], notUpgrade r = true ∧ originOf r = originOf (exR 49) ∧ r.isAbsolute = true := by
  decide +kernel
example : Forward.CfgOk {} := by decide +kernel
/-- a cut of `render (exR 49)` into three non-empty pieces, and of the follow-ups into 1 and 2 -/
example : Cuts [(Forward.render (exR 49)).take 5, ((Forward.render (exR 49)).drop 5).take 20,
    (Forward.render (exR 49)).drop 25] (Forward.render (exR 49)) := by
  refine ⟨by decide +kernel, by decide +kernel⟩
/-- a benign schedule that delivers those five segments with upstream data and partial writes in between -/
example : ([tickC [1], tickUW, ⟨true, true, true, true, .data [2], .data [9, 9], .sent 1, .sslWantWrite, .raised⟩].all benign) = true ∧
    clientSegs [tickC [1], tickUW, ⟨true, true, true, true, .data [2], .data [9, 9], .sent 1, .sslWantWrite, .raised⟩] = [[1], [2]] := by
  decide +kernel
/-- byte-level hypotheses: `reqA 1` as first request, `reqA 2` as follow-up -/
example : ∃ P a q, FirstOk {} true (reqA 1) P a q := by
  have h : (oneReq (reqA 1)).isSome = true := by decide +kernel
  obtain ⟨P, hP⟩ := Option.isSome_iff_exists.1 h
  have : ∀ P, oneReq (reqA 1) = some P → ∃ a q, firstComplete {} true P = .established a q := by
    have hh : (match oneReq (reqA 1) with
      | some P => (match firstComplete {} true P with | .established _ _ => true | _ => false)
      | none => false) = true := by decide +kernel
    intro P hP
    rw [hP] at hh
    cases hf : firstComplete {} true P <;> simp [hf] at hh
    exact ⟨_, _, rfl⟩
  obtain ⟨a, q, hq⟩ := this P hP
  exact ⟨P, a, q, hP, hq⟩
example : (match oneReq (reqA 2) with
    | some P => (match Forward.buildFor {} (Forward.treatLater {} P) with | .ok q => q == fwdA false 2 | _ => false) &&
        !isUpgrade (Forward.treatLater {} P)
    | none => false) = true := by decide +kernel
/-- web / reverse hypotheses -/
example : (match oneReq (webReq "/a") with
    | some P => isWebRequest P && !isWebsocketUpgrade P && Px.Url.utf8Valid (webPath P) &&
        (tryRoute webCfg2 (webPath P) == some 0) && isKeepAlive P
    | none => false) = true := by decide +kernel
/-- a plugin answering `/h` itself -/
def revCfgLit : RCfg :=
  { table := [[.dynamic 0 (.literal (b "HTTP/1.1 200 OK\r\nContent-Length: 2\r\n\r\nok"))]]
    matchPat := fun path i => i == 0 && path == b "/h" }
example : (match oneReq (webReq "/h") with
    | some P => isWebRequest P && !isWebsocketUpgrade P && P.path.isSome && Px.Url.utf8Valid (webPath P) &&
        Px.Reverse.anyMatch (revCfgLit.matchPat (webPath P)) revCfgLit.table &&
        litOnly (revCfgLit.matchPat (webPath P)) revCfgLit.table && litOnly (revCfgLit.matchPat (revPath P)) revCfgLit.table &&
        isKeepAlive P
    | none => false) = true := by decide +kernel

end Px.Persist
