import PxProofs.ForwardEmit
import PxProofs.ForwardSem
import PxProofs.ForwardLex
import PxProofs.ForwardConn
/-!
# C02 — the forwarded HTTP request is semantically identical to the client's

Property theorems; helper lemmas are in `PxProofs/Forward*.lean`.

* model (implementation side): `PxModel/Forward.lean` — `forwardFirst` / `forwardLater` = the real
  parser model fed segment by segment (`Parser.parse`), the header treatment of
  `HttpProxyPlugin.on_request_complete` / `on_client_data`, and `Build.build`; tied to
  `proxy/http/handler.py`, `proxy/http/proxy/server.py`, `proxy/http/parser/parser.py`,
  `proxy/common/utils.py` by the correspondence check `harness/c02.py`;
* specification side: `PxModel/ReqSpec.lean` — `Req`, `Req.WF`, `render` (RFC 7230 grammar with
  name casing, OWS and chunk layout as data), `fwdSpec`, `Req.semEq`.

The forwarded bytes are exhibited as `render (fwdImpl first cfg r)`: the rendering, by the same
grammar, of an explicit request `fwdImpl …` (origin-form target, `name ": " value` lines, body
re-chunked by the proxy) that is `semEq` to the specified one.

Lemmas of other slices used: `Px.Parser.C03_segmentation_request` (C03: any segmentation =
one piece), `Px.Chunk.parse_stream` (C03: the chunked decoder on the grammar),
`Px.Codec.foldHdrs…`, `bodyPhase_*`, `toChunks_render`, `chunksOf_*`, `pyInt10_natToDec`
(C15: header fold, body phases, the chunk encoder, decimal text), `Px.UrlL.fromBytes_absolute`
(C14: absolute-form targets).
-/
namespace Px.Forward

open Px.Parser Px.Build

/-! ## non-vacuity: inhabitants of every hypothesis used below -/

/-- `POST http://example.com:8080/a?x=1 HTTP/1.1`, odd casing, OWS, proxy-only fields, a client Via,
    chunked body `hello world` as `5;e=1 | 1 | 5`, last chunk `00;t` -/
def exChunked : Req :=
  { method := [80, 79, 83, 84]
    target := .absolute [101, 120, 97, 109, 112, 108, 101, 46, 99, 111, 109] (some [56, 48, 56, 48])
      [47, 97, 63, 120, 61, 49]
    version := Px.Gen.http11
    fields := [
      ⟨[72, 111, 115, 116], [32], [101, 120, 97, 109, 112, 108, 101, 46, 99, 111, 109], []⟩,
      ⟨[112, 82, 79, 88, 89, 45, 97, 117, 116, 104, 111, 114, 105, 122, 97, 116, 105, 111, 110], [], [66, 97, 115, 105, 99, 32, 120], [32, 9]⟩,
      ⟨[80, 114, 111, 120, 121, 45, 67, 111, 110, 110, 101, 99, 116, 105, 111, 110], [9], [107, 101, 101, 112, 45, 97, 108, 105, 118, 101], []⟩,
      ⟨[118, 73, 65], [32, 32], [49, 46, 48, 32, 102, 114, 101, 100], []⟩,
      ⟨[84, 82, 65, 78, 83, 70, 69, 82, 45, 101, 110, 99, 111, 100, 105, 110, 103], [32], [67, 104, 117, 110, 107, 101, 100], [32]⟩,
      ⟨[88, 45, 65], [32], [49], []⟩]
    body := [104, 101, 108, 108, 111, 32, 119, 111, 114, 108, 100]
    framing := .chunked
      [⟨[53], [59, 101, 61, 49], [104, 101, 108, 108, 111]⟩, ⟨[48, 49], [], [32]⟩, ⟨[53], [], [119, 111, 114, 108, 100]⟩]
      [48, 48] [59, 116] }

/-- `PUT http://h HTTP/1.0` with `content-length:  005 ` (lower-case name, leading zeros) and body `hello` -/
def exCl : Req :=
  { method := [80, 85, 84]
    target := .absolute [104] none []
    version := Px.Gen.http10
    fields := [⟨[99, 111, 110, 116, 101, 110, 116, 45, 108, 101, 110, 103, 116, 104], [32, 32], [48, 48, 53], [32]⟩]
    body := [104, 101, 108, 108, 111]
    framing := .contentLength }

/-- `GET http://example.com/2 HTTP/1.1` with a Host field -/
def exGet : Req :=
  { method := [71, 69, 84]
    target := .absolute [101, 120, 97, 109, 112, 108, 101, 46, 99, 111, 109] none [47, 50]
    version := Px.Gen.http11
    fields := [⟨[72, 111, 115, 116], [32], [101, 120, 97, 109, 112, 108, 101, 46, 99, 111, 109], []⟩]
    body := []
    framing := .none }

example : exChunked.WF := by decide +kernel
example : exCl.WF := by decide +kernel
example : exGet.WF := by decide +kernel
example : CfgOk {} := by decide +kernel
example : CfgOk { disable := [[120, 45, 97], [99, 111, 111, 107, 105, 101]] } := by decide +kernel
example : LenReadable exChunked := by unfold LenReadable; decide +kernel
example : exChunked.isAbsolute = true := rfl

/-! ## the pipeline on a well-formed request, any segmentation -/

/-- feeding `render r` in any pieces: the request is forwarded when its last byte has arrived, as
    `render (fwdImpl …)`; pieces after that can only be empty (which `recv` never returns) -/
theorem forward_wf (first : Bool) (cfg : Cfg) (hc : CfgOk cfg) (r : Req) (hwf : r.WF)
    (habs : r.isAbsolute = true) (segs : List Bytes) (hs : segs.flatten = render r) :
    ∃ rest, (if first then forwardFirst' cfg segs else forwardLater' cfg segs) =
      .ok (render (fwdImpl first cfg r), rest) ∧ rest.flatten = [] := by
  obtain ⟨host, port, pq, ht⟩ : ∃ host port pq, r.target = .absolute host port pq := by
    cases htg : r.target with
    | absolute h p q => exact ⟨h, p, q, rfl⟩
    | origin q => simp [Req.isAbsolute, htg] at habs
  obtain ⟨P, hP, hPd⟩ := parse_render r hwf ht
  obtain ⟨rest, hfeed, hrest⟩ := feed_segmented hP hPd.state hPd.buffer segs hs
  refine ⟨rest, ?_, hrest⟩
  have hcomp : (P.state != PState.complete) = false := by simp [hPd.state]
  cases first with
  | true =>
    have hemit := emit_eq true cfg hc r hwf ht hPd
    simp only [if_true] at hemit ⊢
    unfold forwardFirst'
    simp only [hfeed, hcomp, Bool.false_eq_true, if_false]
    -- `_parse_first_request` / `connect_upstream` guards
    have htgt := hwf.2.2.1
    rw [ht] at htgt
    have tf := targetFacts htgt
    have hhost : host ≠ [] := by
      simp only [targetOk, Bool.and_eq_true, Bool.not_eq_true'] at htgt
      simpa using htgt.1.1.1
    have hproxy : isProxyRequest P = true := by
      unfold isProxyRequest
      rw [hPd.version, hPd.url, hPd.host]
      rcases hwf.2.2.2.1 with hv | hv <;> simp [hv]
    have hutf : Px.Url.utf8Valid host = true := Px.UrlL.utf8Valid_ascii host tf.hostAscii
    have hhe : host.isEmpty = false := by simpa using hhost
    unfold emitFirst
    simp only [hproxy, hPd.tunnel, hPd.host, Option.getD_some, hhe, hutf, Bool.not_true, Bool.false_eq_true,
      if_false, hemit]
  | false =>
    have hemit := emit_eq false cfg hc r hwf ht hPd
    simp only [Bool.false_eq_true, if_false] at hemit ⊢
    unfold forwardLater' emitLater
    simp only [hfeed, hcomp, Bool.false_eq_true, if_false, hemit]

/-- **C02 (first request).**  For every well-formed absolute-form HTTP/1.x request `r` — any method
token, host/port/path, 0 or more fields with case-insensitively unique names in any casing and with
any OWS, Content-Length / chunked (any layout, extensions, empty body) / no body — and every way
`segs` of cutting `render r` into pieces: the proxy forwards exactly one message, it is the
RFC 7230 rendering of `fwdImpl true cfg r`, and that request is semantically equal to
`fwdSpec cfg r` (same method, origin-form of the same target, same version, the same fields minus
Proxy-Authorization / Proxy-Connection / disabled ones plus Via — appended to a client Via —,
byte-identical decoded body). -/
theorem C02_first_request (cfg : Cfg) (hc : CfgOk cfg) (r : Req) (hwf : r.WF) (habs : r.isAbsolute = true)
    (hlen : LenReadable r) (segs : List Bytes) (hs : segs.flatten = render r) :
    forwardFirst cfg segs = .ok (render (fwdImpl true cfg r)) ∧
      (fwdImpl true cfg r).semEq (fwdSpec cfg r) := by
  obtain ⟨rest, h, _⟩ := forward_wf true cfg hc r hwf habs segs hs
  simp only [if_true] at h
  exact ⟨by simp [forwardFirst, h, Except.map], semEq_impl_spec true cfg hc r hwf hlen⟩

/-- **C02 (later requests), partial.**  The full statement is `C02_first` with `forwardLater`:
`forwardLater cfg segs = .ok out ∧ out` renders a request `semEq (fwdSpec cfg r)`.  It does NOT hold
for the code as it is: follow-up requests get no Via field (finding D10v,
`C02_later_witness_noVia`).  Proved here: everything else — the follow-up request is forwarded
once, as the rendering of a request semantically equal to the specification *without* the Via
clause (`fwdSpecWith false`): same method, origin-form target, version, fields minus the
proxy-only and disabled ones, decoded body.  Missing for the full statement: Via on follow-ups. -/
theorem C02_later_request_partial (cfg : Cfg) (hc : CfgOk cfg) (r : Req) (hwf : r.WF) (habs : r.isAbsolute = true)
    (hlen : LenReadable r) (segs : List Bytes) (hs : segs.flatten = render r) :
    forwardLater cfg segs = .ok (render (fwdImpl false cfg r)) ∧
      (fwdImpl false cfg r).semEq (fwdSpecWith false cfg r) := by
  obtain ⟨rest, h, _⟩ := forward_wf false cfg hc r hwf habs segs hs
  simp only [Bool.false_eq_true, if_false] at h
  exact ⟨by simp [forwardLater, h, Except.map], semEq_impl_spec false cfg hc r hwf hlen⟩

/-- **D10v witness.**  `GET http://example.com/2` sent as a follow-up request is forwarded, and what
is forwarded is not semantically the specified request: the Via field is missing. -/
theorem C02_later_witness_noVia :
    (Conn.feed {} (.later none) [render exGet]).1 = [[.built (render (fwdImpl false {} exGet))]] ∧
      forwardLater {} [render exGet] = .ok (render (fwdImpl false {} exGet)) ∧
      ¬ (fwdImpl false {} exGet).semEq (fwdSpec {} exGet) ∧
      (fwdImpl false {} exGet).fields.all (fun f => !nameIs viaLower f) = true := by
  refine ⟨by decide +kernel, (C02_later_request_partial {} (by decide +kernel) exGet (by decide +kernel) rfl
    (by unfold LenReadable; decide +kernel) [render exGet] (by simp)).1, by decide +kernel, by decide +kernel⟩

/-! ## header fields -/

/-- **C02 (headers).**  For *any* parser state whose header map has the parser's invariant (every
state reachable by `parse`, `parse_pinv`): the header dict handed to `build_http_request` is the
map after the treatment — `del` of the two proxy-only keys, then (first request) the Via entry
appended / extended in place (`withVia_absent`, `withVia_present`) — minus the disabled keys, in
the original order, each remaining entry with its name and value exactly as received. -/
theorem C02_headers (first : Bool) (cfg : Cfg) (p : Parser) (hi : PInv p) :
    headerDict (if first then treatFirst cfg p else treatLater cfg p) cfg.disable =
      ((treatedMap first cfg (p.headers.getD [])).filter (fun e => !cfg.disable.contains e.1)).map (·.2) := by
  rw [headerDict_of_inv _ _ (pinv_treated first cfg hi), treated_headers]

/-- **C02 (no credentials).**  For EVERY input — well-formed or not, any segmentation, first or later
request: whenever something is forwarded, it has the shape `line CRLF (name ": " value CRLF)* CRLF
payload` and no field name in it is Proxy-Authorization or Proxy-Connection in any casing. -/
theorem C02_no_credentials_request (first : Bool) (cfg : Cfg) (hc : CfgOk cfg) (segs : List Bytes) (out : Bytes)
    (h : (if first then forwardFirst cfg segs else forwardLater cfg segs) = .ok out) :
    ∃ line hd payload, out = line ++ CRLF ++ (renderDict hd ++ CRLF ++ payload) ∧
      ∀ e ∈ hd, lower e.1 ≠ lower cfg.proxyAuthorization ∧ lower e.1 ≠ lower cfg.proxyConnection := by
  have key : ∀ p : Parser, PInv p → buildFor cfg (if first then treatFirst cfg p else treatLater cfg p) = .ok out →
      ∃ line hd payload, out = line ++ CRLF ++ (renderDict hd ++ CRLF ++ payload) ∧
        ∀ e ∈ hd, lower e.1 ≠ lower cfg.proxyAuthorization ∧ lower e.1 ≠ lower cfg.proxyConnection := by
    intro p hi hb
    obtain ⟨body, _, _, hout⟩ := buildFor_ok hb
    exact ⟨_, _, _, hout, finalDict_no_credentials first cfg hc hi body⟩
  cases first with
  | true =>
    simp only [if_true] at h key
    unfold forwardFirst forwardFirst' at h
    cases hf : feedUntilComplete pcfg (init .request) segs with
    | error e => simp [hf, Except.map] at h
    | ok pr =>
      obtain ⟨p, rest⟩ := pr
      have hi := feedUntilComplete_pinv hf (pinv_init _)
      simp only [hf] at h
      by_cases hcomp : (p.state != PState.complete) = true
      · simp [hcomp, Except.map] at h
      · simp only [hcomp, Bool.false_eq_true, if_false] at h
        cases he : emitFirst cfg p with
        | error e => simp [he, Except.map] at h
        | ok x =>
          simp only [he, Except.map, Except.ok.injEq] at h
          subst h
          unfold emitFirst at he
          split at he
          · simp at he
          · split at he
            · simp at he
            · split at he
              · simp at he
              · split at he
                · simp at he
                · exact key p hi he
  | false =>
    simp only [Bool.false_eq_true, if_false] at h key
    unfold forwardLater forwardLater' at h
    cases hf : feedUntilComplete pcfg (init .request) segs with
    | error e => simp [hf, Except.map] at h
    | ok pr =>
      obtain ⟨p, rest⟩ := pr
      have hi := feedUntilComplete_pinv hf (pinv_init _)
      simp only [hf] at h
      by_cases hcomp : (p.state != PState.complete) = true
      · simp [hcomp, Except.map] at h
      · simp only [hcomp, Bool.false_eq_true, if_false] at h
        unfold emitLater at h
        cases hb : buildFor cfg (treatLater cfg p) with
        | error e => simp [hb, Except.map] at h
        | ok x =>
          simp only [hb, Except.map, Except.ok.injEq] at h
          subst h
          exact key p hi hb

/-- **C02 (forwarded lines are well formed).**  Every field line of the forwarded message is
`token ":" SP field-value`: legal name, no CR / LF / control byte in the value, no OWS at its ends —
so the rendering `render (fwdImpl …)` of `C02_first` / `C02_later_partial` reads back unambiguously
and re-serialisation cannot inject or merge header lines. -/
theorem C02_forwarded_fields_wellformed (first : Bool) (cfg : Cfg) (ha : AgentOk cfg) (r : Req) (hwf : r.WF) :
    ∀ f ∈ (fwdImpl first cfg r).fields, fieldOk f = true :=
  fwdImpl_fieldOk first cfg ha r hwf

/-! ## the client's Via is appended to (regression of fixed finding D25) -/

/-- `Via: 1.0 fred` sent by the client reaches the origin as `Via: 1.0 fred, 1.1 <proxy agent>` -/
theorem C02_via_appended :
    (forwardFirst {} [b "POST http://example.com:8080/a HTTP/1.1\r\nHost: example.com\r\nVia: 1.0 fred\r\nContent-Length: 5\r\n\r\nhello"]).toOption =
      some (b "POST /a HTTP/1.1\r\nHost: example.com\r\nVia: 1.0 fred, 1.1 " ++ Px.Gen.proxyAgentHeaderValue ++
        b "\r\nContent-Length: 5\r\n\r\nhello") := by decide +kernel

/-! ## chunked bodies -/

theorem fwdImpl_layout_irrelevant (first : Bool) (cfg : Cfg) (r : Req) (cs' : List ChunkSpec) (lsz' lext' : Bytes)
    (hch : r.framing.isChunked = true) :
    fwdImpl first cfg { r with framing := .chunked cs' lsz' lext' } = fwdImpl first cfg r := by
  cases hf : r.framing with
  | none => simp [hf, Framing.isChunked] at hch
  | contentLength => simp [hf, Framing.isChunked] at hch
  | chunked cs lsz lext => simp [fwdImpl, implDict, keptDict, hf, Framing.isCL]

/-- **C02 (chunked).**  Two well-formed requests that differ only in how the client cut the same
body into chunks (sizes, hex spelling, extensions, spelling of the last chunk), each delivered in
any segmentation, are forwarded as the *same bytes*; the forwarded message carries the same
decoded body, and its payload is itself a valid chunked stream — written by
`ChunkParser.to_chunks` with the proxy's buffer size — that decodes to the client's body and ends
in the terminating `0 CRLF CRLF` (also for the empty body). -/
theorem C02_chunked (first : Bool) (cfg : Cfg) (hc : CfgOk cfg) (r : Req) (cs' : List ChunkSpec) (lsz' lext' : Bytes)
    (hwf : r.WF) (hch : r.framing.isChunked = true)
    (hwf' : ({ r with framing := .chunked cs' lsz' lext' } : Req).WF) (habs : r.isAbsolute = true)
    (segs segs' : List Bytes) (hs : segs.flatten = render r)
    (hs' : segs'.flatten = render { r with framing := .chunked cs' lsz' lext' }) :
    (if first then forwardFirst cfg segs else forwardLater cfg segs) =
        (if first then forwardFirst cfg segs' else forwardLater cfg segs') ∧
      (if first then forwardFirst cfg segs else forwardLater cfg segs) = .ok (render (fwdImpl first cfg r)) ∧
      (fwdImpl first cfg r).body = r.body ∧
      ∃ head, render (fwdImpl first cfg r) =
          head ++ (Px.Codec.chunksOf cfg.bufSize r.body.length r.body).render ∧
        (Px.Codec.chunksOf cfg.bufSize r.body.length r.body).Valid ∧
        (Px.Codec.chunksOf cfg.bufSize r.body.length r.body).decoded = r.body ∧
        ∃ pre, (Px.Codec.chunksOf cfg.bufSize r.body.length r.body).render = pre ++ [48] ++ CRLF ++ CRLF := by
  obtain ⟨rest, h1, _⟩ := forward_wf first cfg hc r hwf habs segs hs
  obtain ⟨rest', h2, _⟩ := forward_wf first cfg hc _ hwf' habs segs' hs'
  rw [fwdImpl_layout_irrelevant first cfg r cs' lsz' lext' hch] at h2
  have e1 : (if first then forwardFirst cfg segs else forwardLater cfg segs) = .ok (render (fwdImpl first cfg r)) := by
    cases first <;> simp_all [forwardFirst, forwardLater, Except.map]
  have e2 : (if first then forwardFirst cfg segs' else forwardLater cfg segs') = .ok (render (fwdImpl first cfg r)) := by
    cases first <;> simp_all [forwardFirst, forwardLater, Except.map]
  have hpos : 0 < cfg.bufSize := Nat.pos_of_ne_zero hc.1
  refine ⟨e1.trans e2.symm, e1, rfl, ?_⟩
  have hbody : renderBody (fwdImpl first cfg r) = (Px.Codec.chunksOf cfg.bufSize r.body.length r.body).render := by
    cases hf : r.framing with
    | none => simp [hf, Framing.isChunked] at hch
    | contentLength => simp [hf, Framing.isChunked] at hch
    | chunked cs lsz lext =>
      simp only [renderBody, fwdImpl, hf]
      rw [← toStream_render, rechunk, toStream_rechunkAux]
  refine ⟨requestLine (fwdImpl first cfg r) ++ CRLF ++ (renderFields (fwdImpl first cfg r).fields ++ CRLF), ?_,
    Px.Codec.chunksOf_valid _ hpos _ _, Px.Codec.chunksOf_decoded _ hpos _ _ (Nat.le_refl _),
    ⟨_, Px.Codec.chunksOf_render _ _ _⟩⟩
  simp only [render, hbody, List.append_assoc]

/-! ## Content-Length bodies -/

theorem clValues_spec_all (first : Bool) (cfg : Cfg) (r : Req) (hwf : r.WF) (hfrm : r.framing = .contentLength) :
    ∀ v ∈ clValues (fwdSpecWith first cfg r), v = some (Int.ofNat r.body.length) := by
  obtain ⟨_, _, _, _, _, hnodup, hfr⟩ := hwf
  unfold framingOk at hfr
  simp only [hfrm, Bool.and_eq_true, Bool.not_eq_true', List.any_eq_true, beq_iff_eq] at hfr
  obtain ⟨_, f, hfm, ⟨⟨hfn, _⟩, _⟩, hval⟩ := hfr
  intro v hv
  simp only [clValues, List.mem_map, List.mem_filter] at hv
  obtain ⟨g, ⟨hg, hgn⟩, rfl⟩ := hv
  have hgF : g ∈ r.fields := by
    simp only [fwdSpecWith] at hg
    split at hg
    · rcases mem_addVia hg with hvia | hg
      · exfalso
        simp only [nameIs, beq_iff_eq] at hvia hgn
        exact viaLower_ne_cl (hvia.symm.trans hgn)
      · exact (List.mem_filter.1 hg).1
    · exact (List.mem_filter.1 hg).1
  have : g = f := inj_of_nodup_map _ hnodup hgF hfm (by
    simp only [nameIs, beq_iff_eq] at hgn hfn; rw [hgn, hfn])
  rw [this]; exact hval

/-- **C02 (Content-Length).**  A Content-Length request is forwarded with its body bytes unchanged
right after the header block; every Content-Length field of the forwarded message reads as the
body length; and for a non-empty body the forwarded message carries `Content-Length: <len>` in
exactly that spelling (set by `build_http_request`).  The trap: when the client spelled the name
differently (`content-length`), its field is forwarded as well — an equal-valued repetition
(`C02_content_length_repeated`), which `semEq` counts once. -/
theorem C02_content_length (first : Bool) (cfg : Cfg) (hc : CfgOk cfg) (r : Req) (hwf : r.WF)
    (hfrm : r.framing = .contentLength) (hlen : LenReadable r) :
    render (fwdImpl first cfg r) = requestLine (fwdImpl first cfg r) ++ CRLF ++
        (renderFields (fwdImpl first cfg r).fields ++ CRLF ++ r.body) ∧
      (∀ v ∈ clValues (fwdImpl first cfg r), v = some (Int.ofNat r.body.length)) ∧
      (r.body ≠ [] → ∃ f ∈ (fwdImpl first cfg r).fields, f.name = nCL ∧ f.value = natToDec r.body.length) := by
  refine ⟨?_, ?_, ?_⟩
  · simp [render, renderBody, fwdImpl, hfrm]
  · intro v hv
    have hsem := semEq_impl_spec first cfg hc r hwf hlen
    exact clValues_spec_all first cfg r hwf hfrm v (hsem.2.2.2.2.1.1 hv)
  · intro hne
    have hb : r.body.isEmpty = false := by simpa using hne
    refine ⟨{ name := nCL, pre := [SP], value := natToDec r.body.length, post := [] }, ?_, rfl, rfl⟩
    simp only [fwdImpl, implDict, hfrm, Framing.isCL, hb, Bool.not_false, Bool.and_self, if_true, List.mem_map]
    exact ⟨(nCL, natToDec r.body.length), Px.Codec.mem_dSet_self _ _ _, rfl⟩

/-- the repetition: `content-length:  005 ` + body `hello` is forwarded with the fields
    `content-length: 005`, `Via: …`, `Content-Length: 5` -/
theorem C02_content_length_repeated :
    (fwdImpl true {} exCl).fields.map (fun f => (f.name, f.value)) =
        [(clName, [48, 48, 53]), (viaName, viaValue {}), (nCL, [53])] ∧
      clValues (fwdImpl true {} exCl) = [some 5, some 5] := by decide +kernel

/-! ## the connection, write by write (`Conn.step` / `Conn.feed`: what `harness/c02.py` ties to the code)

Since /repo 84c574d a client write may carry several requests; `Conn.feed` models every write of a
connection (first request, leftover handed to `on_client_data`, the `_handle_pipeline_data` loop,
CONNECT / upgrade relay, teardown on an exception).  The theorems below are about requests that
arrive in writes of their own (any number of non-empty pieces per request, the next request after
the previous one's last byte); requests *sharing* a write are covered by the correspondence runs
and the oracle only. -/

theorem Conn.feed_append (cfg : Cfg) (c : Conn) (a b : List Bytes) :
    Conn.feed cfg c (a ++ b) =
      ((Conn.feed cfg c a).1 ++ (Conn.feed cfg (Conn.feed cfg c a).2 b).1, (Conn.feed cfg (Conn.feed cfg c a).2 b).2) := by
  induction a generalizing c with
  | nil => simp [Conn.feed]
  | cons x xs ih => simp [Conn.feed, ih]

theorem quietThen_flatten (n : Nat) (out : List Emit) : (quietThen n out).flatten = out := by
  simp [quietThen, List.flatten_replicate_nil]

def upgradeLower : Bytes := [117, 112, 103, 114, 97, 100, 101]      -- "upgrade"

/-- the request carries no Upgrade field (a follow-up with Connection + Upgrade switches the
    connection to relaying, `Conn.relay`) -/
def Req.noUpgrade (r : Req) : Prop := r.fields.any (nameIs upgradeLower) = false

instance (r : Req) : Decidable r.noUpgrade := by unfold Req.noUpgrade; infer_instance

example : exGet.noUpgrade := by decide

theorem not_upgrade (cfg : Cfg) {r : Req} (hn : r.noUpgrade) {P : Parser}
    (hh : P.headers.getD [] = entries r.fields) : isUpgrade (treatLater cfg P) = false := by
  have hlow : lower (b "Upgrade") = upgradeLower := by rw [b_eval']; decide
  have hno : hasHeader (treatLater cfg P) (b "Upgrade") = false := by
    rw [treatLater_eq]
    unfold hasHeader
    rw [hlow]
    cases hP : P.headers with
    | none => rfl
    | some h =>
      simp only [Option.map_some]
      rw [hP] at hh
      simp only [Option.getD_some] at hh
      rw [List.any_eq_false]
      intro x hx
      have hm := (mem_keptEntries hx).1
      rw [hh] at hm
      simp only [entries, List.mem_map] at hm
      obtain ⟨f, hf, rfl⟩ := hm
      have := List.any_eq_false.1 hn f hf
      simpa [nameIs] using this
  simp [isUpgrade, hno]

/-- a well-formed request in writes of its own, first or later on the connection -/
theorem conn_request (first : Bool) (cfg : Cfg) (hc : CfgOk cfg) (r : Req) (hwf : r.WF) (habs : r.isAbsolute = true)
    (segs : List Bytes) (hne : ∀ s ∈ segs, s ≠ []) (hs : segs.flatten = render r) :
    ∃ c, Conn.feed cfg (if first then Conn.start else .later none) segs =
        (quietThen segs.length [.built (render (fwdImpl first cfg r))], c) ∧
      (c = .later none ∨ (first = false ∧ c = .relay)) ∧ (r.noUpgrade → c = .later none) := by
  obtain ⟨P, hP, hPc, hPb, hef, hel, hhd, _⟩ := wf_emit cfg hc r hwf habs
  obtain ⟨rest, hfeed, hrest⟩ := feed_segmented hP hPc hPb segs hs
  have hr : rest = [] :=
    flatten_nil_of_nonempty (fun s hs' => hne s (feedUntilComplete_rest_mem hfeed s hs')) hrest
  subst hr
  cases first with
  | true =>
    refine ⟨.later none, ?_, .inl rfl, fun _ => rfl⟩
    simp only [if_true, Conn.start]
    exact first_bridge cfg hPc hPb hef segs _ (by simp [init]) hfeed
  | false =>
    simp only [Bool.false_eq_true, if_false]
    have hb := later_bridge cfg hPc hPb hel segs hne none (by simp [init]) (by simpa using hfeed)
    refine ⟨_, hb, ?_, ?_⟩
    · by_cases hu : isUpgrade (treatLater cfg P) = true
      · simp [hu]
      · simp [hu]
    · intro hn
      simp [not_upgrade cfg hn hhd]

/-- **C02 (first request).**  On a fresh connection, for every well-formed absolute-form HTTP/1.x
request `r` (see `C02_first_request` for the quantifier) cut into any non-empty pieces: no write
before the last one makes the proxy send anything to the origin; the last write makes it send
exactly the RFC 7230 rendering of `fwdImpl true cfg r`, which is semantically equal to
`fwdSpec cfg r`; the connection then waits for follow-up requests. -/
theorem C02_first (cfg : Cfg) (hc : CfgOk cfg) (r : Req) (hwf : r.WF) (habs : r.isAbsolute = true)
    (hlen : LenReadable r) (segs : List Bytes) (hne : ∀ s ∈ segs, s ≠ []) (hs : segs.flatten = render r) :
    Conn.feed cfg Conn.start segs =
        (quietThen segs.length [.built (render (fwdImpl true cfg r))], .later none) ∧
      (fwdImpl true cfg r).semEq (fwdSpec cfg r) := by
  obtain ⟨c, h, hc', _⟩ := conn_request true cfg hc r hwf habs segs hne hs
  simp only [if_true] at h
  rcases hc' with rfl | ⟨hf, _⟩
  · exact ⟨h, semEq_impl_spec true cfg hc r hwf hlen⟩
  · cases hf

/-- **C02 (later requests), partial.**  Full statement: as `C02_first`, from the state a connection is
in after its earlier requests (`Conn.later none`), against `fwdSpec`.  It does not hold for the
code as it is — no Via on follow-ups, finding D10v (`C02_later_witness_noVia`).  Proved: everything
else (`fwdSpecWith false`).  Afterwards the connection waits for the next request, unless `r` was an
upgrade request (then client bytes are relayed). -/
theorem C02_later_partial (cfg : Cfg) (hc : CfgOk cfg) (r : Req) (hwf : r.WF) (habs : r.isAbsolute = true)
    (hlen : LenReadable r) (segs : List Bytes) (hne : ∀ s ∈ segs, s ≠ []) (hs : segs.flatten = render r) :
    (∃ c, Conn.feed cfg (.later none) segs =
        (quietThen segs.length [.built (render (fwdImpl false cfg r))], c) ∧
        (c = .later none ∨ c = .relay) ∧ (r.noUpgrade → c = .later none)) ∧
      (fwdImpl false cfg r).semEq (fwdSpecWith false cfg r) := by
  obtain ⟨c, h, hc', hn⟩ := conn_request false cfg hc r hwf habs segs hne hs
  simp only [Bool.false_eq_true, if_false] at h
  refine ⟨⟨c, h, ?_, hn⟩, semEq_impl_spec false cfg hc r hwf hlen⟩
  rcases hc' with h1 | ⟨_, h2⟩
  · exact .inl h1
  · exact .inr h2

/-- **C02 (whole connection, sequential requests).**  A first request and any number of follow-up
requests (none of them an upgrade request), each well formed and delivered in non-empty pieces of
its own: the origin receives, in order, exactly one message per request — `fwdImpl true` of the
first, `fwdImpl false` of each later one — and nothing else. -/
theorem C02_connection (cfg : Cfg) (hc : CfgOk cfg) (r0 : Req) (segs0 : List Bytes)
    (h0 : r0.WF ∧ r0.isAbsolute = true ∧ (∀ s ∈ segs0, s ≠ []) ∧ segs0.flatten = render r0)
    (later : List (Req × List Bytes))
    (hl : ∀ x ∈ later, x.1.WF ∧ x.1.isAbsolute = true ∧ x.1.noUpgrade ∧ (∀ s ∈ x.2, s ≠ []) ∧ x.2.flatten = render x.1) :
    ((Conn.feed cfg Conn.start (segs0 ++ (later.map (·.2)).flatten)).1.flatten =
        .built (render (fwdImpl true cfg r0)) :: later.map (fun x => .built (render (fwdImpl false cfg x.1)))) ∧
      (Conn.feed cfg Conn.start (segs0 ++ (later.map (·.2)).flatten)).2 = .later none := by
  obtain ⟨hw0, ha0, hn0, hs0⟩ := h0
  obtain ⟨c, hfirst, hc', _⟩ := conn_request true cfg hc r0 hw0 ha0 segs0 hn0 hs0
  simp only [if_true] at hfirst
  have hcl : c = .later none := by
    rcases hc' with h | ⟨hf, _⟩
    · exact h
    · cases hf
  subst hcl
  have hrest : ∀ (l : List (Req × List Bytes)),
      (∀ x ∈ l, x.1.WF ∧ x.1.isAbsolute = true ∧ x.1.noUpgrade ∧ (∀ s ∈ x.2, s ≠ []) ∧ x.2.flatten = render x.1) →
      (Conn.feed cfg (.later none) (l.map (·.2)).flatten).1.flatten =
          l.map (fun x => Emit.built (render (fwdImpl false cfg x.1))) ∧
        (Conn.feed cfg (.later none) (l.map (·.2)).flatten).2 = .later none := by
    intro l
    induction l with
    | nil => intro _; simp [Conn.feed]
    | cons x xs ih =>
      intro hx
      obtain ⟨hw, ha, hnu, hn, hs⟩ := hx x (by simp)
      obtain ⟨c, hreq, _, hnup⟩ := conn_request false cfg hc x.1 hw ha x.2 hn hs
      simp only [Bool.false_eq_true, if_false] at hreq
      have hcc := hnup hnu
      subst hcc
      have ih' := ih (fun y hy => hx y (List.mem_cons_of_mem _ hy))
      simp only [List.map_cons, List.flatten_cons, Conn.feed_append, hreq, List.flatten_append,
        quietThen_flatten, ih'.1, ih'.2, List.singleton_append, and_self]
  have := hrest later hl
  simp only [Conn.feed_append, hfirst, List.flatten_append, quietThen_flatten, this.1, this.2,
    List.singleton_append, and_self]

/-- **C02 (no credentials), every input.**  For EVERY sequence of client writes — well-formed or not,
any segmentation, any number of requests per write, any position: every request the proxy
re-serialises for the origin has the shape `line CRLF (name ": " value CRLF)* CRLF payload` and no
field name in it is Proxy-Authorization or Proxy-Connection in any casing.  (Bytes relayed verbatim
after CONNECT or after an upgrade request are the client's own stream, not requests of the proxy's
making.) -/
theorem C02_no_credentials (cfg : Cfg) (hc : CfgOk cfg) (writes : List Bytes) :
    ∀ es ∈ (Conn.feed cfg Conn.start writes).1, ∀ e ∈ es, Clean cfg e :=
  feed_clean cfg hc writes Conn.start (pinv_init _)

end Px.Forward
