import PxProofs.ForwardSpec
/-!
# C02 helper lemmas, part 11: `semEq (fwdImpl …) (fwdSpecWith …)`
-/
namespace Px.Forward

open Px.Parser Px.Build

theorem dpairs_dSet_filter (hd : HDict) (v : Bytes) :
    (dpairs (dSet hd nCL v)).filter (fun p => p.1 != clName) = (dpairs hd).filter (fun p => p.1 != clName) := by
  unfold dSet
  split
  · rename_i hany
    clear hany
    induction hd with
    | nil => rfl
    | cons e rest ih =>
      simp only [dpairs, List.map_cons, List.filter_cons] at ih ⊢
      by_cases he : (e.1 == nCL) = true
      · have h1 : lower e.1 = clName := by
          simp only [beq_iff_eq] at he; rw [he, lower_nCL]
        simp only [he, if_true, lower_nCL, h1, bne_self_eq_false, Bool.false_eq_true, if_false]
        exact ih
      · simp only [he, Bool.false_eq_true, if_false]
        split
        · rw [ih]
        · exact ih
  · simp [dpairs, List.filter_append, lower_nCL]

theorem mem_clvals {X : List (Bytes × Bytes)} {v : Option Int} :
    v ∈ (X.filter (fun p => p.1 == clName)).map (fun p => pyInt 10 p.2) ↔
      ∃ p ∈ X, p.1 = clName ∧ pyInt 10 p.2 = v := by
  simp only [List.mem_map, List.mem_filter, beq_iff_eq]
  constructor
  · rintro ⟨p, ⟨hp, hk⟩, rfl⟩; exact ⟨p, hp, hk, rfl⟩
  · rintro ⟨p, hp, hk, rfl⟩; exact ⟨p, ⟨hp, hk⟩, rfl⟩

theorem mem_addVia {cfg : Cfg} {F : List Field} {g : Field} (hg : g ∈ addVia cfg F) :
    nameIs viaLower g = true ∨ g ∈ F := by
  unfold addVia at hg
  split at hg
  · simp only [List.mem_map] at hg
    obtain ⟨f, hf, rfl⟩ := hg
    by_cases hv : nameIs viaLower f = true
    · left; simp only [hv, if_true]; exact hv
    · right; simp only [hv, Bool.false_eq_true, if_false]; exact hf
  · simp only [List.mem_append, List.mem_singleton] at hg
    rcases hg with hg | rfl
    · exact .inr hg
    · left; simp [nameIs, viaField, lower_viaName]

theorem mem_addVia_of {cfg : Cfg} {F : List Field} {f : Field} (hf : f ∈ F) (hv : nameIs viaLower f = false) :
    f ∈ addVia cfg F := by
  unfold addVia
  split
  · simp only [List.mem_map]
    exact ⟨f, hf, by simp [hv]⟩
  · simp [hf]

/-- body lengths whose decimal text `int()` still reads (CPython's int-max-str-digits) -/
def LenReadable (r : Req) : Prop := r.body.length < 10 ^ intMaxStrDigits

/-- **the emitted request is semantically the specified one** -/
theorem semEq_impl_spec (first : Bool) (cfg : Cfg) (hc : CfgOk cfg) (r : Req) (hwf : r.WF) (hlen : LenReadable r) :
    (fwdImpl first cfg r).semEq (fwdSpecWith first cfg r) := by
  obtain ⟨_, _, _, _, _, hnodup, hfr⟩ := hwf
  have hkd : dpairs (keptDict first cfg r) = pairs (fwdSpecWith first cfg r).fields := by
    rw [keptDict_eq first cfg r hnodup, dpairs_dictOf, pairs_impl_spec first cfg hc r]
  have hfields : pairs (fwdImpl first cfg r).fields = dpairs (implDict first cfg r) := pairs_of_dict _
  refine ⟨rfl, rfl, rfl, ?_, ?_, rfl⟩
  · -- fields other than Content-Length: equal as lists
    rw [otherFields_eq, otherFields_eq, hfields, ← hkd]
    unfold implDict
    split
    · rw [dpairs_dSet_filter]
    · exact List.Perm.refl _
  · -- Content-Length values
    rw [clValues_eq, clValues_eq, hfields, ← hkd]
    unfold implDict
    split
    · rename_i hcond
      simp only [Bool.and_eq_true, Bool.not_eq_true', List.isEmpty_eq_false_iff] at hcond
      obtain ⟨hcl, hbne⟩ := hcond
      -- the client's Content-Length field
      have hfrm : r.framing = .contentLength := by
        cases hf : r.framing <;> simp [hf, Framing.isCL] at hcl ⊢
      unfold framingOk at hfr
      simp only [hfrm, Bool.and_eq_true, Bool.not_eq_true', List.any_eq_true, beq_iff_eq] at hfr
      obtain ⟨_, f, hfm, ⟨⟨hfn, _⟩, _⟩, hval⟩ := hfr
      have hfn' : lower f.name = clName := by simpa [nameIs] using hfn
      have huniq : ∀ g ∈ r.fields, lower g.name = clName → g = f := fun g hg hgn =>
        inj_of_nodup_map _ hnodup hg hfm (by rw [hgn, hfn'])
      have hk := hc.2 clName (by simp)
      have hdec : pyInt 10 (natToDec r.body.length) = some (Int.ofNat r.body.length) :=
        pyInt10_natToDec _ hlen
      -- spec side: every Content-Length pair reads as the body length, and there is one
      have hspecAll : ∀ p ∈ dpairs (keptDict first cfg r), p.1 = clName →
          pyInt 10 p.2 = some (Int.ofNat r.body.length) := by
        intro p hp hpk
        rw [hkd] at hp
        simp only [pairs, List.mem_map] at hp
        obtain ⟨g, hg, rfl⟩ := hp
        have hgF : g ∈ r.fields.filter (fun f => !removed cfg f) := by
          simp only [fwdSpecWith] at hg
          split at hg
          · rcases mem_addVia hg with hv | hg
            · exfalso
              simp only [nameIs, beq_iff_eq] at hv
              exact viaLower_ne_cl (hv.symm.trans hpk)
            · exact hg
          · exact hg
        have := huniq g (List.mem_filter.1 hgF).1 hpk
        rw [this]; exact hval
      have hspecEx : ∃ p ∈ dpairs (keptDict first cfg r), p.1 = clName := by
        refine ⟨(lower f.name, f.value), ?_, hfn'⟩
        rw [hkd]
        simp only [pairs, List.mem_map]
        refine ⟨f, ?_, rfl⟩
        have hfF : f ∈ r.fields.filter (fun f => !removed cfg f) := by
          refine List.mem_filter.2 ⟨hfm, ?_⟩
          have h1 : (clName == lower cfg.proxyAuthorization) = false := by simpa using hk.2.1
          have h2 : (clName == lower cfg.proxyConnection) = false := by simpa using hk.2.2
          simp only [removed, hfn', hk.1, h1, h2, Bool.or_self, Bool.not_false]
        simp only [fwdSpecWith]
        split
        · exact mem_addVia_of hfF (by simp only [nameIs, hfn']; simpa using fun h => viaLower_ne_cl h.symm)
        · exact hfF
      -- implementation side
      have himplAll : ∀ p ∈ dpairs (dSet (keptDict first cfg r) nCL (natToDec r.body.length)), p.1 = clName →
          pyInt 10 p.2 = some (Int.ofNat r.body.length) := by
        intro p hp hpk
        simp only [dpairs, List.mem_map] at hp
        obtain ⟨e, he, rfl⟩ := hp
        rcases Px.Codec.mem_dSet he with rfl | ⟨he, _⟩
        · exact hdec
        · exact hspecAll (lower e.1, e.2) (by simp only [dpairs, List.mem_map]; exact ⟨e, he, rfl⟩) hpk
      have himplEx : ∃ p ∈ dpairs (dSet (keptDict first cfg r) nCL (natToDec r.body.length)), p.1 = clName :=
        ⟨(lower nCL, natToDec r.body.length),
          by simp only [dpairs, List.mem_map]; exact ⟨_, Px.Codec.mem_dSet_self _ _ _, rfl⟩, lower_nCL⟩
      constructor
      · intro v hv
        obtain ⟨p, hp, hpk, rfl⟩ := mem_clvals.1 hv
        obtain ⟨p', hp', hpk'⟩ := hspecEx
        exact mem_clvals.2 ⟨p', hp', hpk', by rw [himplAll p hp hpk, hspecAll p' hp' hpk']⟩
      · intro v hv
        obtain ⟨p, hp, hpk, rfl⟩ := mem_clvals.1 hv
        obtain ⟨p', hp', hpk'⟩ := himplEx
        exact mem_clvals.2 ⟨p', hp', hpk', by rw [himplAll p' hp' hpk', hspecAll p hp hpk]⟩
    · exact ⟨fun _ h => h, fun _ h => h⟩

end Px.Forward
