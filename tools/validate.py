#!/usr/bin/env python3
"""Validate MANIFEST.json and every evidence file against the schemas (run with python3-vt)."""
import sys, json, glob, os
import jsonschema
V = os.path.dirname(os.path.dirname(os.path.abspath(__file__)))
ok = True
m = json.load(open(os.path.join(V, 'MANIFEST.json')))
jsonschema.validate(m, json.load(open('/root/.vp/MANIFEST.schema.json')))
es = json.load(open('/root/.vp/EVIDENCE.schema.json'))
for c in m['checks']:
    p = os.path.join(V, c['evidence_file'])
    if not os.path.exists(p):
        print('MISSING', p); ok = False; continue
    try:
        e = json.load(open(p)); jsonschema.validate(e, es)
        assert e['level'] == c['level_claimed']['category'], 'level mismatch'
        if e['level'] == 'proof':
            assert e['coverage']['obligations'] == e['coverage']['discharged'], 'undischarged obligations'
    except Exception as ex:
        print('INVALID', p, str(ex)[:300]); ok = False
props = [json.loads(l)['id'] for l in open(os.path.join(V, 'properties.jsonl'))]
cl = [c['property_id'] for c in m['checks']] + [n['property_id'] for n in m.get('not_applicable', [])]
if sorted(cl) != sorted(props):
    print('claimed+not_applicable != properties', sorted(set(props) ^ set(cl))); ok = False
print('ok' if ok else 'FAILED'); sys.exit(0 if ok else 1)
