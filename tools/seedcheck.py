#!/usr/bin/env python3
"""tools/seedcheck.py <PROP> <seed-dir> <A|B|…> [--tests "<pytest args>"] [--tier quick]

Confirms a seeded change produced by an independent sub-agent and runs our check against it:
  1. scratch worktree of /repo HEAD (under /tmp/seedchk), demo must PASS on the clean tree,
  2. apply the patch there, demo must FAIL, optional existing tests must still pass,
  3. VERIF_REPO=<worktree> ./check PROP  -> expect exit 1 + VIOLATION line,
  4. remove the worktree.  Prints a JSON summary (used for seeded/<id>/meta.json)."""
import os, sys, json, subprocess, shutil, argparse

ap = argparse.ArgumentParser()
ap.add_argument('prop'); ap.add_argument('seeddir'); ap.add_argument('tag')
ap.add_argument('--tests', default=''); ap.add_argument('--tier', default='quick')
ap.add_argument('--keep', action='store_true'); ap.add_argument('--store', action='store_true'); ap.add_argument('--as', dest='as_tag', default=None)
a = ap.parse_args()
V = os.path.dirname(os.path.dirname(os.path.abspath(__file__)))
wt = '/tmp/seedchk/%s_%s' % (a.prop, a.tag)
os.makedirs('/tmp/seedchk', exist_ok=True)
subprocess.run(['git', '-C', '/repo', 'worktree', 'remove', '--force', wt], capture_output=True)
subprocess.check_call(['git', '-C', '/repo', 'worktree', 'add', '-q', wt, 'HEAD'])
res = {'property': a.prop, 'tag': a.tag, 'repo_head': subprocess.check_output(['git', '-C', '/repo', 'log', '-1', '--format=%h']).decode().strip()}


def sh(cmd, timeout=1800, env=None):
    p = subprocess.run(cmd, shell=True, cwd=wt, stdout=subprocess.PIPE, stderr=subprocess.STDOUT, text=True,
                       timeout=timeout, env=env)
    return p.returncode, p.stdout


try:
    patch = os.path.join(a.seeddir, '%s.diff' % a.tag)
    demo = os.path.join(a.seeddir, 'demo_%s.py' % a.tag)
    shutil.copy(demo, os.path.join(wt, 'demo_seed.py'))
    runner = 'timeout 300 /venv/bin/python -m pytest -q -p no:cacheprovider -p no:cov demo_seed.py' \
        if 'def test_' in open(demo).read() and '__main__' not in open(demo).read() else 'timeout 300 /venv/bin/python demo_seed.py'
    rc, out = sh(runner)
    res['demo_clean_rc'] = rc
    rc, out = sh('git apply --whitespace=nowarn %s' % patch)
    res['apply_rc'] = rc
    if rc != 0:
        res['apply_out'] = out[-500:]
    rc, out = sh(runner)
    res['demo_patched_rc'] = rc
    res['demo_patched_tail'] = out.strip().split('\n')[-3:]
    if a.tests:
        rc, out = sh('timeout 1700 /venv/bin/python -m pytest -q -p no:cacheprovider -p no:cov %s 2>&1 | tail -3' % a.tests)
        res['tests_cmd'] = a.tests
        res['tests_tail'] = out.strip().split('\n')[-2:]
    os.remove(os.path.join(wt, 'demo_seed.py'))
    evp = os.path.join(V, 'evidence', a.prop + '.json')
    evsave = open(evp).read() if os.path.exists(evp) else None
    env = dict(os.environ, VERIF_REPO=wt)
    p = subprocess.run(['./check', a.prop, '--tier', a.tier], cwd=V, stdout=subprocess.PIPE, stderr=subprocess.STDOUT,
                       text=True, env=env, timeout=3600)
    res['check_rc'] = p.returncode
    if evsave is not None:
        open(evp, 'w').write(evsave)
    lines = p.stdout.strip().split('\n')
    res['check_violation'] = [l for l in lines if l.startswith('VIOLATION')][:2]
    res['check_detail'] = [l[:400] for l in lines if l.startswith('  failing input') or l.startswith('BROKEN')][:3]
    res['caught'] = p.returncode == 1 and bool(res['check_violation'])
    res['confirmed'] = res['demo_clean_rc'] == 0 and res['apply_rc'] == 0 and res['demo_patched_rc'] != 0
finally:
    if not a.keep:
        subprocess.run(['git', '-C', '/repo', 'worktree', 'remove', '--force', wt], capture_output=True)
    # restore generated constants / evidence to the real tree's
    subprocess.run(['/venv/bin/python', os.path.join(V, 'harness', 'gen_constants.py')], capture_output=True)
if a.store and res.get('confirmed'):
    d = os.path.join(V, 'seeded', '%s-%s' % (a.prop, a.as_tag or a.tag))
    os.makedirs(d, exist_ok=True)
    shutil.copy(os.path.join(a.seeddir, '%s.diff' % a.tag), os.path.join(d, 'patch.diff'))
    shutil.copy(os.path.join(a.seeddir, 'demo_%s.py' % a.tag), os.path.join(d, 'demo.py'))
    am = {}
    mp = os.path.join(a.seeddir, 'meta_%s.json' % a.tag)
    if os.path.exists(mp):
        try:
            am = json.load(open(mp))
        except Exception:
            am = {'raw': open(mp).read()}
    meta = {'property': a.prop, 'breaks': am.get('breaks'), 'needs': am.get('needs'), 'files': am.get('files'),
            'author': 'independent sub-agent given only the property text and a scratch worktree',
            'author_tests_run': am.get('tests_run') or am.get('author_tests_run'),
            'confirmed_by_us': {k: res.get(k) for k in ('repo_head', 'demo_clean_rc', 'demo_patched_rc', 'demo_patched_tail', 'tests_cmd', 'tests_tail')},
            'our_check': {k: res.get(k) for k in ('check_rc', 'check_violation', 'check_detail', 'caught')},
            'how_to_rerun': 'python3 tools/seedcheck.py %s seeded/%s-%s X   (with patch.diff/demo.py copied to X.diff/demo_X.py), or: git -C /repo apply seeded/%s-%s/patch.diff; ./check %s; git -C /repo checkout -- .' % (a.prop, a.prop, a.as_tag or a.tag, a.prop, a.as_tag or a.tag, a.prop)}
    json.dump(meta, open(os.path.join(d, 'meta.json'), 'w'), indent=1)
print(json.dumps(res, indent=1))
