import PxModel.ReqSpec
import PxProofs.BytesLemmas
import PxProofs.BuildLemmas
/-!
# C02 helper lemmas, part 1: byte classes, the header map, header treatment, `build`

Pure list reasoning over `Parser.Headers` (Python dict lower-key ↦ (name, value)),
`Build.rebuildHeaders` (the dict comprehension of `HttpParser.build`) and the
header treatment of `HttpProxyPlugin` (`stripProxyHeaders`, `treatFirst`, `treatLater`).
-/
namespace Px.Forward

open Px.Parser Px.Build

/-! ### byte classes (finite tables over the 256 byte values) -/

theorem forall_u8 (P : UInt8 → Prop) (h : ∀ n : Fin 256, P (UInt8.ofNat n.val)) : ∀ c, P c := by
  intro c
  have := h ⟨c.toNat, c.toNat_lt⟩
  simpa using this

theorem tchar_facts : ∀ c : UInt8, isTchar c = true →
    isWs c = false ∧ c ≠ COLON ∧ c ≠ SP ∧ c ≠ LF ∧ c ≠ CR :=
  forall_u8 _ (by decide +kernel)

theorem ows_facts : ∀ c : UInt8, isOws c = true → isWs c = true ∧ c ≠ LF ∧ c ≠ CR :=
  forall_u8 _ (by decide +kernel)

theorem fieldByte_facts : ∀ c : UInt8, isFieldByte c = true →
    c ≠ LF ∧ c ≠ CR ∧ (isOws c = false → isWs c = false) :=
  forall_u8 _ (by decide +kernel)

theorem targetByte_facts : ∀ c : UInt8, isTargetByte c = true → c ≠ SP ∧ c ≠ LF ∧ c ≠ CR :=
  forall_u8 _ (by decide +kernel)

theorem hostByte_facts : ∀ c : UInt8, isHostByte c = true →
    isTargetByte c = true ∧ c ≠ COLON ∧ c ≠ Px.Url.AT ∧ c ≠ SLASH ∧ c.toNat < 128 :=
  forall_u8 _ (by decide +kernel)

theorem digit_facts : ∀ c : UInt8, isDigit c = true →
    isTargetByte c = true ∧ c ≠ COLON ∧ c ≠ Px.Url.AT ∧ c ≠ SLASH ∧ isHexDigit c = true :=
  forall_u8 _ (by decide +kernel)

theorem hexDigit_facts : ∀ c : UInt8, isHexDigit c = true → c ≠ 59 ∧ c ≠ LF ∧ c ≠ CR :=
  forall_u8 _ (by decide +kernel)

/-! ### literals -/

theorem lower_viaName : lower viaName = viaLower := by decide
theorem lower_viaLower : lower viaLower = viaLower := by decide
theorem clName_eq : clName = Px.Codec.kCL := Px.Codec.b_content_length
theorem teName_eq : teName = Px.Codec.kTE := Px.Codec.b_transfer_encoding
theorem chunkedTok_eq : chunkedTok = Px.Codec.vChunked := Px.Codec.b_chunked
theorem viaLower_ne_cl : viaLower ≠ clName := by rw [clName_eq]; decide
theorem viaLower_ne_te : viaLower ≠ teName := by rw [teName_eq]; decide
theorem cl_ne_te : clName ≠ teName := by rw [clName_eq, teName_eq]; decide

/-! ### the header map -/

/-- every key is the lower-cased original name (what `add_header` maintains) -/
def KeyInv (h : Headers) : Prop := ∀ e ∈ h, e.1 = lower e.2.1

/-- the parser's header map invariant: distinct keys, each the lower-cased name -/
def HdrInv (h : Headers) : Prop := (h.map (·.1)).Nodup ∧ KeyInv h

theorem hdrSet_of_not_mem (h : Headers) (k : Bytes) (v : Bytes × Bytes) (hk : ∀ e ∈ h, e.1 ≠ k) :
    hdrSet h k v = h ++ [(k, v)] := by
  unfold hdrSet
  have : h.any (·.1 == k) = false := by
    rw [List.any_eq_false]; intro e he; simpa using hk e he
  simp [this]

theorem hdrSet_of_mem (h : Headers) (k : Bytes) (v : Bytes × Bytes) (hk : ∃ e ∈ h, e.1 = k) :
    hdrSet h k v = h.map (fun e => if e.1 == k then (k, v) else e) := by
  unfold hdrSet
  have : h.any (·.1 == k) = true := by
    obtain ⟨e, he, hek⟩ := hk
    exact List.any_eq_true.2 ⟨e, he, by simp [hek]⟩
  simp [this]

theorem keyInv_hdrSet {h : Headers} (hk : KeyInv h) (key value : Bytes) :
    KeyInv (hdrSet h (lower key) (key, value)) := by
  unfold hdrSet
  split
  · intro e he
    simp only [List.mem_map] at he
    obtain ⟨a, ha, rfl⟩ := he
    split
    · rfl
    · exact hk a ha
  · intro e he
    simp only [List.mem_append, List.mem_singleton] at he
    rcases he with he | rfl
    · exact hk e he
    · rfl

theorem keyInv_hdrDel {h : Headers} (hk : KeyInv h) (k : Bytes) : KeyInv (hdrDel h k) := by
  intro e he
  exact hk e (List.mem_filter.1 he).1

theorem keys_hdrSet_mem (h : Headers) (k : Bytes) (v : Bytes × Bytes) (hk : ∃ e ∈ h, e.1 = k) :
    (hdrSet h k v).map (·.1) = h.map (·.1) := by
  rw [hdrSet_of_mem h k v hk, List.map_map]
  apply List.map_congr_left
  intro e _
  simp only [Function.comp]
  split
  · rename_i he; simpa using he.symm
  · rfl

theorem hdrInv_hdrSet {h : Headers} (hi : HdrInv h) (key value : Bytes) :
    HdrInv (hdrSet h (lower key) (key, value)) := by
  refine ⟨?_, keyInv_hdrSet hi.2 key value⟩
  by_cases hk : ∃ e ∈ h, e.1 = lower key
  · rw [keys_hdrSet_mem h _ _ hk]; exact hi.1
  · have hk' : ∀ e ∈ h, e.1 ≠ lower key := fun e he hek => hk ⟨e, he, hek⟩
    rw [hdrSet_of_not_mem h _ _ hk', List.map_append]
    refine List.nodup_append.2 ⟨hi.1, by simp, ?_⟩
    intro a ha b hb
    simp only [List.map_cons, List.map_nil, List.mem_singleton] at hb
    subst hb
    simp only [List.mem_map] at ha
    obtain ⟨e, he, rfl⟩ := ha
    exact hk' e he

theorem hdrInv_hdrDel {h : Headers} (hi : HdrInv h) (k : Bytes) : HdrInv (hdrDel h k) := by
  refine ⟨?_, keyInv_hdrDel hi.2 k⟩
  unfold hdrDel
  exact (List.filter_sublist.map _).nodup hi.1

theorem hdrInv_nil : HdrInv [] := ⟨by simp, fun _ h => by simp at h⟩

/-- distinct keys + keys are lower-cased names ⇒ distinct original names -/
theorem names_ne_of_inv {h : Headers} (hi : HdrInv h) {e e' : Bytes × (Bytes × Bytes)}
    (he : e ∈ h) (he' : e' ∈ h) (hne : e.1 ≠ e'.1) : e.2.1 ≠ e'.2.1 := by
  intro heq
  apply hne
  rw [hi.2 e he, hi.2 e' he', heq]

/-- the dict comprehension of `HttpParser.build` on a map with the parser's invariant:
    the entries whose key is not disabled, in order, names and values as stored -/
theorem rebuildHeaders_eq (h : Headers) (dis : List Bytes) (hi : HdrInv h) :
    rebuildHeaders h dis none = (h.filter (fun e => !dis.contains e.1)).map (·.2) := by
  unfold rebuildHeaders
  suffices H : ∀ (acc : HDict), (∀ e ∈ h, ∀ a ∈ acc, a.1 ≠ e.2.1) →
      h.foldl (fun acc (x : Bytes × (Bytes × Bytes)) =>
        if dis.contains (lower x.1) then acc
        else dSet acc x.2.1 (match (none : Option Bytes) with
          | some hv => if lower x.2.1 == b "host" then hv else x.2.2
          | none => x.2.2)) acc =
      acc ++ (h.filter (fun e => !dis.contains e.1)).map (·.2) by
    have := H [] (by simp)
    simpa using this
  induction h with
  | nil => intro acc _; simp
  | cons e rest ih =>
    intro acc hacc
    have hi' : HdrInv rest := ⟨(List.nodup_cons.1 hi.1).2, fun x hx => hi.2 x (List.mem_cons_of_mem _ hx)⟩
    have hkey : lower e.1 = e.1 := by rw [hi.2 e (by simp), lower_idem]
    simp only [List.foldl_cons, hkey]
    by_cases hd : dis.contains e.1 = true
    · simp only [hd, if_true, List.filter_cons, Bool.not_true, Bool.false_eq_true, if_false]
      exact ih hi' acc (fun x hx a ha => hacc x (List.mem_cons_of_mem _ hx) a ha)
    · simp only [hd, Bool.false_eq_true, if_false, List.filter_cons, Bool.not_false, if_true,
        List.map_cons]
      have hds : dSet acc e.2.1 e.2.2 = acc ++ [(e.2.1, e.2.2)] :=
        Px.Codec.dSet_of_not_mem acc _ _ (fun a ha => hacc e (by simp) a ha)
      rw [hds, ih hi' (acc ++ [(e.2.1, e.2.2)])]
      · simp
      · intro x hx a ha
        simp only [List.mem_append, List.mem_singleton] at ha
        rcases ha with ha | rfl
        · exact hacc x (List.mem_cons_of_mem _ hx) a ha
        · have hne : e.1 ≠ x.1 := by
            intro heq
            have := (List.nodup_cons.1 hi.1).1
            exact this (heq ▸ List.mem_map_of_mem (f := (·.1)) hx)
          exact names_ne_of_inv hi (by simp) (List.mem_cons_of_mem _ hx) hne

end Px.Forward
