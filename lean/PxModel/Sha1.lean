import PxModel.Bytes
import PxModel.Generated
/-
  SHA-1 (FIPS 180-4) and base64 (RFC 4648) as used by
  WebsocketFrame.key_to_accept.  Tied to hashlib / base64 by the
  correspondence check of C16.
-/
namespace Px.Sha1

def rotl (x : UInt32) (n : UInt32) : UInt32 := (x <<< n) ||| (x >>> (32 - n))

/-- message padding: 0x80, zeros, 64-bit big-endian bit length -/
def pad (msg : Bytes) : Bytes :=
  let l := msg.length
  let zeros := (119 - l % 64) % 64
  let bits := l * 8
  msg ++ [0x80] ++ List.replicate zeros 0 ++
    (List.range 8).map (fun i => UInt8.ofNat (bits / 256 ^ (7 - i) % 256))

def word (a b c d : UInt8) : UInt32 :=
  (a.toUInt32 <<< 24) ||| (b.toUInt32 <<< 16) ||| (c.toUInt32 <<< 8) ||| d.toUInt32

def words : Bytes → List UInt32
  | a :: b :: c :: d :: rest => word a b c d :: words rest
  | _ => []

/-- extend 16 words to 80: kept as a reversed list for O(1) access to recent entries -/
def schedule (w16 : List UInt32) : Array UInt32 := Id.run do
  let mut w : Array UInt32 := w16.toArray
  for i in [16:80] do
    w := w.push (rotl (w[i-3]! ^^^ w[i-8]! ^^^ w[i-14]! ^^^ w[i-16]!) 1)
  return w

structure St where
  h0 : UInt32
  h1 : UInt32
  h2 : UInt32
  h3 : UInt32
  h4 : UInt32

def initSt : St := ⟨0x67452301, 0xEFCDAB89, 0x98BADCFE, 0x10325476, 0xC3D2E1F0⟩

def compress (s : St) (block : List UInt32) : St := Id.run do
  let w := schedule block
  let mut a := s.h0
  let mut b := s.h1
  let mut c := s.h2
  let mut d := s.h3
  let mut e := s.h4
  for i in [0:80] do
    let (f, k) : UInt32 × UInt32 :=
      if i < 20 then ((b &&& c) ||| ((~~~ b) &&& d), 0x5A827999)
      else if i < 40 then (b ^^^ c ^^^ d, 0x6ED9EBA1)
      else if i < 60 then ((b &&& c) ||| (b &&& d) ||| (c &&& d), 0x8F1BBCDC)
      else (b ^^^ c ^^^ d, 0xCA62C1D6)
    let t := rotl a 5 + f + e + k + w[i]!
    e := d
    d := c
    c := rotl b 30
    b := a
    a := t
  return ⟨s.h0 + a, s.h1 + b, s.h2 + c, s.h3 + d, s.h4 + e⟩

def blocks : Nat → List UInt32 → List (List UInt32)
  | 0, _ => []
  | n + 1, ws => if ws.isEmpty then [] else ws.take 16 :: blocks n (ws.drop 16)

def w2b (x : UInt32) : Bytes :=
  [(x >>> 24).toUInt8, (x >>> 16).toUInt8, (x >>> 8).toUInt8, x.toUInt8]

def sha1 (msg : Bytes) : Bytes :=
  let ws := words (pad msg)
  let s := (blocks ws.length ws).foldl compress initSt
  w2b s.h0 ++ w2b s.h1 ++ w2b s.h2 ++ w2b s.h3 ++ w2b s.h4

def b64Alphabet : Array UInt8 :=
  "ABCDEFGHIJKLMNOPQRSTUVWXYZabcdefghijklmnopqrstuvwxyz0123456789+/".toUTF8.data

def b64c (n : Nat) : UInt8 := b64Alphabet[n % 64]!

def b64encode : Bytes → Bytes
  | [] => []
  | [a] =>
    let n := a.toNat * 65536
    [b64c (n / 262144), b64c (n / 4096), 61, 61]
  | [a, c] =>
    let n := a.toNat * 65536 + c.toNat * 256
    [b64c (n / 262144), b64c (n / 4096), b64c (n / 64), 61]
  | a :: c :: d :: rest =>
    let n := a.toNat * 65536 + c.toNat * 256 + d.toNat
    b64c (n / 262144) :: b64c (n / 4096) :: b64c (n / 64) :: b64c n :: b64encode rest

/-- `WebsocketFrame.GUID` as found in /repo (generated) -/
def GUID : Bytes := Px.Gen.wsGuid

/-- `WebsocketFrame.key_to_accept` -/
def keyToAccept (guid key : Bytes) : Bytes := b64encode (sha1 (key ++ guid))

end Px.Sha1
