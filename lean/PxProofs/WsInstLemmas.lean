import PxModel.Ws
import PxProofs.WsLemmas
/-!
Helper lemmas for the reused-instance model (`Inst`, `parseSt`, `buildSt`,
`webLoop`) of `PxModel/Ws.lean`.  Property theorems are in `C16.lean`.
-/
namespace Px.Ws

/-- what the route plugin is handed for frame `f` sent with key source `rnd` -/
def deliv (rnd : Bytes) (f : Frame) : Inst :=
  { fin := f.fin, rsv1 := f.rsv1, rsv2 := f.rsv2, rsv3 := f.rsv3, opcode := f.opcode,
    masked := f.masked, plen := some f.data.length,
    mask := if f.masked then some (f.mask.getD rnd) else none, data := some f.data }

/-- the bytes of several frames back to back, as they share one TCP segment -/
def wire : List (Bytes × Frame) → Bytes
  | [] => []
  | (rnd, f) :: fs => rfcEncode f (f.mask.getD rnd) ++ wire fs

theorem buildWith_len (rnd : Bytes) (f : Frame) : buildWith rnd f f.data.length = build rnd f := rfl

/-- the declared length read back from a built frame is the payload length -/
theorem declLen_build (rnd : Bytes) (f : Frame) (tail raw : Bytes) (h : f.WF rnd)
    (hb : build rnd f = .ok raw) : declLen (raw ++ tail) = f.data.length := by
  obtain ⟨hop, hlen, hm⟩ := h
  obtain ⟨body, hbody, _⟩ := bodyOut_finish rnd f (byte0 f) tail hm
  obtain ⟨c1, ext, hhdr, _, hrest⟩ := lenHdr_rt f.masked f.data.length hlen (body ++ tail)
  have hb0 := b0_rt f.fin f.rsv1 f.rsv2 f.rsv3 ⟨f.opcode, hop⟩
  simp only at hb0
  unfold build at hb
  rw [if_neg (by unfold byte0; omega), hhdr, hbody] at hb
  injection hb with hb
  subst hb
  have e : (UInt8.ofNat (byte0 f) :: (c1 :: ext) ++ body) ++ tail
      = UInt8.ofNat (byte0 f) :: c1 :: (ext ++ (body ++ tail)) := by simp
  rw [e]
  simp only [declLen, hrest]

/-- parse of a built frame on ANY instance state: the delivered instance -/
theorem parseSt_build (s : Inst) (rnd : Bytes) (f : Frame) (tail : Bytes) (h : f.WF rnd) :
    ∃ raw, build rnd f = .ok raw ∧
      parseSt s (raw ++ tail) =
        .ok ({ deliv rnd f with mask := if f.masked then some (f.mask.getD rnd) else s.mask }, tail) := by
  obtain ⟨raw, hb, hp⟩ := roundtrip_lemma rnd f tail h
  refine ⟨raw, hb, ?_⟩
  unfold parseSt
  rw [hp, declLen_build rnd f tail raw h hb]
  simp only [Frame.norm, deliv]
  by_cases hm : f.masked = true <;> simp [hm]

theorem parseSt_fresh_build (rnd : Bytes) (f : Frame) (tail : Bytes) (h : f.WF rnd) :
    parseSt Inst.fresh (rfcEncode f (f.mask.getD rnd) ++ tail) = .ok (deliv rnd f, tail) := by
  obtain ⟨raw, hb, hp⟩ := parseSt_build Inst.fresh rnd f tail h
  rw [build_eq_rfc_lemma rnd f h.1 h.2.1 h.2.2] at hb
  injection hb with hb
  rw [hb, hp]
  simp only [deliv, Inst.fresh]

/-- `build` only reads the mask when the frame is masked -/
theorem build_congr_mask (rnd rnd' : Bytes) (f g : Frame)
    (h1 : g.fin = f.fin) (h2 : g.rsv1 = f.rsv1) (h3 : g.rsv2 = f.rsv2) (h4 : g.rsv3 = f.rsv3)
    (h5 : g.opcode = f.opcode) (h6 : g.masked = f.masked) (h7 : g.data = f.data)
    (h8 : f.masked = true → g.mask.getD rnd' = f.mask.getD rnd) :
    build rnd' g = build rnd f := by
  unfold build byte0 bodyOut
  rw [h1, h2, h3, h4, h5, h6, h7]
  cases hm : f.masked with
  | false => simp
  | true => simp [h8 hm]

/-- a successful parse consumes at least the two header bytes -/
theorem parse_tail_lt (raw tail : Bytes) (f : Frame) (h : parse raw = .ok (f, tail)) :
    tail.length + 2 ≤ raw.length := by
  unfold parse at h
  match raw, h with
  | c0 :: c1 :: rest, h =>
    simp only at h
    split at h
    · cases h
    · rename_i len rest' hl
      have hr : rest'.length ≤ rest.length := by
        unfold lenRest at hl
        split at hl
        · split at hl
          · cases hl
          · injection hl with hl; injection hl with _ hl; subst hl; simp
        · split at hl
          · split at hl
            · cases hl
            · injection hl with hl; injection hl with _ hl; subst hl; simp
          · injection hl with hl; injection hl with _ hl; subst hl; exact Nat.le_refl _
      have ht : tail.length ≤ rest'.length := by
        unfold finish at h
        simp only at h
        split at h
        · split at h
          · cases h
          · injection h with h; injection h with _ h; subst h
            split <;> simp <;> omega
        · injection h with h; injection h with _ h; subst h
          split <;> simp <;> omega
      simp only [List.length_cons]
      omega

theorem parseSt_tail_lt (s i : Inst) (raw tail : Bytes) (h : parseSt s raw = .ok (i, tail)) :
    tail.length + 2 ≤ raw.length := by
  unfold parseSt at h
  split at h
  · cases h
  · rename_i f t hp
    injection h with h; injection h with _ h; subst h
    exact parse_tail_lt raw t f hp

/-- the loop never stops for lack of fuel when the fuel is the input length -/
theorem webLoop_no_fuel (n : Nat) : ∀ (s : Inst) (raw : Bytes), raw.length ≤ n →
    (webLoop n s raw).2 ≠ .fuel := by
  induction n with
  | zero =>
    intro s raw h
    have : raw = [] := List.eq_nil_of_length_eq_zero (by omega)
    subst this
    simp [webLoop]
  | succ n ih =>
    intro s raw h
    unfold webLoop
    split
    · simp
    · split
      · simp
      · rename_i i rest hp
        split
        · simp
        · have := parseSt_tail_lt s i raw rest hp
          exact ih i.reset rest (by omega)

theorem rfcEncode_ne_nil (f : Frame) (k : Bytes) : (rfcEncode f k ++ x).isEmpty = false := by
  unfold rfcEncode; simp

/-- frames sharing a segment: each is handed over exactly as sent, then the
    loop continues on what follows -/
theorem webLoop_wire (fs : List (Bytes × Frame)) (t : Bytes) (m : Nat)
    (hwf : ∀ p ∈ fs, p.2.WF p.1 ∧ p.2.opcode ≠ Px.Gen.wsOpClose) :
    webLoop (fs.length + m) Inst.fresh (wire fs ++ t) =
      ((fs.map fun p => deliv p.1 p.2) ++ (webLoop m Inst.fresh t).1, (webLoop m Inst.fresh t).2) := by
  induction fs with
  | nil => simp [wire]
  | cons p fs ih =>
    obtain ⟨rnd, f⟩ := p
    have hp := hwf (rnd, f) (List.mem_cons_self)
    have ih := ih (fun q hq => hwf q (List.mem_cons_of_mem _ hq))
    have e : (fs.length + 1 + m) = (fs.length + m) + 1 := by omega
    simp only [List.length_cons, e, wire, List.append_assoc]
    conv => lhs; unfold webLoop
    rw [rfcEncode_ne_nil, parseSt_fresh_build rnd f _ hp.1]
    have ho : ((deliv rnd f).opcode == Px.Gen.wsOpClose) = false := by
      simp only [deliv]; exact beq_false_of_ne hp.2
    simp only [Bool.false_eq_true, if_false, ho, Inst.reset, ih, List.map_cons, List.cons_append]

theorem wire_len (fs : List (Bytes × Frame)) : fs.length ≤ (wire fs).length := by
  induction fs with
  | nil => simp
  | cons p fs ih =>
    obtain ⟨rnd, f⟩ := p
    simp only [wire, List.length_cons, List.length_append, rfcEncode]
    omega

theorem webLoop_nil (m : Nat) (s : Inst) : webLoop m s [] = ([], .drained) := by
  cases m <;> simp [webLoop]

/-- `parse` then `build` on the same instance reproduces the frame's bytes -/
theorem echo_lemma (s : Inst) (rnd rnd' : Bytes) (f : Frame) (tail : Bytes) (h : f.WF rnd) :
    ∃ i, parseSt s (rfcEncode f (f.mask.getD rnd) ++ tail) = .ok (i, tail) ∧
      buildSt rnd' i = .ok (i, rfcEncode f (f.mask.getD rnd)) := by
  obtain ⟨raw, hb, hp⟩ := parseSt_build s rnd f tail h
  have hrfc := build_eq_rfc_lemma rnd f h.1 h.2.1 h.2.2
  rw [hrfc] at hb
  injection hb with hb
  subst hb
  refine ⟨_, hp, ?_⟩
  unfold buildSt
  simp only [deliv, Option.getD_some, Inst.toFrame]
  have e := build_congr_mask rnd rnd' f
    ⟨f.fin, f.rsv1, f.rsv2, f.rsv3, f.opcode, f.masked,
      (if f.masked = true then some (f.mask.getD rnd) else s.mask), f.data⟩
    rfl rfl rfl rfl rfl rfl rfl (by intro hm; simp [hm])
  rw [← buildWith_len] at e
  simp only at e
  rw [e, hrfc]

end Px.Ws
