import PxModel.UpdateBody
import PxProofs.RebuildResp
/-!
# `HttpParser.update_body` (C15)

`updHeaders` / `updBody`: the header map and the stored body after `update_body` on a message
that is not chunked; `updateBody_plain`: the model computes exactly that; `hdrInvB_upd`: the new
map satisfies the rebuild guard; `upd_cl`, `upd_noTE`: its framing headers.
-/
namespace Px.Codec

open Px.Parser Px.Build Px.UpdateBody

def kCE : Bytes := [99, 111, 110, 116, 101, 110, 116, 45, 101, 110, 99, 111, 100, 105, 110, 103]
def vGzip : Bytes := [103, 122, 105, 112]
def kCT : Bytes := [99, 111, 110, 116, 101, 110, 116, 45, 116, 121, 112, 101]

theorem bn_content_encoding : b "content-encoding" = kCE := by rw [b_content_encoding]; rfl
theorem bn_gzip : b "gzip" = vGzip := by rw [b_gzip]; rfl
theorem lower_kCE : lower kCE = kCE := by decide
theorem lower_nCT : lower nCT = kCT := by decide

/-- is the message's body gzip-encoded (`content-encoding: gzip`, value compared exactly)? -/
def isGzip (h : Headers) : Bool :=
  match hdrGet h kCE with
  | some nv => nv.2 == vGzip
  | none => false

/-- the body `update_body` stores for a message that is not chunked -/
def updBody (gz : Bytes → Bytes) (h : Headers) (body : Bytes) : Bytes := if isGzip h then gz body else body

/-- the header map after `update_body` on a message that is not chunked -/
def updHeaders (gz : Bytes → Bytes) (h : Headers) (body ct : Bytes) : Headers :=
  let h1 := if isGzip h then h else hdrDel h kCE
  hdrSet (hdrSet h1 kCL (nCL, natToDec (updBody gz h body).length)) kCT (nCT, ct)

theorem any_key_iff_hdrGet (h : Headers) (k : Bytes) : h.any (·.1 == k) = (hdrGet h k).isSome := by
  induction h with
  | nil => rfl
  | cons a t ih =>
    rw [List.any_cons, hdrGet_cons, ih]
    by_cases hk : (a.1 == k) = true <;> simp [hk]

theorem hdrDel_of_no_key (h : Headers) (k : Bytes) (hk : h.any (·.1 == k) = false) : hdrDel h k = h := by
  unfold hdrDel
  rw [List.filter_eq_self]
  intro a ha
  have := List.any_eq_false.1 hk a ha
  simpa using this

/-- `update_body` on a message that is not chunked -/
theorem updateBody_plain (gz : Bytes → Bytes) (bufSize : Nat) (p : Parser) (body ct : Bytes)
    (hch : p.isChunked = false) :
    updateBody gz bufSize p body ct =
      .ok { p with headers := some (updHeaders gz (p.headers.getD []) body ct),
                   body := some (updBody gz (p.headers.getD []) body) } := by
  unfold updateBody
  rw [bn_content_encoding, bn_gzip, bn_Content_Length, bn_Content_Type]
  rcases hh : p.headers with _ | h
  · -- no headers at all
    simp [hasHeader, hh, hch, delHeader, addHeader, updHeaders, updBody, isGzip, hdrGet_nil, hdrDel,
      lower_nCL, lower_nCT, hdrSet]
  · simp only [hasHeader, hh, header, lower_kCE, Option.getD_some]
    by_cases hany : h.any (·.1 == kCE) = true
    · have hsome : (hdrGet h kCE).isSome = true := by rw [← any_key_iff_hdrGet]; exact hany
      obtain ⟨nv, hnv⟩ := Option.isSome_iff_exists.1 hsome
      simp only [hany, if_true, hnv]
      by_cases hg : (nv.2 == vGzip) = true
      · have hz : isGzip h = true := by simp [isGzip, hnv, hg]
        simp [hg, hch, addHeader, hh, updHeaders, updBody, hz, lower_nCL, lower_nCT]
      · have hz : isGzip h = false := by simp [isGzip, hnv, hg]
        have hne : h.isEmpty = false := by
          cases h with
          | nil => simp at hany
          | cons a t => rfl
        simp [hg, hch, addHeader, delHeader, hh, hne, updHeaders, updBody, hz, lower_nCL, lower_nCT, lower_kCE]
    · have hany' : h.any (·.1 == kCE) = false := by
        cases hb : h.any (·.1 == kCE) with
        | false => rfl
        | true => exact absurd hb hany
      have hnone : hdrGet h kCE = none := hdrGet_none_of_no_key h kCE hany'
      have hz : isGzip h = false := by simp [isGzip, hnone]
      simp [hany', hch, addHeader, hh, updHeaders, updBody, hz, lower_nCL, lower_nCT,
        hdrDel_of_no_key h kCE hany']

end Px.Codec

namespace Px.Codec

open Px.Parser Px.Build Px.UpdateBody

/-! ### the guard survives `del_header` / `add_header` -/

theorem mem_hdrSet {h : Headers} {k : Bytes} {x : Bytes × Bytes} {a : Bytes × (Bytes × Bytes)}
    (ha : a ∈ hdrSet h k x) : a = (k, x) ∨ (a ∈ h ∧ a.1 ≠ k) := by
  unfold hdrSet at ha
  split at ha
  · simp only [List.mem_map] at ha
    obtain ⟨c, hc, rfl⟩ := ha
    by_cases hck : (c.1 == k) = true
    · simp [hck]
    · simp only [hck, Bool.false_eq_true, if_false]
      exact .inr ⟨hc, by simpa using hck⟩
  · rename_i hn
    simp only [List.mem_append, List.mem_singleton] at ha
    rcases ha with ha | ha
    · refine .inr ⟨ha, fun hk => hn (List.any_eq_true.2 ⟨a, ha, by simp [hk]⟩)⟩
    · exact .inl ha

theorem hdrInvB_hdrDel {h : Headers} (hi : hdrInvB h = true) (k : Bytes) : hdrInvB (hdrDel h k) = true := by
  obtain ⟨hnd, hall⟩ := hdrInvB_spec hi
  simp only [hdrInvB, Bool.and_eq_true, decide_eq_true_eq, List.all_eq_true, beq_iff_eq]
  refine ⟨?_, ?_⟩
  · unfold hdrDel
    exact List.Pairwise.sublist (List.Sublist.map _ List.filter_sublist) hnd
  · intro e he
    have he' : e ∈ h := (List.mem_filter.1 he).1
    exact ⟨⟨(hall e he').1, (hall e he').2.1⟩, (hall e he').2.2⟩

theorem hdrInvB_hdrSet {h : Headers} (hi : hdrInvB h = true) {name value : Bytes}
    (hn : wfName name = true) (hv : wfValue value = true) :
    hdrInvB (hdrSet h (lower name) (name, value)) = true := by
  obtain ⟨hnd, hall⟩ := hdrInvB_spec hi
  simp only [hdrInvB, Bool.and_eq_true, decide_eq_true_eq, List.all_eq_true, beq_iff_eq]
  refine ⟨?_, ?_⟩
  · unfold hdrSet
    split
    · -- replaced in place: the list of lower-cased names is unchanged
      have : (h.map (fun e => if (e.1 == lower name) = true then (lower name, (name, value)) else e)).map
          (fun e => lower e.2.1) = h.map (fun e => lower e.2.1) := by
        rw [List.map_map]
        apply List.map_congr_left
        intro a ha
        simp only [Function.comp]
        by_cases hk : (a.1 == lower name) = true
        · simp only [hk, if_true]
          have h1 := (hall a ha).1
          have h2 : a.1 = lower name := by simpa using hk
          rw [← h1, h2]
        · simp [hk]
      rw [this]; exact hnd
    · rename_i hno
      simp only [List.map_append, List.map_cons, List.map_nil]
      rw [List.nodup_append]
      refine ⟨hnd, by simp, ?_⟩
      intro x hx y hy
      simp only [List.mem_singleton] at hy
      subst hy
      simp only [List.mem_map] at hx
      obtain ⟨a, ha, rfl⟩ := hx
      intro heq
      apply hno
      exact List.any_eq_true.2 ⟨a, ha, by rw [(hall a ha).1, heq]; simp⟩
  · intro e he
    rcases mem_hdrSet he with rfl | ⟨he', -⟩
    · exact ⟨⟨rfl, hn⟩, hv⟩
    · exact ⟨⟨(hall e he').1, (hall e he').2.1⟩, (hall e he').2.2⟩

/-- with unique keys, any entry under a key is what the lookup returns -/
theorem hdrGet_of_mem {h : Headers} (hnd : (h.map (·.1)).Nodup) {a : Bytes × (Bytes × Bytes)} (ha : a ∈ h) :
    hdrGet h a.1 = some a.2 := by
  induction h with
  | nil => simp at ha
  | cons c t ih =>
    simp only [List.map_cons, List.nodup_cons, List.mem_map, not_exists, not_and] at hnd
    rw [hdrGet_cons]
    simp only [List.mem_cons] at ha
    rcases ha with rfl | ha
    · simp
    · have : (c.1 == a.1) = false := by
        have := hnd.1 a ha
        simpa using fun h => this h.symm
      simp only [this, Bool.false_eq_true, if_false]
      exact ih hnd.2 ha

theorem keys_nodup_of_inv {h : Headers} (hi : hdrInvB h = true) : (h.map (·.1)).Nodup := by
  obtain ⟨hnd, hall⟩ := hdrInvB_spec hi
  have : h.map (·.1) = h.map (fun e => lower e.2.1) := List.map_congr_left (fun a ha => (hall a ha).1)
  rw [this]; exact hnd

theorem wfName_nCT : wfName nCT = true := by decide

section upd
variable (gz : Bytes → Bytes) (h : Headers) (body ct : Bytes)

theorem hdrInvB_upd (hi : hdrInvB h = true) (hct : wfValue ct = true) :
    hdrInvB (updHeaders gz h body ct) = true := by
  unfold updHeaders
  have h1 : hdrInvB (if isGzip h then h else hdrDel h kCE) = true := by
    split
    · exact hi
    · exact hdrInvB_hdrDel hi _
  have h2 := hdrInvB_hdrSet h1 (name := nCL) (value := natToDec (updBody gz h body).length)
    wfName_builders.1 (wfValue_natToDec _)
  rw [lower_nCL] at h2
  have h3 := hdrInvB_hdrSet h2 (name := nCT) (value := ct) wfName_nCT hct
  rw [lower_nCT] at h3
  exact h3

theorem updHeaders_ct : hdrGet (updHeaders gz h body ct) kCT = some (nCT, ct) := by
  unfold updHeaders; rw [hdrGet_hdrSet]; simp

theorem updHeaders_cl_get :
    hdrGet (updHeaders gz h body ct) kCL = some (nCL, natToDec (updBody gz h body).length) := by
  unfold updHeaders
  rw [hdrGet_hdrSet, if_neg (by decide), hdrGet_hdrSet, if_pos rfl]

/-- the only `content-length` header after `update_body` carries the length of the stored body -/
theorem upd_cl (hi : hdrInvB h = true) (hct : wfValue ct = true) :
    ∀ e ∈ namesOf (updHeaders gz h body ct), isCL e = true → e = (nCL, natToDec (updBody gz h body).length) := by
  intro e he hc
  have hinv := hdrInvB_upd gz h body ct hi hct
  simp only [namesOf, List.mem_map] at he
  obtain ⟨a, ha, rfl⟩ := he
  have hk : a.1 = kCL := by
    rw [((hdrInvB_spec hinv).2 a ha).1]; simpa [isCL] using hc
  have := hdrGet_of_mem (keys_nodup_of_inv hinv) ha
  rw [hk, updHeaders_cl_get] at this
  exact (Option.some.inj this).symm

theorem upd_noTE (hte : ∀ a ∈ h, a.1 ≠ kTE) : ∀ a ∈ updHeaders gz h body ct, a.1 ≠ kTE := by
  intro a ha
  unfold updHeaders at ha
  rcases mem_hdrSet ha with rfl | ⟨ha, -⟩
  · show kCT ≠ kTE; decide
  rcases mem_hdrSet ha with rfl | ⟨ha, -⟩
  · show kCL ≠ kTE; decide
  split at ha
  · exact hte a ha
  · exact hte a (List.mem_filter.1 ha).1

/-- `content-encoding` survives `update_body` exactly when it is `gzip` -/
theorem updHeaders_ce : (hdrGet (updHeaders gz h body ct) kCE).isSome = isGzip h := by
  unfold updHeaders
  rw [hdrGet_hdrSet, if_neg (by decide), hdrGet_hdrSet, if_neg (by decide)]
  by_cases hz : isGzip h = true
  · simp only [hz, if_true]
    unfold isGzip at hz
    cases hg : hdrGet h kCE with
    | none => simp [hg] at hz
    | some nv => rfl
  · have hz' : isGzip h = false := by simpa using hz
    simp only [hz', Bool.false_eq_true, if_false]
    rw [← any_key_iff_hdrGet]
    simp [hdrDel, List.any_filter]

end upd

theorem pairs_noTE_of_keys {h : Headers} (hi : hdrInvB h = true) (hte : ∀ a ∈ h, a.1 ≠ kTE) :
    ∀ e ∈ namesOf h, lower e.1 ≠ kTE := by
  intro e he
  simp only [namesOf, List.mem_map] at he
  obtain ⟨a, ha, rfl⟩ := he
  rw [← ((hdrInvB_spec hi).2 a ha).1]; exact hte a ha

theorem dSet_of_mem_same (L : HDict) (k v : Bytes) (hm : (k, v) ∈ L) (hnd : (L.map (·.1)).Nodup) :
    dSet L k v = L := by
  unfold dSet
  have hany : L.any (·.1 == k) = true := List.any_eq_true.2 ⟨(k, v), hm, by simp⟩
  simp only [hany, if_true]
  have : ∀ e ∈ L, (if (e.1 == k) = true then (k, v) else e) = e := by
    intro e he
    by_cases hk : (e.1 == k) = true
    · simp only [hk, if_true]
      have hk' : e.1 = k := by simpa using hk
      -- unique key
      have huniq : ∀ (l : HDict), (l.map (·.1)).Nodup → (k, v) ∈ l → e ∈ l → (k, v) = e := by
        intro l hl h1 h2
        induction l with
        | nil => simp at h1
        | cons c t ih =>
          simp only [List.map_cons, List.nodup_cons, List.mem_map, not_exists, not_and] at hl
          simp only [List.mem_cons] at h1 h2
          rcases h1 with h1 | h1 <;> rcases h2 with h2 | h2
          · rw [h1, h2]
          · exact absurd (by rw [← h1]; exact hk') (hl.1 e h2)
          · exact absurd (by rw [← h2]; exact hk'.symm ▸ rfl) (hl.1 (k, v) h1)
          · exact ih hl.2 h1 h2
      exact huniq L hnd hm he
    · simp [hk]
  rw [List.map_congr_left this, List.map_id']

end Px.Codec
