import PxProofs.PersistWeb
/-!
# C04 helper lemmas, part 5b: reverse proxy, routes answered by the plugin itself, any packing
-/
namespace Px.Persist
open Px Px.Parser Px.Reverse

/-- in every plugin the first matching route (if any) is a dynamic route whose `handle_route`
    returns a literal response -/
def litOnly (m : Nat → Bool) (t : Table) : Bool :=
  t.all (fun p => match firstMatch m p with
    | none => true
    | some (.dynamic _ (.literal _)) => true
    | _ => false)

/-- the literal responses of the matching routes, in plugin order -/
def litResps (m : Nat → Bool) (t : Table) : List Bytes :=
  t.filterMap (fun p => match firstMatch m p with
    | some (.dynamic _ (.literal r)) => some r
    | _ => none)

theorem routeLoop_lit (cfg : Reverse.Cfg) (m : Nat → Bool) (pick : Nat → Nat) (t : Table) (i : Nat) (s : Reverse.St)
    (needs : Bool) (h : litOnly m t = true) :
    routeLoop cfg m pick i t s needs =
      ({ s with client := { s.client with buffer := s.client.buffer ++ litResps m t } }, needs, none) := by
  induction t generalizing i s with
  | nil => simp [routeLoop, litResps]
  | cons p ps ih =>
    simp only [litOnly, List.all_cons, Bool.and_eq_true] at h
    have hps : litOnly m ps = true := h.2
    unfold routeLoop
    cases hf : firstMatch m p with
    | none =>
      simp only []
      rw [ih _ _ hps]
      simp [litResps, hf]
    | some r =>
      have h1 := h.1
      rw [hf] at h1
      cases r with
      | «static» pat urls => simp at h1
      | dynamic pat res =>
        cases res with
        | url u => simp at h1
        | raises e => simp at h1
        | literal resp =>
          simp only [routeAct]
          rw [ih _ _ hps]
          simp [litResps, hf, Conn.queue, List.append_assoc]

theorem handleRequest_lit (cfg : Reverse.Cfg) (m : Nat → Bool) (pick : Nat → Nat) (ok : Bool) (t : Table)
    (req : Parser) (s : Reverse.St) (hp : req.path.isSome = true) (h : litOnly m t = true) :
    handleRequest cfg m pick ok t req s =
      ⟨{ s with client := { s.client with buffer := s.client.buffer ++ litResps m t } }, false, none⟩ := by
  unfold handleRequest
  have : req.path.isNone = false := by
    cases hpp : req.path <;> simp [hpp] at hp ⊢
  simp only [this, Bool.false_and, Bool.false_eq_true, if_false, routeLoop_lit cfg m pick t 0 s false h]

theorem onRequestComplete_lit (cfg : Reverse.Cfg) (m : Nat → Bool) (pick : Nat → Nat) (ok : Bool) (t : Table)
    (req : Parser) (s : Reverse.St) (hp : req.path.isSome = true) (hu : Px.Url.utf8Valid (Reverse.webPath req) = true)
    (hm : anyMatch m t = true) (h : litOnly m t = true) :
    onRequestComplete cfg m pick ok t req s =
      ⟨{ s with client := { s.client with buffer := s.client.buffer ++ litResps m t } }, false, none⟩ := by
  unfold onRequestComplete routeRequest
  rw [if_neg (by rw [hu]; simp), if_pos hm]
  exact handleRequest_lit cfg m pick ok t req s hp h

/-- what the plugin(s) answer to a parsed request -/
def revAnswer (cfg : RCfg) (first : Bool) (P : Parser) : List Bytes :=
  litResps (cfg.matchPat (if first then webPath P else revPath P)) cfg.table

/-- first request of a reverse-proxied connection, answered by the plugin(s) -/
def RevFirstOk (cfg : RCfg) (x : Bytes) (P : Parser) : Prop :=
  oneReq x = some P ∧ isWebRequest P = true ∧ isWebsocketUpgrade P = false ∧ P.path.isSome = true ∧
  Px.Url.utf8Valid (webPath P) = true ∧ anyMatch (cfg.matchPat (webPath P)) cfg.table = true ∧
  litOnly (cfg.matchPat (webPath P)) cfg.table = true ∧ isKeepAlive P = true

def RevLaterOk (cfg : RCfg) (r : Bytes × Parser) : Prop :=
  oneReq r.1 = some r.2 ∧ r.2.path.isSome = true ∧ litOnly (cfg.matchPat (revPath r.2)) cfg.table = true ∧
  isKeepAlive r.2 = true

def rstepL (cfg : RCfg) (s : RSt) (P : Parser) : RSt :=
  afterHandle s (handleRequest cfg.rv (cfg.matchPat (revPath P)) (fun _ => 0) true cfg.table P s.rv)

theorem rstepL_lit (cfg : RCfg) (s : RSt) (P : Parser) (hp : P.path.isSome = true)
    (hl : litOnly (cfg.matchPat (revPath P)) cfg.table = true) :
    rstepL cfg s P =
      { s with rv := { s.rv with client := { s.rv.client with buffer := s.rv.client.buffer ++ revAnswer cfg false P } },
               handled := s.handled + 1 } := by
  unfold rstepL
  rw [handleRequest_lit cfg.rv _ _ true cfg.table P s.rv hp hl]
  simp [afterHandle, revAnswer]

theorem rev_good (cfg : RCfg) (r : Bytes × Parser) (h : RevLaterOk cfg r) (s : RSt) (n : Nat) (hI : s.phase = .routed) :
    (revHooks cfg).complete s (withTotal r.2 n) = .next (rstepL cfg s (withTotal r.2 n)) none ∧
    (rstepL cfg s (withTotal r.2 n)).phase = .routed := by
  obtain ⟨_, hp, hl, hk⟩ := h
  have e := rstepL_lit cfg s (withTotal r.2 n) hp hl
  have hph : (rstepL cfg s (withTotal r.2 n)).phase = .routed := by rw [e]; exact hI
  refine ⟨?_, hph⟩
  have hk' : isKeepAlive (withTotal r.2 n) = true := hk
  have : (revHooks cfg).complete s (withTotal r.2 n) =
      (if (rstepL cfg s (withTotal r.2 n)).phase == .raised then .stop (rstepL cfg s (withTotal r.2 n)) (some (withTotal r.2 n)) .raised
       else if (rstepL cfg s (withTotal r.2 n)).phase != .routed then .stop (rstepL cfg s (withTotal r.2 n)) (some (withTotal r.2 n)) .close
       else if !isKeepAlive (withTotal r.2 n) then
         .stop { rstepL cfg s (withTotal r.2 n) with phase := .closing } (some (withTotal r.2 n)) .close
       else .next (rstepL cfg s (withTotal r.2 n)) none) := rfl
  rw [this, hph, hk']
  simp

theorem afterHandle_request (s : RSt) (r : Reverse.Res) : (afterHandle s r).request = s.request := by
  unfold afterHandle
  simp only
  split
  · rfl
  · rfl
  · split <;> rfl

/-- the loop keeps `request`; when it returns normally from a routed state the state is still routed -/
theorem rev_loop_inv (cfg : RCfg) (fuel : Nat) (s : RSt) (pl : Option Parser) (raw : Bytes) :
    (pipeLoop (revHooks cfg) fuel s pl raw).1.request = s.request ∧
    (s.phase = .routed → (pipeLoop (revHooks cfg) fuel s pl raw).2.2 = .ok →
      (pipeLoop (revHooks cfg) fuel s pl raw).1.phase = .routed) := by
  induction fuel generalizing s pl raw with
  | zero => simp [pipeLoop]
  | succ f ih =>
    unfold pipeLoop
    by_cases he : raw.isEmpty = true
    · simp [he]
    · simp only [he, Bool.false_eq_true, if_false]
      have hb : (revHooks cfg).bypass s pl raw = none := rfl
      rw [hb]
      simp only
      cases hp : Px.Parser.parse Forward.pcfg (pl.getD (init .request)) raw with
      | error e => cases e <;> simp [parseErrEnd]
      | ok p' =>
        simp only
        by_cases hc : (p'.state == PState.complete) = true
        · simp only [hc, if_true]
          have hreq : (rstepL cfg s { p' with buffer := none }).request = s.request := afterHandle_request _ _
          have hcm : (revHooks cfg).complete s { p' with buffer := none } =
              (if (rstepL cfg s { p' with buffer := none }).phase == .raised then
                 .stop (rstepL cfg s { p' with buffer := none }) (some { p' with buffer := none }) .raised
               else if (rstepL cfg s { p' with buffer := none }).phase != .routed then
                 .stop (rstepL cfg s { p' with buffer := none }) (some { p' with buffer := none }) .close
               else if !isKeepAlive ({ p' with buffer := none } : Parser) then
                 .stop { rstepL cfg s { p' with buffer := none } with phase := .closing } (some { p' with buffer := none }) .close
               else .next (rstepL cfg s { p' with buffer := none }) none) := rfl
          rw [hcm]
          by_cases h1 : ((rstepL cfg s { p' with buffer := none }).phase == WPhase.raised) = true
          · simp [h1, hreq]
          · simp only [h1, Bool.false_eq_true, if_false]
            by_cases h2 : ((rstepL cfg s { p' with buffer := none }).phase != WPhase.routed) = true
            · simp [h2, hreq]
            · simp only [h2, Bool.false_eq_true, if_false]
              have hrt : (rstepL cfg s { p' with buffer := none }).phase = .routed := by simpa using h2
              by_cases h3 : (!isKeepAlive ({ p' with buffer := none } : Parser)) = true
              · simp [h3, hreq]
              · simp only [h3, Bool.false_eq_true, if_false]
                cases p'.buffer with
                | none => simp [hreq, hrt]
                | some rest =>
                  simp only
                  obtain ⟨i1, i2⟩ := ih (rstepL cfg s { p' with buffer := none }) none rest
                  exact ⟨by rw [i1, hreq], fun _ he => i2 hrt he⟩
        · simp [hc]

theorem rst_eta_phase (s : RSt) : ({ s with phase := s.phase } : RSt) = s := by cases s; rfl

theorem rrun_routed (cfg : RCfg) (segs : List Bytes) (s : RSt) (pl : Option Parser) (s' : RSt) (pl' : Option Parser)
    (hph : s.phase = .routed) (hk : isKeepAlive s.request = true)
    (h : loopSegs (revHooks cfg) s pl segs = (s', pl', .ok)) : rrun cfg (s, pl) (segs.map .cseg) = (s', pl') := by
  induction segs generalizing s pl with
  | nil =>
    simp only [loopSegs, Prod.mk.injEq] at h
    obtain ⟨rfl, rfl, _⟩ := h
    rfl
  | cons x xs ih =>
    rw [loopSegs] at h
    obtain ⟨i1, i2⟩ := rev_loop_inv cfg (x.length + 1) s pl x
    rcases hp : pipeLoop (revHooks cfg) (x.length + 1) s pl x with ⟨s1, pl1, e⟩
    rw [hp] at h i1 i2
    simp only at i1 i2
    cases e with
    | close => simp at h
    | raised => simp at h
    | ok =>
      simp only at h
      have hw : rstep cfg (s, pl) (.cseg x) = (s1, pl1) := by
        simp only [rstep, hph, rdata, hk, Bool.not_true, Bool.false_eq_true, if_false, hp, endPhase]
        simp
      rw [List.map_cons, rrun, hw]
      exact ih s1 pl1 (i2 hph rfl) (by rw [i1]; exact hk) h

theorem foldl_rstep (cfg : RCfg) (rs : Reqs) (ns : List Nat) (hn : ns.length = rs.length)
    (hl : ∀ r ∈ rs, RevLaterOk cfg r) (s : RSt) :
    (handed rs ns).foldl (rstepL cfg) s =
      { s with handled := s.handled + rs.length,
               rv := { s.rv with client := { s.rv.client with
                 buffer := s.rv.client.buffer ++ (rs.map (fun r => revAnswer cfg false r.2)).flatten } } } := by
  induction rs generalizing ns s with
  | nil => cases ns <;> simp [handed]
  | cons r rs ih =>
    cases ns with
    | nil => simp at hn
    | cons n ns =>
      obtain ⟨_, hp, hlit, _⟩ := hl r (by simp)
      simp only [handed, List.foldl_cons]
      rw [rstepL_lit cfg s (withTotal r.2 n) hp hlit, ih ns (by simpa using hn) (fun r' hr' => hl r' (by simp [hr']))]
      have : revAnswer cfg false (withTotal r.2 n) = revAnswer cfg false r.2 := rfl
      simp [this, List.append_assoc, Nat.add_assoc, Nat.add_comm 1]

/-- outcome of the whole stream -/
structure RevDone (cfg : RCfg) (P₁ : Parser) (tl : Reqs) (S : RSt × Option Parser) : Prop where
  routed : S.1.phase = .routed
  idle : S.2 = none
  handled : S.1.handled = 1 + tl.length
  connects : S.1.rv.connects = []
  upstream : S.1.rv.upstream = none
  answers : S.1.rv.client.buffer = revAnswer cfg true P₁ ++ (tl.map (fun r => revAnswer cfg false r.2)).flatten

theorem rev_goodAll (cfg : RCfg) {tl : Reqs} (hl : ∀ r ∈ tl, RevLaterOk cfg r) :
    ∀ r ∈ tl, ∀ s n, s.phase = .routed →
      (revHooks cfg).complete s (withTotal r.2 n) = .next (rstepL cfg s (withTotal r.2 n)) none ∧
      (rstepL cfg s (withTotal r.2 n)).phase = .routed :=
  fun r hr s n hI => rev_good cfg r (hl r hr) s n hI

/-- **reverse proxy (plugin-answered routes), whole stream, any packing** -/
theorem rrun_stream (cfg : RCfg) (x₁ : Bytes) (P₁ : Parser) (tl : Reqs)
    (h1 : RevFirstOk cfg x₁ P₁) (hl : ∀ r ∈ tl, RevLaterOk cfg r)
    (segs : List Bytes) (hne : ∀ seg ∈ segs, seg ≠ []) (d : Bytes) (p : Parser) (hp : CanonP d p)
    (u : Bytes) (hx : x₁ = d ++ u) (hu : u ≠ []) (hflat : d ++ segs.flatten = x₁ ++ stream tl) :
    RevDone cfg P₁ tl (rrun cfg ({ request := p }, none) (segs.map .cseg)) := by
  obtain ⟨ho, hw, hws, hpa, hutf, hm, hlit, hka⟩ := h1
  induction segs generalizing d p u with
  | nil =>
    exfalso
    simp only [List.flatten_nil, List.append_nil] at hflat
    have := congrArg List.length hflat
    rw [hx] at this
    simp only [List.length_append] at this
    have : 0 < u.length := List.length_pos_iff.mpr hu
    omega
  | cons seg segs ih =>
    have hseg : seg ≠ [] := hne seg (by simp)
    have hst : seg ++ segs.flatten = u ++ stream tl := by
      have : d ++ (seg ++ segs.flatten) = d ++ (u ++ stream tl) := by
        simp only [List.flatten_cons] at hflat
        rw [hflat, hx, List.append_assoc]
      exact List.append_cancel_left this
    have hcase : (∃ a', a' ≠ [] ∧ u = seg ++ a' ∧ segs.flatten = a' ++ stream tl) ∨
        (∃ c, seg = u ++ c ∧ stream tl = c ++ segs.flatten) := by
      rcases List.append_eq_append_iff.1 hst with ⟨a', e1, e2⟩ | ⟨c, e1, e2⟩
      · by_cases ha : a' = []
        · subst ha
          exact .inr ⟨[], by simpa using e1.symm, by simpa using e2.symm⟩
        · exact .inl ⟨a', ha, e1, e2⟩
      · exact .inr ⟨c, e1, e2⟩
    have hne' : ∀ x ∈ segs, x ≠ [] := fun x hx' => hne x (by simp [hx'])
    rcases hcase with ⟨a', ha', hu', hrest⟩ | ⟨c, hsegc, htl⟩
    · obtain ⟨p', hp', hc'⟩ := feed_within ho hp (by rw [hx, hu', List.append_assoc]) ha' hseg
      have hnc : (p'.state != PState.complete) = true := by simpa using hc'.incomplete
      have hw1 : rstep cfg ({ request := p }, none) (.cseg seg) = ({ request := p' }, none) := by
        simp only [rstep, hp', hnc, if_true]
        simp
      rw [List.map_cons, rrun, hw1]
      exact ih hne' (d ++ seg) p' hc' a' (by rw [hx, hu', List.append_assoc]) ha'
        (by rw [List.append_assoc, hrest, hx, hu']; simp [List.append_assoc])
    · obtain ⟨n, p', hp', hpst, hpbuf, hclr⟩ :=
        feed_complete ho hp (show d ++ seg = x₁ ++ c by rw [hsegc, hx, List.append_assoc])
      have hnc : (p'.state != PState.complete) = false := by simp [hpst]
      have heta := parser_eta_buffer p'
      rw [hclr] at heta
      have cw : isWebRequest p' = true := by rw [heta]; exact hw
      have cws : isWebsocketUpgrade p' = false := by rw [heta]; exact hws
      have cpa : p'.path.isSome = true := by rw [heta]; exact hpa
      have cutf : Px.Url.utf8Valid (webPath p') = true := by rw [heta]; exact hutf
      have cm : anyMatch (cfg.matchPat (webPath p')) cfg.table = true := by rw [heta]; exact hm
      have clit : litOnly (cfg.matchPat (webPath p')) cfg.table = true := by rw [heta]; exact hlit
      have cans : revAnswer cfg true p' = revAnswer cfg true P₁ := by rw [heta]; rfl
      -- the first request handled
      have hrf : ∀ q : Parser, rfirst cfg { request := q } p' =
          { phase := .routed, request := q, handled := 1,
            rv := { client := { buffer := revAnswer cfg true P₁ } } } := by
        intro q
        unfold rfirst
        have hinv : (Px.Url.utf8Valid (webPath p') && anyMatch (cfg.matchPat (webPath p')) cfg.table) = true := by
          rw [cutf, cm]; rfl
        simp only [hinv, if_true,
          onRequestComplete_lit cfg.rv _ _ true cfg.table p' ({} : Reverse.St) cpa cutf cm clit, afterHandle]
        simp only [revAnswer, if_true] at cans
        simp [revAnswer, cans]
      let s1 : RSt := { phase := .routed, request := withTotal P₁ n, handled := 1,
                        rv := { client := { buffer := revAnswer cfg true P₁ } } }
      by_cases hc : c = []
      · subst hc
        have hb : p'.buffer = none := by simpa using hpbuf
        have hp'eq : p' = withTotal P₁ n := by
          rw [← hclr]; cases p'; simp_all
        have hw1 : rstep cfg ({ request := p }, none) (.cseg seg) = (s1, none) := by
          simp only [rstep, hp', hnc, Bool.false_eq_true, if_false, cw, cws, cutf, Bool.not_true, Bool.and_false, Bool.or_self, hb, hrf]
          simp [s1, hp'eq]
        obtain ⟨ns, hns, hloop⟩ := loopSegs_all (revHooks cfg) (rstepL cfg) (fun s => s.phase = .routed)
          (fun _ _ _ _ => rfl) segs hne' tl (fun r hr' => (hl r hr').1) (rev_goodAll cfg hl) [] none
          ⟨.inl ⟨rfl, rfl⟩, fun _ => rfl⟩ (.inl rfl) (by simpa using htl.symm) s1 rfl
        rw [List.map_cons, rrun, hw1, rrun_routed cfg segs s1 none _ none rfl hka hloop, foldl_rstep cfg tl ns hns hl]
        exact ⟨rfl, rfl, by simp [s1], rfl, rfl, by simp [s1]⟩
      · have hcE : c.isEmpty = false := by simpa using hc
        have hb : p'.buffer = some c := by simpa [hcE] using hpbuf
        obtain ⟨done, rs', ns, d', pl', e1, e2, e3, e4, e5, e6, e7⟩ :=
          pipeLoop_stream (revHooks cfg) (rstepL cfg) (fun s => s.phase = .routed) (fun _ _ _ _ => rfl) tl
            (fun r hr' => (hl r hr').1) (rev_goodAll cfg hl) [] c segs.flatten none
            ⟨.inl ⟨rfl, rfl⟩, fun _ => rfl⟩ (.inl rfl) hc (by simpa using htl.symm) (c.length + 1) (by omega) s1 rfl
        have hld : ∀ r ∈ done, RevLaterOk cfg r := fun r hr' => hl r (by rw [e1]; simp [hr'])
        have hlr : ∀ r ∈ rs', RevLaterOk cfg r := fun r hr' => hl r (by rw [e1]; simp [hr'])
        have hw1 : rstep cfg ({ request := p }, none) (.cseg seg) = ((handed done ns).foldl (rstepL cfg) s1, pl') := by
          simp only [rstep, hp', hnc, Bool.false_eq_true, if_false, cw, cws, cutf, Bool.not_true, Bool.and_false, Bool.or_self, hb, hrf,
            rdata, hclr]
          have hk' : isKeepAlive (withTotal P₁ n) = true := hka
          simp only [hk', Bool.not_true, Bool.false_eq_true, if_false]
          have : ({ phase := WPhase.routed, request := withTotal P₁ n, handled := 1,
                    rv := { client := { buffer := revAnswer cfg true P₁ } } } : RSt) = s1 := rfl
          simp only [beq_self_eq_true, if_true, this, e3, endPhase]
          simp
        obtain ⟨ns2, hns2, hloop⟩ := loopSegs_all (revHooks cfg) (rstepL cfg) (fun s => s.phase = .routed)
          (fun _ _ _ _ => rfl) segs hne' rs' (fun r hr' => (hlr r hr').1) (rev_goodAll cfg hlr) d' pl' e4 e5
          (by simpa using e6) _ e7
        have hreq : ((handed done ns).foldl (rstepL cfg) s1).request = withTotal P₁ n := by
          rw [foldl_rstep cfg done ns e2 hld]
        rw [List.map_cons, rrun, hw1, rrun_routed cfg segs _ pl' _ none e7 (by rw [hreq]; exact hka) hloop,
          foldl_rstep cfg rs' ns2 hns2 hlr, foldl_rstep cfg done ns e2 hld]
        refine ⟨rfl, rfl, ?_, rfl, rfl, ?_⟩
        · simp [s1, e1, Nat.add_assoc]
        · simp [s1, e1, List.append_assoc]

end Px.Persist
