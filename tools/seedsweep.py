#!/usr/bin/env python3
"""tools/seedsweep.py [IDs…] — re-run every stored seeded change against /repo HEAD.

For each seeded/<PROP>-<TAG>/: scratch worktree of HEAD, `git apply patch.diff` (if it no longer
applies because a later `fix:` commit moved the code, that is recorded), demo must fail, then
`VERIF_REPO=<worktree> ./check PROP` must exit 1 with a VIOLATION line.  Writes seeded/STATUS.json."""
import os, sys, json, subprocess, shutil, glob

V = os.path.dirname(os.path.dirname(os.path.abspath(__file__)))
head = subprocess.check_output(['git', '-C', '/repo', 'log', '-1', '--format=%h']).decode().strip()
only = set(sys.argv[1:])
status_path = os.path.join(V, 'seeded', 'STATUS.json')
status = json.load(open(status_path)) if os.path.exists(status_path) else {}
for d in sorted(glob.glob(os.path.join(V, 'seeded', '*-*'))):
    name = os.path.basename(d)
    if only and name not in only and name.split('-')[0] not in only:
        continue
    prop = name.split('-')[0]
    wt = '/tmp/seedchk/sweep_%s_%d' % (name, os.getpid())
    os.makedirs('/tmp/seedchk', exist_ok=True)
    subprocess.run(['git', '-C', '/repo', 'worktree', 'remove', '--force', wt], capture_output=True)
    subprocess.check_call(['git', '-C', '/repo', 'worktree', 'add', '-q', '--detach', wt, 'HEAD'])
    st = {'repo_head': head}
    try:
        p = subprocess.run(['git', 'apply', '--whitespace=nowarn', os.path.join(d, 'patch.diff')], cwd=wt,
                           capture_output=True, text=True)
        st['applies'] = p.returncode == 0
        if not st['applies']:
            meta = json.load(open(os.path.join(d, 'meta.json')))
            st['note'] = 'patch no longer applies to HEAD (code moved by a later fix: commit); last verdict at %s: caught=%s' % (
                meta.get('confirmed_by_us', {}).get('repo_head'), meta.get('our_check', {}).get('caught'))
        else:
            shutil.copy(os.path.join(d, 'demo.py'), os.path.join(wt, 'demo_seed.py'))
            src = open(os.path.join(d, 'demo.py')).read()
            runner = ['/venv/bin/python', '-m', 'pytest', '-q', '-p', 'no:cacheprovider', '-p', 'no:cov', 'demo_seed.py'] \
                if 'def test_' in src and '__main__' not in src else ['/venv/bin/python', 'demo_seed.py']
            try:
                r = subprocess.run(['timeout', '300'] + runner, cwd=wt, capture_output=True, text=True)
                st['demo_fails'] = r.returncode != 0
            except Exception as e:
                st['demo_fails'] = None
            os.remove(os.path.join(wt, 'demo_seed.py'))
            evp = os.path.join(V, 'evidence', prop + '.json')
            evsave = open(evp).read() if os.path.exists(evp) else None
            r = subprocess.run(['./check', prop, '--tier', 'quick'], cwd=V, capture_output=True, text=True,
                               env=dict(os.environ, VERIF_REPO=wt), timeout=3600)
            if evsave is not None:
                open(evp, 'w').write(evsave)
            st['check_rc'] = r.returncode
            lines = r.stdout.split('\n')
            st['violation'] = [l for l in lines if l.startswith('VIOLATION')][:1]
            st['detail'] = [l.strip()[:300] for l in lines if l.startswith('  failing input')][:1]
            st['caught'] = r.returncode == 1 and bool(st['violation'])
    finally:
        subprocess.run(['git', '-C', '/repo', 'worktree', 'remove', '--force', wt], capture_output=True)
    print(name, {k: st.get(k) for k in ('applies', 'demo_fails', 'caught')}, flush=True)
    # several sweeps may run side by side: merge into the file under a lock
    import fcntl
    with open(status_path + '.lock', 'w') as lk:
        fcntl.flock(lk, fcntl.LOCK_EX)
        status = json.load(open(status_path)) if os.path.exists(status_path) else {}
        status[name] = st
        json.dump(status, open(status_path, 'w'), indent=1, sort_keys=True)
subprocess.run(['/venv/bin/python', os.path.join(V, 'harness', 'gen_constants.py')], capture_output=True)
swept = {os.path.basename(d).split('-')[0] for d in glob.glob(os.path.join(V, 'seeded', '*-*'))
         if not only or os.path.basename(d) in only or os.path.basename(d).split('-')[0] in only}
for prop in swept:      # only the replay files of the mutant runs made here
    subprocess.run(['rm', '-f'] + glob.glob(os.path.join(V, 'replays', prop + '-*.json')))
