import PxModel.Relay
import PxProofs.ConnLemmas
import PxProofs.RelayLemmas
/-!
# C01 — relayed byte streams arrive exactly once, in order, unmodified

Property theorems only; lemmas are in `PxProofs/ConnLemmas.lean` and
`PxProofs/RelayLemmas.lean`.  The model (`PxModel/Conn.lean`,
`PxModel/Relay.lean`) is tied to `proxy/core/connection/connection.py`,
`proxy/core/base/tcp_server.py`, `proxy/http/handler.py` and
`proxy/http/proxy/server.py` by the correspondence check `harness/c01.py`.

All run-level theorems quantify over an arbitrary `ticks : List Tick`: every
segmentation of either direction, every subset of ready descriptors per round,
every outcome (short write, would-block, failure) of every `send` / `recv` the
proxy makes.  They speak about the state up to and including the tick in which
`handle_events` returns `True` (after it `run` stops, as the executor calls
`shutdown()`); what is still buffered at that moment is C07's subject.

Default configuration (no plugin chain, no pool, no interception).  Response
inspection is not modelled (inside `try/except` since the D14 fix, it cannot
change what is queued); for a plain-HTTP exchange the downstream direction is
the same code path as the tunnel's, so `C01_http_down` holds for every upstream
byte string whatever its framing.
-/
namespace Px.Conn

/-- **flush is FIFO.**  Whatever `send` answers, `flush` removes exactly the
first `accepted` queued bytes, these are the bytes put on the wire, the bytes
handed to `send` are a prefix of the queued bytes, and after `send` returned `k`
the count is `min k (min max_send len(head))`. -/
theorem C01_flush_fifo (m : Nat) (c : Conn) (o : SendOut) :
    (flush m c o).conn.buffer.flatten = c.buffer.flatten.drop (flush m c o).accepted ∧
    (flush m c o).wire = c.buffer.flatten.take (flush m c o).accepted ∧
    (∀ off, (flush m c o).offered = some off → off <+: c.buffer.flatten) ∧
    (∀ k mv rest, o = .sent k → c.buffer = mv :: rest →
      (flush m c o).accepted = min k (min (effMax m) mv.length)) := by
  refine ⟨flush_drop m c o, ?_, flush_offered_prefix m c o, ?_⟩
  · have h := flush_wire_append m c o
    have hl := wire_length m c o
    rw [← h, ← hl, List.take_left']
    rfl
  · intro k mv rest ho hb; subst ho; exact flush_accepted m c k mv rest hb

/-- **progress of one flush.**  A `send` that accepts at least one byte strictly
decreases the pending measure (queued bytes + queued elements); when the head
element is non-empty (it always is on an established exchange, see
`C01_no_empty_elements`) the queued bytes themselves strictly decrease. -/
theorem C01_progress (m : Nat) (c : Conn) (k : Nat) (h : c.buffer ≠ []) :
    pending (flush m c (.sent (k + 1))).conn < pending c ∧
    (∀ mv rest, c.buffer = mv :: rest → mv ≠ [] →
      (flush m c (.sent (k + 1))).conn.buffer.flatten.length < c.buffer.flatten.length) :=
  ⟨flush_pending_lt m c k h, fun mv rest hb hne => flush_bytes_lt m c k mv rest hb hne⟩

/-- the hypothesis is satisfiable and the flush really moves bytes -/
example : flush 2 { buffer := [[1, 2, 3], [4]] } (.sent 7) =
    ⟨{ buffer := [[3], [4]] }, some [1, 2], 2, none⟩ := by decide

end Px.Conn

namespace Px.Relay
open Px Px.Conn

/-- **C01, tunnel, upstream → client.**  In every state reachable from the
acknowledged tunnel, the bytes accepted so far by sends to the client followed
by the bytes still queued for it are exactly the acknowledgement followed by
everything read from the upstream so far: nothing lost, duplicated, reordered
or altered, and nothing but `ack` injected. -/
theorem C01_tunnel_down (m : Nat) (ticks : List Tick) :
    (run (initTunnel m) ticks).1.sentC ++ (run (initTunnel m) ticks).1.client.buffer.flatten
      = ack ++ (run (initTunnel m) ticks).1.recvU := by
  obtain ⟨segs, _, _, h3, h4, _, _⟩ := run_down ticks (initTunnel m) (by simp [initTunnel, st0])
  have : D (run (initTunnel m) ticks).1 = ack ++ (run (initTunnel m) ticks).1.recvU := by
    rw [h4, h3]; simp [D, initTunnel, st0]
  exact this

/-- **C01, tunnel, client → upstream.**  Same in the other direction: accepted by
the upstream followed by queued for it is exactly what was read from the client
after the CONNECT; and no exception escapes `handle_events` on a tunnel. -/
theorem C01_tunnel_up (m : Nat) (ticks : List Tick) :
    (run (initTunnel m) ticks).1.sentU ++ (run (initTunnel m) ticks).1.upstream.buffer.flatten
      = (run (initTunnel m) ticks).1.recvC ∧
    (run (initTunnel m) ticks).2 ≠ .raised := by
  obtain ⟨⟨segs, h1, h2⟩, h3⟩ := run_up ticks (initTunnel m) (by simp [initTunnel, st0]) (by simp [initTunnel, st0])
  refine ⟨?_, h3⟩
  have : U (run (initTunnel m) ticks).1 = (run (initTunnel m) ticks).1.recvC := by
    rw [h2, h1]; simp [U, initTunnel, st0]
  exact this

/-- **C01, plain HTTP, upstream → client.**  For an exchange established by a
forwarded HTTP request (`req` queued for the upstream): delivered followed by
pending is exactly what was read from the upstream — for every byte string the
upstream sends, in any framing, and whatever the client sends meanwhile
(`Tick.app` arbitrary). -/
theorem C01_http_down (m : Nat) (req : Bytes) (ticks : List Tick) :
    (run (initHttp m req) ticks).1.sentC ++ (run (initHttp m req) ticks).1.client.buffer.flatten
      = (run (initHttp m req) ticks).1.recvU := by
  obtain ⟨segs, _, _, h3, h4, _, _⟩ := run_down ticks (initHttp m req) (by simp [initHttp, st0])
  have : D (run (initHttp m req) ticks).1 = (run (initHttp m req) ticks).1.recvU := by
    rw [h4, h3]; simp [D, initHttp, st0]
  exact this

/-- **C01, only injection.**  Every element ever queued to the client of an
established exchange is the acknowledgement (tunnel only, first) or a non-empty
segment returned by an upstream `recv` of the run, and the queue log as a whole
is `ack ++ received` / `received`. -/
theorem C01_only_injection (m : Nat) (req : Bytes) (ticks : List Tick) :
    (∃ segs, (run (initTunnel m) ticks).1.queuedC = ack :: segs ∧
      ∀ b ∈ segs, b ≠ [] ∧ ∃ t ∈ ticks, t.uRecv = .data b) ∧
    (run (initTunnel m) ticks).1.queuedC.flatten = ack ++ (run (initTunnel m) ticks).1.recvU ∧
    (∀ b ∈ (run (initHttp m req) ticks).1.queuedC, b ≠ [] ∧ ∃ t ∈ ticks, t.uRecv = .data b) ∧
    (run (initHttp m req) ticks).1.queuedC.flatten = (run (initHttp m req) ticks).1.recvU := by
  obtain ⟨segs, _, _, h3, _, h5, h6⟩ := run_down ticks (initTunnel m) (by simp [initTunnel, st0])
  obtain ⟨segs', _, _, g3, _, g5, g6⟩ := run_down ticks (initHttp m req) (by simp [initHttp, st0])
  refine ⟨⟨segs, by rw [h5]; simp [initTunnel, st0], h6⟩, ?_, ?_, ?_⟩
  · rw [h5, h3]; simp [initTunnel, st0]
  · rw [g5]; simpa [initHttp, st0] using g6
  · rw [g5, g3]; simp [initHttp, st0]

/-- what is pending for the client is always the tail of what was queued for it -/
theorem C01_pending_is_suffix (m : Nat) (ticks : List Tick) :
    (run (initTunnel m) ticks).1.client.buffer.flatten <:+ (run (initTunnel m) ticks).1.queuedC.flatten := by
  have h1 := C01_tunnel_down m ticks
  have h2 := (C01_only_injection m [] ticks).2.1
  rw [h2, ← h1]
  exact List.suffix_append _ _

theorem ack_ne_nil : ack ≠ [] := by decide

/-- no element queued for the client of an established exchange is empty, so a
`send` that accepts a byte always shortens the pending bytes -/
theorem C01_no_empty_elements (m : Nat) (req : Bytes) (ticks : List Tick) :
    (∀ e ∈ (run (initTunnel m) ticks).1.client.buffer, e ≠ []) ∧
    (∀ e ∈ (run (initHttp m req) ticks).1.client.buffer, e ≠ []) := by
  refine ⟨run_noEmpty ticks _ (by simp [initTunnel, st0]) ?_, run_noEmpty ticks _ (by simp [initHttp, st0]) ?_⟩
  · intro e he; simp [initTunnel, st0] at he; subst he; exact ack_ne_nil
  · intro e he; simp [initHttp, st0] at he

/-- **progress of one round.**  On a tunnel / HTTP exchange, a round in which the
client is reported writable and its `send` accepts at least one byte appends a
non-empty prefix of the pending bytes — exactly `min k (min max_send len(head))`
of them — to what has been delivered. -/
theorem C01_progress_tick (s : St) (t : Tick) (hk : s.kind ≠ .local) (mv : Bytes) (rest : List Bytes)
    (hb : s.client.buffer = mv :: rest) (hne : mv ≠ []) (hw : t.cW = true) (k : Nat)
    (hs : t.cSend = .sent (k + 1)) :
    ∃ w, w ≠ [] ∧ (step s t).1.sentC = s.sentC ++ w ∧ w <+: s.client.buffer.flatten ∧
      w.length = min (k + 1) (min (effMax s.maxSend) mv.length) :=
  step_progress s t hk mv rest hb hne hw k hs

/-- non-vacuity: the hypotheses of `C01_progress_tick` hold in the acknowledged tunnel -/
example : (initTunnel 0).kind ≠ .local ∧ (initTunnel 0).client.buffer = ack :: [] ∧ ack ≠ [] := by
  decide

/-- a concrete run: two upstream segments, a 3-byte partial write, client data
going up — the model really moves bytes (non-trivial inhabitant of the runs the
theorems quantify over) -/
example :
    let ticks : List Tick := [
      ⟨false, false, true, false, .blocking, .data [1, 2], .blocking, .blocking, .raised⟩,
      ⟨true, true, true, true, .data [9], .data [3], .sent 3, .blocking, .raised⟩,
      ⟨false, true, false, true, .blocking, .blocking, .sent 1000, .sent 1000, .raised⟩]
    let s := (run (initTunnel 3) ticks).1
    s.sentC = ack.take 6 ∧ s.client.buffer = [ack.drop 6, [1, 2], [3]] ∧ s.sentU = [9] ∧
      s.recvU = [1, 2, 3] ∧ s.recvC = [9] := by
  decide

/-- **C01, tunnel established with early payload.**  When the CONNECT request
shares its segment with early tunnel bytes `early` (any bytes: empty, binary,
starting with CR / LF, larger than `max_send`), both directions hold from that
state on: downstream exactly as `C01_tunnel_down`; upstream, accepted by the
upstream followed by queued for it is exactly `early` followed by everything
read from the client afterwards — every client byte after the CONNECT request,
exactly once, in order, unmodified; and no exception escapes. -/
theorem C01_tunnel_early (m : Nat) (early : Bytes) (ticks : List Tick) :
    (run (initTunnelEarly m early) ticks).1.sentC ++ (run (initTunnelEarly m early) ticks).1.client.buffer.flatten
      = ack ++ (run (initTunnelEarly m early) ticks).1.recvU ∧
    (run (initTunnelEarly m early) ticks).1.sentU ++ (run (initTunnelEarly m early) ticks).1.upstream.buffer.flatten
      = (run (initTunnelEarly m early) ticks).1.recvC ∧
    (∃ later, (run (initTunnelEarly m early) ticks).1.recvC = early ++ later) ∧
    (run (initTunnelEarly m early) ticks).2 ≠ .raised := by
  have hk : (initTunnelEarly m early).kind = .tunnel := by simp [initTunnelEarly, st0]
  obtain ⟨segs, _, _, h3, h4, _, _⟩ := run_down ticks (initTunnelEarly m early) (by simp [hk])
  obtain ⟨⟨later, u1, u2⟩, u3⟩ := run_up ticks (initTunnelEarly m early) hk (by simp [initTunnelEarly, st0])
  have hU0 : U (initTunnelEarly m early) = early := by
    unfold U initTunnelEarly st0
    cases early <;> simp
  refine ⟨?_, ?_, ⟨later, by rw [u1]; simp [initTunnelEarly, st0]⟩, u3⟩
  · have : D (run (initTunnelEarly m early) ticks).1 = ack ++ (run (initTunnelEarly m early) ticks).1.recvU := by
      rw [h4, h3]; simp [D, initTunnelEarly, st0]
    exact this
  · have : U (run (initTunnelEarly m early) ticks).1 = (run (initTunnelEarly m early) ticks).1.recvC := by
      rw [u2, u1, hU0]; simp [initTunnelEarly, st0]
    exact this

/-- early payload starting with CRLF is queued as it is -/
example : (initTunnelEarly 0 [13, 10, 22, 3]).upstream.buffer = [[13, 10, 22, 3]] ∧
    (initTunnelEarly 0 []) = initTunnel 0 := by decide

/-! ### the idle reaper cannot drop relayed bytes -/

theorem runEv_down (evs : List Ev) (s : St) (hk : s.kind ≠ .local) (inj : Bytes)
    (h : D s = inj ++ s.recvU) :
    D (runEv s evs).1 = inj ++ (runEv s evs).1.recvU := by
  induction evs generalizing s with
  | nil => exact h
  | cons e es ih =>
    cases e with
    | tick t =>
      obtain ⟨seg, d⟩ := step_down s t hk
      have h1 : D (step s t).1 = inj ++ (step s t).1.recvU := by
        rw [d.d, d.recvU, h, List.append_assoc]
      unfold runEv
      rcases hst : step s t with ⟨s1, r⟩
      rw [hst] at h1 d
      cases r with
      | cont => exact ih s1 (by rw [d.kind]; exact hk) h1
      | teardown => exact h1
      | raised => exact h1
    | reap el to =>
      unfold runEv
      split
      · exact h
      · exact ih s hk h

/-- **C01 with the idle reaper in the schedule.**  Runs in which
`Threadless._cleanup_inactive` looks at the connection at arbitrary moments,
with arbitrary clock readings and timeouts, before and after the upstream's
close: (1) while anything is pending for the client `is_inactive()` is false —
the reaper never drops pending relayed bytes (`C07_not_reaped_while_pending`
re-stated for the relay invariant); (2) the invariant delivered ++ pending =
(ack ++) received holds in every state such a run reaches, for the tunnel (with
any early payload) and the plain-HTTP exchange; (3) a run that ends with the
reaper closing the connection has delivered everything it received:
`sentC = ack ++ recvU` / `sentC = recvU`. -/
theorem C01_not_reaped_while_pending (m : Nat) (early req : Bytes) (evs : List Ev) :
    (∀ (s : St) (elapsed timeout : Int), s.client.hasBuffer = true → isInactive s elapsed timeout = false) ∧
    ((runEv (initTunnelEarly m early) evs).1.sentC ++ (runEv (initTunnelEarly m early) evs).1.client.buffer.flatten
        = ack ++ (runEv (initTunnelEarly m early) evs).1.recvU) ∧
    ((runEv (initHttp m req) evs).1.sentC ++ (runEv (initHttp m req) evs).1.client.buffer.flatten
        = (runEv (initHttp m req) evs).1.recvU) ∧
    ((runEv (initTunnelEarly m early) evs).2 = .reaped →
        (runEv (initTunnelEarly m early) evs).1.sentC = ack ++ (runEv (initTunnelEarly m early) evs).1.recvU) ∧
    ((runEv (initHttp m req) evs).2 = .reaped →
        (runEv (initHttp m req) evs).1.sentC = (runEv (initHttp m req) evs).1.recvU) := by
  have reaped_empty : ∀ (evs : List Ev) (s : St), (runEv s evs).2 = .reaped → (runEv s evs).1.client.buffer = [] := by
    intro evs
    induction evs with
    | nil => intro s h; simp [runEv] at h
    | cons e es ih =>
      intro s h
      cases e with
      | tick t =>
        unfold runEv at h ⊢
        rcases hst : step s t with ⟨s1, r⟩
        rw [hst] at h
        cases r with
        | cont => exact ih s1 h
        | teardown => simp at h
        | raised => simp at h
      | reap el to =>
        unfold runEv at h ⊢
        split
        · rename_i hi
          simp [isInactive, Conn.hasBuffer] at hi
          exact hi.1
        · rename_i hi; rw [if_neg hi] at h; exact ih s h
  have ht := runEv_down evs (initTunnelEarly m early) (by simp [initTunnelEarly, st0]) ack
    (by simp [D, initTunnelEarly, st0])
  have hh := runEv_down evs (initHttp m req) (by simp [initHttp, st0]) []
    (by simp [D, initHttp, st0])
  refine ⟨fun s e t hb => by simp [isInactive, hb], ht, by simpa [D] using hh, ?_, ?_⟩
  · intro hr
    have := reaped_empty evs _ hr
    unfold D at ht; rw [this] at ht; simpa using ht
  · intro hr
    have := reaped_empty evs _ hr
    unfold D at hh; rw [this] at hh; simpa using hh

/-- the reaper really closes drained idle relays and passes over pending ones -/
example :
    let up : Tick := ⟨false, false, true, false, .blocking, .data [7, 8], .blocking, .blocking, .raised⟩
    let eof : Tick := ⟨false, false, true, false, .blocking, .eof, .blocking, .blocking, .raised⟩
    let wr : Tick := ⟨false, true, false, false, .blocking, .blocking, .sent 1000, .blocking, .raised⟩
    (runEv (initHttp 0 [71]) [.tick up, .tick eof, .reap 1000000 10, .reap 5 (-3)]).2 = .open_ ∧
    (runEv (initHttp 0 [71]) [.tick up, .reap 99 10, .tick wr, .reap 11 10]).2 = .reaped := by decide

end Px.Relay
