import PxModel.DrvWs
import PxModel.DrvParser
import PxModel.DrvCodec
import PxModel.DrvRelay
import PxModel.DrvIdle
import PxModel.DrvListen
import PxModel.DrvDispatcher
import PxModel.DrvStatic
import PxModel.DrvChain
import PxModel.DrvExec
import PxModel.DrvFirst
import PxModel.DrvReverse
import PxModel.DrvForward
import PxModel.DrvConnect
import PxModel.DrvIntercept
import PxModel.DrvModes
import PxModel.DrvPersist
/-
  Line protocol driver: one operation per input line, one canonical result
  line per input line.  First token selects the model.
-/
open Px

def dispatch (line : String) : String :=
  match (line.splitOn " ").filter (· ≠ "") with
  | "ws" :: args => Ws.drv args
  | "hp" :: args => Parser.drv args
  | "codec" :: args => Codec.drv args
  | "disp" :: args => Disp.drv args
  | "idle" :: args => Idle.drv args
  | "listen" :: args => Listen.drv args
  | "static" :: args => Static.drv args
  | "relay" :: args => Relay.drv args
  | "chain" :: args => Chain.drv args
  | "sel" :: args => Exec.selDrv args
  | "exec" :: args => Exec.execDrv args
  | "rev" :: args => Reverse.drv args
  | "fwd" :: args => Forward.drv args
  | "conn" :: args => Connect.drv args
  | "first" :: args => First.drv args
  | "tls" :: args => Intercept.drv args
  | "modes" :: args => Modes.drv args
  | "persist" :: args => Persist.drv args
  | _ => "bad-op"

partial def loop (h : IO.FS.Stream) (out : IO.FS.Stream) : IO Unit := do
  let line ← h.getLine
  if line.isEmpty then return ()
  let line := (line.trimAsciiEnd).toString
  out.putStrLn (dispatch line)
  loop h out

def main : IO Unit := do
  let out ← IO.getStdout
  loop (← IO.getStdin) out
  out.flush
