import PxProofs.BuildParse
/-!
# The builders' output read back by the parser, part 3: framing cases and the builders (C15)

* `finish_nobody` / `finish_cl` / `finish_chunked` : what `parse` returns for a rendered packet
  in each of the three framings, for any start line (`p1` = parser after the start line);
* `buildPkt_eq`, `reqHeaders`, `buildRequest_eq`, `resHeaders`, `buildResponse_eq` : the builders as
  `start-line CRLF header-block CRLF payload` and the exact header list they send;
* `mem_reqHeaders`, `mem_resHeaders` and the facts about these lists the framing theorems need.
-/
namespace Px.Codec

open Px.Parser Px.Build
open Px.Url (Url)

/-! ### framing cases, generic in the start line -/

/-- the start-line fields of `r` are those of `p` -/
def LineEq (p r : Parser) : Prop :=
  r.ty = p.ty ∧ r.method = p.method ∧ r.version = p.version ∧ r.code = p.code ∧ r.reason = p.reason ∧
  r.url = p.url ∧ r.host = p.host ∧ r.port = p.port ∧ r.path = p.path ∧ r.isTunnel = p.isTunnel ∧
  r.totalSize = p.totalSize

/-- the parser's header map for a received header list -/
def hdrsOf (H : HDict) : Option Headers := if H = [] then none else some (hdrFold [] H)

/-- a parser that has read a start line and nothing else -/
def FreshLine (p1 : Parser) : Prop :=
  p1.contentExpected = false ∧ p1.isChunked = false ∧ p1.headers = none ∧ p1.body = none ∧
  p1.chunk = none ∧ p1.buffer = none

theorem lineEq_of_sameLine {p q : Parser} (h : sameLine p q) : LineEq p q := by
  obtain ⟨a1, a2, a3, a4, a5, a6, a7, a8, a9, a10, -, -, a13, -⟩ := h
  exact ⟨a1, a2, a3, a4, a5, a6, a7, a8, a9, a10, a13⟩

theorem clValuesOK_of {H : HDict} {n : Int} (h : ∀ e ∈ H, isCL e = true → pyInt 10 e.2 = some n) :
    clValuesOK H := fun e he hc => ⟨n, h e he hc⟩

/-- **no body**: no chunked transfer coding and every `content-length` (if any) reads as 0.
    The message completes at the blank line; `B` (bytes after it) stays in the buffer. -/
theorem finish_nobody (cfg : Cfg) (ty : PType) (p1 : Parser) (H : HDict) (B pkt : Bytes)
    (hparse : parse cfg (init ty) pkt = match foldHdrs p1 H with
      | .error e => .error e
      | .ok q => bodyPhase cfg (pkt.length + 6) q B)
    (hp1 : FreshLine p1) (hte : H.any isTEChunked = false)
    (hcl : ∀ e ∈ H, isCL e = true → pyInt 10 e.2 = some 0) (hB : B = [] ∨ p1.ty = .request) :
    ∃ r, parse cfg (init ty) pkt = .ok r ∧ r.state = .complete ∧ LineEq p1 r ∧ r.headers = hdrsOf H ∧
      r.body = none ∧ r.buffer = (if B.isEmpty then none else some B) ∧ r.isChunked = false := by
  obtain ⟨hce, hch, hh, hb, hck, hbf⟩ := hp1
  obtain ⟨q, hq⟩ := foldHdrs_ok H (clValuesOK_of hcl) p1
  obtain ⟨hsl, hhd, hchq⟩ := foldHdrs_spec H hq
  have hceq : q.contentExpected = false := by
    by_cases hex : ∃ e ∈ H, isCL e = true
    · rw [foldHdrs_ce_some H 0 hcl hex hq]; decide
    · have hnone : ∀ e ∈ H, isCL e = false := by
        intro e he
        cases hc : isCL e with
        | false => rfl
        | true => exact absurd ⟨e, he, hc⟩ hex
      rw [foldHdrs_ce_none H hnone hq, hce]
  have hchq' : q.isChunked = false := by rw [hchq, hch, hte]; rfl
  have hty : q.ty = p1.ty := hsl.1
  rw [hparse, hq]
  simp only
  rw [bodyPhase_nobody cfg _ q B hceq hchq' (by
    rcases hB with h | h
    · exact .inl h
    · exact .inr (.inl (hty.trans h)))]
  refine ⟨_, rfl, rfl, ?_, ?_, ?_, rfl, hchq'⟩
  · exact (lineEq_of_sameLine hsl : LineEq p1 q)
  · show q.headers = _; rw [hhd, hh]; rfl
  · show q.body = _; rw [hsl.2.2.2.2.2.2.2.2.2.2.1, hb]

/-- **Content-Length framing**: no chunked transfer coding, at least one `content-length`, all of them
    reading as `len(body) > 0`; the payload is `body ++ tail`. -/
theorem finish_cl (cfg : Cfg) (ty : PType) (p1 : Parser) (H : HDict) (body tail pkt B : Bytes)
    (hparse : parse cfg (init ty) pkt = match foldHdrs p1 H with
      | .error e => .error e
      | .ok q => bodyPhase cfg (pkt.length + 6) q B)
    (hBeq : B = body ++ tail)
    (hp1 : FreshLine p1) (hte : H.any isTEChunked = false)
    (hcl : ∀ e ∈ H, isCL e = true → pyInt 10 e.2 = some (Int.ofNat body.length))
    (hex : ∃ e ∈ H, isCL e = true) (hne : body ≠ []) :
    ∃ r, parse cfg (init ty) pkt = .ok r ∧ r.state = .complete ∧ LineEq p1 r ∧ r.headers = hdrsOf H ∧
      r.body = some body ∧ r.buffer = (if tail.isEmpty then none else some tail) ∧ r.isChunked = false := by
  subst hBeq
  obtain ⟨hce, hch, hh, hb, hck, hbf⟩ := hp1
  obtain ⟨q, hq⟩ := foldHdrs_ok H (clValuesOK_of hcl) p1
  obtain ⟨hsl, hhd, hchq⟩ := foldHdrs_spec H hq
  have hpos : 0 < body.length := List.length_pos_iff.2 hne
  have hceq : q.contentExpected = true := by
    rw [foldHdrs_ce_some H _ hcl hex hq]
    simp only [decide_eq_true_eq]; exact Int.natCast_pos.2 hpos
  have hchq' : q.isChunked = false := by rw [hchq, hch, hte]; rfl
  have hbq : q.body = none := by rw [hsl.2.2.2.2.2.2.2.2.2.2.1, hb]
  -- the value the parser looks up is one of the content-length values
  have hHne : H ≠ [] := by
    obtain ⟨e, he, -⟩ := hex; intro h; rw [h] at he; simp at he
  have hlookup : ∃ clv, header q (b "content-length") = .ok clv ∧ pyInt 10 clv = some (Int.ofNat body.length) := by
    have hqh : q.headers = some (hdrFold [] H) := by rw [hhd, if_neg hHne, hh]; rfl
    obtain ⟨nv, hget, hval⟩ := hdrGet_hdrFold_cl H [] hex
    obtain ⟨e, he, hce', hv⟩ := hval
    refine ⟨nv.2, ?_, by rw [hv]; exact hcl e he hce'⟩
    unfold header
    rw [hqh, b_content_length]
    simp only [show lower [99, 111, 110, 116, 101, 110, 116, 45, 108, 101, 110, 103, 116, 104] = kCL from by decide,
      hget]
  obtain ⟨clv, hhdr, hint⟩ := hlookup
  rw [hparse, hq]
  simp only
  have e6 : pkt.length + 6 = (pkt.length + 4) + 2 := rfl
  rw [e6, bodyPhase_cl cfg _ q body tail clv hchq' hceq hbq hhdr hint hne]
  refine ⟨_, rfl, rfl, ?_, ?_, rfl, rfl, hchq'⟩
  · exact (lineEq_of_sameLine hsl : LineEq p1 q)
  · show q.headers = _; rw [hhd, hh]; rfl

/-- **chunked framing**: some header is `Transfer-Encoding: chunked` (case-insensitively), every
    `content-length` present is an integer literal (it is ignored); the payload is a valid chunked
    stream followed by `tail`. -/
theorem finish_chunked (cfg : Cfg) (ty : PType) (p1 : Parser) (H : HDict) (s : Px.Chunk.ChunkedStream)
    (tail pkt B : Bytes)
    (hparse : parse cfg (init ty) pkt = match foldHdrs p1 H with
      | .error e => .error e
      | .ok q => bodyPhase cfg (pkt.length + 6) q B)
    (hBeq : B = s.render ++ tail)
    (hp1 : FreshLine p1) (hte : H.any isTEChunked = true) (hcl : clValuesOK H) (hv : s.Valid) :
    ∃ r, parse cfg (init ty) pkt = .ok r ∧ r.state = .complete ∧ LineEq p1 r ∧ r.headers = hdrsOf H ∧
      r.body = some s.decoded ∧ r.buffer = (if tail.isEmpty then none else some tail) ∧ r.isChunked = true := by
  subst hBeq
  obtain ⟨hce, hch, hh, hb, hck, hbf⟩ := hp1
  obtain ⟨q, hq⟩ := foldHdrs_ok H hcl p1
  obtain ⟨hsl, hhd, hchq⟩ := foldHdrs_spec H hq
  have hchq' : q.isChunked = true := by rw [hchq, hte]; simp
  have hckq : q.chunk = none := by rw [hsl.2.2.2.2.2.2.2.2.2.2.2.1, hck]
  rw [hparse, hq]
  simp only
  have e6 : pkt.length + 6 = (pkt.length + 4) + 2 := rfl
  rw [e6, bodyPhase_chunked cfg _ q s tail hchq' hckq hv]
  refine ⟨_, rfl, rfl, ?_, ?_, rfl, rfl, hchq'⟩
  · exact (lineEq_of_sameLine hsl : LineEq p1 q)
  · show q.headers = _; rw [hhd, hh]; rfl

/-! ### the builders as `start-line CRLF header-block CRLF payload` -/

theorem bn_Content_Length : b "Content-Length" = nCL := by rw [b_Content_Length]; rfl
theorem bn_Content_Type : b "Content-Type" = nCT := by rw [b_Content_Type]; rfl
theorem bn_User_Agent : b "User-Agent" = nUA := by rw [b_User_Agent]; rfl
theorem bn_Connection : b "Connection" = nConn := by rw [b_Connection]; rfl
theorem bn_close : b "close" = vClose := by rw [b_close]; rfl
theorem bn_transfer_encoding : b "transfer-encoding" = kTE := by rw [b_transfer_encoding]; rfl
theorem bn_user_agent : b "user-agent" = kUA := by rw [b_user_agent]; rfl
theorem bn_content_length : b "content-length" = kCL := by rw [b_content_length]; rfl

/-- `build_http_pkt`'s `Connection: close` -/
def pktHeaders (H : HDict) (cc : Bool) : HDict := if cc then dSet H nConn vClose else H

theorem buildPkt_eq (line : List Bytes) (H : HDict) (body : Option Bytes) (cc : Bool) :
    buildPkt line H body cc =
      join [SP] line ++ CRLF ++ (renderHdrs (pktHeaders H cc) ++ CRLF ++ body.getD []) := by
  unfold buildPkt pktHeaders renderHdrs
  rw [bn_Connection, bn_close]
  cases body <;> simp [List.append_assoc]

theorem join_three (m u v : Bytes) : join [SP] [m, u, v] = m ++ SP :: (u ++ SP :: v) := by simp [join]
theorem join_two (v c : Bytes) : join [SP] [v, c] = v ++ SP :: c := by simp [join]

/-- Python truthiness of an optional bytes body -/
def bodyTruthy (body : Option Bytes) : Bool := match body with | some x => !x.isEmpty | none => false

/-- does the dict contain this header name, compared case-insensitively? -/
def hasKey (k : Bytes) (hs : HDict) : Bool := hs.any (fun e => lower e.1 == k)

/-- `build_http_request`, stage 1: `Content-Type` when `content_type` is given -/
def reqH1 (ct : Option Bytes) (hs : HDict) : HDict :=
  match ct with | some c => dSet hs nCT c | none => hs

/-- stage 2: `Content-Length` when the body is truthy and no `transfer-encoding` key is present -/
def reqH2 (ct : Option Bytes) (hs : HDict) (body : Option Bytes) : HDict :=
  if bodyTruthy body && !hasKey kTE (reqH1 ct hs) then
    dSet (reqH1 ct hs) nCL (natToDec (body.getD []).length)
  else reqH1 ct hs

/-- stage 3: `User-Agent` unless a `user-agent` key is present or `no_ua` -/
def reqH3 (ua : Bytes) (ct : Option Bytes) (hs : HDict) (body : Option Bytes) (noUa : Bool) : HDict :=
  if !hasKey kUA (reqH1 ct hs) && !noUa then dSet (reqH2 ct hs body) nUA ua else reqH2 ct hs body

/-- the header list `build_http_request` sends, in order (stage 4: `Connection: close`) -/
def reqHeaders (ua : Bytes) (ct : Option Bytes) (hs : HDict) (body : Option Bytes) (cc noUa : Bool) : HDict :=
  pktHeaders (reqH3 ua ct hs body noUa) cc

theorem buildRequest_eq (ua m u v : Bytes) (ct : Option Bytes) (hs : HDict) (body : Option Bytes)
    (cc noUa : Bool) :
    buildRequest ua m u v ct hs body cc noUa =
      m ++ SP :: (u ++ SP :: v) ++ CRLF ++ (renderHdrs (reqHeaders ua ct hs body cc noUa) ++ CRLF ++ body.getD []) := by
  unfold buildRequest
  rw [buildPkt_eq, join_three, bn_Content_Type, bn_Content_Length, bn_User_Agent, bn_transfer_encoding,
    bn_user_agent]
  rfl

/-- the header list `build_http_response` sends, in order -/
def resHeaders (hs : HDict) (body : Option Bytes) (cc noCl : Bool) : HDict :=
  let h1 := if !hasKey kTE hs && !noCl then
      dSet hs nCL (if bodyTruthy body then natToDec (body.getD []).length else [48])
    else hs
  pktHeaders h1 cc

/-- the status line `build_http_response` sends -/
def statusLine (status : Int) (version : Bytes) (reason : Option Bytes) : Bytes :=
  match reason with
  | some r => if r.isEmpty then version ++ SP :: intToDec status else version ++ SP :: (intToDec status ++ SP :: r)
  | none => version ++ SP :: intToDec status

theorem buildResponse_eq (status : Int) (version : Bytes) (reason : Option Bytes) (hs : HDict)
    (body : Option Bytes) (cc noCl : Bool) :
    buildResponse status version reason hs body cc noCl =
      statusLine status version reason ++ CRLF ++
        (renderHdrs (resHeaders hs body cc noCl) ++ CRLF ++ body.getD []) := by
  unfold buildResponse
  rw [buildPkt_eq, bn_Content_Length, bn_transfer_encoding, b_0]
  cases reason with
  | none => simp only [statusLine, List.append_nil, join_two]; rfl
  | some r =>
    by_cases hr : r.isEmpty = true
    · simp only [statusLine, hr, if_true, List.append_nil, join_two]; rfl
    · simp only [statusLine, hr, if_false, Bool.false_eq_true]
      show join [SP] [version, intToDec status, r] ++ CRLF ++ _ = _
      rw [join_three]; rfl

/-! ### membership in the builders' header lists -/

theorem mem_pktHeaders {H : HDict} {cc : Bool} {e : Bytes × Bytes} (he : e ∈ pktHeaders H cc) :
    e ∈ H ∨ e = (nConn, vClose) := by
  unfold pktHeaders at he
  split at he
  · rcases mem_dSet he with h | h
    · exact .inr h
    · exact .inl h.1
  · exact .inl he

theorem mem_reqH1 {ct : Option Bytes} {hs : HDict} {e : Bytes × Bytes} (he : e ∈ reqH1 ct hs) :
    e ∈ hs ∨ (∃ c, ct = some c ∧ e = (nCT, c)) := by
  unfold reqH1 at he
  cases ct with
  | none => exact .inl he
  | some c =>
    rcases mem_dSet he with h | h
    · exact .inr ⟨c, rfl, h⟩
    · exact .inl h.1

theorem mem_reqH2 {ct : Option Bytes} {hs : HDict} {body : Option Bytes} {e : Bytes × Bytes}
    (he : e ∈ reqH2 ct hs body) :
    e ∈ reqH1 ct hs ∨ (bodyTruthy body = true ∧ hasKey kTE (reqH1 ct hs) = false ∧
      e = (nCL, natToDec (body.getD []).length)) := by
  unfold reqH2 at he
  split at he
  · rename_i hc
    simp only [Bool.and_eq_true, Bool.not_eq_true'] at hc
    rcases mem_dSet he with h | h
    · exact .inr ⟨hc.1, hc.2, h⟩
    · exact .inl h.1
  · exact .inl he

theorem mem_reqH3 {ua : Bytes} {ct : Option Bytes} {hs : HDict} {body : Option Bytes} {noUa : Bool}
    {e : Bytes × Bytes} (he : e ∈ reqH3 ua ct hs body noUa) :
    e ∈ reqH2 ct hs body ∨ (noUa = false ∧ hasKey kUA (reqH1 ct hs) = false ∧ e = (nUA, ua)) := by
  unfold reqH3 at he
  split at he
  · rename_i hc
    simp only [Bool.and_eq_true, Bool.not_eq_true'] at hc
    rcases mem_dSet he with h | h
    · exact .inr ⟨hc.2, hc.1, h⟩
    · exact .inl h.1
  · exact .inl he

theorem mem_reqHeaders {ua : Bytes} {ct : Option Bytes} {hs : HDict} {body : Option Bytes} {cc noUa : Bool}
    {e : Bytes × Bytes} (he : e ∈ reqHeaders ua ct hs body cc noUa) :
    e ∈ hs ∨ (∃ c, ct = some c ∧ e = (nCT, c)) ∨
      (bodyTruthy body = true ∧ hasKey kTE (reqH1 ct hs) = false ∧ e = (nCL, natToDec (body.getD []).length)) ∨
      e = (nUA, ua) ∨ e = (nConn, vClose) := by
  unfold reqHeaders at he
  rcases mem_pktHeaders he with he | he
  · rcases mem_reqH3 he with he | he
    · rcases mem_reqH2 he with he | he
      · rcases mem_reqH1 he with he | he
        · exact .inl he
        · exact .inr (.inl he)
      · exact .inr (.inr (.inl he))
    · exact .inr (.inr (.inr (.inl he.2.2)))
  · exact .inr (.inr (.inr (.inr he)))

theorem mem_resHeaders {hs : HDict} {body : Option Bytes} {cc noCl : Bool} {e : Bytes × Bytes}
    (he : e ∈ resHeaders hs body cc noCl) :
    e ∈ hs ∨ (noCl = false ∧ hasKey kTE hs = false ∧
        e = (nCL, if bodyTruthy body then natToDec (body.getD []).length else [48])) ∨
      e = (nConn, vClose) := by
  unfold resHeaders at he
  rcases mem_pktHeaders he with he | he
  case inr => exact .inr (.inr he)
  split at he
  · rename_i hc
    simp only [Bool.and_eq_true, Bool.not_eq_true'] at hc
    rcases mem_dSet he with h | h
    · exact .inr (.inl ⟨hc.2, hc.1, h⟩)
    · exact .inl h.1
  · exact .inl he

end Px.Codec
