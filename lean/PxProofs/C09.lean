import PxModel.PluginChain
import PxProofs.ChainLemmas
import PxProofs.C08
/-!
# C09 — plugins run in configured order with the documented chaining semantics

Property theorems only; helper lemmas are in `PxProofs/ChainLemmas.lean`.  The
model (`PxModel/PluginChain.lean`) is tied to `proxy/http/proxy/server.py`,
`proxy/http/proxy/plugin.py`, `proxy/http/handler.py`,
`proxy/http/exception/http_request_rejected.py`, `proxy/common/flag.py` and
`proxy/common/plugins.py` by the correspondence check `harness/c09.py`.

Every hook chain of `server.py` is the one function `chain`, instantiated with
the hook (`before_upstream_connection`, `handle_client_request` for first and
follow-up requests, `handle_client_data`, `handle_upstream_chunk`,
`on_access_log`); plugins are arbitrary total functions, the plugin list, the
request and the event sequence are arbitrary.

`inputs f ps x` is the list of values handed to the plugins (ChainLemmas): the
chain's log is exactly one call per element of it, at consecutive positions.

Readings fixed here.
* A plugin raising in `handle_client_request` of the *first* request rejects it
  after `connect_upstream()` ran (that is the order of `on_request_complete`):
  nothing is queued for the upstream, but the connection was opened.  "Without
  contacting upstream" holds for `before_upstream_connection`
  (`C09_before_chain_reject`); for `handle_client_request` the theorem is
  `C09_client_request_chain_first` (no byte forwarded).
* Lifecycle callbacks fire for every connection whose first request was
  dispatched to `HttpProxyPlugin`; a complete first request answered 400 before
  a protocol plugin exists has no plugin instances (`C09_lifecycle_not_dispatched`).
-/
namespace Px.Chain
open Px

variable {α : Type}

/-- **C09 order.**  The log of a chain over the configured list `ps` is one
invocation per plugin, at the consecutive positions `i, i+1, …` of the list, in
that order, never past the end of the list and never a position twice. -/
theorem C09_order (h : Hook) (f : Plugin → α → Res α) (w : α → Arg) (i : Nat) (ps : List Plugin) (x : α) :
    (chain h f w i ps x).1.length ≤ ps.length ∧
    ∀ k, k < (chain h f w i ps x).1.length → ∃ a, (chain h f w i ps x).1[k]? = some (Eff.call (i + k) h (w a)) := by
  rw [chain_log]
  refine ⟨by rw [mkCalls_length]; exact inputs_length_le f ps x, ?_⟩
  intro k hk
  rw [mkCalls_length] at hk
  rw [mkCalls_get]
  obtain ⟨a, ha⟩ : ∃ a, (inputs f ps x)[k]? = some a := ⟨_, List.getElem?_eq_getElem hk⟩
  exact ⟨a, by simp [ha]⟩

/-- **C09 data flow.**  The first plugin is handed the value the chain was
started with; every later plugin is handed exactly the value its predecessor
returned for the value *it* was handed. -/
theorem C09_dataflow (h : Hook) (f : Plugin → α → Res α) (w : α → Arg) (i : Nat) (ps : List Plugin) (x : α) :
    (∀ e, (chain h f w i ps x).1[0]? = some e → e = Eff.call i h (w x)) ∧
    (∀ k e e', (chain h f w i ps x).1[k]? = some e → (chain h f w i ps x).1[k + 1]? = some e' →
      ∃ p a c, ps[k]? = some p ∧ e = Eff.call (i + k) h (w a) ∧ f p a = .pass c ∧
        e' = Eff.call (i + k + 1) h (w c)) := by
  rw [chain_log]
  constructor
  · intro e he
    rw [mkCalls_get] at he
    cases ps with
    | nil => simp [inputs] at he
    | cons p ps => simp [inputs] at he; exact he.symm
  · intro k e e' he he'
    rw [mkCalls_get] at he he'
    cases ha : (inputs f ps x)[k]? with
    | none => simp [ha] at he
    | some a =>
      cases hc : (inputs f ps x)[k + 1]? with
      | none => simp [hc] at he'
      | some c =>
        obtain ⟨p, hp, hf⟩ := inputs_step f ps x k a c ha hc
        simp only [ha, Option.map_some, Option.some.injEq] at he
        simp only [hc, Option.map_some, Option.some.injEq] at he'
        exact ⟨p, a, c, hp, he.symm, hf, by rw [← he', Nat.add_assoc]⟩

/-- **C09 short circuit.**  The chain ends `done` exactly when every plugin of
the list was invoked and returned a value; it ends `dropped a` / `raised e`
exactly at the first plugin that returns None / raises — that plugin is the last
one invoked (the plugins after it are not consulted), `a` is the value it was
handed. -/
theorem C09_short_circuit (h : Hook) (f : Plugin → α → Res α) (w : α → Arg) (i : Nat) (ps : List Plugin) (x : α) :
    (∀ y, (chain h f w i ps x).2 = .done y →
      (chain h f w i ps x).1.length = ps.length ∧
      ∀ (k : Nat) (a : α), (inputs f ps x)[k]? = some a → ∃ p c, ps[k]? = some p ∧ f p a = .pass c) ∧
    (∀ a, (chain h f w i ps x).2 = .dropped a →
      ∃ k p, (chain h f w i ps x).1.length = k + 1 ∧ ps[k]? = some p ∧ f p a = .drop ∧
        (chain h f w i ps x).1[k]? = some (Eff.call (i + k) h (w a))) ∧
    (∀ e, (chain h f w i ps x).2 = .raised e →
      ∃ k p a, (chain h f w i ps x).1.length = k + 1 ∧ ps[k]? = some p ∧ f p a = .reject e ∧
        (chain h f w i ps x).1[k]? = some (Eff.call (i + k) h (w a))) := by
  refine ⟨?_, ?_, ?_⟩
  · intro y hy
    obtain ⟨hl, hall⟩ := chain_done h f w i ps x y hy
    exact ⟨by rw [chain_log, mkCalls_length, hl], hall⟩
  · intro a ha
    obtain ⟨k, p, hl, hk, hp, hf⟩ := chain_dropped h f w i ps x a ha
    exact ⟨k, p, by rw [chain_log, mkCalls_length, hl], hp, hf, by rw [chain_log, mkCalls_get, hk]; rfl⟩
  · intro e he
    obtain ⟨k, p, a, hl, hk, hp, hf⟩ := chain_raised h f w i ps x e he
    exact ⟨k, p, a, by rw [chain_log, mkCalls_length, hl], hp, hf, by rw [chain_log, mkCalls_get, hk]; rfl⟩

/-! Non-vacuity: a concrete chain of three plugins — pass-with-modification, drop, (never reached). -/
example :
    let tag (n : Nat) : Plugin := { Plugin.base with clientData := fun x => .pass (x ++ [UInt8.ofNat n]) }
    let dropper : Plugin := { Plugin.base with clientData := fun _ => .drop }
    (chain .clientData Plugin.clientData Arg.raw 0 [tag 1, tag 2, dropper, tag 3] [0]).1.length = 3 ∧
    inputs Plugin.clientData [tag 1, tag 2, dropper, tag 3] [0] = [[0], [0, 1], [0, 1, 2]] := by
  decide

/-- **C09 `before_upstream_connection`, a plugin returns None.**  No connection
is attempted, nothing is queued for the upstream, `self.upstream` stays unset;
the `handle_client_request` chain still runs on the request as it stood. -/
theorem C09_before_chain_drop (cfg : Cfg) (ps : List Plugin) (ok : Bool) (r x : Req)
    (h : (beforeChain ps r).2 = .dropped x) :
    connects (onRequestComplete cfg ps ok r).1 = [] ∧ upBytes (onRequestComplete cfg ps ok r).1 = [] ∧
    (onRequestComplete cfg ps ok r).2.upstream = false ∧
    (onRequestComplete cfg ps ok r).1 = (beforeChain ps r).1 ++ (creqChain ps x).1 := by
  have hac : afterBefore cfg ps ok false x = afterConnect cfg ps false x := by rw [afterBefore_eq]; simp
  rw [onRequestComplete_eq, h]
  simp only [hac]
  rw [afterConnect_eq]
  split <;> simp [beforeChain, creqChain]

/-- **C09 `before_upstream_connection`, a plugin rejects.**  Handler level, first
request of a connection: no connection attempt, nothing for the upstream, the
plugins after the rejecting one and every later hook are not invoked (the log is
the `before` chain's log plus the response), the client is queued exactly the
response the exception builds (`HttpRequestRejected.response`) — nothing if it
has none — and the connection is closing or closed. -/
theorem C09_before_chain_reject (cfg : Cfg) (ps : List Plugin) (ok : Bool) (r : Req) (e : Exc)
    (h : (beforeChain ps r).2 = .raised e) (rest : Bytes) (more : List (Req × Bytes)) :
    let s := step cfg ps {} (.first r ok rest more)
    connects s.2 = [] ∧ upBytes s.2 = [] ∧ clItems s.2 = e.response.toList ∧
    (s.1.closing = true ∨ s.1.down = true) ∧ s.1.upstream = false ∧
    (∀ j hk a, Eff.call j hk a ∈ s.2 → hk = .before ∧ j < ps.length) := by
  have ho : onRequestComplete cfg ps ok r = ((beforeChain ps r).1, ⟨false, .error e⟩) := by
    rw [onRequestComplete_eq, h]
  have hdead : (firstStep cfg ps {} r ok).1.closing = true ∨ (firstStep cfg ps {} r ok).1.down = true := by
    rw [firstStep_eq, ho]; exact raise_dead _ _ _
  have hs : step cfg ps {} (.first r ok rest more) = firstStep cfg ps {} r ok := by
    simp only [step]
    rcases hdead with hd | hd <;> simp [hd]
  simp only [hs]
  rw [firstStep_eq, ho]
  simp only [raise_connects, raise_upBytes, raise_clItems, raise_upstream]
  refine ⟨by simp [beforeChain], by simp [beforeChain], by simp [beforeChain], raise_dead _ _ _, trivial, ?_⟩
  intro j hk a hm
  unfold raise at hm
  have hch : ∀ j hk a, Eff.call j hk a ∈ (beforeChain ps r).1 → hk = .before ∧ j < ps.length := by
    intro j hk a hm
    obtain ⟨j', a', heq, _, hlt⟩ := chain_mem _ _ _ _ _ _ _ hm
    injection heq with h1 h2 h3
    subst h1 h2
    exact ⟨rfl, by simpa using hlt⟩
  split at hm <;> unfold tearReq at hm <;> split at hm <;> simp at hm
  all_goals first | exact hch j hk a hm | (rcases hm with hm | hm <;> first | exact hch j hk a hm | cases hm)

/-- **C09 `before_upstream_connection`, all plugins return a request.**  The
connection is attempted after the whole chain ran (the log is the chain's log
followed by the rest), exactly once, to the address the request *as returned by
the last plugin* names (or the one a plugin's `resolve_dns` supplied). -/
theorem C09_before_chain_pass (cfg : Cfg) (ps : List Plugin) (ok : Bool) (r x : Req)
    (h : (beforeChain ps r).2 = .done x) (hh : x.host ≠ []) (hp : x.port ≠ 0) :
    (onRequestComplete cfg ps ok r).1 = (beforeChain ps r).1 ++ (afterBefore cfg ps ok true x).1 ∧
    connects (beforeChain ps r).1 = [] ∧
    connects (onRequestComplete cfg ps ok r).1 = [(dialTarget ps x, x.port)] := by
  have hne : (x.host.isEmpty || x.port == 0) = false := by
    cases hx : x.host with
    | nil => exact absurd hx hh
    | cons a as => simp [hp]
  have hconn : connects (afterBefore cfg ps ok true x).1 = [(dialTarget ps x, x.port)] := by
    have hc := connects_connectUpstream ps x ok
    rw [hne] at hc
    rw [afterBefore_eq]
    simp only [if_true]
    split <;> simp [hc]
  rw [onRequestComplete_eq, h]
  exact ⟨rfl, by simp [beforeChain], by simp [beforeChain, hconn]⟩

/-- **C09 `handle_client_request`, first request.**  A plugin returning None or
raising: nothing is queued for the upstream for that request (and nothing for
the client by `on_request_complete` itself); all plugins returning a request
with an upstream and no tunnel: exactly one item is queued, the rebuilt request
*as returned by the last plugin* (minus the proxy headers, plus `Via`). -/
theorem C09_client_request_chain_first (cfg : Cfg) (ps : List Plugin) (up : Bool) (x : Req) :
    (∀ y, (creqChain ps x).2 = .dropped y →
      upBytes (afterConnect cfg ps up x).1 = [] ∧ clItems (afterConnect cfg ps up x).1 = []) ∧
    (∀ e, (creqChain ps x).2 = .raised e →
      upBytes (afterConnect cfg ps up x).1 = [] ∧ (afterConnect cfg ps up x).2.out = .error e) ∧
    (∀ y, (creqChain ps x).2 = .done y → up = true → y.tunnel = false →
      upBytes (afterConnect cfg ps up x).1 = [(fwdFirst y).build cfg.disableHeaders]) ∧
    (∀ y, (creqChain ps x).2 = .done y → up = true → y.tunnel = true →
      upBytes (afterConnect cfg ps up x).1 = [] ∧
      clItems (afterConnect cfg ps up x).1 = [Px.Gen.pkt_PROXY_TUNNEL_ESTABLISHED_RESPONSE_PKT]) := by
  refine ⟨?_, ?_, ?_, ?_⟩
  · intro y h; rw [afterConnect_eq, h]; simp [creqChain]
  · intro e h; rw [afterConnect_eq, h]; simp [creqChain]
  · intro y h hu ht; rw [afterConnect_eq, h]; simp [creqChain, hu, ht, upOfE]
  · intro y h hu ht; rw [afterConnect_eq, h]; simp [creqChain, hu, ht, upOfE, clItems]

/-- **C09 `handle_client_request`, follow-up requests.**  None ⇒ nothing queued
for the upstream for that request and the connection state is unchanged (the
next request is parsed afresh); raise ⇒ nothing for the upstream and the client
is queued exactly the exception's response; all pass ⇒ exactly the rebuilt
request as returned by the last plugin. -/
theorem C09_client_request_chain_later (cfg : Cfg) (ps : List Plugin) (st : St) (r : Req) :
    (∀ y, (creqChain ps r).2 = .dropped y →
      upBytes (follow cfg ps st r).2 = [] ∧ clItems (follow cfg ps st r).2 = [] ∧ (follow cfg ps st r).1 = st) ∧
    (∀ e, (creqChain ps r).2 = .raised e →
      upBytes (follow cfg ps st r).2 = [] ∧ clItems (follow cfg ps st r).2 = e.response.toList ∧
      ((follow cfg ps st r).1.closing = true ∨ (follow cfg ps st r).1.down = true)) ∧
    (∀ y, (creqChain ps r).2 = .done y →
      upBytes (follow cfg ps st r).2 = [(fwdLater y).build cfg.disableHeaders] ∧
      clItems (follow cfg ps st r).2 = []) := by
  refine ⟨?_, ?_, ?_⟩
  · intro y h; rw [follow_eq, h]; simp [creqChain]
  · intro e h; rw [follow_eq, h]; simp only [raise_upBytes, raise_clItems]
    exact ⟨by simp [creqChain], by simp [creqChain], raise_dead _ _ _⟩
  · intro y h; rw [follow_eq, h]; simp [creqChain, upOfE, clItems]

/-- **C09 several requests in one read.**  Every complete request of a read is
handled in turn, exactly like a request that arrives alone (`follow`: its own
`handle_client_request` chain from the first plugin on, then forwarded): the
first one in the state the read found, each later one in the state its
predecessor left — until a plugin raises (the connection is then closing or
closed), and unless an upgrade request was forwarded, after which the rest of
the read is passed on raw. -/
theorem C09_packed_followups (cfg : Cfg) (ps : List Plugin) (st : St) (raw : Bytes) (r : Req) (rest : Bytes)
    (more : List (Req × Bytes)) :
    (st.upgraded = false →
      pipeline cfg ps st raw ((r, rest) :: more) =
        if rest.isEmpty || (follow cfg ps st r).1.closing || (follow cfg ps st r).1.down then follow cfg ps st r
        else ((pipeline cfg ps (follow cfg ps st r).1 rest more).1,
              (follow cfg ps st r).2 ++ (pipeline cfg ps (follow cfg ps st r).1 rest more).2)) ∧
    (st.upgraded = true → pipeline cfg ps st raw ((r, rest) :: more) = (st, [.upQ raw])) := by
  constructor <;> intro hu <;> simp [pipeline, hu]

/-- … and bytes that arrive in the same read behind the *first* request are
handed to `on_client_data` right after `on_request_complete` (unless that raised),
in the state it left: the log is the first request's log followed by theirs. -/
theorem C09_packed_first (cfg : Cfg) (ps : List Plugin) (r : Req) (ok : Bool) (rest : Bytes)
    (more : List (Req × Bytes)) (hne : rest ≠ [])
    (hc : (firstStep cfg ps {} r ok).1.closing = false) (hd : (firstStep cfg ps {} r ok).1.down = false) :
    (step cfg ps {} (.first r ok rest more)).2 =
      (firstStep cfg ps {} r ok).2 ++ (clientData cfg ps (firstStep cfg ps {} r ok).1 rest more).2 := by
  have : rest.isEmpty = false := by cases rest <;> simp_all
  simp [step, hc, hd, this]

/-- **C09 a rejected connection stops reading.**  Once a request was rejected
(`raise`: the connection is flushing-then-closing, or closed), no further client
byte is processed: whatever arrives — further requests, any bytes, in the same
read or later — reaches no plugin and no upstream. -/
theorem C09_reject_stops_reading (cfg : Cfg) (ps : List Plugin) (st : St)
    (h : st.closing = true ∨ st.down = true) (raw rest : Bytes) (more : List (Req × Bytes)) (r : Req) (ok : Bool) :
    step cfg ps st (.cdata raw more) = (st, []) ∧ step cfg ps st (.first r ok rest more) = (st, []) ∧
    step cfg ps st .first400 = (st, []) := by
  rcases h with h | h <;> simp [step, h]

/-- **C09 `handle_upstream_chunk`.**  The client is queued exactly the chunk as
returned by the last plugin when all return one, and nothing when a plugin
returns None; nothing goes to the upstream either way. -/
theorem C09_upstream_chunk_chain (ps : List Plugin) (st : St) (raw : Bytes) :
    (∀ y, (upChain ps raw).2 = .done y →
      clItems (upstreamData ps st raw).2 = [y] ∧ (upstreamData ps st raw).1.clBuf = st.clBuf ++ [y]) ∧
    (∀ y, (upChain ps raw).2 = .dropped y →
      clItems (upstreamData ps st raw).2 = [] ∧ (upstreamData ps st raw).1 = st) ∧
    upBytes (upstreamData ps st raw).2 = [] := by
  refine ⟨?_, ?_, ?_⟩
  · intro y h; rw [upstreamData_eq, h]; simp [upChain, clItems]
  · intro y h; rw [upstreamData_eq, h]; simp [upChain]
  · rw [upstreamData_eq]; split <;> simp [upChain, upOfE]

/-- **C09 reject response.**  Whatever raises an `HttpProtocolException` while
client data is handled: the handler queues exactly `e.response()` — for
`HttpRequestRejected` the packet built from the plugin's status, reason, headers
and body with `Connection: close`, nothing when there is no status code — and
the connection is flushing-then-closing or closed; it neither connects nor
forwards anything. -/
theorem C09_reject_response (st : St) (l : Log) (e : Exc) :
    clItems (raise st l e).2 = clItems l ++ e.response.toList ∧
    connects (raise st l e).2 = connects l ∧ upBytes (raise st l e).2 = upBytes l ∧
    ((raise st l e).1.closing = true ∨ (raise st l e).1.down = true) :=
  ⟨raise_clItems st l e, raise_connects st l e, raise_upBytes st l e, raise_dead st l e⟩

example : (Exc.rejected 418 (b "I'm a teapot") [] (b "short")).response =
    some (b "HTTP/1.1 418 I'm a teapot\r\nContent-Length: 5\r\nConnection: close\r\n\r\nshort") := by
  decide +kernel
example : (Exc.rejected 0 (b "x") [] (b "y")).response = none := by decide +kernel

/-- **C09 lifecycle.**  For every connection whose first request was dispatched
to the proxy plugin — whatever that request ran into (served, dropped, rejected,
authentication failure, connect failure) and for every continuation `evs`
(follow-ups, upstream data, flushes, client or upstream abort at any point, or
nothing at all until the reaper) — with `shutdown()` called once: the log is
`body ++ close` where `body` contains no lifecycle effect at all, and `close` is
the `on_access_log` chain from the first plugin on (None short-circuit), the
default access-log line iff no plugin claimed it, then
`on_upstream_connection_close` of *every* configured plugin, in configured order. -/
theorem C09_lifecycle (cfg : Cfg) (ps : List Plugin) (r : Req) (ok : Bool) (rest : Bytes)
    (more : List (Req × Bytes)) (evs : List Ev) :
    ∃ body, conn cfg ps (.first r ok rest more :: evs) 1 =
      body ++ ((logChain ps).1 ++ defaultLogOf ps ++ upCloseAll 0 ps) ∧ noLife body = true := by
  refine ⟨(run cfg ps {} (.first r ok rest more :: evs)).2, ?_, noLife_run _ _ _ _⟩
  have hd : (run cfg ps {} (.first r ok rest more :: evs)).1.dispatched = true := by
    simp only [run]
    exact run_dispatched_mono cfg ps _ evs (step_first_dispatched cfg ps r ok rest more)
  unfold conn
  simp [shutdownLog_eq, hd]

/-- **C09 lifecycle, exactly once.**  Over the whole connection (any events, `n`
calls of `shutdown()`), for every configured plugin `i`:
`on_upstream_connection_close` is invoked `n` times if the first request was
dispatched and never otherwise; `on_access_log` is invoked `n` times if moreover
every plugin before `i` returned a context, and never otherwise.  With the
executor's contract `n = 1` (C10): exactly once. -/
theorem C09_lifecycle_counts (cfg : Cfg) (ps : List Plugin) (evs : List Ev) (n i : Nat) (hi : i < ps.length) :
    countCall i .upClose (conn cfg ps evs n) = (if (run cfg ps {} evs).1.dispatched then n else 0) ∧
    countCall i .accessLog (conn cfg ps evs n) =
      (if (run cfg ps {} evs).1.dispatched ∧ i < (inputs logF ps ([] : Ctx)).length then n else 0) := by
  unfold conn
  have hb1 := countCall_noLife i .upClose rfl _ (noLife_run cfg ps {} evs)
  have hb2 := countCall_noLife i .accessLog rfl _ (noLife_run cfg ps {} evs)
  simp only [countCall_append, hb1, hb2, Nat.zero_add, countCall_replicate, shutdownLog_eq]
  cases hd : (run cfg ps {} evs).1.dispatched with
  | false => simp
  | true =>
    simp only [if_true, countCall_append, countCall_defaultLogOf, countCall_upCloseAll, logChain, chain_log,
      countCall_mkCalls, true_and]
    constructor
    · simp [hi]
    · by_cases hlt : i < (inputs logF ps ([] : Ctx)).length
      · have : (0 ≤ i ∧ i < 0 + (inputs logF ps ([] : Ctx)).length) := ⟨Nat.zero_le _, by omega⟩
        simp [this, hlt]
      · have : ¬ (0 ≤ i ∧ i < 0 + (inputs logF ps ([] : Ctx)).length) := by omega
        simp [this, hlt]

/-- … in particular: exactly once each, for the dispatched connection of `C09_lifecycle` -/
theorem C09_lifecycle_once (cfg : Cfg) (ps : List Plugin) (r : Req) (ok : Bool) (rest : Bytes)
    (more : List (Req × Bytes)) (evs : List Ev) (i : Nat)
    (hi : i < ps.length) : countCall i .upClose (conn cfg ps (.first r ok rest more :: evs) 1) = 1 := by
  have hd : (run cfg ps {} (.first r ok rest more :: evs)).1.dispatched = true := by
    simp only [run]
    exact run_dispatched_mono cfg ps _ evs (step_first_dispatched cfg ps r ok rest more)
  rw [(C09_lifecycle_counts cfg ps _ 1 i hi).1, hd]; rfl

/-- **C09 lifecycle, no plugin instances.**  A connection whose complete first
request is answered 400 before a protocol plugin exists never invokes any hook
of any plugin, whatever follows and however often `shutdown()` runs; neither
does a connection that never completes a first request. -/
theorem C09_lifecycle_not_dispatched (cfg : Cfg) (ps : List Plugin) (evs : List Ev) (n : Nat) :
    (∀ i h a, Eff.call i h a ∉ conn cfg ps (.first400 :: evs) n) ∧ (∀ i h a, Eff.call i h a ∉ conn cfg ps [] n) := by
  constructor
  · intro i h a hm
    have hstep : step cfg ps {} .first400 =
        ({ clBuf := [Px.Gen.pkt_BAD_REQUEST_RESPONSE_PKT], closing := true },
         [.clQ Px.Gen.pkt_BAD_REQUEST_RESPONSE_PKT]) := by
      simp [step, tearReq]
    have hq : Quiet (step cfg ps {} .first400).1 := by rw [hstep]; exact ⟨rfl, Or.inl rfl⟩
    obtain ⟨hdisp, hall⟩ := quiet_run cfg ps _ evs hq
    obtain ⟨_, _, _, q4⟩ := quiet_obs _ hall
    have hd : (run cfg ps {} (.first400 :: evs)).1.dispatched = false := by
      simp only [run]; rw [hdisp, hstep]
    unfold conn at hm
    simp only [shutdownLog_eq, hd] at hm
    simp only [run, hstep] at hm
    rw [hstep] at q4
    have hnil : (List.replicate n ([] : Log)).flatten = [] := by
      induction n with
      | zero => rfl
      | succ n ih => simp [List.replicate_succ, ih]
    simp only [Bool.false_eq_true, if_false, hnil, List.append_nil, List.mem_append, List.mem_cons,
      List.mem_nil_iff, or_false] at hm
    rcases hm with hm | hm
    · cases hm
    · exact q4 i h a hm
  · intro i h a hm
    have hnil : (List.replicate n ([] : Log)).flatten = [] := by
      induction n with
      | zero => rfl
      | succ n ih => simp [List.replicate_succ, ih]
    simp [conn, run, shutdownLog, hnil] at hm

/-- **C09 load order (model).**  `Plugins.load` keeps list order within a bucket
and loads each class once, at its first position: loading `l1 ++ l2` is loading
`l2` on top of the result for `l1`, which only appends new names. -/
theorem C09_load_order (bk : Bytes) (l1 l2 : List (Bytes × Bytes)) :
    ∃ t, loadBucket bk (l1 ++ l2) [] = loadBucket bk l1 [] ++ t ∧ ∀ x ∈ t, x ∉ loadBucket bk l1 [] := by
  rw [loadBucket_append]
  exact loadBucket_ext bk l2 _

/-- **C09 load order (code).**  The generated table of flag combinations: the
real loader's result equals the model's, the auth plugin comes ahead of the
user plugins (shared with C08). -/
theorem C09_load_order_table : Px.Gen.pluginOrderTable.all rowOk = true := C08_order

end Px.Chain
