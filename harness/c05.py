"""C05 — one connection cannot take down or stall the executor serving the others.

Correspondence of lean/PxModel/Selector.lean + Exec.lean with the REAL
proxy.core.work.threadless.Threadless / fd.LocalFdExecutor and CPython's
selectors.DefaultSelector, and the property oracle on the real executor with the
real HttpProtocolHandler works in every role (see harness/simexec.py).

  kind = hist  scripted works: real executor bookkeeping vs. `Exec.runOnce` round by round
  kind = sel   selector + kernel sub-model vs. real DefaultSelector over real socketpairs
  kind = real  2-4 concurrent real connections, one adversarial, the others canaries
"""
from harness import simexec as S
from harness.common import exc_name

PROPERTY = 'C05'
ROUND_BOUND_S = 2
LEAN_TARGETS = ['PxProofs.C05']
THEOREMS = [
    'Px.Exec.C05_reach_inv', 'Px.Exec.C05_alive', 'Px.Exec.C05_alive_forever', 'Px.Exec.C05_reap_alive',
    'Px.Exec.C05_others_survive', 'Px.Exec.C05_arrive_guard_witness',
    'Px.Exec.C05_noninterference', 'Px.Exec.C05_noninterference_solo',
]
RULE = ('hist: random histories of scripted works (arbitrary get_events / task / shutdown behaviour, descriptor '
        'reuse, stale and foreign descriptors) grown adaptively against the live executor, replayed on the real '
        'LocalFdExecutor and on the model; sel: random selector/kernel op traces on real socketpairs; real: '
        'multi-connection scenarios with real handlers (correspondence line = refinement check: every call of the '
        'real handlers is recorded as abstract work behaviour and the model must predict bookkeeping and delivered '
        'events of every round); distinct by canonical JSON; non-trivial = hist with a '
        'cleanup or a failed refresh, or real scenario with an adversarial connection')
ASSUMPTIONS = [
    'works raise Exception subclasses only (not BaseException such as CancelledError / KeyboardInterrupt)',
    'handle_events never suspends (true of HttpProtocolHandler and the built-in plugins), so Threadless.unfinished is empty between rounds',
    '--enable-conn-pool off (default); LocalFdExecutor (work id = client descriptor); RemoteFdExecutor\'s extra os.close(work_id) and work-queue selector key are not modelled',
    'ArriveOk: the accepted descriptor is not 0, and a connection whose initialize() raises does not reuse the id of a work still in `works` (witness theorem: otherwise KeyError escapes; unreachable with HttpProtocolHandler)',
    'noninterference is proved for works whose descriptors are disjoint from everything the other works report, register, open or close (hypothesis Sep); event delivery is compared given equal kernel readiness of the work\'s own descriptors',
    'one descriptor per open file description (no dup) in the kernel model; resource exhaustion (EMFILE) outside the quantifier',
]
EXHAUSTIVE = {}
EXPLANATION = ('The executor loop is modelled statement by statement over abstract works; aliveness and '
               'invariant preservation are proved for every behaviour of every work and every history; the '
               'canary oracle checks on the real handlers that other connections complete as when alone, that no call '
               'blocks the worker and that every round returns promptly.')


def impl(case):
    k = case['kind']
    if k == 'hist':
        return S.hist_impl(case)
    if k == 'sel':
        return S.sel_impl(case)
    if k == 'real':
        # refinement: the real handlers, recorded as abstract works, fed to the model (returns 'ok')
        return [S.refine_real(case)]
    raise ValueError(k)


def model_lines(case):
    k = case['kind']
    if k == 'hist':
        return S.hist_model_lines(case)
    if k == 'sel':
        return S.sel_model_lines(case)
    if k == 'real':
        return ['exec 0 nop']
    raise ValueError(k)


def _hist_oracle(case):
    """the executor survives whatever the scripted works do (inside ArriveOk)"""
    w = S.scripted_world()
    try:
        for tok in case['ops']:
            guard_out = False
            if tok.startswith('rnd/') and w.ex.work_queue._queue:
                conn, _ = w.ex.work_queue._queue[0]
                fd = conn.fileno()
                if fd == 0 or (fd in w.init_raises and fd in w.ex.works):
                    guard_out = True
            out = S.hist_apply(w, tok)
            if out.startswith('dead'):
                return None if guard_out else 'executor-died-' + out.split(' ')[-1]
        return None
    finally:
        w.close()


def canary_ok(case, idx, got):
    spec = case['conns'][idx]
    want, dead = S.standalone_transcript(spec, bool(case.get('tcp')))
    if dead is not None:
        return 'standalone-canary-died'
    if case.get('final') in ('idle', 'reset'):
        # the scenario ends the canary early on purpose: what it got must be a prefix of the full transcript
        if not want['client_rx'].startswith(got['client_rx']):
            return 'canary-client-bytes-differ'
        return None
    if got['client_rx'] != want['client_rx']:
        return 'canary-stalled' if want['client_rx'].startswith(got['client_rx']) else 'canary-client-bytes-differ'
    if got['up_rx'] != want['up_rx']:
        return 'canary-upstream-bytes-differ'
    if got['client_eof'] != want['client_eof']:
        return 'canary-close-differs'
    return None


def oracle(case):
    k = case['kind']
    if k == 'sel':
        return None
    if k == 'hist':
        return _hist_oracle(case)
    r = S.run_real(case)
    if r.get('hung'):
        return 'worker-blocked-in-handler'
    if r['dead'] is not None:
        return 'run-once-raised-' + exc_name(r['dead'])
    # progress: no call that would block the worker (recv / send on a socket left in blocking or timeout
    # mode with nothing pending), and every _run_once returns promptly (generous bound, one retry under load)
    if r['blocked']:
        return 'worker-blocked-in-' + r['blocked'][0][0]
    if r['slowest'] > ROUND_BOUND_S:
        r = S.run_real(case)
        if r['dead'] is None and r['slowest'] > ROUND_BOUND_S:
            return 'round-took-over-%ds' % ROUND_BOUND_S
        if r['dead'] is not None:
            return 'run-once-raised-' + exc_name(r['dead'])
    for i, c in enumerate(case['conns']):
        if c.get('canary'):
            sig = canary_ok(case, i, r['canary'][i])
            if sig:
                return sig
    return None


def _revka(i):
    return {'role': 'revka', 'i': i, 'adv': 1, 'kind': 'keepalive', 'steps': S.good_script('revka', i)}


def _canary(role, i):
    return {'role': role, 'i': i, 'canary': 1, 'steps': S.good_script(role, i)}


def _special(i, raw, more=()):
    return {'role': 'fwd', 'i': i, 'adv': 1, 'kind': 'special', 'steps': [['cs', raw.hex()]] + [list(s) for s in more]}


# D12c (fixed by 361b8e9): a kept-alive reverse-proxy connection left a stale descriptor registered which
# shadowed the canary's new upstream socket; the canary (index 1) must now complete as when alone
D12C_WITNESS = {'kind': 'real', 'conns': [_canary('rev', 0), _canary('rev', 1), _revka(2), _canary('web404', 3)],
                'sched': [0, 3, 2, 0, 3, 2, 2, 1, 0, 0, 2, 3, 1, 1, 1, 2, 2]}


def corpus():
    cs = [
        # D12b: descriptor replaced under the same number, mask changes -> modify() fails and drops the key
        {'kind': 'hist', 'ops': ['conn:0', 'rnd/-/-/-', 'rnd/200.1/-/200~200.1~f~o~200',
                                 'rnd/200.1,202.1/-/200~200.1+202.1~f~c202+o~200',
                                 'rnd/-/-/200~200.1+202.3~f~-~200+202', 'rnd/-/-/-']},
        # the ArriveOk witness: stale work, same descriptor number arrives, initialize() raises
        {'kind': 'hist', 'ops': ['conn:0', 'rnd/-/-/-', 'rnd/200.1/-/200~200.1~f~o~200',
                                 'rnd/200.1,202.1/-/200~200.1+202.1~f~c200~-', 'conn:1', 'rnd/202.1/-/200~202.1~f~-~200']},
        # D11: shutdown() raises; task raises
        {'kind': 'hist', 'ops': ['conn:0', 'conn:0', 'rnd/-/-/-', 'rnd/-/-/-',
                                 'rnd/200.1,202.1/-/200~200.1~t~-~200!;202~202.1~f~-~202',
                                 'rnd/202.3/-/202~202.3~x~-~202!']},
        # get_events raises; negative descriptor
        {'kind': 'hist', 'ops': ['conn:0', 'conn:0', 'rnd/-/-/-', 'rnd/-/-/-',
                                 'rnd/200.1,202.1/-/200~x~f~-~200;202~202.1~f~-~202', 'rnd/202.1/-/202~-2.1~f~-~202']},
        {'kind': 'sel', 'ops': ['sp', 'reg:200:1:9', 'reg:200:1:9', 'reg:201:0:9', 'cl:200', 'mod:200:3:9',
                                'unr:200', 'sel:201.3']},
        # D12 / D12b on the real reverse proxy: second request on a kept-alive connection, with a canary
        {'kind': 'real', 'conns': [_revka(0), _canary('fwd', 1)], 'sched': [0, 1, 0, 0, 1, 0, 1, 0, 1, 0]},
        {'kind': 'real', 'conns': [_canary('tun', 0), _revka(1), _canary('rev', 2)],
         'sched': [1, 0, 2, 1, 1, 0, 2, 1, 0, 2, 1, 0, 2, 0, 0, 1]},
        # D11: non-UTF-8 request line forwarded, then close (access log context)
        {'kind': 'real', 'conns': [
            _special(0, b'GET http://up0.example:8000/\xff HTTP/1.1\r\nHost: up0.example:8000\r\n\r\n',
                     [['us', S.RESP.hex()], ['cc']]), _canary('fwd', 1)], 'sched': [0, 1, 0, 1, 0, 1, 0, 1]},
        # D18 / D19: inputs that used to hang the parser
        {'kind': 'real', 'conns': [
            _special(0, b'POST http://up0.example:8000/ HTTP/1.1\r\nHost: h\r\nContent-Length: 5\r\nContent-Length: 0\r\n\r\nx'),
            _canary('web404', 1)], 'sched': [0, 0, 1, 1, 1]},
        {'kind': 'real', 'conns': [
            _special(0, b'POST http://up0.example:8000/ HTTP/1.1\r\nHost: h\r\nTransfer-Encoding: chunked\r\n\r\n-1\r\nabc\r\n0\r\n\r\n'),
            _canary('tun', 1)], 'sched': [0, 0, 1, 1, 1, 1, 1, 1, 1]},
    ]
    cs.append(D12C_WITNESS)
    # payloads that fill the receive buffers exactly, origin keeps the connection open (a read loop that
    # "keeps reading while the buffer was filled" would block the worker on the next recv)
    for k, role in enumerate(S.EXACT_ROLES):
        cs.append({'kind': 'real', 'conns': [_canary(role, 0), _canary(S.CANARY_ROLES[k % 6], 1)],
                   'sched': [0, 1, 0, 1, 0, 1, 0, 1, 0, 0]})
    # upgrade offers (websocket / h2c) on the first or on a follow-up request, then more client bytes;
    # real connects that are refused; both next to a canary
    for k, role in enumerate(S.UPGRADE_ROLES + S.REALCONN_ROLES):
        cs.append({'kind': 'real', 'conns': [{'role': role, 'i': 0, 'adv': 1, 'kind': 'role', 'steps': S.good_script(role, 0)},
                                             _canary(S.CANARY_ROLES[k % 6], 1)],
                   'sched': [0, 1, 0, 1, 0, 1, 0, 1, 0, 0, 0, 0, 0]})
    return cs


def generate(rng, tier):
    big = tier == 'thorough'
    for _ in range(500 if not big else 6000):
        yield S.gen_hist(rng, nrounds=rng.choice([4, 8, 8, 14]), adversarial=rng.choice([0.1, 0.3, 0.6]))
    for _ in range(200 if not big else 2500):
        yield S.gen_sel(rng, nops=rng.choice([12, 30, 50]))
    for _ in range(600 if not big else 12000):
        yield S.gen_real(rng)


def neighbours(case):
    import random
    if case['kind'] != 'hist':
        return
    ops = case['ops']
    for n in range(1, len(ops)):
        yield {'kind': 'hist', 'ops': ops[:n]}


def search(rng):
    out = [S.gen_hist(rng, nrounds=10, adversarial=0.6) for _ in range(300)]
    out += [S.gen_real(rng) for _ in range(1500)]
    return out


def describe(case):
    k = case['kind']
    if k == 'hist':
        toks = case['ops']
        d = ['hist rounds=%d' % min(16, sum(1 for t in toks if t.startswith('rnd')))]
        if any('~x~' in t for t in toks):
            d.append('hist get_events/task raises')
        if any('!' in t for t in toks):
            d.append('hist shutdown raises')
        if any(t == 'conn:1' for t in toks):
            d.append('hist initialize raises')
        if any(t.startswith('reap') for t in toks):
            d.append('hist reap')
        if any('+o' in t or '~o' in t for t in toks):
            d.append('hist opens sockets')
        return d
    if k == 'sel':
        return ['sel']
    d = ['real conns=%d' % len(case['conns'])]
    for c in case['conns']:
        d.append('real %s %s' % ('canary' if c.get('canary') else 'adv:' + c.get('kind', '?'), c['role']))
    if case.get('final'):
        d.append('real final=' + case['final'])
    if case.get('tcp'):
        d.append('real tcp')
    return d


def nontrivial(case):
    if case['kind'] == 'hist':
        return any('~t~' in t or '~x~' in t or t.startswith('reap') or t == 'conn:1' for t in case['ops'])
    if case['kind'] == 'real':
        return any(c.get('adv') for c in case['conns'])
    return True
