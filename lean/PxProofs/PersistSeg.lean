import PxProofs.PersistRefine
import PxProofs.ForwardEmit
/-!
# C04 helper lemmas, part 3: the segment-level run on requests that never share a segment

`oneReq x = some P`: fed to a fresh request parser in one piece, `x` is exactly
one request — complete, nothing left over.  By C03 (`feed_segmented`, built on
`C03_segmentation_request`) every way of cutting `x` into non-empty pieces
reaches the same `P` exactly with the last piece.  Hence the handler's
first-request loop and `HttpProxyPlugin.on_client_data`'s pipeline parser each
consume exactly the pieces of one request and emit once.
-/
namespace Px.Persist
open Px Px.Relay Px.Parser

/-- fed to a fresh request parser in one piece, `x` is exactly one request -/
def oneReq (x : Bytes) : Option Parser :=
  match parse Forward.pcfg (init .request) x with
  | .ok P => if P.state == .complete && P.buffer.isNone then some P else none
  | .error _ => none

theorem oneReq_spec {x : Bytes} {P : Parser} (h : oneReq x = some P) :
    parse Forward.pcfg (init .request) x = .ok P ∧ P.state = .complete ∧ P.buffer = none := by
  unfold oneReq at h
  cases hp : parse Forward.pcfg (init .request) x with
  | error e => simp [hp] at h
  | ok Q =>
    simp only [hp] at h
    by_cases hc : (Q.state == PState.complete && Q.buffer.isNone) = true
    · simp only [hc, if_true, Option.some.injEq] at h
      subst h
      simp only [Bool.and_eq_true, beq_iff_eq, Option.isNone_iff_eq_none] at hc
      exact ⟨rfl, hc.1, hc.2⟩
    · simp [hc] at h

/-- `segs` cuts `x` into non-empty pieces (what successive `recv` calls return) -/
def Cuts (segs : List Bytes) (x : Bytes) : Prop := segs.flatten = x ∧ ∀ s ∈ segs, s ≠ []

theorem flatten_nil_of_nonempty {l : List Bytes} (h : l.flatten = []) (hne : ∀ s ∈ l, s ≠ []) : l = [] := by
  cases l with
  | nil => rfl
  | cons a as =>
    simp only [List.flatten_cons, List.append_eq_nil_iff] at h
    exact absurd h.1 (hne a (by simp))

/-- the pieces left over by the first-request loop are pieces of the input -/
theorem feedUntilComplete_rest {pc : Px.Parser.Cfg} {p P : Parser} {segs rest : List Bytes}
    (h : Forward.feedUntilComplete pc p segs = .ok (P, rest)) : ∀ s ∈ rest, s ∈ segs := by
  induction segs generalizing p with
  | nil => simp only [Forward.feedUntilComplete, Except.ok.injEq, Prod.mk.injEq] at h; rw [← h.2]; simp
  | cons x xs ih =>
    unfold Forward.feedUntilComplete at h
    split at h
    · simp at h
    · split at h
      · simp only [Except.ok.injEq, Prod.mk.injEq] at h; rw [← h.2]; intro s hs; simp [hs]
      · intro s hs; simp [ih h s hs]

/-- every cut of one request is consumed exactly by the feeding loop -/
theorem feed_cuts {x : Bytes} {P : Parser} (h : oneReq x = some P) {segs : List Bytes} (hc : Cuts segs x) :
    Forward.feedUntilComplete Forward.pcfg (init .request) segs = .ok (P, []) := by
  obtain ⟨hp, hst, hb⟩ := oneReq_spec h
  obtain ⟨rest, hf, hr⟩ := Forward.feed_segmented hp hst hb segs hc.1
  have : rest = [] := flatten_nil_of_nonempty hr (fun s hs => hc.2 s (feedUntilComplete_rest hf s hs))
  rw [this] at hf
  exact hf

/-- the handler's first-request phase over the pieces of one request -/
theorem segRun_first (cfg : Forward.Cfg) (ok : Bool) (segs : List Bytes) (p P : Parser)
    (hf : Forward.feedUntilComplete Forward.pcfg p segs = .ok (P, [])) (hc : P.state = .complete)
    (hnc : p.state ≠ .complete) (a : Connect.Addr) (q : Bytes)
    (hfc : firstComplete cfg ok P = .established a q) :
    segRun cfg ok (.first p) segs = some (.http P none, q, [a]) := by
  induction segs generalizing p with
  | nil =>
    simp only [Forward.feedUntilComplete, Except.ok.injEq, Prod.mk.injEq] at hf
    rw [hf.1] at hnc; exact absurd hc hnc
  | cons s ss ih =>
    unfold Forward.feedUntilComplete at hf
    cases hp : parse Forward.pcfg p s with
    | error e => simp [hp] at hf
    | ok p' =>
      simp only [hp] at hf
      by_cases hpc : p'.state = .complete
      · simp only [hpc, beq_self_eq_true, if_true, Except.ok.injEq, Prod.mk.injEq] at hf
        obtain ⟨rfl, rfl⟩ := hf
        have ha : appOf cfg ok (.first p) s = (.http p' none, .ok none none false, some (.http, [q]), some a) := by
          unfold appOf
          simp only [hp, hpc, bne_self_eq_false, Bool.false_eq_true, if_false, hfc]
        simp [segRun, ha, smooth, items, conns]
      · have hb : (p'.state == PState.complete) = false := by simpa using hpc
        simp only [hb, Bool.false_eq_true, if_false] at hf
        have ha : appOf cfg ok (.first p) s = (.first p', .ok none none false, none, none) := by
          unfold appOf
          have : (p'.state != PState.complete) = true := by simpa using hpc
          simp only [hp, this, if_true]
        rw [segRun, ha]
        simp only [smooth, if_true, Bool.and_self]
        rw [ih p' hf hpc]
        simp [items, conns]

/-- `on_client_data`'s pipeline parser over the pieces of one follow-up request -/
theorem segRun_later (cfg : Forward.Cfg) (ok : Bool) (req : Parser) (segs : List Bytes) (p P : Parser)
    (hf : Forward.feedUntilComplete Forward.pcfg p segs = .ok (P, [])) (hc : P.state = .complete)
    (hnc : p.state ≠ .complete) (q : Bytes)
    (hb : Forward.buildFor cfg (Forward.treatLater cfg P) = .ok q)
    (hu : isUpgrade (Forward.treatLater cfg P) = false)
    (pipe : Option Parser) (hpipe : pipe = some p ∨ (pipe = none ∧ p = init .request)) :
    segRun cfg ok (.http req pipe) segs = some (.http req none, q, []) := by
  induction segs generalizing p pipe with
  | nil =>
    simp only [Forward.feedUntilComplete, Except.ok.injEq, Prod.mk.injEq] at hf
    rw [hf.1] at hnc; exact absurd hc hnc
  | cons s ss ih =>
    unfold Forward.feedUntilComplete at hf
    cases hp : parse Forward.pcfg p s with
    | error e => simp [hp] at hf
    | ok p' =>
      simp only [hp] at hf
      have hps : pipeStep cfg pipe s =
          (if p'.state == .complete then
            (match Forward.buildFor cfg (Forward.treatLater cfg p') with
             | .error _ => (some (Forward.treatLater cfg p'), .raised)
             | .ok x => (if isUpgrade (Forward.treatLater cfg p') then some (Forward.treatLater cfg p') else none,
                 .ok (some x) none false))
           else (some p', .ok none none false)) := by
        have hncb : (p.state == PState.complete) = false := by simpa using hnc
        rcases hpipe with rfl | ⟨rfl, rfl⟩
        · unfold pipeStep
          simp only [hncb, Bool.false_and, Bool.false_eq_true, if_false, hp]
          rfl
        · unfold pipeStep
          simp only [hp]
          rfl
      by_cases hpc : p'.state = .complete
      · simp only [hpc, beq_self_eq_true, if_true, Except.ok.injEq, Prod.mk.injEq] at hf
        obtain ⟨rfl, rfl⟩ := hf
        simp only [hpc, beq_self_eq_true, if_true, hb, hu, Bool.false_eq_true, if_false] at hps
        rw [segRun, appOf_http, hps]
        simp [segRun, smooth, items, conns]
      · have hbb : (p'.state == PState.complete) = false := by simpa using hpc
        simp only [hbb, Bool.false_eq_true, if_false] at hf hps
        rw [segRun, appOf_http, hps]
        simp only [smooth, if_true, Bool.and_self]
        rw [ih p' hf hpc (some p') (.inl rfl)]
        simp [items, conns]

/-- the first request of a connection: one request, answered by a connect to `a` and `q` queued -/
def FirstOk (cfg : Forward.Cfg) (ok : Bool) (x : Bytes) (P : Parser) (a : Connect.Addr) (q : Bytes) : Prop :=
  oneReq x = some P ∧ firstComplete cfg ok P = .established a q

/-- a follow-up request: one request, forwarded as `q`, not a connection upgrade -/
def LaterOk (cfg : Forward.Cfg) (x q : Bytes) : Prop :=
  ∃ P, oneReq x = some P ∧ Forward.buildFor cfg (Forward.treatLater cfg P) = .ok q ∧
    isUpgrade (Forward.treatLater cfg P) = false

/-- two lists related element by element -/
inductive All₂ {α β : Type} (R : α → β → Prop) : List α → List β → Prop
  | nil : All₂ R [] []
  | cons {a b as bs} : R a b → All₂ R as bs → All₂ R (a :: as) (b :: bs)

theorem init_not_complete : (init .request).state ≠ .complete := by simp [init]

/-- follow-up requests, each cut into its own segments -/
theorem segRun_laters (cfg : Forward.Cfg) (ok : Bool) (req : Parser) (xs qs : List Bytes) (segss : List (List Bytes))
    (hl : All₂ (LaterOk cfg) xs qs) (hc : All₂ Cuts segss xs) :
    segRun cfg ok (.http req none) segss.flatten = some (.http req none, qs.flatten, []) := by
  induction hl generalizing segss with
  | nil => cases hc; simp [segRun]
  | @cons x q xs qs hx _ ih =>
    cases hc with
    | @cons segs _ segss' _ hcx hcs =>
      obtain ⟨P, ho, hb, hu⟩ := hx
      have h1 := segRun_later cfg ok req segs (init .request) P (feed_cuts ho hcx) (oneReq_spec ho).2.1
        init_not_complete q hb hu none (.inr ⟨rfl, rfl⟩)
      rw [List.flatten_cons, segRun_append, h1]
      simp only [Option.bind_some]
      rw [ih segss' hcs]
      simp

/-- **segment level.**  First request cut into `segs₁`, follow-ups cut into `segss`: the run ends
    established with an idle pipeline parser; queued for the upstream, in order, is the first request's
    forward form followed by the follow-ups' forward forms; one connect. -/
theorem segRun_requests (cfg : Forward.Cfg) (ok : Bool) (x₁ : Bytes) (P₁ : Parser) (a : Connect.Addr) (q₁ : Bytes)
    (xs qs : List Bytes) (segs₁ : List Bytes) (segss : List (List Bytes))
    (h1 : FirstOk cfg ok x₁ P₁ a q₁) (hl : All₂ (LaterOk cfg) xs qs)
    (hc1 : Cuts segs₁ x₁) (hc : All₂ Cuts segss xs) :
    segRun cfg ok (.first (init .request)) (segs₁ ++ segss.flatten) =
      some (.http P₁ none, q₁ ++ qs.flatten, [a]) := by
  have f := segRun_first cfg ok segs₁ (init .request) P₁ (feed_cuts h1.1 hc1) (oneReq_spec h1.1).2.1
    init_not_complete a q₁ h1.2
  rw [segRun_append, f]
  simp only [Option.bind_some]
  rw [segRun_laters cfg ok P₁ xs qs segss hl hc]
  simp

end Px.Persist
