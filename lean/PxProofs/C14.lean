import PxModel.Connect
import PxProofs.C14Lemmas
/-!
# C14 — the proxy connects to exactly the host and port the request-target names

Property theorems; helper lemmas are in `PxProofs/UrlLemmas.lean`,
`UrlIntLemmas.lean`, `UrlAuthLemmas.lean`, `UrlParseLemmas.lean`, `C14Lemmas.lean`.
Models: `PxModel/Url.lean` (`Url.from_bytes`, `Url._parse`), `PxModel/Parser.lean`
(`_process_line`, `_set_line_attributes`), `PxModel/Connect.lean`
(`connect_upstream`, `new_socket_connection`, first-request path of the handler,
and the specification side `Target` / `renderT` / `Target.wf`), tied to /repo by
`harness/c14.py`.

Findings visible in the statements:
* D8b — port 0 (`C14_port_zero`), userinfo without exactly one colon
  (`C14_reject_userinfo_no_colon`), `int()` leniency (`C14_port_lenient_witnesses`);
* D8c (fixed by dbfef2b) — userinfo in front of a port-less IPv6 literal is now inside
  `Target.wf` (`C14_roundtrip_userinfo_v6_noport` is the positive statement).
-/
namespace Px.Connect
open Px Px.Url Px.UrlL

/-- grammar guard as a proposition -/
def Target.WF (allowed : List Bytes) (t : Target) : Prop := t.wf allowed = true

instance (allowed : List Bytes) (t : Target) : Decidable (t.WF allowed) := by
  unfold Target.WF; infer_instance

/-- the `Url` the target denotes: every field -/
def Target.expected (t : Target) : Url :=
  match t.form with
  | .origin => { remainder := some t.pathq }
  | .absolute =>
    { scheme := some t.scheme, username := t.userinfo.map (·.1), password := t.userinfo.map (·.2),
      hostname := some t.host.text, port := t.port.map Int.ofNat,
      remainder := if t.pathq.isEmpty then none else some t.pathq }
  | .authority =>
    { username := t.userinfo.map (·.1), password := t.userinfo.map (·.2),
      hostname := some t.host.text, port := t.port.map Int.ofNat }

theorem renderAuthority_no_slash (t : Target) (hu : userinfoWf t.userinfo = true) (hw : t.host.wf = true)
    (hp : portWf t.port = true) : SLASH ∉ renderAuthority t ∧ renderAuthority t ≠ [] := by
  obtain ⟨_, hs, hne, _, _, _⟩ := Host.wf_facts t.host hw
  obtain ⟨_, hps, _⟩ := renderPort_facts t.port hp
  unfold renderAuthority
  constructor
  · cases hui : t.userinfo with
    | none => simp [renderUserinfo, hs, hps]
    | some up =>
      obtain ⟨u, p⟩ := up
      rw [hui] at hu
      obtain ⟨_, _, _, _, h5, h6⟩ := userinfoWf_facts u p hu
      simp only [renderUserinfo, List.mem_append, List.mem_singleton, not_or]
      exact ⟨⟨⟨⟨⟨h5, by decide⟩, h6⟩, by decide⟩, hs⟩, hps⟩
  · intro e
    simp only [List.append_eq_nil_iff] at e
    exact hne e.1.2

/-- **C14 round trip.** -/
theorem C14_roundtrip (allowed : List Bytes) (t : Target) (h : t.WF allowed) :
    fromBytes allowed (renderT t) = .ok t.expected := by
  unfold Target.WF Target.wf at h
  unfold renderT Target.expected
  cases hf : t.form with
  | origin =>
    simp only [hf, Bool.and_eq_true, beq_iff_eq, bne_iff_ne, ne_eq] at h ⊢
    cases hp : t.pathq with
    | nil => rw [hp] at h; simp at h
    | cons c cs =>
      rw [hp] at h
      simp at h
      obtain ⟨rfl, h2⟩ := h
      exact fromBytes_origin allowed cs h2
  | absolute =>
    simp only [hf, Bool.and_eq_true, Bool.or_eq_true, beq_iff_eq] at h ⊢
    obtain ⟨⟨⟨⟨⟨hal, hsc⟩, hu⟩, hw⟩, hp⟩, hpq⟩ := h
    obtain ⟨hs, _⟩ := renderAuthority_no_slash t hu hw hp
    rw [fromBytes_absolute allowed t.scheme (renderAuthority t) t.pathq hal
      (noneOf_not_mem hsc (by simp)) (noneOf_not_mem hsc (by simp)) hs
      (by rcases hpq with h | h; exact Or.inl (List.isEmpty_iff.1 h); exact Or.inr h)]
    unfold renderAuthority
    rw [parseAuthority_wf t.userinfo t.host t.port hu hw hp]
    rfl
  | authority =>
    simp only [hf, Bool.and_eq_true] at h ⊢
    obtain ⟨⟨hu, hw⟩, hp⟩ := h
    obtain ⟨hs, hne⟩ := renderAuthority_no_slash t hu hw hp
    rw [fromBytes_authority allowed _ hne hs]
    unfold renderAuthority
    rw [parseAuthority_wf t.userinfo t.host t.port hu hw hp]
    rfl

/-- **Former finding D8c (fixed by dbfef2b), now the positive case.**  Userinfo in front
of a port-less IPv6 literal: the fallback of `Url._parse` ("treat entire data as
host") takes the authority WITHOUT the userinfo, so host is the bracketed literal,
the credentials are reported separately and no port is derived. -/
theorem C14_roundtrip_userinfo_v6_noport (u p t : Bytes) (hu : userinfoWf (some (u, p)) = true)
    (ht : (Host.ipv6 t).wf = true) :
    parseAuthority (u ++ COLON :: p ++ AT :: ([LBR] ++ t ++ [RBR])) =
      .ok (some u, some p, [LBR] ++ t ++ [RBR], none) := by
  have := parseAuthority_wf (some (u, p)) (.ipv6 t) none hu ht rfl
  simpa [renderUserinfo, renderPort, Host.text] using this

/-- `connect_upstream` forms ONE address (`connect_host`, brackets stripped, and the port) before it
branches on `--enable-conn-pool`: the key given to `upstream_conn_pool.acquire` and the arguments of
`TcpServerConnection` are the same. -/
theorem connectUpstreamP_eq (pool : Bool) (host : Option Bytes) (port : Option Int) :
    connectUpstreamP pool host port = connectUpstream host port := by
  unfold connectUpstreamP connectUpstream
  cases host <;> cases port <;> simp

/-! ## default ports -/

/-- port derived by `_set_line_attributes` for a target with port field `port` -/
def derivedPort (cfg : Px.Parser.Cfg) (tunnel : Bool) (port : Option Nat) : Int :=
  match port with
  | some n => Int.ofNat n
  | none => if tunnel then 443 else Int.ofNat cfg.defaultHttpPort

/-- **C14 defaults.**  Host and path are taken over unchanged; the derived port is
the explicit port when one is given, else 443 for CONNECT and
`DEFAULT_HTTP_PORT` otherwise — under the explicit guard that a non-tunnel
request does not name port 0 (see `C14_port_zero`). -/
theorem C14_defaults (cfg : Px.Parser.Cfg) (p : Px.Parser.Parser) (u : Url) (port : Option Nat)
    (hu : u.port = port.map Int.ofNat) (hg : p.isTunnel = false → port ≠ some 0) :
    (Px.Parser.setLineAttributes cfg p u).host = u.hostname ∧
    (Px.Parser.setLineAttributes cfg p u).path = u.remainder ∧
    (Px.Parser.setLineAttributes cfg p u).port = some (derivedPort cfg p.isTunnel port) ∧
    (Px.Parser.setLineAttributes cfg p u).isTunnel = p.isTunnel := by
  unfold Px.Parser.setLineAttributes derivedPort
  cases ht : p.isTunnel with
  | true =>
    simp only [if_true, hu]
    cases port <;> simp
  | false =>
    simp only [Bool.false_eq_true, if_false, hu]
    cases port with
    | none => simp
    | some n =>
      have : n ≠ 0 := fun e => hg ht (by rw [e])
      simp [this]

/-- the literals: `DEFAULT_HTTP_PORT` of the code under check is 80 (generated constant) -/
theorem C14_default_port_literals :
    ({} : Px.Parser.Cfg).defaultHttpPort = 80 ∧
    derivedPort {} false none = 80 ∧ derivedPort {} true none = 443 := by decide

/-- **Port 0 (finding D8b).**  `http://h:0/`: `port if port else DEFAULT_HTTP_PORT`
turns the explicit port 0 into the default port (the request is sent to port 80);
`CONNECT h:0`: the port stays 0 and `connect_upstream` makes no connect attempt at
all (`if host and port` is falsy → `HttpProtocolException`, connection dropped
without a response). -/
theorem C14_port_zero (cfg : Px.Parser.Cfg) (p : Px.Parser.Parser) (u : Url) (hu : u.port = some 0) :
    (p.isTunnel = false →
      (Px.Parser.setLineAttributes cfg p u).port = some (Int.ofNat cfg.defaultHttpPort)) ∧
    (p.isTunnel = true →
      (Px.Parser.setLineAttributes cfg p u).port = some 0 ∧
      ∀ pool, connectUpstreamP pool (Px.Parser.setLineAttributes cfg p u).host
        (Px.Parser.setLineAttributes cfg p u).port = .error .httpProtocol) := by
  unfold Px.Parser.setLineAttributes
  constructor
  · intro ht; simp [ht, hu]
  · intro ht
    simp only [ht, if_true, hu, Option.getD_some, true_and]
    intro pool
    rw [connectUpstreamP_eq]
    unfold connectUpstream
    cases u.hostname <;> simp

/-! ## the connect address -/

/-- **C14 connect address.**  For a well-formed absolute-form or authority-form
target whose derived port is not 0, the address handed to the socket layer is
(host WITHOUT brackets, derived port): brackets of an IPv6 literal are stripped,
registered names and IPv4 literals are passed unchanged — in both branches of
`connect_upstream`: as arguments of `TcpServerConnection` (default) and as the key
of `upstream_conn_pool.acquire` (`--enable-conn-pool`), whose new connection is
opened to that same key. -/
theorem C14_connect_addr (cfg : Px.Parser.Cfg) (p : Px.Parser.Parser) (t : Target)
    (h : t.WF cfg.allowedSchemes) (hf : t.form ≠ .origin)
    (hd : cfg.defaultHttpPort ≠ 0) (hg : t.port ≠ some 0) :
    let q := Px.Parser.setLineAttributes cfg p t.expected
    ∀ pool, connectUpstreamP pool q.host q.port = .ok ⟨t.host.bare, derivedPort cfg p.isTunnel t.port⟩ ∧
      poolAcquire ⟨t.host.bare, derivedPort cfg p.isTunnel t.port⟩ = ⟨t.host.bare, derivedPort cfg p.isTunnel t.port⟩ := by
  intro q pool
  refine ⟨?_, rfl⟩
  rw [connectUpstreamP_eq]
  have hexp : t.expected.hostname = some t.host.text ∧ t.expected.port = t.port.map Int.ofNat := by
    unfold Target.expected
    cases hfm : t.form with
    | origin => exact absurd hfm hf
    | absolute => exact ⟨rfl, rfl⟩
    | authority => exact ⟨rfl, rfl⟩
  have hw : t.host.wf = true := by
    unfold Target.WF Target.wf at h
    cases hfm : t.form with
    | origin => exact absurd hfm hf
    | absolute => simp only [hfm, Bool.and_eq_true] at h; exact h.1.1.2
    | authority => simp only [hfm, Bool.and_eq_true] at h; exact h.1.2
  obtain ⟨hq1, _, hq3, _⟩ := C14_defaults cfg p t.expected t.port hexp.2 (fun _ => hg)
  obtain ⟨_, _, hne, hu8, hsb, _⟩ := Host.wf_facts t.host hw
  have hp0 : derivedPort cfg p.isTunnel t.port ≠ 0 := by
    unfold derivedPort
    cases hpt : t.port with
    | none =>
      cases p.isTunnel
      · simp only [Bool.false_eq_true, if_false]; intro e; apply hd; exact Int.ofNat_eq_zero.1 e
      · simp
    | some n =>
      have : n ≠ 0 := fun e => hg (by rw [hpt, e])
      simp only; intro e; exact this (Int.ofNat_eq_zero.1 e)
  show connectUpstream q.host q.port = _
  rw [hq1, hq3, hexp.1]
  unfold connectUpstream
  have he : t.host.text.isEmpty = false := by
    cases hh : t.host.text with
    | nil => exact absurd hh hne
    | cons _ _ => rfl
  simp only [he, Bool.false_or, beq_iff_eq, hp0, if_false, hu8, Bool.not_true, Bool.false_eq_true, hsb]

/-- **C14 dispatch.**  Whatever route `new_socket_connection` takes, the OS-level
call carries exactly the address it was given; IPv4 literals go to
`AF_INET connect((host, port))`, IPv6 literals to
`AF_INET6 connect((host, port, 0, 0))`, everything else to
`socket.create_connection((host, port))`. -/
theorem C14_dispatch (isV4 isV6 : Bytes → Bool) (a : Addr) (src : Option (Bytes × Int)) :
    (newSocketConnection isV4 isV6 a src).host = a.host ∧
    (newSocketConnection isV4 isV6 a src).port = a.port ∧
    (isV4 a.host = true → newSocketConnection isV4 isV6 a src = .inet a.host a.port) ∧
    (isV4 a.host = false → isV6 a.host = true → newSocketConnection isV4 isV6 a src = .inet6 a.host a.port 0 0) ∧
    (isV4 a.host = false → isV6 a.host = false → newSocketConnection isV4 isV6 a src = .name a.host a.port src) := by
  unfold newSocketConnection
  cases isV4 a.host <;> cases isV6 a.host <;> simp [Route.host, Route.port]

/-! ## from the request line -/

/-- the request line splits into method, target, version -/
theorem splitN1_request_line (m u v : Bytes) (hm : SP ∉ m) (hu : SP ∉ u) :
    splitN1 SP 2 (m ++ SP :: (u ++ SP :: v)) = [m, u, v] := by
  unfold splitN1
  rw [splitOnce1_render SP m _ hm]
  simp only
  unfold splitN1
  rw [splitOnce1_render SP u _ hu]
  simp [splitN1]

/-- `_process_line` on `method SP target SP version CRLF rest` -/
theorem processLine_request (cfg : Px.Parser.Cfg) (p : Px.Parser.Parser) (m u v rest : Bytes)
    (hty : p.ty = .request) (hne : m ≠ []) (hm : SP ∉ m) (hu : SP ∉ u)
    (hlf : ∀ c ∈ m ++ SP :: (u ++ SP :: v), c ≠ LF) :
    Px.Parser.processLine cfg p (m ++ SP :: (u ++ SP :: v) ++ CRLF ++ rest) =
      match fromBytes cfg.allowedSchemes u with
      | .error e => .error (Px.Parser.urlErr e)
      | .ok url =>
        .ok ({ Px.Parser.setLineAttributes cfg
                { p with method := some m, isTunnel := p.isTunnel || m == cfg.connectMethod } url with
               version := some v, state := .lineRcvd }, !rest.isEmpty, rest) := by
  unfold Px.Parser.processLine
  rw [splitCRLF_render (splitCRLF_none_of_noLF hlf) rest]
  simp only [splitN1_request_line m u v hm hu]
  rw [hty]
  have hme : m.isEmpty = false := by cases m with
    | nil => exact absurd rfl hne
    | cons _ _ => rfl
  simp only [hme]
  rfl

/-- **C14 request line.**  A request line `method SP target SP version CRLF` whose
target is a well-formed `Target` (written without SP / LF) leaves the parser with
exactly the host (IPv6 literals bracketed), the explicit-or-default port and the
path of the target; `CONNECT` selects the tunnel default. -/
theorem C14_request_line (cfg : Px.Parser.Cfg) (m v rest : Bytes) (t : Target)
    (h : t.WF cfg.allowedSchemes) (hne : m ≠ []) (hm : SP ∉ m) (hu : SP ∉ renderT t)
    (hlf : ∀ c ∈ m ++ SP :: (renderT t ++ SP :: v), c ≠ LF)
    (hg : (m == cfg.connectMethod) = false → t.port ≠ some 0) :
    ∃ q, Px.Parser.processLine cfg (Px.Parser.init .request) (m ++ SP :: (renderT t ++ SP :: v) ++ CRLF ++ rest)
        = .ok (q, !rest.isEmpty, rest) ∧
      q.method = some m ∧ q.version = some v ∧ q.url = some t.expected ∧
      q.host = t.expected.hostname ∧ q.path = t.expected.remainder ∧
      q.isTunnel = (m == cfg.connectMethod) ∧
      q.port = some (match t.expected.port with
        | some v => v
        | none => if m == cfg.connectMethod then 443 else Int.ofNat cfg.defaultHttpPort) := by
  rw [processLine_request cfg _ m _ v rest rfl hne hm hu hlf, C14_roundtrip _ t h]
  refine ⟨_, rfl, ?_⟩
  simp only [Px.Parser.init, Bool.false_or]
  unfold Px.Parser.setLineAttributes
  cases hc : (m == cfg.connectMethod) with
  | true =>
    simp only [if_true, true_and]
    cases t.expected.port <;> simp
  | false =>
    simp only [Bool.false_eq_true, if_false, true_and]
    have hg' := hg hc
    have hp : t.expected.port = none ∨ t.expected.port = t.port.map Int.ofNat := by
      unfold Target.expected; cases t.form <;> simp
    rcases hp with hp | hp
    · rw [hp]
    · rw [hp]
      cases hpt : t.port with
      | none => simp
      | some n =>
        have : n ≠ 0 := fun e => hg' (by rw [hpt, e])
        simp [this]

/-! ## userinfo -/

/-- dropping the userinfo of a well-formed target keeps it well-formed -/
theorem Target.WF_drop_userinfo (allowed : List Bytes) (t : Target) (h : t.WF allowed) :
    ({ t with userinfo := none } : Target).WF allowed := by
  unfold Target.WF Target.wf at h ⊢
  cases hf : t.form with
  | origin => simpa [hf] using h
  | absolute =>
    simp only [hf, Bool.and_eq_true] at h ⊢
    obtain ⟨⟨⟨⟨⟨hal, hsc⟩, hu⟩, hw⟩, hp⟩, hpq⟩ := h
    exact ⟨⟨⟨⟨⟨hal, hsc⟩, rfl⟩, hw⟩, hp⟩, hpq⟩
  | authority =>
    simp only [hf, Bool.and_eq_true] at h ⊢
    obtain ⟨⟨hu, hw⟩, hp⟩ := h
    exact ⟨⟨rfl, hw⟩, hp⟩

/-- **C14 userinfo.**  `user:pass@` in front of the host is reported as
username / password and changes neither host, port nor path. -/
theorem C14_userinfo (allowed : List Bytes) (t : Target) (h : t.WF allowed) :
    ∃ u u', fromBytes allowed (renderT t) = .ok u ∧
      fromBytes allowed (renderT { t with userinfo := none }) = .ok u' ∧
      u.hostname = u'.hostname ∧ u.port = u'.port ∧ u.remainder = u'.remainder ∧ u.scheme = u'.scheme ∧
      (t.form ≠ .origin → u.username = t.userinfo.map (·.1) ∧ u.password = t.userinfo.map (·.2)) := by
  refine ⟨_, _, C14_roundtrip allowed t h, C14_roundtrip allowed _ (Target.WF_drop_userinfo allowed t h), ?_⟩
  unfold Target.expected
  cases hf : t.form <;> simp

/-- **C14 reject: userinfo without exactly one colon.**  `user@host`, `a@b@c`
(text before the FIRST `@` has no colon), `u:p:q@host`: `Url._parse` raises
`ValueError` — in absolute-form and in authority-form — so the request ends as
400 (`C14_reject_no_connect`), never as a connect to some other authority.
(RFC 3986 allows userinfo without a colon: part of finding D8b.) -/
theorem C14_reject_userinfo_no_colon (allowed : List Bytes) (scheme ui hp pathq : Bytes)
    (hal : allowed.contains scheme = true) (hsc : COLON ∉ scheme) (hss : SLASH ∉ scheme)
    (hat : AT ∉ ui) (hc : ui.count COLON ≠ 1) (hs1 : SLASH ∉ ui) (hs2 : SLASH ∉ hp)
    (hp' : pathq = [] ∨ pathq.head? = some SLASH) :
    fromBytes allowed (scheme ++ b "://" ++ (ui ++ AT :: hp) ++ pathq) = .error .valueError ∧
    fromBytes allowed (ui ++ AT :: hp) = .error .valueError := by
  have hs : SLASH ∉ ui ++ AT :: hp := by
    simp only [List.mem_append, List.mem_cons, not_or]; exact ⟨hs1, by decide, hs2⟩
  constructor
  · rw [fromBytes_absolute allowed scheme _ pathq hal hsc hss hs hp', parseAuthority_bad_userinfo ui hp hat hc]; rfl
  · rw [fromBytes_authority allowed _ (by simp) hs, parseAuthority_bad_userinfo ui hp hat hc]; rfl

/-- `a@b@c`: two `@` signs, no colon before the first -/
theorem C14_reject_two_at (x y z : Bytes) (h1 : AT ∉ x) (h2 : COLON ∉ x) :
    parseAuthority (x ++ AT :: (y ++ AT :: z)) = .error .valueError :=
  parseAuthority_bad_userinfo x _ h1 (by rw [List.count_eq_zero_of_not_mem h2]; decide)

/-! ## rejected targets never connect -/

theorem loop_error_of_processLine (cfg : Px.Parser.Cfg) (fuel : Nat) (p : Px.Parser.Parser) (raw : Bytes)
    (e : Px.Parser.Err) (hst : p.state = .initialized) (hpl : Px.Parser.processLine cfg p raw = .error e) :
    Px.Parser.loop cfg (fuel + 1) p true raw = .error e := by
  unfold Px.Parser.loop
  have h1 : (p.state == Px.Parser.PState.complete) = false := by rw [hst]; decide
  simp only [Bool.not_true, Bool.false_or, h1, Bool.false_eq_true, if_false]
  unfold Px.Parser.stepOnce
  have h2 : ¬ (p.state.num ≥ Px.Parser.PState.headersComplete.num) := by rw [hst]; decide
  have h3 : (p.state == Px.Parser.PState.initialized) = true := by rw [hst]; decide
  simp only [h2, if_false, h3, if_true, hpl]

/-- **C14 reject ⇒ no connect.**  If `Url.from_bytes` raises on the target of the
first request line (any exception: `ValueError`, `IndexError`, invalid scheme), the
handler answers 400 and tears the connection down; no connect is attempted. -/
theorem C14_reject_no_connect (cfg : Px.Parser.Cfg) (m u v rest : Bytes) (e : Px.Url.Err)
    (hne : m ≠ []) (hm : SP ∉ m) (hu : SP ∉ u) (hlf : ∀ c ∈ m ++ SP :: (u ++ SP :: v), c ≠ LF)
    (he : fromBytes cfg.allowedSchemes u = .error e) (pool : Bool) :
    handleFirst cfg pool [m ++ SP :: (u ++ SP :: v) ++ CRLF ++ rest] = .reject400 := by
  have hlen : (m ++ SP :: (u ++ SP :: v) ++ CRLF ++ rest).length > 0 := by simp [CRLF]; omega
  have hpar : Px.Parser.parse cfg (Px.Parser.init .request) (m ++ SP :: (u ++ SP :: v) ++ CRLF ++ rest) =
      .error (Px.Parser.urlErr e) := by
    unfold Px.Parser.parse
    simp only [Px.Parser.init, hlen, decide_true]
    rw [loop_error_of_processLine cfg _ _ _ (Px.Parser.urlErr e) rfl]
    rw [processLine_request cfg _ m u v rest rfl hne hm hu hlf, he]
  unfold handleFirst Px.Parser.parseAll
  rw [hpar]

/-- every connect the handler makes is to the parser's host with its brackets
stripped and to the parser's (non-zero) port -/
theorem C14_connect_only_parsed (cfg : Px.Parser.Cfg) (pool : Bool) (segs : List Bytes) (a : Addr) (tn : Bool)
    (line : Bytes) (h : handleFirst cfg pool segs = .connected a tn line) :
    ∃ p hst, Px.Parser.parseAll cfg (Px.Parser.init .request) segs = .ok p ∧
      p.host = some hst ∧ hst ≠ [] ∧ a.host = stripBrackets hst ∧ p.port = some a.port ∧ a.port ≠ 0 := by
  unfold handleFirst at h
  cases hp : Px.Parser.parseAll cfg (Px.Parser.init .request) segs with
  | error e => rw [hp] at h; simp at h
  | ok p =>
    rw [hp] at h
    simp only at h
    split at h
    · simp at h
    · split at h
      · rename_i hproto
        rw [connectUpstreamP_eq] at h
        cases hc : connectUpstream p.host p.port with
        | error e => rw [hc] at h; cases e <;> simp at h
        | ok a' =>
          rw [hc] at h
          simp only [Outcome.connected.injEq] at h
          have ha : a' = a := by
            cases pool
            · simpa using h.1
            · simpa [poolAcquire] using h.1
          subst ha
          unfold connectUpstream at hc
          cases hh : p.host with
          | none => rw [hh] at hc; simp at hc
          | some hst =>
            cases hpt : p.port with
            | none => rw [hh, hpt] at hc; simp at hc
            | some pt =>
              rw [hh, hpt] at hc
              simp only at hc
              split at hc
              · simp at hc
              · rename_i hcond
                split at hc
                · simp at hc
                · simp only [Except.ok.injEq] at hc
                  subst hc
                  simp only [Bool.or_eq_true, List.isEmpty_iff, beq_iff_eq, not_or] at hcond
                  exact ⟨p, hst, rfl, hh, hcond.1, rfl, hpt, hcond.2⟩
      · simp at h

/-! ## no mis-routing: the connect host is literally in the request-target -/

/-- **C14 no mis-routing (authority).**  For ANY byte string `a` (no grammar
assumed): if `Url._parse a` returns host `h` and port, then — with `hp` the part of
`a` after its first `@` (all of `a` when there is none) — the host the proxy would
connect to (`h` with its, possibly added, brackets removed) is a contiguous piece of
`hp`, and the port is the `int()` value of the text after the last colon of `hp`.
Since dbfef2b nothing of the userinfo can end up in the host. -/
theorem C14_no_misrouting_authority (a : Bytes) {u p : Option Bytes} {h : Bytes} {port : Option Int}
    (e : parseAuthority a = .ok (u, p, h, port)) :
    ∃ hp, hp <:+ a ∧ (AT ∉ a → hp = a) ∧ (∀ ui r, a = ui ++ AT :: r → AT ∉ ui → hp = r) ∧
      stripBrackets h <:+: hp ∧
      (∀ v, port = some v → ∃ pre s, hp = pre ++ COLON :: s ∧ COLON ∉ s ∧ pyInt 10 s = some v) := by
  rw [parseAuthority_eq] at e
  split at e
  · rename_i hs
    have hn := (splitOnce1_none_iff AT a).1 hs
    obtain ⟨h1, h2⟩ := hostPort_substring a a none none e
    refine ⟨a, List.suffix_refl a, fun _ => rfl, ?_, h1, h2⟩
    intro ui r ha _; exact absurd (by rw [ha]; simp) hn
  · rename_i ui hp hs
    obtain ⟨hx, hui⟩ := (splitOnce1_some_iff AT a ui hp).1 hs
    split at e
    · obtain ⟨h1, h2⟩ := hostPort_substring a hp _ _ e
      refine ⟨hp, ⟨ui ++ [AT], by rw [hx]; simp⟩, fun hn => absurd (by rw [hx]; simp) hn, ?_, h1, h2⟩
      intro ui' r ha hui'
      have := (splitOnce1_some_iff AT a ui' r).2 ⟨ha, hui'⟩
      rw [hs] at this; simp at this; exact this.2
    · simp at e

/-- **C14 no mis-routing.**  For ANY request-target `x`: if `Url.from_bytes x`
succeeds with a host, there is one contiguous piece `a` of `x` — `x` itself, or
the text between `scheme://` (or a leading `//`) and the next `/` — such that the
connect host is a contiguous piece of `a` (of its part after the first `@`) and the
port (if any) is the `int()` value of the colon-free tail of `a`.  Nothing the
target does not literally contain can become the destination. -/
theorem C14_no_misrouting (allowed : List Bytes) (x : Bytes) {u : Url} {h : Bytes}
    (e : fromBytes allowed x = .ok u) (hh : u.hostname = some h) :
    ∃ pre a post, x = pre ++ a ++ post ∧
      ((pre = [] ∧ post = []) ∨
       ((pre = b "//" ∨ ∃ s, pre = s ++ b "://") ∧ SLASH ∉ a ∧ (post = [] ∨ post.head? = some SLASH))) ∧
      stripBrackets h <:+: a ∧ stripBrackets h <:+: x ∧
      (∀ v, u.port = some v → ∃ pre' s, a = pre' ++ COLON :: s ∧ COLON ∉ s ∧ s <:+: x ∧ pyInt 10 s = some v) := by
  obtain ⟨pre, a, post, hx, hpa, hshape⟩ := fromBytes_authority_piece allowed x e hh
  obtain ⟨hp, ⟨q, hq⟩, _, h1, h2⟩ := parseAuthority_substring a hpa
  have hax : a <:+: x := ⟨pre, post, hx.symm⟩
  have hpa' : hp <:+: a := ⟨q, [], by simp [hq]⟩
  refine ⟨pre, a, post, hx, hshape, h1.trans hpa', (h1.trans hpa').trans hax, ?_⟩
  intro v hv
  obtain ⟨pre', s, ha, hs, hi⟩ := h2 v hv
  refine ⟨q ++ pre', s, by rw [← hq, ha]; simp, hs, ?_, hi⟩
  exact (List.IsInfix.trans ⟨q ++ pre' ++ [COLON], [], by rw [← hq, ha]; simp⟩ hax)

/-! ## `int()` on the port text -/

/-- **port text guard.**  When the text after the colon consists of decimal digits
only (leading zeros allowed, at most 4300 digits — CPython's limit), the derived
port is the number written. -/
theorem C14_port_text (raw : Bytes) (u p : Option Bytes) (h ds : Bytes) (hc : COLON ∉ h)
    (hne : ds ≠ []) (hd : ∀ c ∈ ds, isDig c = true) (hl : ds.length ≤ intMaxStrDigits) :
    hostPort raw u p (h ++ COLON :: ds) = .ok (u, p, h, some (Int.ofNat (decVal ds))) :=
  hostPort_plain_port raw u p h ds _ hc (digits_not_mem hd COLON (by decide)) (pyInt_digits ds hne hd hl)

/-- **`int()` leniency (for DESIGN §5 / D8b).**  Outside the digits-only guard the
real code (and the model) still accept: a sign, single underscores between digits,
surrounding whitespace, non-canonical zeros — all meaning "the obvious number";
an empty port, `0x50` and a negative sign are handled as shown. -/
def errOf {α : Type} : Except Px.Url.Err α → Option Px.Url.Err
  | .error e => some e
  | .ok _ => none

theorem C14_port_lenient_witnesses :
    pyInt 10 (b "+80") = some 80 ∧ pyInt 10 (b "8_0") = some 80 ∧ pyInt 10 (b " 80 ") = some 80 ∧
    pyInt 10 (b "080") = some 80 ∧ pyInt 10 (b "-80") = some (-80) ∧
    pyInt 10 (b "") = none ∧ pyInt 10 (b "0x50") = none ∧ pyInt 10 (b "8__0") = none ∧
    (fromBytes Px.Gen.defaultAllowedUrlSchemes (b "http://h:+8_0/")).toOption =
      some { scheme := some (b "http"), hostname := some (b "h"), port := some 80, remainder := some (b "/") } ∧
    errOf (fromBytes Px.Gen.defaultAllowedUrlSchemes (b "http://h:/")) = some .valueError := by
  decide +kernel

/-! ## non-vacuity: every hypothesis above has a non-trivial inhabitant -/

section Examples
open Px.Gen (defaultAllowedUrlSchemes)

/-- origin-form with a query that itself contains `://` -/
example : ({ form := .origin, host := .regName [], pathq := b "/a/b?u=http://o/" } : Target).WF defaultAllowedUrlSchemes := by
  decide +kernel
/-- absolute-form, userinfo, compressed upper-case IPv6 literal, port, path -/
def exT1 : Target :=
  { form := .absolute, userinfo := some (b "user", b "p%40ss"), host := .ipv6 (b "2001:DB8::a"), port := some 8080,
    pathq := b "/x;y?z=[1]" }
example : exT1.WF defaultAllowedUrlSchemes := by decide +kernel
/-- absolute-form, raw UTF-8 reg-name, no port, no path, https -/
example : ({ form := .absolute, scheme := b "https", host := .regName (b "bücher.example") } : Target).WF
    defaultAllowedUrlSchemes := by decide +kernel
/-- authority-form, port-less v4-mapped IPv6 literal -/
def exT2 : Target := { form := .authority, host := .ipv6 (b "::ffff:1.2.3.4") }
example : exT2.WF defaultAllowedUrlSchemes := by decide +kernel
/-- authority-form, IPv4, port 65535 -/
example : ({ form := .authority, host := .ipv4 (b "127.0.0.1"), port := some 65535 } : Target).WF
    defaultAllowedUrlSchemes := by decide +kernel
/-- the theorem instantiated: what the parser returns for `exT1` -/
example : (fromBytes defaultAllowedUrlSchemes (b "http://user:p%40ss@[2001:DB8::a]:8080/x;y?z=[1]")).toOption =
    some exT1.expected := by decide +kernel

/-- `C14_request_line`: method, target and version without SP / LF; the port-0 guard -/
example : SP ∉ b "GET" ∧ SP ∉ renderT exT1 ∧
    (∀ c ∈ b "GET" ++ SP :: (renderT exT1 ++ SP :: b "HTTP/1.1"), c ≠ LF) ∧
    ((b "GET" == ({} : Px.Parser.Cfg).connectMethod) = false → exT1.port ≠ some 0) := by decide +kernel
example : SP ∉ b "CONNECT" ∧ SP ∉ renderT exT2 ∧
    ((b "CONNECT" == ({} : Px.Parser.Cfg).connectMethod) = true) := by decide +kernel

/-- `C14_defaults` / `C14_connect_addr`: guards -/
example : ({} : Px.Parser.Cfg).defaultHttpPort ≠ 0 ∧ exT1.form ≠ .origin ∧ exT1.port ≠ some 0 ∧
    exT1.expected.port = exT1.port.map Int.ofNat := by decide +kernel
/-- `C14_port_zero`: a URL with port 0 is what `http://h:0/` parses to -/
example : ((fromBytes defaultAllowedUrlSchemes (b "http://h:0/")).toOption.map (·.port)) = some (some 0) := by
  decide +kernel

/-- `C14_roundtrip_userinfo_v6_noport` hypotheses; the target is inside the grammar now -/
example : userinfoWf (some (b "u", b "p")) = true ∧ (Host.ipv6 (b "::1")).wf = true := by decide +kernel
example : ({ form := .absolute, userinfo := some (b "u", b "p"), host := .ipv6 (b "::1"), pathq := b "/x" } : Target).WF
    defaultAllowedUrlSchemes := by decide +kernel
example : ((fromBytes defaultAllowedUrlSchemes (b "http://u:p@[::1]/x")).toOption.map (·.hostname)) =
    some (some (b "[::1]")) := by decide +kernel
example : handleFirst {} false [b "CONNECT u:p@[::1] HTTP/1.1\r\n\r\n"] =
    .connected ⟨b "::1", 443⟩ true (b "CONNECT / HTTP/1.1") := by decide +kernel
/-- a host that is not UTF-8 is answered with 502 (e5b7001), never connected -/
example : handleFirst {} false [b "GET http://h" ++ [0xff] ++ b "/ HTTP/1.1\r\n\r\n"] = .reject502 := by
  decide +kernel

/-- `C14_reject_userinfo_no_colon`: `http://user@h/` -/
example : fromBytes defaultAllowedUrlSchemes (b "http" ++ b "://" ++ (b "user" ++ AT :: b "h") ++ b "/") =
    .error .valueError :=
  (C14_reject_userinfo_no_colon defaultAllowedUrlSchemes (b "http") (b "user") (b "h") (b "/")
    (by decide +kernel) (by decide +kernel) (by decide +kernel) (by decide +kernel) (by decide +kernel)
    (by decide +kernel) (by decide +kernel) (by decide +kernel)).1
/-- `C14_reject_two_at`: `a@b@c` -/
example : AT ∉ b "a" ∧ COLON ∉ b "a" := by decide +kernel
/-- `C14_reject_no_connect`: a target on which `from_bytes` raises -/
example : errOf (fromBytes ({} : Px.Parser.Cfg).allowedSchemes (b "ftp://h/")) = some .httpProtocol ∧
    errOf (fromBytes ({} : Px.Parser.Cfg).allowedSchemes (b "http://h:x/")) = some .valueError := by decide +kernel

/-- `C14_connect_only_parsed`: requests that do connect (model evaluated by the kernel) -/
example : handleFirst {} false [b "GET http://[::1]:8080/x HTTP/1.1\r\nHost: x\r\n\r\n"] =
    .connected ⟨b "::1", 8080⟩ false (b "GET /x HTTP/1.1") := by decide +kernel
example : handleFirst {} false [b "CONNECT example.com HTTP/1.1\r\n\r\n"] =
    .connected ⟨b "example.com", 443⟩ true (b "CONNECT / HTTP/1.1") := by decide +kernel
/-- … and the two port-0 behaviours of finding D8b, end to end in the model -/
example : handleFirst {} false [b "GET http://h:0/ HTTP/1.1\r\n\r\n"] =
    .connected ⟨b "h", 80⟩ false (b "GET / HTTP/1.1") := by decide +kernel
example : handleFirst {} false [b "CONNECT h:0 HTTP/1.1\r\n\r\n"] = .closeSilent := by decide +kernel
/-- with `--enable-conn-pool`: the pool key (and hence the connect) is the bare IPv6 address -/
example : handleFirst {} true [b "GET http://[::1]:8080/x HTTP/1.1\r\nHost: x\r\n\r\n"] =
    .connected ⟨b "::1", 8080⟩ false (b "GET /x HTTP/1.1") := by decide +kernel

/-- `C14_no_misrouting`: an accepted target OUTSIDE the grammar (unbracketed IPv6): the
last group is taken as the port and brackets are added — still pieces of the target -/
example : (fromBytes defaultAllowedUrlSchemes (b "http://::1/")).toOption =
    some { scheme := some (b "http"), hostname := some (b "[::]"), port := some 1, remainder := some (b "/") } := by
  decide +kernel

/-- `C14_port_text`: digits with leading zeros -/
example : COLON ∉ b "h" ∧ b "0080" ≠ [] ∧ (∀ c ∈ b "0080", isDig c = true) ∧
    (b "0080").length ≤ intMaxStrDigits ∧ decVal (b "0080") = 80 := by decide +kernel

end Examples

end Px.Connect
