import PxProofs.ForwardEmit
import PxProofs.ForwardSem
/-!
# C02 helper lemmas, part 13: the connection model (`Conn.step` / `Conn.feed`)

* `wf_emit`        : what a parser holding a well-formed request emits as first / later request;
* `first_bridge`, `later_bridge` : a request delivered in writes of its own drives `Conn.feed`
  exactly like the request-level `feedUntilComplete` — nothing is emitted before its last byte,
  then the one re-serialised request;
* `feed_clean`     : every re-serialised request emitted on ANY input is free of proxy-only fields.
-/
namespace Px.Forward

open Px.Parser Px.Build

/-! ### what is emitted for a well-formed request -/

theorem wf_emit (cfg : Cfg) (hc : CfgOk cfg) (r : Req) (hwf : r.WF) (habs : r.isAbsolute = true) :
    ∃ P, parse pcfg (init .request) (render r) = .ok P ∧ P.state = .complete ∧ P.buffer = none ∧
      emitFirst cfg P = .ok (render (fwdImpl true cfg r)) ∧
      emitLater cfg P = .ok (render (fwdImpl false cfg r)) ∧
      P.headers.getD [] = entries r.fields ∧ P.version = some r.version := by
  obtain ⟨host, port, pq, ht⟩ : ∃ host port pq, r.target = .absolute host port pq := by
    cases htg : r.target with
    | absolute h p q => exact ⟨h, p, q, rfl⟩
    | origin q => simp [Req.isAbsolute, htg] at habs
  obtain ⟨P, hP, hPd⟩ := parse_render r hwf ht
  refine ⟨P, hP, hPd.state, hPd.buffer, ?_, ?_, entries_getD r hPd.headers, hPd.version⟩
  · have hemit := emit_eq true cfg hc r hwf ht hPd
    simp only [if_true] at hemit
    have htgt := hwf.2.2.1
    rw [ht] at htgt
    have tf := targetFacts htgt
    have hhost : host ≠ [] := by
      simp only [targetOk, Bool.and_eq_true, Bool.not_eq_true'] at htgt
      simpa using htgt.1.1.1
    have hproxy : isProxyRequest P = true := by
      unfold isProxyRequest
      rw [hPd.version, hPd.url, hPd.host]
      rcases hwf.2.2.2.1 with hv | hv <;> simp [hv]
    have hutf : Px.Url.utf8Valid host = true := Px.UrlL.utf8Valid_ascii host tf.hostAscii
    have hhe : host.isEmpty = false := by simpa using hhost
    unfold emitFirst
    simp only [hproxy, hPd.tunnel, hPd.host, Option.getD_some, hhe, hutf, Bool.not_true, Bool.false_eq_true,
      if_false, hemit]
  · have hemit := emit_eq false cfg hc r hwf ht hPd
    simp only [Bool.false_eq_true, if_false] at hemit
    exact hemit

/-! ### a request delivered in writes of its own -/

theorem feedUntilComplete_rest_mem {pc : Px.Parser.Cfg} {p P : Parser} {segs rest : List Bytes}
    (h : feedUntilComplete pc p segs = .ok (P, rest)) : ∀ s ∈ rest, s ∈ segs := by
  induction segs generalizing p with
  | nil => simp only [feedUntilComplete, Except.ok.injEq, Prod.mk.injEq] at h; rw [← h.2]; simp
  | cons x xs ih =>
    unfold feedUntilComplete at h
    split at h
    · simp at h
    · split at h
      · simp only [Except.ok.injEq, Prod.mk.injEq] at h
        rw [← h.2]; intro s hs; exact List.mem_cons_of_mem _ hs
      · intro s hs; exact List.mem_cons_of_mem _ (ih h s hs)

theorem flatten_nil_of_nonempty {l : List Bytes} (hn : ∀ s ∈ l, s ≠ []) (hf : l.flatten = []) : l = [] := by
  cases l with
  | nil => rfl
  | cons a rest =>
    simp only [List.flatten_cons, List.append_eq_nil_iff] at hf
    exact absurd hf.1 (hn a (by simp))

theorem buffer_none_eta {P : Parser} (hb : P.buffer = none) : ({ P with buffer := none } : Parser) = P := by
  cases P; simp_all

/-- emissions of a run: nothing until the last write, then `out` -/
def quietThen (n : Nat) (out : List Emit) : List (List Emit) := List.replicate (n - 1) [] ++ [out]

/-- the write that completes a follow-up request with nothing left over -/
theorem laterLoop_complete (cfg : Cfg) (f : Nat) (pp : Option Parser) {s : Bytes} (acc : List Emit) (hs : s ≠ [])
    {P : Parser} {out : Bytes} (hps : parse pcfg (pp.getD (init .request)) s = .ok P)
    (hPc : P.state = .complete) (hPb : P.buffer = none) (hout : emitLater cfg P = .ok out) :
    laterLoop cfg (f + 1) pp s acc =
      some (acc ++ [.built out], if isUpgrade (treatLater cfg P) then .relay else .later none) := by
  have hse : s.isEmpty = false := by simpa using hs
  have hcb : (P.state == PState.complete) = true := by simp [hPc]
  rw [laterLoop]
  simp only [hse, Bool.false_eq_true, if_false, hps, hcb, if_true, hPb, Option.getD_none]
  rw [buffer_none_eta hPb, hout]
  simp only [List.isEmpty_nil, if_true, List.append_nil]
  by_cases hu : isUpgrade (treatLater cfg P) = true
  · simp [hu]
  · simp only [hu, Bool.false_eq_true, if_false]
    cases f <;> simp [laterLoop]

theorem later_bridge (cfg : Cfg) {P : Parser} {out : Bytes} (hPc : P.state = .complete) (hPb : P.buffer = none)
    (hout : emitLater cfg P = .ok out) (segs : List Bytes) (hne : ∀ s ∈ segs, s ≠ [])
    (pp : Option Parser) (hpp : (pp.getD (init .request)).state ≠ .complete)
    (hfeed : feedUntilComplete pcfg (pp.getD (init .request)) segs = .ok (P, [])) :
    Conn.feed cfg (.later pp) segs =
      (quietThen segs.length [.built out],
        if isUpgrade (treatLater cfg P) then .relay else .later none) := by
  induction segs generalizing pp with
  | nil =>
    simp only [feedUntilComplete, Except.ok.injEq, Prod.mk.injEq] at hfeed
    exact absurd (hfeed.1 ▸ hPc) hpp
  | cons s rest ih =>
    have hs : s ≠ [] := hne s (by simp)
    have hse : s.isEmpty = false := by simpa using hs
    unfold feedUntilComplete at hfeed
    cases hps : parse pcfg (pp.getD (init .request)) s with
    | error e => simp [hps] at hfeed
    | ok p' =>
      simp only [hps] at hfeed
      have hfuel : ∃ f, ((pp.getD (init .request)).buffer.getD []).length + s.length + 1 = f + 1 := ⟨_, rfl⟩
      obtain ⟨f, hf⟩ := hfuel
      by_cases hc : p'.state = .complete
      · simp only [hc, beq_self_eq_true, if_true, Except.ok.injEq, Prod.mk.injEq] at hfeed
        obtain ⟨rfl, rfl⟩ := hfeed
        simp only [Conn.feed, Conn.step, laterWrite, hf,
          laterLoop_complete cfg f pp [] hs hps hPc hPb hout, Option.getD_some, List.nil_append]
        simp [quietThen]
      · have hcb : (p'.state == PState.complete) = false := by simpa using hc
        simp only [hcb, Bool.false_eq_true, if_false] at hfeed
        have ih' := ih (fun x hx => hne x (List.mem_cons_of_mem _ hx)) (some p') (by simpa using hc) (by simpa using hfeed)
        have hrest : rest ≠ [] := by
          intro hr
          rw [hr] at hfeed
          simp only [feedUntilComplete, Except.ok.injEq, Prod.mk.injEq] at hfeed
          exact hc (hfeed.1 ▸ hPc)
        simp only [Conn.feed, Conn.step, laterWrite, hf, laterLoop, hse, Bool.false_eq_true, if_false, hps, hcb,
          Option.getD_some, ih']
        obtain ⟨a, t, rfl⟩ := List.exists_cons_of_ne_nil hrest
        simp [quietThen, List.replicate_succ]

theorem first_bridge (cfg : Cfg) {P : Parser} {out : Bytes} (hPc : P.state = .complete) (hPb : P.buffer = none)
    (hout : emitFirst cfg P = .ok out) (segs : List Bytes) (p : Parser) (hp : p.state ≠ .complete)
    (hfeed : feedUntilComplete pcfg p segs = .ok (P, [])) :
    Conn.feed cfg (.first p) segs = (quietThen segs.length [.built out], .later none) := by
  induction segs generalizing p with
  | nil =>
    simp only [feedUntilComplete, Except.ok.injEq, Prod.mk.injEq] at hfeed
    exact absurd (hfeed.1 ▸ hPc) hp
  | cons s rest ih =>
    unfold feedUntilComplete at hfeed
    cases hps : parse pcfg p s with
    | error e => simp [hps] at hfeed
    | ok p' =>
      simp only [hps] at hfeed
      by_cases hc : p'.state = .complete
      · simp only [hc, beq_self_eq_true, if_true, Except.ok.injEq, Prod.mk.injEq] at hfeed
        obtain ⟨rfl, rfl⟩ := hfeed
        have hcn : (p'.state != PState.complete) = false := by simp [hc]
        simp [Conn.feed, Conn.step, firstWrite, hps, hcn, hPb, hout, laterWrite, laterLoop, init, quietThen]
      · have hcb : (p'.state == PState.complete) = false := by simpa using hc
        have hcn : (p'.state != PState.complete) = true := by simp [hc]
        simp only [hcb, Bool.false_eq_true, if_false] at hfeed
        have ih' := ih p' hc hfeed
        have hrest : rest ≠ [] := by
          intro hr
          rw [hr] at hfeed
          simp only [feedUntilComplete, Except.ok.injEq, Prod.mk.injEq] at hfeed
          exact hc (hfeed.1 ▸ hPc)
        simp only [Conn.feed, Conn.step, firstWrite, hps, hcn, if_true, Option.getD_some, ih']
        obtain ⟨a, t, rfl⟩ := List.exists_cons_of_ne_nil hrest
        simp [quietThen, List.replicate_succ]

/-! ### every input: what is re-serialised carries no proxy-only field -/

/-- a re-serialised request: `line CRLF (name ": " value CRLF)* CRLF payload` with no field named
    Proxy-Authorization / Proxy-Connection in any casing; relayed client bytes are not judged -/
def Clean (cfg : Cfg) : Emit → Prop
  | .built out => ∃ line hd payload, out = line ++ CRLF ++ (renderDict hd ++ CRLF ++ payload) ∧
      ∀ e ∈ hd, lower e.1 ≠ lower cfg.proxyAuthorization ∧ lower e.1 ≠ lower cfg.proxyConnection
  | .raw _ => True

/-- the header-map invariant of the parser a connection state holds -/
def Conn.Inv : Conn → Prop
  | .first p => PInv p
  | .later (some p) => PInv p
  | _ => True

theorem built_clean (first : Bool) (cfg : Cfg) (hc : CfgOk cfg) {p : Parser} (hi : PInv p) {out : Bytes}
    (hb : buildFor cfg (if first then treatFirst cfg p else treatLater cfg p) = .ok out) :
    Clean cfg (.built out) := by
  obtain ⟨body, _, _, hout⟩ := buildFor_ok hb
  exact ⟨_, _, _, hout, finalDict_no_credentials first cfg hc hi body⟩

theorem laterLoop_clean (cfg : Cfg) (hc : CfgOk cfg) (fuel : Nat) :
    ∀ (pp : Option Parser) (raw : Bytes) (acc es : List Emit) (c : Conn),
      (∀ e ∈ acc, Clean cfg e) → (∀ p, pp = some p → PInv p) →
      laterLoop cfg fuel pp raw acc = some (es, c) → (∀ e ∈ es, Clean cfg e) ∧ c.Inv := by
  induction fuel with
  | zero =>
    intro pp raw acc es c hacc hpp h
    simp only [laterLoop, Option.some.injEq, Prod.mk.injEq] at h
    obtain ⟨rfl, rfl⟩ := h
    refine ⟨hacc, ?_⟩
    cases pp with
    | none => trivial
    | some p => exact hpp p rfl
  | succ fuel ih =>
    intro pp raw acc es c hacc hpp h
    have hinv0 : PInv (pp.getD (init .request)) := by
      cases pp with
      | none => exact pinv_init _
      | some p => exact hpp p rfl
    have hlater : Conn.Inv (.later pp) := by
      cases pp with
      | none => trivial
      | some p => exact hpp p rfl
    rw [laterLoop] at h
    split at h
    · simp only [Option.some.injEq, Prod.mk.injEq] at h
      obtain ⟨rfl, rfl⟩ := h
      exact ⟨hacc, hlater⟩
    · split at h
      · simp at h
      · rename_i p' hps
        have hp' : PInv p' := parse_pinv hps hinv0
        split at h
        · have hp'' : PInv ({ p' with buffer := none } : Parser) := hp'
          simp only [] at h
          split at h
          · simp at h
          · rename_i out hout
            have hcl : Clean cfg (.built out) := built_clean false cfg hc hp'' (by simpa [emitLater] using hout)
            have hacc' : ∀ e ∈ acc ++ [Emit.built out], Clean cfg e := by
              intro e he
              simp only [List.mem_append, List.mem_singleton] at he
              rcases he with he | rfl
              · exact hacc e he
              · exact hcl
            split at h
            · simp only [Option.some.injEq, Prod.mk.injEq] at h
              obtain ⟨rfl, rfl⟩ := h
              refine ⟨?_, trivial⟩
              intro e he
              simp only [List.mem_append] at he
              rcases he with he | he
              · exact hacc' e (by simpa using he)
              · split at he
                · simp at he
                · simp only [List.mem_singleton] at he; subst he; trivial
            · exact ih none _ _ es c hacc' (by intro p hp; cases hp) h
        · simp only [Option.some.injEq, Prod.mk.injEq] at h
          obtain ⟨rfl, rfl⟩ := h
          exact ⟨hacc, hp'⟩

theorem step_clean (cfg : Cfg) (hc : CfgOk cfg) (c : Conn) (raw : Bytes) (hi : c.Inv) :
    (∀ e ∈ (Conn.step cfg c raw).1, Clean cfg e) ∧ (Conn.step cfg c raw).2.Inv := by
  cases c with
  | dead => exact ⟨by simp [Conn.step], trivial⟩
  | relay => exact ⟨by simp [Conn.step, Clean], trivial⟩
  | later pp =>
    simp only [Conn.step]
    cases h : laterWrite cfg pp raw [] with
    | none => exact ⟨by simp, trivial⟩
    | some r =>
      obtain ⟨es, c'⟩ := r
      have hpp : ∀ p, pp = some p → PInv p := by
        intro p hp; subst hp; exact hi
      exact laterLoop_clean cfg hc _ pp raw [] es c' (by simp) hpp h
  | first p =>
    simp only [Conn.step]
    cases h : firstWrite cfg p raw with
    | none => exact ⟨by simp, trivial⟩
    | some r =>
      obtain ⟨es, c'⟩ := r
      simp only [Option.getD_some]
      unfold firstWrite at h
      split at h
      · simp at h
      · rename_i p' hps
        have hp' : PInv p' := parse_pinv hps hi
        split at h
        · simp only [Option.some.injEq, Prod.mk.injEq] at h
          obtain ⟨rfl, rfl⟩ := h
          exact ⟨by simp, hp'⟩
        · simp only [] at h
          split at h
          · simp only [Option.some.injEq, Prod.mk.injEq] at h
            obtain ⟨rfl, rfl⟩ := h
            refine ⟨?_, trivial⟩
            intro e he
            split at he
            · simp at he
            · simp only [List.mem_singleton] at he; subst he; trivial
          · simp at h
          · rename_i out hout
            have hb : buildFor cfg (treatFirst cfg p') = .ok out := by
              unfold emitFirst at hout
              split at hout
              · simp at hout
              · split at hout
                · simp at hout
                · split at hout
                  · simp at hout
                  · split at hout
                    · simp at hout
                    · exact hout
            have hcl : Clean cfg (.built out) := built_clean true cfg hc hp' (by simpa using hb)
            exact laterLoop_clean cfg hc _ none _ [.built out] es c'
              (by intro e he; simp only [List.mem_singleton] at he; subst he; exact hcl)
              (by intro p hp; cases hp) h

theorem feed_clean (cfg : Cfg) (hc : CfgOk cfg) (writes : List Bytes) (c : Conn) (hi : c.Inv) :
    ∀ es ∈ (Conn.feed cfg c writes).1, ∀ e ∈ es, Clean cfg e := by
  induction writes generalizing c with
  | nil => simp [Conn.feed]
  | cons x xs ih =>
    obtain ⟨h1, h2⟩ := step_clean cfg hc c x hi
    intro es hes
    simp only [Conn.feed, List.mem_cons] at hes
    rcases hes with rfl | hes
    · exact h1
    · exact ih _ h2 es hes

end Px.Forward
