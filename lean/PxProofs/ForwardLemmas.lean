import PxModel.ReqSpec
import PxProofs.BytesLemmas
import PxProofs.HexLemmas
/-!
# C02 helper lemmas, part 1: byte classes, the header map, header treatment, `build`

Pure list reasoning over `Parser.Headers` (Python dict lower-key ↦ (name, value)),
`Build.rebuildHeaders` (the dict comprehension of `HttpParser.build`) and the
header treatment of `HttpProxyPlugin` (`stripProxyHeaders`, `treatFirst`, `treatLater`).
-/
namespace Px.Forward

open Px.Parser Px.Build

/-! ### byte classes (finite tables over the 256 byte values) -/

theorem forall_u8 (P : UInt8 → Prop) (h : ∀ n : Fin 256, P (UInt8.ofNat n.val)) : ∀ c, P c := by
  intro c
  have := h ⟨c.toNat, c.toNat_lt⟩
  simpa using this

theorem tchar_facts : ∀ c : UInt8, isTchar c = true →
    isWs c = false ∧ c ≠ COLON ∧ c ≠ SP ∧ c ≠ LF ∧ c ≠ CR :=
  forall_u8 _ (by decide +kernel)

theorem ows_facts : ∀ c : UInt8, isOws c = true → isWs c = true ∧ c ≠ LF ∧ c ≠ CR :=
  forall_u8 _ (by decide +kernel)

theorem fieldByte_facts : ∀ c : UInt8, isFieldByte c = true →
    c ≠ LF ∧ c ≠ CR ∧ (isOws c = false → isWs c = false) :=
  forall_u8 _ (by decide +kernel)

theorem targetByte_facts : ∀ c : UInt8, isTargetByte c = true → c ≠ SP ∧ c ≠ LF ∧ c ≠ CR :=
  forall_u8 _ (by decide +kernel)

theorem hostByte_facts : ∀ c : UInt8, isHostByte c = true →
    isTargetByte c = true ∧ c ≠ COLON ∧ c ≠ Px.Url.AT ∧ c ≠ SLASH ∧ c.toNat < 128 :=
  forall_u8 _ (by decide +kernel)

theorem digit_facts : ∀ c : UInt8, isDigit c = true →
    isTargetByte c = true ∧ c ≠ COLON ∧ c ≠ Px.Url.AT ∧ c ≠ SLASH ∧ isHexDigit c = true :=
  forall_u8 _ (by decide +kernel)

theorem hexDigit_facts : ∀ c : UInt8, isHexDigit c = true → c ≠ 59 ∧ c ≠ LF ∧ c ≠ CR :=
  forall_u8 _ (by decide +kernel)

/-! ### literals -/

theorem lower_viaName : lower viaName = viaLower := by decide
theorem lower_viaLower : lower viaLower = viaLower := by decide
theorem b_eval' (s : String) : b s = s.toByteArray.data.toList := by
  unfold b; rw [byteArray_toList_eq]; rfl

def nCL : Bytes := [67, 111, 110, 116, 101, 110, 116, 45, 76, 101, 110, 103, 116, 104]

theorem b_Content_Length' : b "Content-Length" = nCL := by rw [b_eval']; rfl
theorem b_content_length' : b "content-length" = clName := by rw [b_eval']; rfl
theorem b_transfer_encoding' : b "transfer-encoding" = teName := by rw [b_eval']; rfl
theorem b_chunked' : b "chunked" = chunkedTok := by rw [b_eval']; rfl
theorem lower_nCL : lower nCL = clName := by decide
theorem lower_clName : lower clName = clName := by decide
theorem lower_teName : lower teName = teName := by decide
theorem viaLower_ne_cl : viaLower ≠ clName := by decide
theorem viaLower_ne_te : viaLower ≠ teName := by decide
theorem cl_ne_te : clName ≠ teName := by decide

theorem dSet_of_not_mem (h : HDict) (k v : Bytes) (hk : ∀ e ∈ h, e.1 ≠ k) : dSet h k v = h ++ [(k, v)] := by
  unfold dSet
  have : h.any (·.1 == k) = false := by
    rw [List.any_eq_false]; intro e he; simpa using hk e he
  simp [this]

/-! ### the header map -/

/-- every key is the lower-cased original name (what `add_header` maintains) -/
def KeyInv (h : Headers) : Prop := ∀ e ∈ h, e.1 = lower e.2.1

/-- the parser's header map invariant: distinct keys, each the lower-cased name -/
def HdrInv (h : Headers) : Prop := (h.map (·.1)).Nodup ∧ KeyInv h

theorem hdrSet_of_not_mem (h : Headers) (k : Bytes) (v : Bytes × Bytes) (hk : ∀ e ∈ h, e.1 ≠ k) :
    hdrSet h k v = h ++ [(k, v)] := by
  unfold hdrSet
  have : h.any (·.1 == k) = false := by
    rw [List.any_eq_false]; intro e he; simpa using hk e he
  simp [this]

theorem hdrSet_of_mem (h : Headers) (k : Bytes) (v : Bytes × Bytes) (hk : ∃ e ∈ h, e.1 = k) :
    hdrSet h k v = h.map (fun e => if e.1 == k then (k, v) else e) := by
  unfold hdrSet
  have : h.any (·.1 == k) = true := by
    obtain ⟨e, he, hek⟩ := hk
    exact List.any_eq_true.2 ⟨e, he, by simp [hek]⟩
  simp [this]

theorem keyInv_hdrSet {h : Headers} (hk : KeyInv h) (key value : Bytes) :
    KeyInv (hdrSet h (lower key) (key, value)) := by
  unfold hdrSet
  split
  · intro e he
    simp only [List.mem_map] at he
    obtain ⟨a, ha, rfl⟩ := he
    split
    · rfl
    · exact hk a ha
  · intro e he
    simp only [List.mem_append, List.mem_singleton] at he
    rcases he with he | rfl
    · exact hk e he
    · rfl

theorem keyInv_hdrDel {h : Headers} (hk : KeyInv h) (k : Bytes) : KeyInv (hdrDel h k) := by
  intro e he
  exact hk e (List.mem_filter.1 he).1

theorem keys_hdrSet_mem (h : Headers) (k : Bytes) (v : Bytes × Bytes) (hk : ∃ e ∈ h, e.1 = k) :
    (hdrSet h k v).map (·.1) = h.map (·.1) := by
  rw [hdrSet_of_mem h k v hk, List.map_map]
  apply List.map_congr_left
  intro e _
  simp only [Function.comp]
  split
  · rename_i he; have : e.1 = k := by simpa using he
    exact this.symm
  · rfl

theorem hdrInv_hdrSet {h : Headers} (hi : HdrInv h) (key value : Bytes) :
    HdrInv (hdrSet h (lower key) (key, value)) := by
  refine ⟨?_, keyInv_hdrSet hi.2 key value⟩
  by_cases hk : ∃ e ∈ h, e.1 = lower key
  · rw [keys_hdrSet_mem h _ _ hk]; exact hi.1
  · have hk' : ∀ e ∈ h, e.1 ≠ lower key := fun e he hek => hk ⟨e, he, hek⟩
    rw [hdrSet_of_not_mem h _ _ hk', List.map_append]
    refine List.nodup_append.2 ⟨hi.1, by simp, ?_⟩
    intro a ha b hb
    simp only [List.map_cons, List.map_nil, List.mem_singleton] at hb
    subst hb
    simp only [List.mem_map] at ha
    obtain ⟨e, he, rfl⟩ := ha
    exact hk' e he

theorem hdrInv_hdrDel {h : Headers} (hi : HdrInv h) (k : Bytes) : HdrInv (hdrDel h k) := by
  refine ⟨?_, keyInv_hdrDel hi.2 k⟩
  unfold hdrDel
  exact (List.filter_sublist.map _).nodup hi.1

theorem hdrInv_nil : HdrInv [] := ⟨by simp, fun _ h => by simp at h⟩

/-- distinct keys + keys are lower-cased names ⇒ distinct original names -/
theorem names_ne_of_inv {h : Headers} (hi : HdrInv h) {e e' : Bytes × (Bytes × Bytes)}
    (he : e ∈ h) (he' : e' ∈ h) (hne : e.1 ≠ e'.1) : e.2.1 ≠ e'.2.1 := by
  intro heq
  apply hne
  rw [hi.2 e he, hi.2 e' he', heq]

/-- the dict comprehension of `HttpParser.build` on a map with the parser's invariant:
    the entries whose key is not disabled, in order, names and values as stored -/
theorem rebuildHeaders_eq (h : Headers) (dis : List Bytes) (hi : HdrInv h) :
    rebuildHeaders h dis none = (h.filter (fun e => !dis.contains e.1)).map (·.2) := by
  unfold rebuildHeaders
  suffices H : ∀ (acc : HDict), (∀ e ∈ h, ∀ a ∈ acc, a.1 ≠ e.2.1) →
      h.foldl (fun acc (x : Bytes × (Bytes × Bytes)) =>
        if dis.contains (lower x.1) then acc
        else dSet acc x.2.1 (match (none : Option Bytes) with
          | some hv => if lower x.2.1 == b "host" then hv else x.2.2
          | none => x.2.2)) acc =
      acc ++ (h.filter (fun e => !dis.contains e.1)).map (·.2) by
    have := H [] (by simp)
    simpa using this
  induction h with
  | nil => intro acc _; simp
  | cons e rest ih =>
    intro acc hacc
    have hi' : HdrInv rest := ⟨(List.nodup_cons.1 hi.1).2, fun x hx => hi.2 x (List.mem_cons_of_mem _ hx)⟩
    have hkey : lower e.1 = e.1 := by rw [hi.2 e (by simp), lower_idem]
    simp only [List.foldl_cons, hkey]
    by_cases hd : dis.contains e.1 = true
    · simp only [hd, if_true, List.filter_cons, Bool.not_true, Bool.false_eq_true, if_false]
      exact ih hi' acc (fun x hx a ha => hacc x (List.mem_cons_of_mem _ hx) a ha)
    · simp only [hd, Bool.false_eq_true, if_false, List.filter_cons, Bool.not_false, if_true,
        List.map_cons]
      have hds : dSet acc e.2.1 e.2.2 = acc ++ [(e.2.1, e.2.2)] :=
        dSet_of_not_mem acc _ _ (fun a ha => hacc e (by simp) a ha)
      rw [hds, ih hi' (acc ++ [(e.2.1, e.2.2)])]
      · simp
      · intro x hx a ha
        simp only [List.mem_append, List.mem_singleton] at ha
        rcases ha with ha | rfl
        · exact hacc x (List.mem_cons_of_mem _ hx) a ha
        · have hne : e.1 ≠ x.1 := by
            intro heq
            have := (List.nodup_cons.1 hi.1).1
            apply this
            show e.1 ∈ List.map (fun x => x.fst) rest
            rw [heq]
            exact List.mem_map_of_mem (f := (·.1)) hx
          exact names_ne_of_inv hi (by simp) (List.mem_cons_of_mem _ hx) hne

end Px.Forward

namespace Px.Forward
open Px.Parser Px.Build

/-! ### the header treatment of `HttpProxyPlugin` on the header map -/

/-- the header dict `HttpParser.build` hands to `build_http_request` -/
def headerDict (p : Parser) (dis : List Bytes) : HDict :=
  match p.headers with
  | some h => if h.isEmpty then [] else rebuildHeaders h dis none
  | none => []

/-- `del_headers([PROXY_AUTHORIZATION, PROXY_CONNECTION])` on the map -/
def keptEntries (cfg : Cfg) (h : Headers) : Headers :=
  hdrDel (hdrDel h (lower cfg.proxyAuthorization)) (lower cfg.proxyConnection)

/-- the Via treatment of `on_request_complete` on the map: the proxy's entry is appended to the
    value of an existing `via` entry (which is re-spelled `Via` and keeps its position), else a
    new entry is added at the end -/
def withVia (cfg : Cfg) (k : Headers) : Headers :=
  hdrSet k viaLower (viaName, match hdrGet k viaLower with
    | some v => v.2 ++ commaSp ++ viaValue cfg
    | none => viaValue cfg)

theorem stripProxyHeaders_eq (cfg : Cfg) (p : Parser) :
    stripProxyHeaders cfg p = { p with headers := p.headers.map (keptEntries cfg) } := by
  obtain ⟨ty, state, host, port, path, method, code, reason, version, totalSize, buffer, headers, body,
    chunk, url, isChunked, contentExpected, isTunnel⟩ := p
  cases headers with
  | none => rfl
  | some h =>
    cases h with
    | nil => rfl
    | cons e rest =>
      simp only [stripProxyHeaders, keptEntries, delHeader, List.isEmpty_cons, Bool.false_eq_true,
        if_false, lower_idem, Option.map_some]
      cases hd : hdrDel (e :: rest) (lower cfg.proxyAuthorization) with
      | nil => simp [hdrDel]
      | cons a r => simp

theorem any_key_iff_hdrGet (h : Headers) (k : Bytes) : h.any (·.1 == k) = (hdrGet h k).isSome := by
  unfold hdrGet
  induction h with
  | nil => rfl
  | cons e rest ih =>
    by_cases hek : (e.1 == k) = true
    · simp [List.find?, hek]
    · simp only [Bool.not_eq_true] at hek
      simp [List.find?, hek, ih]

theorem treatFirst_eq (cfg : Cfg) (p : Parser) :
    treatFirst cfg p =
      { p with headers := some (withVia cfg ((p.headers.map (keptEntries cfg)).getD [])) } := by
  unfold treatFirst addHeader viaFor hasHeader header withVia
  rw [stripProxyHeaders_eq]
  simp only [lower_viaName]
  rcases hh : p.headers with _ | h
  · simp [hdrGet]
  · simp only [Option.map_some, Option.getD_some, any_key_iff_hdrGet]
    cases hg : hdrGet (keptEntries cfg h) viaLower with
    | none => simp
    | some v => simp

theorem treatLater_eq (cfg : Cfg) (p : Parser) :
    treatLater cfg p = { p with headers := p.headers.map (keptEntries cfg) } :=
  stripProxyHeaders_eq cfg p

theorem hdrInv_keptEntries (cfg : Cfg) {h : Headers} (hi : HdrInv h) : HdrInv (keptEntries cfg h) :=
  hdrInv_hdrDel (hdrInv_hdrDel hi _) _

theorem hdrInv_withVia (cfg : Cfg) {k : Headers} (hi : HdrInv k) : HdrInv (withVia cfg k) := by
  unfold withVia
  rw [← lower_viaName]
  exact hdrInv_hdrSet hi _ _

theorem withVia_ne_nil (cfg : Cfg) (k : Headers) : withVia cfg k ≠ [] := by
  unfold withVia hdrSet
  split
  · rename_i ha
    obtain ⟨e, he, _⟩ := List.any_eq_true.1 ha
    intro hn
    have := List.map_eq_nil_iff.1 hn
    rw [this] at he; simp at he
  · simp

/-- no `via` entry: the proxy's Via is added at the end -/
theorem withVia_absent (cfg : Cfg) (k : Headers) (hk : ∀ e ∈ k, e.1 ≠ viaLower) :
    withVia cfg k = k ++ [(viaLower, (viaName, viaValue cfg))] := by
  unfold withVia
  have hg : hdrGet k viaLower = none := by
    have := any_key_iff_hdrGet k viaLower
    have ha : k.any (·.1 == viaLower) = false := by
      rw [List.any_eq_false]; intro e he; simpa using hk e he
    rw [ha] at this
    cases hg : hdrGet k viaLower with
    | none => rfl
    | some v => rw [hg] at this; simp at this
  rw [hg, hdrSet_of_not_mem k _ _ hk]

theorem hdrGet_of_mem {k : Headers} (hn : (k.map (·.1)).Nodup) {e : Bytes × (Bytes × Bytes)} (he : e ∈ k) :
    hdrGet k e.1 = some e.2 := by
  unfold hdrGet
  induction k with
  | nil => simp at he
  | cons a rest ih =>
    simp only [List.mem_cons] at he
    rcases he with rfl | he
    · simp [List.find?]
    · have hne : a.1 ≠ e.1 := by
        intro heq
        have := (List.nodup_cons.1 hn).1
        apply this
        show a.1 ∈ List.map (fun x => x.fst) rest
        rw [heq]; exact List.mem_map_of_mem (f := (·.1)) he
      have : (a.1 == e.1) = false := by simpa using hne
      simp only [List.find?, this]
      exact ih (List.nodup_cons.1 hn).2 he

/-- a `via` entry with value `v`: it becomes `Via: v, 1.1 <agent>` in place, everything else is untouched -/
theorem withVia_present (cfg : Cfg) (k : Headers) (hn : (k.map (·.1)).Nodup)
    {e : Bytes × (Bytes × Bytes)} (he : e ∈ k) (hv : e.1 = viaLower) :
    withVia cfg k = k.map (fun x => if x.1 == viaLower then
      (viaLower, (viaName, e.2.2 ++ commaSp ++ viaValue cfg)) else x) := by
  unfold withVia
  have hg := hdrGet_of_mem hn he
  rw [hv] at hg
  rw [hg, hdrSet_of_mem k _ _ ⟨e, he, hv⟩]

/-- the parser-state invariant on the header map (`none` counts as the empty map) -/
def PInv (p : Parser) : Prop := HdrInv (p.headers.getD [])

theorem headerDict_of_inv (p : Parser) (dis : List Bytes) (hi : PInv p) :
    headerDict p dis = ((p.headers.getD []).filter (fun e => !dis.contains e.1)).map (·.2) := by
  unfold headerDict PInv at *
  rcases hh : p.headers with _ | h
  · simp
  · rw [hh] at hi
    cases h with
    | nil => simp
    | cons e rest =>
      simp only [List.isEmpty_cons, Bool.false_eq_true, if_false, Option.getD_some]
      exact rebuildHeaders_eq _ dis hi

end Px.Forward
