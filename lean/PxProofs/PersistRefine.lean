import PxProofs.PersistLemmas
/-!
# C04 helper lemmas, part 2: benign tick schedules refine the segment-level run

`segRun` folds the application step `appOf` over the client's segments alone.
`frun_refines`: for every benign tick schedule, the connection-level run ends in
the phase, upstream byte stream and connect log that `segRun` computes on the
segments the client socket delivered (`clientSegs`), is not torn down, and keeps
the C01 downstream invariant.
-/
namespace Px.Persist
open Px Px.Relay Px.Conn Px.Parser

/-- the application step ran normally and stayed on the plain-HTTP path -/
def smooth (a : AppRes) : Bool :=
  (match a.app with | .ok none none false => true | _ => false) &&
  (match a.kind with | none => true | some k => k == .http)

/-- bytes the step queued for the upstream -/
def items (a : AppRes) : Bytes := a.ups.flatten

def conns (a : AppRes) : List Connect.Addr := match a.conn with | some x => [x] | none => []

/-- the segments `handle_data` is given, in order -/
def clientSegs (ticks : List Tick) : List Bytes :=
  ticks.filterMap (fun t => if t.cR then segOf t.cRecv else none)

/-- the application steps alone, over the client's segments: final phase, bytes queued for the
    upstream, connect attempts — `none` as soon as a step is not `smooth` -/
def segRun (cfg : Forward.Cfg) (ok : Bool) : Phase → List Bytes → Option (Phase × Bytes × List Connect.Addr)
  | ph, [] => some (ph, [], [])
  | ph, x :: xs =>
    if smooth (appOf cfg ok ph x) then
      (segRun cfg ok (appOf cfg ok ph x).phase xs).map
        (fun r => (r.1, items (appOf cfg ok ph x) ++ r.2.1, conns (appOf cfg ok ph x) ++ r.2.2))
    else none

theorem segRun_append (cfg : Forward.Cfg) (ok : Bool) (ph : Phase) (a b : List Bytes) :
    segRun cfg ok ph (a ++ b) =
      (segRun cfg ok ph a).bind (fun r => (segRun cfg ok r.1 b).map (fun q => (q.1, r.2.1 ++ q.2.1, r.2.2 ++ q.2.2))) := by
  induction a generalizing ph with
  | nil =>
    simp only [List.nil_append, segRun, Option.bind_some, List.nil_append]
    cases segRun cfg ok ph b <;> simp
  | cons x xs ih =>
    simp only [List.cons_append, segRun]
    split
    · rw [ih]
      cases segRun cfg ok (appOf cfg ok ph x).phase xs with
      | none => simp
      | some r =>
        simp only [Option.map_some, Option.bind_some]
        cases segRun cfg ok r.1 b with
        | none => simp
        | some q => simp [List.append_assoc]
    · simp

/-- phase and relay state agree -/
def PhaseOk (s : FSt) : Prop :=
  (∃ p, s.phase = .first p ∧ s.rs.kind = .local) ∨
  (∃ req pipe, s.phase = .http req pipe ∧ s.rs.kind = .http)

theorem smooth_app {a : AppRes} (h : smooth a = true) : a.app = .ok none none false := by
  unfold smooth at h
  cases ha : a.app with
  | raised => simp [ha] at h
  | ok u cl close =>
    cases u <;> cases cl <;> cases close <;> simp [ha] at h
    rfl

/-- a smooth application step keeps phase and exchange kind in agreement -/
theorem appOf_phaseKind (cfg : Forward.Cfg) (ok : Bool) (ph : Phase) (k : Kind) (raw : Bytes)
    (hp : (∃ p, ph = .first p ∧ k = .local) ∨ (∃ req pipe, ph = .http req pipe ∧ k = .http))
    (hs : smooth (appOf cfg ok ph raw) = true) :
    (∃ p, (appOf cfg ok ph raw).phase = .first p ∧ (appOf cfg ok ph raw).kind.getD k = .local) ∨
    (∃ req pipe, (appOf cfg ok ph raw).phase = .http req pipe ∧ (appOf cfg ok ph raw).kind.getD k = .http) := by
  rcases hp with ⟨p, rfl, rfl⟩ | ⟨req, pipe, rfl, rfl⟩
  · unfold appOf at hs ⊢
    simp only at hs ⊢
    cases hp : parse Forward.pcfg p raw with
    | error e => simp [hp, smooth] at hs
    | ok p' =>
      simp only [hp] at hs ⊢
      by_cases hc : (p'.state != PState.complete) = true
      · simp only [hc, if_true]; exact .inl ⟨p', rfl, rfl⟩
      · simp only [hc, Bool.false_eq_true, if_false] at hs ⊢
        cases hf : firstComplete cfg ok p' with
        | established a x =>
          simp only [hf]
          cases p'.buffer with
          | none => exact .inr ⟨_, _, rfl, rfl⟩
          | some rest => exact .inr ⟨_, _, rfl, rfl⟩
        | tunnel a => simp [hf, smooth] at hs
        | reject resp a => simp [hf, smooth] at hs
        | raised => simp [hf, smooth] at hs
  · exact .inr ⟨req, _, rfl, rfl⟩

theorem PhaseOk.kind {s : FSt} (h : PhaseOk s) : s.rs.kind ≠ .tunnel := by
  rcases h with ⟨_, _, hk⟩ | ⟨_, _, _, hk⟩ <;> rw [hk] <;> decide

/-- a round that leaves phase and kind alone keeps `PhaseOk` -/
theorem PhaseOk.keep {s : FSt} (h : PhaseOk s) (rs' : St) (hk : rs'.kind = s.rs.kind) :
    PhaseOk { s with rs := rs' } := by
  rcases h with ⟨p, hph, hk'⟩ | ⟨r, q, hph, hk'⟩
  · exact .inl ⟨p, hph, by rw [hk]; exact hk'⟩
  · exact .inr ⟨r, q, hph, by rw [hk]; exact hk'⟩

theorem upAdd_none (k : Kind) : upAdd k none = [] := by unfold upAdd; split <;> rfl

/-- one executor round of the connection in a benign round -/
theorem fstep_benign (cfg : Forward.Cfg) (ok : Bool) (s : FSt) (t : Tick) (hp : PhaseOk s) (ha : Alive s.rs)
    (hb : benign t = true) (hd : D s.rs = s.rs.recvU)
    (hs : ∀ raw, t.cR = true → segOf t.cRecv = some raw → smooth (appOf cfg ok s.phase raw) = true) :
    (fstep cfg ok s t).2 = .cont ∧ PhaseOk (fstep cfg ok s t).1 ∧ Alive (fstep cfg ok s t).1.rs ∧
    D (fstep cfg ok s t).1.rs = (fstep cfg ok s t).1.rs.recvU ∧
    (fstep cfg ok s t).1.rs.maxSend = s.rs.maxSend ∧
    ((∃ raw, t.cR = true ∧ segOf t.cRecv = some raw ∧
        (fstep cfg ok s t).1.phase = (appOf cfg ok s.phase raw).phase ∧
        U (fstep cfg ok s t).1.rs = U s.rs ++ items (appOf cfg ok s.phase raw) ∧
        (fstep cfg ok s t).1.connects = s.connects ++ conns (appOf cfg ok s.phase raw)) ∨
     ((t.cR = false ∨ segOf t.cRecv = none) ∧ (fstep cfg ok s t).1.phase = s.phase ∧
        U (fstep cfg ok s t).1.rs = U s.rs ∧ (fstep cfg ok s t).1.connects = s.connects)) := by
  have hk : s.rs.kind ≠ .tunnel := hp.kind
  rcases hseg : segOf t.cRecv with _ | raw
  · -- nothing for `handle_data`
    have e : fstep cfg ok s t = ({ s with rs := (step s.rs t).1 }, (step s.rs t).2) := by
      unfold fstep fstepWith; rw [hseg]; rfl
    obtain ⟨h1, h2, h3, h4, ⟨seg, h5, h6⟩, h7⟩ := step_benign s.rs t hk ha hb none
      (fun raw _ hr => by rw [hseg] at hr; cases hr)
    have hU : U (step s.rs t).1 = U s.rs := by
      rcases h7 with ⟨raw, _, hr, _⟩ | ⟨_, _, hU⟩
      · rw [hseg] at hr; cases hr
      · exact hU
    rw [e]
    exact ⟨h1, hp.keep _ h3, h2, by show D (step s.rs t).1 = _; rw [h6, h5, hd], h4,
      .inr ⟨.inr rfl, rfl, hU, rfl⟩⟩
  · -- a segment is on offer
    obtain ⟨a, ha'⟩ : ∃ a, appOf cfg ok s.phase raw = a := ⟨_, rfl⟩
    have hbt : benign { t with app := a.app } = true := benign_app _ hb
    by_cases hcR : t.cR = true
    · have hsm : smooth a = true := by have := hs raw hcR hseg; rwa [ha'] at this
      have happ := smooth_app hsm
      obtain ⟨h1, h2, h3, h4, ⟨seg, h5, h6⟩, h7⟩ := step_benign s.rs { t with app := a.app } hk ha hbt none
        (fun _ _ _ => happ)
      obtain ⟨hne, hC, hU⟩ : raw ≠ [] ∧ (step s.rs { t with app := a.app }).1.recvC = s.rs.recvC ++ raw ∧
          U (step s.rs { t with app := a.app }).1 = U s.rs := by
        rcases h7 with ⟨raw', _, hr, hne, hC, hU⟩ | ⟨hidle, _, _⟩
        · have : segOf t.cRecv = some raw' := hr
          rw [hseg] at this
          cases this
          rw [upAdd_none] at hU
          exact ⟨hne, hC, by simpa using hU⟩
        · rcases hidle with h | h
          · rw [hcR] at h; cases h
          · have : segOf t.cRecv = none := h
            rw [hseg] at this; cases this
      have hcons : ((step s.rs { t with app := a.app }).1.recvC.length != s.rs.recvC.length &&
          !(s.rs.kind == .http && s.rs.upstream.closed)) = true := by
        rw [hC, ha.upOpen]
        simp only [List.length_append, Bool.and_false, Bool.not_false, Bool.and_true, bne_iff_ne, ne_eq]
        have : 0 < raw.length := List.length_pos_iff.mpr hne
        omega
      have e : fstep cfg ok s t =
          ({ phase := a.phase,
             rs := { (step s.rs { t with app := a.app }).1 with
                       kind := a.kind.getD (step s.rs { t with app := a.app }).1.kind,
                       upstream := { (step s.rs { t with app := a.app }).1.upstream with
                         buffer := (step s.rs { t with app := a.app }).1.upstream.buffer ++ a.ups } },
             connects := s.connects ++ conns a }, (step s.rs { t with app := a.app }).2) := by
        unfold fstep fstepWith
        rw [hseg]
        simp only [ha', if_true, hcons, Bool.not_true, Bool.false_eq_true, if_false]
        rfl
      rw [e, h1]
      have hD : D (step s.rs { t with app := a.app }).1 = (step s.rs { t with app := a.app }).1.recvU := by
        rw [h6, h5, hd]
      have hpk := appOf_phaseKind cfg ok s.phase s.rs.kind raw
        (by rcases hp with ⟨p, hph, hkl⟩ | ⟨r, q, hph, hkh⟩
            · exact .inl ⟨p, hph, hkl⟩
            · exact .inr ⟨r, q, hph, hkh⟩) (by rw [ha']; exact hsm)
      rw [ha'] at hpk
      refine ⟨rfl, ?_, ⟨h2.mustFlush, h2.readsTeared, h2.upOpen⟩, ?_, h4,
        .inl ⟨raw, hcR, rfl, by rw [ha'], ?_, by rw [ha']⟩⟩
      · rcases hpk with ⟨p, e1, e2⟩ | ⟨r, q, e1, e2⟩
        · exact .inl ⟨p, e1, by show a.kind.getD (step s.rs _).1.kind = _; rw [h3]; exact e2⟩
        · exact .inr ⟨r, q, e1, by show a.kind.getD (step s.rs _).1.kind = _; rw [h3]; exact e2⟩
      · simpa [D] using hD
      · rw [ha']
        have : U (step s.rs { t with app := a.app }).1 = U s.rs := hU
        simp only [U, items, List.flatten_append] at this ⊢
        rw [← List.append_assoc, this]
    · have hcf : t.cR = false := by simpa using hcR
      obtain ⟨h1, h2, h3, h4, ⟨seg, h5, h6⟩, h7⟩ := step_benign s.rs { t with app := a.app } hk ha hbt none
        (fun _ hc _ => by rw [hcf] at hc; cases hc)
      obtain ⟨hC, hU⟩ : (step s.rs { t with app := a.app }).1.recvC = s.rs.recvC ∧
          U (step s.rs { t with app := a.app }).1 = U s.rs := by
        rcases h7 with ⟨raw', hc, _⟩ | ⟨_, hC, hU⟩
        · rw [hcf] at hc; cases hc
        · exact ⟨hC, hU⟩
      have e : fstep cfg ok s t =
          ({ s with rs := (step s.rs { t with app := a.app }).1 }, (step s.rs { t with app := a.app }).2) := by
        unfold fstep fstepWith
        rw [hseg]
        simp only [ha', if_true, hC, bne_self_eq_false, Bool.false_and, Bool.not_false]
      rw [e]
      exact ⟨h1, hp.keep _ h3, h2, by show D (step s.rs _).1 = _; rw [h6, h5, hd], h4,
        .inr ⟨.inl hcf, rfl, hU, rfl⟩⟩

theorem frun_cons_cont (cfg : Forward.Cfg) (ok : Bool) (s : FSt) (t : Tick) (ts : List Tick)
    (h : (fstep cfg ok s t).2 = .cont) : frun cfg ok s (t :: ts) = frun cfg ok (fstep cfg ok s t).1 ts := by
  rw [frun]
  rcases hf : fstep cfg ok s t with ⟨s1, r⟩
  rw [hf] at h
  simp only at h
  subst h
  rfl

/-- what a connection-level run establishes -/
structure Refines (cfg : Forward.Cfg) (ok : Bool) (s : FSt) (ticks : List Tick) (ph : Phase) (up : Bytes)
    (cs : List Connect.Addr) : Prop where
  /-- the proxy did not tear the connection down -/
  cont : (frun cfg ok s ticks).2 = .cont
  phase : (frun cfg ok s ticks).1.phase = ph
  /-- written to the upstream ++ still queued for it -/
  up : U (frun cfg ok s ticks).1.rs = U s.rs ++ up
  connects : (frun cfg ok s ticks).1.connects = s.connects ++ cs
  alive : Alive (frun cfg ok s ticks).1.rs
  /-- C01: delivered to the client ++ still queued for it = everything read from the upstream -/
  down : D (frun cfg ok s ticks).1.rs = (frun cfg ok s ticks).1.rs.recvU
  phaseOk : PhaseOk (frun cfg ok s ticks).1

theorem Refines.cons {cfg : Forward.Cfg} {ok : Bool} {s : FSt} {t : Tick} {ts : List Tick} {ph : Phase}
    {x up : Bytes} {y cs : List Connect.Addr} (h1 : (fstep cfg ok s t).2 = .cont)
    (h : Refines cfg ok (fstep cfg ok s t).1 ts ph up cs)
    (hU : U (fstep cfg ok s t).1.rs = U s.rs ++ x) (hc : (fstep cfg ok s t).1.connects = s.connects ++ y) :
    Refines cfg ok s (t :: ts) ph (x ++ up) (y ++ cs) := by
  have e := frun_cons_cont cfg ok s t ts h1
  exact ⟨by rw [e]; exact h.cont, by rw [e]; exact h.phase, by rw [e, h.up, hU, List.append_assoc],
    by rw [e, h.connects, hc, List.append_assoc], by rw [e]; exact h.alive, by rw [e]; exact h.down,
    by rw [e]; exact h.phaseOk⟩

/-- **benign tick schedules refine the segment-level run** -/
theorem frun_refines (cfg : Forward.Cfg) (ok : Bool) (ticks : List Tick) (s : FSt) (hp : PhaseOk s)
    (ha : Alive s.rs) (hd : D s.rs = s.rs.recvU) (hb : ∀ t ∈ ticks, benign t = true)
    (ph : Phase) (up : Bytes) (cs : List Connect.Addr)
    (hseg : segRun cfg ok s.phase (clientSegs ticks) = some (ph, up, cs)) :
    Refines cfg ok s ticks ph up cs := by
  induction ticks generalizing s up cs with
  | nil =>
    simp only [clientSegs, List.filterMap_nil, segRun, Option.some.injEq, Prod.mk.injEq] at hseg
    obtain ⟨rfl, rfl, rfl⟩ := hseg
    exact ⟨rfl, rfl, by simp [frun], by simp [frun], ha, hd, hp⟩
  | cons t ts ih =>
    have hbt : benign t = true := hb t (by simp)
    have hbts : ∀ t' ∈ ts, benign t' = true := fun t' h => hb t' (by simp [h])
    by_cases hcons : ∃ raw, t.cR = true ∧ segOf t.cRecv = some raw
    · obtain ⟨raw, hcR, hr⟩ := hcons
      have hcs : clientSegs (t :: ts) = raw :: clientSegs ts := by
        simp [clientSegs, hcR, hr]
      rw [hcs, segRun] at hseg
      by_cases hsm : smooth (appOf cfg ok s.phase raw) = true
      · simp only [hsm, if_true] at hseg
        cases hrest : segRun cfg ok (appOf cfg ok s.phase raw).1 (clientSegs ts) with
        | none => simp [hrest] at hseg
        | some r =>
          obtain ⟨ph', up', cs'⟩ := r
          simp only [hrest, Option.map_some, Option.some.injEq, Prod.mk.injEq] at hseg
          obtain ⟨rfl, rfl, rfl⟩ := hseg
          obtain ⟨f1, f2, f3, f4, f5, f6⟩ := fstep_benign cfg ok s t hp ha hbt hd
            (fun raw' _ hr' => by rw [hr] at hr'; cases hr'; exact hsm)
          rcases f6 with ⟨raw', _, hr', g1, g2, g3⟩ | ⟨hidle, _⟩
          · rw [hr] at hr'; cases hr'
            have := ih (fstep cfg ok s t).1 f2 f3 f4 hbts up' cs' (by rw [g1]; exact hrest)
            exact Refines.cons f1 this g2 g3
          · rcases hidle with h | h
            · rw [hcR] at h; cases h
            · rw [hr] at h; cases h
      · simp [hsm] at hseg
    · have hcs : clientSegs (t :: ts) = clientSegs ts := by
        unfold clientSegs
        rw [List.filterMap_cons]
        by_cases hcR : t.cR = true
        · cases hr : segOf t.cRecv with
          | none => simp [hcR, hr]
          | some raw => exact absurd ⟨raw, hcR, hr⟩ hcons
        · have : t.cR = false := by simpa using hcR
          simp [this]
      rw [hcs] at hseg
      obtain ⟨f1, f2, f3, f4, f5, f6⟩ := fstep_benign cfg ok s t hp ha hbt hd
        (fun raw hc hr => absurd ⟨raw, hc, hr⟩ hcons)
      rcases f6 with ⟨raw', hc, hr', _⟩ | ⟨_, g1, g2, g3⟩
      · exact absurd ⟨raw', hc, hr'⟩ hcons
      · have := ih (fstep cfg ok s t).1 f2 f3 f4 hbts up cs (by rw [g1]; exact hseg)
        have r := Refines.cons (x := []) (y := []) f1 this (by rw [g2]; simp) (by rw [g3]; simp)
        simpa using r

/-- the fresh connection satisfies the invariants -/
theorem finit_ok (m : Nat) : PhaseOk (finit m) ∧ Alive (finit m).rs ∧ D (finit m).rs = (finit m).rs.recvU ∧
    U (finit m).rs = [] ∧ (finit m).connects = [] :=
  ⟨.inl ⟨_, rfl, rfl⟩, ⟨rfl, rfl, rfl⟩, rfl, rfl, rfl⟩

end Px.Persist
