import PxModel.Parser
import PxModel.Build
/-
  Model of what `HttpProtocolHandler` + `HttpProxyPlugin` queue to the upstream
  server for a plain-HTTP proxy request (default plugin chain: no
  HttpProxyBasePlugin, no connection pool, no TLS interception):

  * first request of a connection — proxy/http/handler.py `_parse_first_request`
    (segments are fed to `self.request` until it is complete) and
    proxy/http/proxy/server.py `on_request_complete` (`del_headers` of
    Proxy-Authorization / Proxy-Connection, `add_headers([(b'Via', via)])` with
    `via = b'1.1 ' + PROXY_AGENT_HEADER_VALUE`, appended to a client-sent Via value if present, `build(disable_headers=flags.disable_headers)`);
  * follow-up requests — `on_client_data`: a fresh `pipeline_request` parser per
    request, `del_headers`, `build(disable_headers=…)`; NO `Via` (finding D10v).
-/
namespace Px.Forward

open Px.Parser

/-- parser configuration of the implementation (generated constants) -/
def pcfg : Px.Parser.Cfg := {}

structure Cfg where
  /-- `flags.disable_headers` (lower-cased by the flag parser) -/
  disable : List Bytes := Px.Gen.defaultDisableHeaders
  /-- `DEFAULT_BUFFER_SIZE`: chunk size of `ChunkParser.to_chunks` -/
  bufSize : Nat := Px.Gen.defaultBufferSize
  /-- `PROXY_AGENT_HEADER_VALUE` -/
  agent : Bytes := Px.Gen.proxyAgentHeaderValue
  proxyAuthorization : Bytes := Px.Gen.hdrProxyAuthorization
  proxyConnection : Bytes := Px.Gen.hdrProxyConnection

inductive Err
  | parse (e : Px.Parser.Err)   -- HttpParser.parse raised (→ 400 + teardown)
  | incomplete                  -- all segments consumed, request not complete: nothing forwarded yet
  | notProxy                    -- http_handler_protocol is not HTTP_PROXY (→ 400)
  | tunnel                      -- CONNECT: a tunnel is established, no request is forwarded
  | noHost                      -- `if host and port` fails / host is not UTF-8 in connect_upstream
  | build (e : Px.Build.Err)
  deriving DecidableEq, Repr

/-- name of the field added by `on_request_complete`: `b'Via'` -/
def viaName : Bytes := [86, 105, 97]
/-- `b'1.1 %s' % PROXY_AGENT_HEADER_VALUE` -/
def viaValue (cfg : Cfg) : Bytes := [49, 46, 49, 32] ++ cfg.agent

/-- feed segments to one parser until it reports COMPLETE; the unread segments
    belong to the next request of the connection (`_parse_first_request` is no
    longer called once `self.request.is_complete`; `on_client_data` resets
    `pipeline_request` to `None` after forwarding) -/
def feedUntilComplete (pc : Px.Parser.Cfg) (p : Parser) : List Bytes → Except Px.Parser.Err (Parser × List Bytes)
  | [] => .ok (p, [])
  | x :: xs =>
    match parse pc p x with
    | .error e => .error e
    | .ok p' => if p'.state == .complete then .ok (p', xs) else feedUntilComplete pc p' xs

/-- `HttpParser.http_handler_protocol == httpProtocols.HTTP_PROXY` -/
def isProxyRequest (p : Parser) : Bool :=
  (p.version == some Px.Gen.http11 || p.version == some Px.Gen.http10) && p.url.isSome && p.host.isSome

/-- `del_headers([PROXY_AUTHORIZATION, PROXY_CONNECTION])` -/
def stripProxyHeaders (cfg : Cfg) (p : Parser) : Parser :=
  delHeader (delHeader p (lower cfg.proxyAuthorization)) (lower cfg.proxyConnection)

/-- `b', '` -/
def commaSp : Bytes := [44, 32]

/-- the Via value: appended to a Via field received from the client, if any
    (`if self.request.has_header(b'via'): via = self.request.header(b'via') + b', ' + via`) -/
def viaFor (cfg : Cfg) (p : Parser) : Bytes :=
  if hasHeader p viaName then
    match header p viaName with
    | .ok v => v ++ commaSp ++ viaValue cfg
    | .error _ => viaValue cfg        -- unreachable: guarded by has_header
  else viaValue cfg

/-- header treatment of the first request -/
def treatFirst (cfg : Cfg) (p : Parser) : Parser :=
  let p := stripProxyHeaders cfg p
  addHeader p viaName (viaFor cfg p)

/-- header treatment of follow-up requests (no Via: D10v) -/
def treatLater (cfg : Cfg) (p : Parser) : Parser := stripProxyHeaders cfg p

def buildFor (cfg : Cfg) (p : Parser) : Except Err Bytes :=
  match Px.Build.build cfg.bufSize Px.Gen.defaultDisableHeaders p (some cfg.disable) none with
  | .ok x => .ok x
  | .error e => .error (.build e)

/-- what a completely received first request is turned into -/
def emitFirst (cfg : Cfg) (p : Parser) : Except Err Bytes :=
  if !isProxyRequest p then .error .notProxy
  else if p.isTunnel then .error .tunnel
  else if (p.host.getD []).isEmpty then .error .noHost
  else if !Px.Url.utf8Valid (p.host.getD []) then .error .noHost     -- `text_(host)` raises in connect_upstream
  else buildFor cfg (treatFirst cfg p)

/-- what a completely received follow-up request is turned into -/
def emitLater (cfg : Cfg) (p : Parser) : Except Err Bytes := buildFor cfg (treatLater cfg p)

/-- bytes queued to the upstream server for the first request of a connection
    arriving as `segs`, and the segments left for later requests -/
def forwardFirst' (cfg : Cfg) (segs : List Bytes) : Except Err (Bytes × List Bytes) :=
  match feedUntilComplete pcfg (init .request) segs with
  | .error e => .error (.parse e)
  | .ok (p, rest) =>
    if p.state != .complete then .error .incomplete
    else match emitFirst cfg p with
      | .error e => .error e
      | .ok x => .ok (x, rest)

def forwardFirst (cfg : Cfg) (segs : List Bytes) : Except Err Bytes :=
  (forwardFirst' cfg segs).map (·.1)

/-- the same for a follow-up request (fresh `pipeline_request` parser) -/
def forwardLater' (cfg : Cfg) (segs : List Bytes) : Except Err (Bytes × List Bytes) :=
  match feedUntilComplete pcfg (init .request) segs with
  | .error e => .error (.parse e)
  | .ok (p, rest) =>
    if p.state != .complete then .error .incomplete
    else match emitLater cfg p with
      | .error e => .error e
      | .ok x => .ok (x, rest)

def forwardLater (cfg : Cfg) (segs : List Bytes) : Except Err Bytes :=
  (forwardLater' cfg segs).map (·.1)

end Px.Forward
