"""C11 — TLS interception issues a valid per-host cert and never trusts a bad upstream.

Correspondence of PxModel/Intercept.lean + PxModel/Pki.lean with the REAL
HttpProtocolHandler + HttpProxyPlugin (+ TcpServerConnection.wrap /
TcpClientConnection.wrap / proxy.common.pki) doing REAL TLS handshakes,
in-process and offline, and the property oracle.

A scenario = one CONNECT (optionally repeated on a fresh connection with the
certificate cache left warm) through a real handler whose upstream is one end
of a socketpair served by a TLS origin thread; the client is a verifying TLS
client thread.  A throw-away CA / signing key / origin leaves are made with the
installed `openssl` through the repo's own proxy.common.pki helpers in a
tempfile.mkdtemp() directory that is removed when the process ends.

What is compared with the model (one line per CONNECT): the ordered effect log of
`on_request_complete` — acknowledgement queued, upstream wrap parameters
(server_hostname, ca_file, verify_mode, check_hostname) and its outcome,
every `os.path.isfile` probe of the cache, every openssl invocation (argv and
the bytes of its config / ext file), client wrap parameters and outcome, value
returned to the handler, relay mode afterwards.  OpenSSL's verdict on the
origin's certificate is a *parameter* of the model; the driver instantiates it
with the reference verdict (chain ok ∧ (¬check_hostname ∨ name ok)), so the
runs also check that the real OpenSSL agrees with that table for the
situations exercised.
"""
import os
import re
import ssl
import sys
import time
import json
import atexit
import pickle
import shutil
import socket
import logging
import hashlib
import tempfile
import threading
import selectors
import subprocess

from harness.common import hx, exc_name  # noqa: F401

PROPERTY = 'C11'
LEAN_TARGETS = ['PxProofs.C11']
THEOREMS = [
    'Px.Intercept.C11_no_relay_on_bad_upstream', 'Px.Intercept.C11_no_relay_on_bad_upstream_log',
    'Px.Intercept.C11_bad_upstream_closes', 'Px.Intercept.C11_verify_settings',
    'Px.Intercept.C11_verify_settings_wrap', 'Px.Intercept.C11_verify_settings_log', 'Px.Intercept.C11_san',
    'Px.Intercept.C11_ext_file_bytes', 'Px.Intercept.C11_optout_opaque', 'Px.Intercept.C11_chain_semantics',
    'Px.Intercept.C11_chain_asks', 'Px.Intercept.C11_order', 'Px.Intercept.C11_inner_requests',
    'Px.Intercept.C11_san_prefixes', 'Px.Intercept.C11_san_ip_literal', 'Px.Intercept.C11_san_dns_name',
    'Px.Intercept.C11_ip_literal_examples', 'Px.Intercept.C11_ipv6_literal_verified_bare',
    'Px.Intercept.C11_record_fragment_stutter', 'Px.Intercept.C11_property_partial',
]
NO_FORK = False
logging.disable(logging.CRITICAL)

IO_TIMEOUT = 40.0         # every peer-side socket operation (generous: the box may be heavily loaded)
CA_SUBJECT = '/CN=px-verif-ca/O=px-verif'

SITUATIONS = ('trusted', 'selfsigned', 'untrusted', 'wrongname', 'expired')
NO_CERT = ('garbage', 'reset')     # origins that never present a certificate


# --------------------------------------------------------------------------
# throw-away PKI
# --------------------------------------------------------------------------

_PKI = None
_PKI_LOCK = threading.Lock()


def _openssl(args, timeout=30):
    p = subprocess.run(['openssl'] + args, stdout=subprocess.PIPE, stderr=subprocess.PIPE, timeout=timeout)
    if p.returncode != 0:
        raise RuntimeError('openssl %s failed: %s' % (args[0], p.stderr.decode(errors='replace')[-400:]))


class Pki:
    """CA (trust anchor + signer of generated leaves), signing key of the proxy,
    a second CA nobody trusts, one origin key, origin leaves on demand."""

    def __init__(self):
        from proxy.common import pki
        self.dir = tempfile.mkdtemp(prefix='px-c11-')
        self.owner = os.getpid()
        atexit.register(self.remove)
        # ./check leaves through os._exit: a detached janitor removes the directory once we are gone
        subprocess.Popen(
            ['/bin/sh', '-c', 'while kill -0 %d 2>/dev/null; do sleep 0.5; done; rm -rf "%s"' % (self.owner, self.dir)],
            stdin=subprocess.DEVNULL, stdout=subprocess.DEVNULL, stderr=subprocess.DEVNULL,
            start_new_session=True, close_fds=True,
        )
        j = lambda n: os.path.join(self.dir, n)     # noqa: E731
        self.ca_key, self.ca_cert, self.signing_key = j('ca-key.pem'), j('ca-cert.pem'), j('ca-signing-key.pem')
        self.bad_key, self.bad_cert = j('bad-ca-key.pem'), j('bad-ca-cert.pem')
        self.origin_key = j('origin-key.pem')
        pw = 'proxy.py'
        for key in (self.ca_key, self.signing_key, self.bad_key, self.origin_key):
            assert pki.gen_private_key(key, pw)
            assert pki.remove_passphrase(key, pw, key)
        # NOT pki.gen_public_key: with the installed OpenSSL 3.5 CLI the repo's recipe yields a v3
        # certificate without basicConstraints, which the library rejects as issuer ("invalid CA certificate")
        for key, crt, subj in ((self.ca_key, self.ca_cert, CA_SUBJECT),
                               (self.bad_key, self.bad_cert, '/CN=px-verif-untrusted-ca')):
            _openssl(['req', '-new', '-x509', '-sha256', '-days', '30', '-key', key, '-subj', subj, '-out', crt,
                      '-addext', 'basicConstraints=critical,CA:TRUE', '-addext', 'keyUsage=critical,keyCertSign,cRLSign'])

    def remove(self):
        if os.getpid() == self.owner:
            shutil.rmtree(self.dir, ignore_errors=True)

    def _sign_with_dates(self, csr, ca_cert, ca_key, extfile, out, start, end, serial):
        d = tempfile.mkdtemp(prefix='ca-', dir=self.dir)
        try:
            os.mkdir(os.path.join(d, 'newcerts'))
            open(os.path.join(d, 'index.txt'), 'w').close()
            with open(os.path.join(d, 'serial'), 'w') as f:
                h = '%X' % serial
                f.write(('0' + h if len(h) % 2 else h) + '\n')
            cfg = os.path.join(d, 'ca.cnf')
            with open(cfg, 'w') as f:
                f.write('[ ca ]\ndefault_ca = CA_default\n[ CA_default ]\ndir = %s\ndatabase = $dir/index.txt\n'
                        'new_certs_dir = $dir/newcerts\nserial = $dir/serial\ndefault_md = sha256\npolicy = policy_any\n'
                        'unique_subject = no\n[ policy_any ]\ncommonName = supplied\norganizationName = optional\n'
                        'countryName = optional\n' % d)
            _openssl(['ca', '-batch', '-config', cfg, '-notext', '-cert', ca_cert, '-keyfile', ca_key, '-in', csr,
                      '-out', out, '-startdate', start, '-enddate', end, '-extfile', extfile])
        finally:
            shutil.rmtree(d, ignore_errors=True)

    def leaf(self, situation, host):
        """certificate file an origin of the given situation presents for CONNECT host `host`"""
        name = 'leaf-%s-%s.pem' % (situation, hashlib.sha1(host.encode()).hexdigest()[:12])
        path = os.path.join(self.dir, name)
        if os.path.isfile(path):
            return path
        tmp = '%s.%d.%d' % (path, os.getpid(), threading.get_ident())
        bare = host[1:-1] if host.startswith('[') and host.endswith(']') else host
        san = ('IP:' if is_ip_literal(host) else 'DNS:') + bare
        if situation == 'wrongname':
            san = 'DNS:wrong.name.example'
        cn = bare[:60]
        ext = tmp + '.ext'
        with open(ext, 'w') as f:
            f.write('subjectAltName=%s\n' % san)
        csr = tmp + '.csr'
        try:
            _openssl(['req', '-new', '-key', self.origin_key, '-subj', '/CN=%s/O=px-origin/C=US' % cn, '-out', csr])
            if situation == 'selfsigned':
                _openssl(['x509', '-req', '-in', csr, '-signkey', self.origin_key, '-days', '30',
                          '-extfile', ext, '-out', tmp])
            else:
                ca_c, ca_k = (self.bad_cert, self.bad_key) if situation == 'untrusted' else (self.ca_cert, self.ca_key)
                args = ['x509', '-req', '-in', csr, '-CA', ca_c, '-CAkey', ca_k,
                        '-set_serial', str(int(hashlib.sha1(name.encode()).hexdigest()[:12], 16)),
                        '-extfile', ext, '-out', tmp]
                if situation == 'expired':
                    # `openssl x509 -not_before/-not_after` exists only in OpenSSL >= 3.4; `openssl ca` takes
                    # explicit validity dates in every version (the box has 3.0 and 3.5 CLIs on different PATHs)
                    self._sign_with_dates(csr, ca_c, ca_k, ext, tmp, '20200101000000Z', '20200201000000Z',
                                          int(hashlib.sha1(name.encode()).hexdigest()[:12], 16))
                else:
                    args += ['-days', '30']
                    _openssl(args)
            os.replace(tmp, path)
        finally:
            for p in (ext, csr, tmp):
                try:
                    os.remove(p)
                except OSError:
                    pass
        return path


def pki():
    global _PKI
    with _PKI_LOCK:
        if _PKI is None or not os.path.isdir(_PKI.dir):
            _PKI = Pki()
        return _PKI


def is_ip_literal(host):
    import ipaddress
    h = host[1:-1] if host.startswith('[') and host.endswith(']') else host
    try:
        ipaddress.ip_address(h)
        return True
    except ValueError:
        return False


# --------------------------------------------------------------------------
# opt-out plugins
# --------------------------------------------------------------------------

_PLUGIN_CLASSES = {}
ANSWERS = {'T': True, 'F': False, 'N': None}


def plugin_class(idx, ans):
    """HttpProxyBasePlugin subclass number `idx` of the chain whose do_intercept answers `ans`
    ('T' True, 'F' False, 'N' None — a value that is falsy but `is not False`)."""
    key = (idx, ans)
    if key in _PLUGIN_CLASSES:
        return _PLUGIN_CLASSES[key]
    from proxy.http.proxy.plugin import HttpProxyBasePlugin

    def do_intercept(self, request):
        REC.append({'ev': 'ask', 'idx': idx})
        return ANSWERS[ans]
    k = type('C11P%d%s' % (idx, ans), (HttpProxyBasePlugin,), {'do_intercept': do_intercept, '__module__': __name__})
    _PLUGIN_CLASSES[key] = k
    return k


REC = []     # effect log of the CONNECT being processed (single-threaded access: handler thread only)


# --------------------------------------------------------------------------
# peers
# --------------------------------------------------------------------------

def _recv_until(sock, marker, limit=1 << 20):
    buf = b''
    while marker not in buf and len(buf) < limit:
        d = sock.recv(65536)
        if not d:
            break
        buf += d
    return buf


def _read_http(sock, first=b''):
    """one HTTP message with Content-Length framing (or until EOF); returns bytes read"""
    buf = first
    while b'\r\n\r\n' not in buf:
        d = sock.recv(65536)
        if not d:
            return buf
        buf += d
    head, _, body = buf.partition(b'\r\n\r\n')
    m = re.search(rb'(?im)^content-length:\s*(\d+)\s*$', head)
    need = int(m.group(1)) if m else 0
    while len(body) < need:
        d = sock.recv(65536)
        if not d:
            break
        body += d
    return head + b'\r\n\r\n' + body


SPLIT_PAUSE = 0.25       # seconds between the two TCP segments of a split TLS record


class BioTls:
    """TLS endpoint over a plain socket through ssl.MemoryBIO, so that the harness decides how the
    cipher text is cut into TCP segments: `sendall(data, split=True)` writes the record(s) carrying
    `data` in two pieces with a pause, cutting a record in the middle."""

    def __init__(self, sock, ctx, **kw):
        self.sock = sock
        self.inc, self.out = ssl.MemoryBIO(), ssl.MemoryBIO()
        self.obj = ctx.wrap_bio(self.inc, self.out, **kw)

    def _flush(self):
        data = self.out.read()
        if data:
            self.sock.sendall(data)

    def _fill(self):
        data = self.sock.recv(65536)
        if not data:
            self.inc.write_eof()
            return False
        self.inc.write(data)
        return True

    def handshake(self):
        while True:
            try:
                self.obj.do_handshake()
                self._flush()
                return
            except ssl.SSLWantReadError:
                self._flush()
                if not self._fill():
                    raise ssl.SSLEOFError('EOF during handshake')
            except ssl.SSLError:
                self._flush()       # the alert, if any
                raise

    def sendall(self, data, split=False):
        self.obj.write(data)
        ct = self.out.read()
        if split and len(ct) > 10:
            k = min(len(ct) - 3, max(3, len(ct) // 2))
            self.sock.sendall(ct[:k])
            time.sleep(SPLIT_PAUSE)
            self.sock.sendall(ct[k:])
        else:
            self.sock.sendall(ct)

    def recv(self, n):
        while True:
            try:
                return self.obj.read(n)
            except ssl.SSLWantReadError:
                if not self._fill():
                    return b''
            except ssl.SSLZeroReturnError:
                return b''

    def settimeout(self, t):
        self.sock.settimeout(t)

    def close(self):
        pass


class Origin(threading.Thread):
    """TLS origin on one end of a socketpair: handshake with the given leaf, then (on success)
    read one request, answer `response`, close.  In `raw` mode (opt-out expected) behaves the same:
    whoever handshakes with it is the party it talks to."""

    def __init__(self, sock, certfile, keyfile, response, extra_raw=b'', nreq=1, splits=None):
        super().__init__(daemon=True)
        self.nreq = nreq
        self.splits = splits       # None: ordinary SSLSocket; list: MemoryBIO endpoint, these responses are split
        self.sock = sock
        self.certfile, self.keyfile = certfile, keyfile
        self.response = response
        self.extra_raw = extra_raw
        self.handshake = None      # 'ok' | exception name
        self.sni = None
        self.received = b''        # application plaintext received
        self.error = None

    def run(self):
        s = self.sock
        try:
            s.settimeout(IO_TIMEOUT)
            if self.certfile == 'reset':
                # goes away with the ClientHello unread: the peer sees a connection reset
                time.sleep(0.3)
                self.handshake = 'reset'
                return
            if self.certfile is None:
                # not a TLS server: answers the ClientHello with clear text and goes away
                self.received = s.recv(65536)[:0]
                s.sendall(b'HTTP/1.1 400 Bad Request\r\n\r\n')
                self.handshake = 'garbage'
                return
            ctx = ssl.SSLContext(ssl.PROTOCOL_TLS_SERVER)
            ctx.load_cert_chain(self.certfile, self.keyfile)

            def on_sni(sslobj, name, _ctx):
                self.sni = name
            ctx.sni_callback = on_sni
            try:
                if self.splits is None:
                    tls = ctx.wrap_socket(s, server_side=True)
                else:
                    tls = BioTls(s, ctx, server_side=True)
                    tls.handshake()
            except (ssl.SSLError, OSError) as e:
                self.handshake = type(e).__name__
                if self.extra_raw:
                    try:
                        s.sendall(self.extra_raw)
                    except OSError:
                        pass
                return
            self.handshake = 'ok'
            s = tls
            try:
                for i in range(self.nreq):
                    req = _read_http(s)
                    if not req:
                        break
                    self.received += req
                    if self.splits is None:
                        s.sendall(self.response)
                    else:
                        s.sendall(self.response, split=i in self.splits)
                # anything else the peer sends until it closes
                s.settimeout(1.0)
                try:
                    while True:
                        d = s.recv(65536)
                        if not d:
                            break
                        self.received += d
                except (socket.timeout, ssl.SSLError, OSError):
                    pass
            except (ssl.SSLError, OSError) as e:
                self.error = type(e).__name__
        finally:
            try:
                s.close()
            except OSError:
                pass
            try:
                self.sock.close()
            except OSError:
                pass


class Client(threading.Thread):
    """verifying TLS client: CONNECT, read the acknowledgement, handshake (trusting only the
    throw-away CA, checking the name `host`), send `request` cut at `cuts`, read the response."""

    def __init__(self, sock, connect_bytes, host, cafile, requests, cuts, mode='verify', splitc=None):
        super().__init__(daemon=True)
        self.mode = mode
        self.splitc = splitc       # None: ordinary SSLSocket; list: MemoryBIO endpoint, these requests' records are split
        self.sock = sock
        self.connect_bytes = connect_bytes
        self.host = host
        self.cafile = cafile
        self.requests = requests
        self.cuts = cuts
        self.ack = b''
        self.handshake = None
        self.peer_der = None
        self.peer_cert = None
        self.response = b''
        self.plain_after_ack = b''   # bytes seen in clear after the acknowledgement (handshake never started/finished)
        self.error = None

    def run(self):
        s = self.sock
        try:
            s.settimeout(IO_TIMEOUT)
            s.sendall(self.connect_bytes)
            if self.mode == 'gone':
                return
            buf = _recv_until(s, b'\r\n\r\n')
            head, sep, rest = buf.partition(b'\r\n\r\n')
            self.ack = head + sep
            if not sep or not head.startswith(b'HTTP/1.1 200'):
                self.plain_after_ack = rest
                return
            if rest:
                # nothing may follow the acknowledgement in clear before our ClientHello
                self.plain_after_ack = rest
                return
            if self.mode == 'hangup':
                return
            ctx = ssl.create_default_context(cafile=None if self.mode == 'distrust' else self.cafile)
            bare = self.host[1:-1] if self.host.startswith('[') and self.host.endswith(']') else self.host
            try:
                if self.splitc is None:
                    tls = ctx.wrap_socket(s, server_hostname=bare)
                else:
                    tls = BioTls(s, ctx, server_hostname=bare)
                    tls.handshake()
            except ssl.SSLCertVerificationError as e:
                self.handshake = 'SSLCertVerificationError:' + str(getattr(e, 'verify_message', ''))
                return
            except (ssl.SSLError, OSError) as e:
                self.handshake = type(e).__name__
                return
            self.handshake = 'ok'
            s = tls
            sslobj = tls if self.splitc is None else tls.obj
            self.peer_der = sslobj.getpeercert(True)
            self.peer_cert = sslobj.getpeercert()
            try:
                for i, request in enumerate(self.requests):
                    if self.splitc is not None:
                        s.sendall(request, split=i in self.splitc)
                    else:
                        pos = 0
                        for c in (list(self.cuts) if i == 0 else []) + [len(request)]:
                            if c > pos:
                                s.sendall(request[pos:c])
                                pos = c
                                time.sleep(0.005)
                    r = _read_http(s)
                    self.response += r
                    if not r:
                        break
            except (ssl.SSLError, OSError) as e:
                self.error = type(e).__name__
        except (ssl.SSLError, OSError) as e:
            self.error = type(e).__name__
        finally:
            try:
                s.close()
            except OSError:
                pass
            try:
                self.sock.close()
            except OSError:
                pass


# --------------------------------------------------------------------------
# instrumentation (from outside; nothing under /repo is edited)
# --------------------------------------------------------------------------

class _CtxProxy:
    """stands for the SSLContext TcpServerConnection.wrap configures: forwards everything and records
    the settings in force at the moment of wrap_socket together with the outcome of the handshake"""

    def __init__(self, ctx, cafile):
        object.__setattr__(self, '_ctx', ctx)
        object.__setattr__(self, '_cafile', cafile)

    def __getattr__(self, k):
        return getattr(self._ctx, k)

    def __setattr__(self, k, v):
        setattr(self._ctx, k, v)

    def wrap_socket(self, sock, **kw):
        ent = {'ev': 'wrapUp', 'sni': kw.get('server_hostname'), 'ca': self._cafile,
               'mode': self._ctx.verify_mode.name, 'chk': bool(self._ctx.check_hostname), 'out': None}
        REC.append(ent)
        try:
            r = self._ctx.wrap_socket(sock, **kw)
        except BaseException as e:
            ent['out'] = _exc_class(e)
            ent['detail'] = getattr(e, 'verify_message', None) or getattr(e, 'reason', None) or str(e)[:80]
            raise
        ent['out'] = 'ok'
        return r


def _exc_class(e):
    """the exception classes wrap_server / wrap_client distinguish"""
    if isinstance(e, ssl.SSLCertVerificationError):
        return 'certVerification'
    if isinstance(e, ssl.SSLError):
        return 'sslError'
    if isinstance(e, subprocess.TimeoutExpired):
        return 'timeoutExpired'
    if isinstance(e, OSError):
        return 'osError'
    return exc_name(e)


class _ModShim:
    def __init__(self, real, **over):
        self.__dict__['_real'] = real
        self.__dict__.update(over)

    def __getattr__(self, k):
        return getattr(self._real, k)


class Patches:
    """context manager installing the recorders"""

    def __init__(self, world):
        self.w = world
        self.saved = []

    def _set(self, obj, name, val):
        self.saved.append((obj, name, obj.__dict__.get(name, _MISSING) if isinstance(obj, type) else getattr(obj, name)))
        setattr(obj, name, val)

    def __enter__(self):
        import proxy.core.connection.server as SRV
        import proxy.http.proxy.server as PS
        import proxy.common.pki as PKI
        from proxy.core.connection.client import TcpClientConnection
        from proxy.core.connection.connection import TcpConnection
        w = self.w

        def create_default_context(purpose=ssl.Purpose.SERVER_AUTH, cafile=None, **kw):
            return _CtxProxy(ssl.create_default_context(purpose, cafile=cafile, **kw), cafile)
        self._set(SRV, 'ssl', _ModShim(ssl, create_default_context=create_default_context))
        self._set(SRV, 'new_socket_connection', w.connect)

        def isfile(p):
            r = os.path.isfile(p)
            REC.append({'ev': 'isfile', 'path': p, 'res': bool(r)})
            return r
        self._set(PS, 'os', _ModShim(os, path=_ModShim(os.path, isfile=isfile), getpid=lambda: 4242))
        self._set(PS, 'time', _ModShim(time, time=lambda: 1700000000.9))

        orig_run = PKI.run_openssl_command

        def run_openssl_command(command, timeout):
            content = None
            for flag in ('-config', '-extfile'):
                if flag in command:
                    with open(command[command.index(flag) + 1], 'rb') as f:
                        content = (command[command.index(flag) + 1], f.read())
            ent = {'ev': 'openssl', 'argv': list(command), 'file': content, 'timeout': timeout, 'rc': None}
            REC.append(ent)
            w.openssl_calls += 1
            try:
                # the code's own limit (10 s, recorded above) is not enforced here: on an overloaded box an
                # openssl run can take longer, and the child it would leave behind keeps writing into the cache;
                # the TimeoutExpired branch is exercised by the crypto-free `gen` cases instead
                r = orig_run(command, max(timeout, 120))
            except subprocess.TimeoutExpired:
                ent['rc'] = 'timeout'
                raise
            ent['rc'] = bool(r)
            return r
        self._set(PKI, 'run_openssl_command', run_openssl_command)

        orig_cwrap = TcpClientConnection.wrap

        def cwrap(conn, keyfile, certfile):
            ent = {'ev': 'wrapClient', 'key': keyfile, 'cert': certfile, 'pending': [bytes(x) for x in conn.buffer],
                   'out': None}
            REC.append(ent)
            try:
                orig_cwrap(conn, keyfile, certfile)
            except BaseException as e:
                # the pending acknowledgement is flushed before the handshake starts
                ent['out'] = 'flushFailed' if conn.has_buffer() else 'hsFailed'
                ent['exc'] = _exc_class(e)
                raise
            ent['out'] = 'ok'
        self._set(TcpClientConnection, 'wrap', cwrap)

        orig_queue = TcpConnection.queue

        def queue(conn, mv):
            REC.append({'ev': 'queue', 'to': conn.tag, 'data': bytes(mv)})
            return orig_queue(conn, mv)
        self._set(TcpConnection, 'queue', queue)

        orig_recv = TcpConnection.recv

        def recv(conn, *a, **k):
            try:
                return orig_recv(conn, *a, **k)
            except ssl.SSLWantReadError:
                w.wantread[conn.tag] = w.wantread.get(conn.tag, 0) + 1      # an incomplete TLS record was pending
                raise
        self._set(TcpConnection, 'recv', recv)

        orig_orc = PS.HttpProxyPlugin.on_request_complete

        def on_request_complete(plugin):
            try:
                r = orig_orc(plugin)
            except BaseException as e:
                REC.append({'ev': 'result', 'val': 'raised ' + _exc_class(e)})
                raise
            REC.append({'ev': 'result', 'val': 'ssl' if isinstance(r, ssl.SSLSocket) else repr(bool(r))})
            return r
        self._set(PS.HttpProxyPlugin, 'on_request_complete', on_request_complete)

        # what the code logs at WARNING and above (with the exception it logs, if any): diagnostics only
        class Capture(logging.Handler):
            def emit(self, record):
                exc = record.exc_info[1] if record.exc_info else None
                w.logs.append('%s %s%s' % (record.levelname, str(record.getMessage())[:160],
                                           (' <%s: %s>' % (type(exc).__name__, str(exc)[:120])) if exc else ''))
        self.capture = Capture(level=logging.WARNING)
        self.plog = logging.getLogger('proxy')
        self.plog_state = (self.plog.propagate, self.plog.level)
        self.plog.addHandler(self.capture)
        self.plog.propagate = False
        logging.disable(logging.INFO)
        return self

    def __exit__(self, *exc):
        logging.disable(logging.CRITICAL)
        self.plog.removeHandler(self.capture)
        self.plog.propagate = self.plog_state[0]
        for obj, name, old in reversed(self.saved):
            if old is _MISSING:
                delattr(obj, name)
            else:
                setattr(obj, name, old)
        return False


_MISSING = object()


# --------------------------------------------------------------------------
# one case
# --------------------------------------------------------------------------

def L(s):
    return s.encode('latin-1')


def connect_bytes(case):
    host, port = case['host'], case['port']
    hh = case.get('hosthdr')
    target = '%s:%d' % (host, port)
    lines = ['CONNECT %s HTTP/1.1' % target, 'Host: %s' % (hh if hh is not None else target)]
    return L('\r\n'.join(lines) + '\r\n\r\n')


def inner_requests(case):
    return [inner_request(case, i) for i in range(case.get('nreq', 1))]


def inner_request(case, i=0):
    r = case['req']
    body = L(r.get('b', ''))
    path = r['path'] if i == 0 else r['path'] + ('&' if '?' in r['path'] else '?') + 'n=%d' % i
    lines = ['%s %s HTTP/1.1' % (r['m'], path)] + list(r['h'])
    if body:
        lines.append('Content-Length: %d' % len(body))
    return L('\r\n'.join(lines) + '\r\n\r\n') + body


def origin_response(case):
    body = bytes((7 * i + 1) & 0xff for i in range(case['resp']))
    return b'HTTP/1.1 200 OK\r\nContent-Length: %d\r\nX-Origin: yes\r\n\r\n' % len(body) + body


class World:
    def __init__(self, case):
        self.case = case
        self.p = pki()
        self.certdir = tempfile.mkdtemp(prefix='certs-', dir=self.p.dir)
        self.openssl_calls = 0
        self.origins = []
        self.logs = []
        self.wantread = {}
        self.flags = None

    def make_flags(self):
        from proxy.common.flag import FlagParser
        c = self.case
        args = ['--hostname', '127.0.0.1', '--ca-file', self.p.ca_cert]
        if c['intercept']:
            args += ['--ca-key-file', '' if c.get('emptykey') else self.p.ca_key, '--ca-cert-file', self.p.ca_cert,
                     '--ca-signing-key-file', self.p.signing_key]
        args += ['--ca-cert-dir', self.certdir]
        if c['insecure']:
            args += ['--insecure-tls-interception']
        if c.get('openssl'):
            args += ['--openssl', c['openssl']]
        classes = [plugin_class(i, a) for i, a in enumerate(c['plugins'])]
        self.flags = FlagParser.initialize(args, threadless=True, plugins=classes)
        logging.disable(logging.CRITICAL)

    def connect(self, addr, source_address=None):
        REC.append({'ev': 'connect', 'host': addr[0], 'port': addr[1]})
        a, b = socket.socketpair()
        sit = self.case['sit']
        o = Origin(b, None if sit == 'garbage' else 'reset' if sit == 'reset' else self.p.leaf(sit, self.case['host']),
                   self.p.origin_key,
                   origin_response(self.case),
                   extra_raw=bytes.fromhex(self.case.get('junk', '')), nreq=self.case.get('nreq', 1),
                   splits=self.case.get('splits'))
        self.origins.append(o)
        o.start()
        return a

    def close(self):
        shutil.rmtree(self.certdir, ignore_errors=True)


def _post(handler, escaped):
    """handler state right after the tick that processed the CONNECT"""
    plugin = handler.plugin
    up = plugin.upstream if plugin else None
    det = False
    if up is not None and up._conn is not None:
        try:
            det = up._conn.fileno() == -1
        except OSError:
            det = True
    return {
        'clientTls': isinstance(handler.work._conn, ssl.SSLSocket),
        'upTls': bool(up is not None and isinstance(up._conn, ssl.SSLSocket)),
        'det': det,
        'cbuf': [bytes(x) for x in handler.work.buffer],
        'ubuf': [bytes(x) for x in up.buffer] if up is not None else [],
        'mustFlush': bool(handler.must_flush_before_shutdown),
        'readsTeared': bool(handler.reads_teared),
        'intercepting': bool(plugin._tls_intercept_enabled) if plugin else False,
        'escaped': escaped,
    }


def run_connect(w, case):
    """one CONNECT through a fresh real handler; returns the observation dict"""
    import asyncio
    from proxy.http.handler import HttpProtocolHandler
    from proxy.http.connection import HttpClientConnection
    del REC[:]
    fs_before = sorted(os.path.join(w.certdir, n) for n in os.listdir(w.certdir))
    loop = asyncio.new_event_loop()
    c_peer, c_proxy = socket.socketpair()
    n_before = len(w.origins)
    calls_before = w.openssl_calls
    logs_before = len(w.logs)
    w.wantread = {}
    handler = HttpProtocolHandler(HttpClientConnection(c_proxy, ('127.0.0.1', 50000)), flags=w.flags)
    handler.initialize()
    cl = Client(c_peer, connect_bytes(case), case['host'], w.p.ca_cert, inner_requests(case), case.get('cuts', []),
                case.get('client', 'verify'), case.get('splitc'))
    cl.start()
    sel = selectors.DefaultSelector()
    deadline = time.time() + 50
    ended = None
    idle = 0
    snapshot = None
    post = None
    minus_one = False
    if case.get('client') == 'gone':
        cl.join(IO_TIMEOUT)
    try:
        while time.time() < deadline:
            ev = loop.run_until_complete(handler.get_events())
            if -1 in ev:
                # Threadless._update_work_events never registers descriptor -1 (`elif fileno != -1`)
                minus_one = True
                del ev[-1]
            for fd, mask in ev.items():
                sel.register(fd, mask)
            ready = sel.select(timeout=0.02)
            for fd in ev:
                sel.unregister(fd)
            R = [k.fd for k, m in ready if m & selectors.EVENT_READ]
            W = [k.fd for k, m in ready if m & selectors.EVENT_WRITE]
            try:
                td = loop.run_until_complete(handler.handle_events(R, W))
            except Exception as e:      # noqa: BLE001 — what escapes handle_events is an observation
                ended = 'raised ' + _exc_class(e)
                if snapshot is None:
                    snapshot = list(REC)
                    post = _post(handler, True)
                break
            if snapshot is None and any(e.get('ev') == 'result' for e in REC):
                snapshot = list(REC)
                post = _post(handler, False)
            if td:
                ended = 'teardown'
                break
            peers_done = not cl.is_alive() and all(not o.is_alive() for o in w.origins[n_before:])
            idle = idle + 1 if (peers_done and not ready) else 0
            if idle >= 3:
                ended = 'idle'
                break
        else:
            ended = 'timeout'
    finally:
        sel.close()
    if snapshot is None:
        snapshot = list(REC)
        post = _post(handler, False)
    plugin = handler.plugin
    state = {
        'clientTls': isinstance(handler.work.connection, ssl.SSLSocket),
        'upTls': bool(plugin and plugin.upstream and isinstance(plugin.upstream._conn, ssl.SSLSocket)),
        'mustFlush': bool(handler.must_flush_before_shutdown),
        'upFdMinusOne': minus_one,
        'intercepting': bool(plugin._tls_intercept_enabled) if plugin else None,
    }
    try:
        handler.shutdown()
    except Exception as e:      # noqa: BLE001
        state['shutdownRaised'] = _exc_class(e)
    loop.close()
    cl.join(IO_TIMEOUT + 2)
    for o in w.origins[n_before:]:
        o.join(IO_TIMEOUT + 2)
    hung = cl.is_alive() or any(o.is_alive() for o in w.origins[n_before:])
    o = w.origins[n_before] if len(w.origins) > n_before else None
    leaf_path = os.path.join(w.certdir, case['host'] + '.pem')
    leaf = None
    if os.path.isfile(leaf_path):
        try:
            leaf = decode_cert(leaf_path)
        except Exception as e:      # noqa: BLE001
            leaf = {'error': repr(e)}
    return {
        'fs_before': fs_before, 'leaf': leaf, 'logs': w.logs[logs_before:], 'certdir': w.certdir,
        'wantread': dict(w.wantread),
        'rec': snapshot, 'post': post, 'ended': ended, 'state': state, 'hung': hung,
        'openssl_calls': w.openssl_calls - calls_before,
        'client': {'ack': cl.ack, 'handshake': cl.handshake, 'cert': cl.peer_cert, 'der': cl.peer_der,
                   'response': cl.response, 'plain': cl.plain_after_ack, 'error': cl.error},
        'origin': None if o is None else {'handshake': o.handshake, 'sni': o.sni, 'received': o.received,
                                          'error': o.error},
    }


def decode_cert(path):
    import _ssl
    return _ssl._test_decode_cert(path)


def pem_to_der(path):
    with open(path) as f:
        return ssl.PEM_cert_to_DER_cert(f.read())


def _timed_out(o):
    vals = [o['client']['handshake'], o['client']['error']]
    if o['origin'] is not None:
        vals += [o['origin']['handshake'], o['origin']['error']]
    return o['hung'] or o['ended'] == 'timeout' or any(v and 'TimeoutError' in str(v) for v in vals)


_OBS_CACHE = {}


def observe(case):
    """run the whole case (cold CONNECT, then `warm` more CONNECTs to the same host with the cache kept)"""
    key = json.dumps(case, sort_keys=True)
    if key in _OBS_CACHE:
        return _OBS_CACHE[key]
    # the oracle pass of ./check runs in other worker processes than the correspondence pass: share the run
    disk = os.path.join(pki().dir, 'obs-' + hashlib.sha1(key.encode()).hexdigest() + '.pkl')
    if os.path.isfile(disk):
        try:
            with open(disk, 'rb') as f:
                _OBS_CACHE[key] = pickle.load(f)
            return _OBS_CACHE[key]
        except Exception:       # noqa: BLE001 — half-written by a concurrent worker: just run again
            pass
    for attempt in (0, 1):
        w = World(case)
        out = []
        try:
            w.make_flags()
            with Patches(w):
                for _ in range(1 + case.get('warm', 0)):
                    out.append(run_connect(w, case))
        finally:
            w.close()
        # a peer-side socket timeout on an overloaded box is not an observation about the proxy: one more try
        # (a genuine hang shows up again and is then reported)
        if not any(_timed_out(o) for o in out):
            break
    if len(_OBS_CACHE) > 512:
        _OBS_CACHE.clear()
    _OBS_CACHE[key] = out
    tmp = '%s.%d' % (disk, os.getpid())
    with open(tmp, 'wb') as f:
        pickle.dump(out, f)
    os.replace(tmp, disk)
    return out


# --------------------------------------------------------------------------
# canonical lines
# --------------------------------------------------------------------------

def accepts_ip(name):
    """the model's parameter `isIp`: does ipaddress.ip_address accept this str?"""
    import ipaddress
    try:
        ipaddress.ip_address(name)
        return True
    except ValueError:
        return False


def ips_tok(names):
    """the names among `names` that ipaddress accepts, as the driver's <ips> argument"""
    return hlist(sorted({n.encode() for n in names if accepts_ip(n)}))


def strip_brackets(h):
    return h[1:-1] if h.startswith('[') and h.endswith(']') else h


def hs(s):
    """hex of a Python str (None stays None)"""
    return 'None' if s is None else hx(s.encode())


def hlist(items):
    return '-' if not items else ','.join(hx(x) for x in items)


def b01(x):
    return '1' if x else '0'


FIXED_SERIAL = '17000000004242'     # '%d%d' % (1700000000.9, 4242) with the patched clock / pid


def eff_lines(rec, certdir=None):
    """canonical rendering of the recorded effects up to and including the result"""
    if certdir is not None:
        def sub(x):
            return CERTDIR + x[len(certdir):] if isinstance(x, str) and x.startswith(certdir) else x
        rec2 = []
        for e in rec:
            e = dict(e)
            for k in ('path', 'cert'):
                if k in e:
                    e[k] = sub(e[k])
            if 'argv' in e:
                e['argv'] = [sub(a) for a in e['argv']]
            rec2.append(e)
        rec = rec2
    out = []
    k = 0
    res = None
    for e in rec:
        ev = e['ev']
        if ev == 'connect':
            continue
        if ev == 'queue':
            out.append(('Q ' if e['to'] == 'client' else 'QU ') + hx(e['data']))
        elif ev == 'ask':
            out.append('A %d' % e['idx'])
        elif ev == 'wrapUp':
            out.append('U sni=%s ca=%s none=%s chk=%s out=%s' % (
                hs(e['sni']), hs(e['ca']), b01(e['mode'] == 'CERT_NONE'), b01(e['chk']), e['out']))
        elif ev == 'isfile':
            out.append('F %s %s' % (hs(e['path']), b01(e['res'])))
        elif ev == 'openssl':
            argv = list(e['argv'])
            f = 'None'
            if e['file'] is not None:
                path, content = e['file']
                tmp = 'TMP%d' % k
                argv = [tmp if a == path else a for a in argv]
                f = '%s:%s' % (hs(tmp), hx(content))
            out.append('X argv=%s file=%s out=%s' % (
                hlist([a.encode() for a in argv]), f,
                'timeout' if e['rc'] == 'timeout' else ('ok' if e['rc'] else 'failed')))
            k += 1
        elif ev == 'wrapClient':
            out.append('C key=%s cert=%s pending=%s out=%s' % (hs(e['key']), hs(e['cert']), hlist(e['pending']), e['out']))
        elif ev == 'result':
            res = e['val']
            break
    return out, res


def post_lines(res, post):
    r = {'False': 'plain', 'ssl': 'ssl', 'True': 'teardown'}.get(res, None)
    if r is None:
        r = 'raised-' + res.split(' ', 1)[1] if res and res.startswith('raised ') else 'none'
    line = 'R %s ctls=%s utls=%s det=%s cbuf=%s' % (r, b01(post['clientTls']), b01(post['upTls']), b01(post['det']),
                                                   hlist(post['cbuf']))
    if post['escaped']:
        s = 'S none'
    else:
        s = 'S kind=%s mustFlush=%s readsTeared=%s cbuf=%s ubuf=%s' % (
            'http' if post['intercepting'] else 'tunnel', b01(post['mustFlush']), b01(post['readsTeared']),
            hlist(post['cbuf']), hlist(post['ubuf']))
    return [line, s]


# --------------------------------------------------------------------------
# e2e: impl lines / model lines
# --------------------------------------------------------------------------

def upstream_subject(case):
    """what `{s[0][0]: s[0][1] for s in cert['subject']}` iterates over for the origin's leaf"""
    if case['sit'] in NO_CERT:
        return []
    cert = decode_cert(pki().leaf(case['sit'], case['host']))
    return [(rdn[0][0], rdn[0][1]) for rdn in cert['subject']]


def expected_client_wrap(case):
    """the client's side of the client-facing handshake is an environment input of the model:
    'o' completes, 'f' the acknowledgement cannot even be flushed, 'h' the handshake fails"""
    mode = case.get('client', 'verify')
    if mode == 'gone':
        return 'f'
    if mode in ('distrust', 'hangup'):
        return 'h'
    return 'o'


def e2e_impl(case):
    segs = []
    for o in observe(case):
        effs, res = eff_lines(o['rec'], o['certdir'])
        segs.append(' | '.join(effs + post_lines(res, o['post'])))
    return [' || '.join(segs)]


CERTDIR = '/CERTDIR'      # canonical name of the per-run (initially empty, mkdtemp) --ca-cert-dir in the compared lines


def openssl_outcomes(obs):
    """environment input of the model: how each openssl invocation of the run ended, CONNECT by CONNECT
    (rc 0 / rc != 0 / the code's own 10 s timeout expired — the latter happens on an overloaded box)"""
    per = []
    for o in obs:
        per.append(''.join('t' if e['rc'] == 'timeout' else ('o' if e['rc'] else 'f')
                           for e in o['rec'] if e['ev'] == 'openssl') or 'o')
    return per


def e2e_model_lines(case):
    p = pki()
    inter = case['intercept']
    subj = upstream_subject(case)
    cmds = openssl_outcomes(observe(case))
    return ['tls orc %s %s %s %s %s %s %s %s %s %s %s - %s %s %s 0 %d %s' % (
        hs('' if case.get('emptykey') else p.ca_key) if inter else 'None', hs(p.ca_cert) if inter else 'None',
        hs(p.signing_key) if inter else 'None', hs(CERTDIR), hs(p.ca_cert), b01(case['insecure']),
        hs(case.get('openssl') or 'openssl'), ''.join(case['plugins']) or '-', hs(case['host']), case['sit'],
        ','.join('%s=%s' % (hs(k), hs(v)) for k, v in subj) or '-',
        '/'.join(cmds), expected_client_wrap(case), hs(FIXED_SERIAL), 1 + case.get('warm', 0),
        ips_tok([strip_brackets(case['host'])]))]


# --------------------------------------------------------------------------
# layer tests (no crypto): pki argv / ext file, cache logic, do_intercept chain, upstream context settings
# --------------------------------------------------------------------------

def alt_tok(alt):
    if alt is None:
        return 'None'
    if not alt:
        return '[]'
    return ','.join(hs(a) for a in alt)


def _fake_openssl(script, created):
    """stand-in for run_openssl_command: k-th call ends as script[k] ('o' rc 0 and the -out file appears,
    'f' rc != 0, 't' TimeoutExpired)"""
    def run(command, timeout):
        k = sum(1 for e in REC if e['ev'] == 'openssl')
        content = None
        for flag in ('-config', '-extfile'):
            if flag in command:
                with open(command[command.index(flag) + 1], 'rb') as f:
                    content = (command[command.index(flag) + 1], f.read())
        out = script[k] if k < len(script) else 'o'
        ent = {'ev': 'openssl', 'argv': list(command), 'file': content, 'timeout': timeout,
               'rc': True if out == 'o' else ('timeout' if out == 't' else False)}
        REC.append(ent)
        if out == 't':
            # pki.ext_file / pki.ssl_config have no try/finally: an exception leaves their temp file behind
            if content is not None:
                os.remove(content[0])
            raise subprocess.TimeoutExpired(command, timeout)
        if out == 'o' and '-out' in command:
            created.add(command[command.index('-out') + 1])
        return out == 'o'
    return run


def call_line(ent):
    effs, _ = eff_lines([ent])
    return effs[0][2:].rsplit(' out=', 1)[0]


_BASE_FLAGS = None


def base_flags():
    global _BASE_FLAGS
    if _BASE_FLAGS is None:
        from proxy.common.flag import FlagParser
        _BASE_FLAGS = FlagParser.initialize(['--hostname', '127.0.0.1', '--ca-cert-dir', tempfile.gettempdir()],
                                            threadless=True)
        logging.disable(logging.CRITICAL)
    return _BASE_FLAGS


def make_plugin(flags, host):
    from proxy.http.handler import HttpProtocolHandler
    from proxy.http.connection import HttpClientConnection
    from proxy.http.proxy.server import HttpProxyPlugin
    a, b = socket.socketpair()
    try:
        handler = HttpProtocolHandler(HttpClientConnection(a, ('127.0.0.1', 50000)), flags=flags)
        handler.request.parse(memoryview(b'CONNECT placeholder.example:443 HTTP/1.1\r\n\r\n'))
        handler.request.host = host
        return handler._initialize_plugin(HttpProxyPlugin)
    finally:
        a.close()
        b.close()


def layer_impl(case):
    import copy
    import proxy.common.pki as PKI
    import proxy.http.proxy.server as PS
    import proxy.core.connection.server as SRV
    k = case['kind']
    del REC[:]
    if k in ('ext', 'cfg'):
        alt, eku = case['alt'], case['eku']
        if k == 'ext':
            return ['ok ' + hx(PKI.get_ext_config(alt, eku))]
        with PKI.ssl_config(alt, eku) as (path, has):
            with open(path, 'rb') as f:
                content = f.read()
        return ['ok %s %s' % (b01(has), hx(content))]
    if k in ('pub', 'csr', 'sign'):
        orig = PKI.run_openssl_command
        PKI.run_openssl_command = _fake_openssl('o', set())
        try:
            c = case
            if k == 'pub':
                PKI.gen_public_key(c['pub'], c['key'], c['pw'], c['subject'], alt_subj_names=c['alt'],
                                   extended_key_usage=c['eku'], validity_in_days=c['days'], openssl=c['openssl'])
            elif k == 'csr':
                PKI.gen_csr(c['csr'], c['key'], c['pw'], c['crt'], openssl=c['openssl'])
            else:
                PKI.sign_csr(c['csr'], c['crt'], c['cakey'], c['capw'], c['cacrt'], c['serial'],
                             alt_subj_names=c['alt'], extended_key_usage=c['eku'], validity_in_days=c['days'],
                             openssl=c['openssl'])
        finally:
            PKI.run_openssl_command = orig
        return [call_line(REC[0])]
    if k == 'path':
        return ['ok ' + hs(PS.HttpProxyPlugin.generated_cert_file_path(case['dir'], case['host']))]
    if k == 'swrap':
        from proxy.core.connection import TcpServerConnection
        seen = {}

        class Ctx:
            options = 0
            check_hostname = True
            verify_mode = ssl.CERT_REQUIRED

            def wrap_socket(self, sock, server_hostname=None):
                seen.update(sni=server_hostname, chk=self.check_hostname, mode=self.verify_mode)
                return sock

        def create_default_context(purpose=None, cafile=None):
            seen['ca'] = cafile
            seen['purpose'] = purpose
            return Ctx()

        class Sock:
            def setblocking(self, v):
                pass
        conn = TcpServerConnection('h', 1)
        conn._conn = Sock()
        orig = SRV.ssl
        SRV.ssl = _ModShim(ssl, create_default_context=create_default_context)
        try:
            kw = {}
            if case['vn'] is not None:
                kw['verify_mode'] = ssl.CERT_NONE if case['vn'] else ssl.CERT_REQUIRED
            conn.wrap(case['hostname'], case['cafile'], **kw)
        finally:
            SRV.ssl = orig
        return ['sni=%s ca=%s none=%s chk=%s' % (hs(seen['sni']), hs(seen['ca']),
                                                 b01(seen['mode'] == ssl.CERT_NONE), b01(seen['chk']))]
    if k == 'chain':
        from proxy.common.flag import FlagParser
        args = ['--hostname', '127.0.0.1', '--ca-cert-dir', tempfile.gettempdir()]
        if case['enabled']:
            args += ['--ca-key-file', '/k', '--ca-cert-file', '/c', '--ca-signing-key-file', '/s']
        flags = FlagParser.initialize(args, threadless=True,
                                      plugins=[plugin_class(i, a) for i, a in enumerate(case['answers'])])
        logging.disable(logging.CRITICAL)
        plugin = make_plugin(flags, b'h.example')
        del REC[:]
        v = plugin._tls_intercept_enabled
        effs, _ = eff_lines(REC)
        return ['%s %s' % (b01(v), ' | '.join(effs))]
    if k == 'gen':
        flags = copy.copy(base_flags())
        flags.ca_key_file, flags.ca_cert_file = case['cakey'], case['cacert']
        flags.ca_signing_key_file, flags.ca_cert_dir = case['signkey'], case['dir']
        flags.openssl = case['openssl']
        plugin = make_plugin(flags, case['host'].encode())
        created = set(case['fs'])

        def isfile(p):
            r = p in created
            REC.append({'ev': 'isfile', 'path': p, 'res': r})
            return r
        saved = (PS.os, PS.time, PKI.run_openssl_command)
        PS.os = _ModShim(os, path=_ModShim(os.path, isfile=isfile), getpid=lambda: 4242)
        PS.time = _ModShim(time, time=lambda: 1700000000.9)
        PKI.run_openssl_command = _fake_openssl(case['cmds'], created)
        del REC[:]
        try:
            try:
                path = plugin.generate_upstream_certificate({'subject': tuple(((a, b),) for a, b in case['subject'])})
                end = 'done'
            except AssertionError:
                path, end = None, 'assertion'
            except subprocess.TimeoutExpired:
                path, end = None, 'timeout'
            except Exception as e:      # noqa: BLE001
                return ['exc ' + exc_name(e)]
        finally:
            PS.os, PS.time, PKI.run_openssl_command = saved
        effs, _ = eff_lines(REC)
        want = PS.HttpProxyPlugin.generated_cert_file_path(case['dir'], case['host'])
        if path is not None and path != want:
            return ['returned-path-differs %r' % path]
        return ['%s | %s %s' % (' | '.join(effs), end, hs(want))]
    raise ValueError(k)


def opt_tok(s):
    return 'None' if s is None else hs(s)


def layer_model_lines(case):
    k = case['kind']
    c = case
    if k in ('ext', 'cfg'):
        return ['tls %s %s %s %s' % (k, ips_tok(c['alt'] or []), alt_tok(c['alt']), opt_tok(c['eku']))]
    if k == 'pub':
        return ['tls pub %s %s %s %s %s %s %s %s %d %s' % (ips_tok(c['alt'] or []), hs(c['openssl']), hs(c['pub']), hs(c['key']), hs(c['pw']),
                                                        hs(c['subject']), alt_tok(c['alt']), opt_tok(c['eku']),
                                                        c['days'], hs('TMP0'))]
    if k == 'csr':
        return ['tls csr %s %s %s %s %s' % (hs(c['openssl']), hs(c['csr']), hs(c['key']), hs(c['pw']), hs(c['crt']))]
    if k == 'sign':
        return ['tls sign %s %s %s %s %s %s %s %s %s %s %d %s' % (
            ips_tok(c['alt'] or []), hs(c['openssl']), hs(c['csr']), hs(c['crt']), hs(c['cakey']), hs(c['capw']), hs(c['cacrt']),
            hs(c['serial']), alt_tok(c['alt']), opt_tok(c['eku']), c['days'], hs('TMP0'))]
    if k == 'path':
        return ['tls path %s %s' % (hs(c['dir']), hs(c['host']))]
    if k == 'swrap':
        return ['tls swrap %s %s %s' % (opt_tok(c['hostname']), opt_tok(c['cafile']), b01(c['vn']))]
    if k == 'chain':
        return ['tls chain %s %s' % (b01(c['enabled']), ''.join(c['answers']) or '-')]
    if k == 'gen':
        return ['tls gen %s %s %s %s %s %s %s %s %s %s %s' % (
            opt_tok(c['cakey']), opt_tok(c['cacert']), opt_tok(c['signkey']), opt_tok(c['dir']), hs(c['openssl']),
            hs(c['host']), ','.join('%s=%s' % (hs(a), hs(b)) for a, b in c['subject']) or '-',
            hlist([x.encode() for x in c['fs']]), c['cmds'] or 'o', hs(FIXED_SERIAL),
            ips_tok([strip_brackets(c['host'])]))]
    raise ValueError(k)


def impl(case):
    return e2e_impl(case) if case['kind'] == 'e2e' else layer_impl(case)


def model_lines(case):
    return e2e_model_lines(case) if case['kind'] == 'e2e' else layer_model_lines(case)


# --------------------------------------------------------------------------
# oracle: the property evaluated on the implementation only
# --------------------------------------------------------------------------

HOP_BY_HOP = (b'proxy-connection', b'proxy-authorization')


def parse_request(raw):
    head, _, body = raw.partition(b'\r\n\r\n')
    lines = head.split(b'\r\n')
    hdrs = []
    for ln in lines[1:]:
        k, _, v = ln.partition(b':')
        hdrs.append((k.strip().lower(), v.strip()))
    return lines[0], hdrs, body


def split_messages(raw):
    """cut a byte stream into Content-Length framed messages (the tail, if any, is kept as a last element)"""
    out = []
    while raw:
        head, sep, rest = raw.partition(b'\r\n\r\n')
        if not sep:
            out.append(raw)
            break
        m = re.search(rb'(?im)^content-length:\s*(\d+)\s*$', head)
        n = int(m.group(1)) if m else 0
        out.append(head + sep + rest[:n])
        raw = rest[n:]
    return out


def same_request(sent, got):
    """C02 semantics for a follow-up request: same request line, same header fields (hop-by-hop
    proxy fields removed, a Via field naming the proxy allowed), same body"""
    l1, h1, b1 = parse_request(sent)
    l2, h2, b2 = parse_request(got)
    h1 = sorted(h for h in h1 if h[0] not in HOP_BY_HOP)
    h2 = sorted(h for h in h2 if h[0] != b'via')
    if l1 != l2:
        return 'request-line-differs'
    if h1 != h2:
        return 'headers-differ'
    if b1 != b2:
        return 'body-differs'
    return None


def origin_acceptable(case):
    """would a client verifying against the configured trust store accept this origin for this host?"""
    return case['sit'] == 'trusted'


def names_host(cert, host):
    """does the certificate carry a subjectAltName entry of the right kind for `host`?"""
    bare = host[1:-1] if host.startswith('[') and host.endswith(']') else host
    san = (cert or {}).get('subjectAltName', ())
    if is_ip_literal(host):
        import ipaddress
        want = ipaddress.ip_address(bare)
        for kind, val in san:
            if kind == 'IP Address':
                try:
                    if ipaddress.ip_address(val) == want:
                        return True
                except ValueError:
                    pass
        return False
    return ('DNS', bare.lower()) in [(k, v.lower()) for k, v in san]


def in_quantifier(case):
    return case['kind'] == 'e2e'


def oracle(case):
    if case['kind'] != 'e2e':
        return None
    obs = observe(case)
    p = pki()
    requests = inner_requests(case)
    request = b''.join(requests)
    response = origin_response(case) * len(requests)
    opted_out = 'F' in case['plugins']
    undocumented = 'N' in case['plugins']        # an answer that is neither True nor False: not judged
    mode = case.get('client', 'verify')
    first_der = None
    for n, o in enumerate(obs):
        c, og = o['client'], o['origin']
        if o['hung'] or o['ended'] == 'timeout':
            return 'hang'
        if og is None:
            return 'no-upstream-connection'
        origin_der = None if case['sit'] in NO_CERT else pem_to_der(p.leaf(case['sit'], case['host']))
        wraps = [e for e in o['rec'] if e['ev'] in ('wrapUp', 'wrapClient')]
        if not case['intercept'] or opted_out:
            # opaque tunnel: no TLS termination, bytes verbatim both ways
            if wraps or o['openssl_calls']:
                return 'optout-not-opaque'
            if mode != 'verify':
                continue
            if origin_acceptable(case) and not is_ip_literal(case['host']) or \
                    (origin_acceptable(case) and is_ip_literal(case['host'])):
                if c['handshake'] != 'ok':
                    return 'opaque-tunnel-broken:' + str(c['handshake'])[:40]
                if c['der'] != origin_der:
                    return 'optout-client-does-not-see-origin-certificate'
                if og['received'] != request:
                    return 'opaque-tunnel-request-altered'
                if c['response'] != response:
                    return 'opaque-tunnel-response-altered'
            elif c['response'] or (og['received'] and c['handshake'] != 'ok'):
                return 'opaque-tunnel-inconsistent'
            continue
        if undocumented:
            continue
        bad = not origin_acceptable(case)
        if (bad and not case['insecure']) or case['sit'] in NO_CERT:
            # never trusts a bad upstream: no application data in either direction
            if og['received']:
                return 'bad-upstream-received-application-data'
            if c['response'] or c['plain']:
                return 'client-received-data-from-bad-upstream'
            if c['handshake'] == 'ok' and c['error'] is None and c['response']:
                return 'client-served-despite-bad-upstream'
            if o['ended'] not in ('teardown',) and not o['ended'].startswith('raised'):
                return 'bad-upstream-connection-not-torn-down'
            continue
        if mode != 'verify':
            continue
        # good origin (or verification explicitly disabled): interception must work end to end
        up = [e for e in o['rec'] if e['ev'] == 'wrapUp']
        if up and up[0]['out'] == 'certVerification' and not bad and not case['insecure']:
            return 'trusted-origin-refused'
        if case.get('openssl') or case.get('emptykey') or \
                any(e['ev'] == 'openssl' and e['rc'] is not True for e in o['rec']):
            break           # --openssl cannot mint / an invocation failed or hit the code's 10 s timeout: the
            #                 environment's doing, nothing further to judge (cache state is then undefined too)
        if o['leaf'] is None:
            return 'no-leaf-generated'
        if not names_host(o['leaf'], case['host']):
            return 'leaf-does-not-name-connect-host'
        if c['handshake'] != 'ok':
            return 'verifying-client-rejects-leaf:' + str(c['handshake'])[:60] + ('/' + c['error'] if c['error'] else '')
        if not names_host(c['cert'], case['host']):
            return 'presented-certificate-does-not-name-host'
        if c['der'] == origin_der:
            return 'tls-not-terminated'
        got = split_messages(og['received'])
        if len(got) != len(requests):
            return 'inner-requests-%d-of-%d-reached-origin' % (len(got), len(requests))
        for sent, g in zip(requests, got):
            r = same_request(sent, g)
            if r:
                return 'inner-request-' + r
        if c['response'] != response:
            return 'response-not-intact'
        if n == 0 and o['openssl_calls'] != 3 and not o['fs_before']:
            return 'cold-cache-unexpected-openssl-calls-%d' % o['openssl_calls']
        if n > 0:
            if o['openssl_calls'] != 0:
                return 'warm-cache-minted-again'
            if c['der'] != first_der:
                return 'warm-cache-different-leaf'
        if first_der is None:
            first_der = c['der']
    return None


def e2e(host='example.org', sit='trusted', insecure=0, plugins=(), intercept=1, warm=0, req=None, resp=10, cuts=(),
        **extra):
    bare = host[1:-1] if host.startswith('[') else host
    req = req or {'m': 'GET', 'path': '/a?b=1', 'h': ['Host: %s' % bare, 'Proxy-Connection: keep-alive', 'X-A: 1']}
    c = {'kind': 'e2e', 'host': host, 'port': 443, 'sit': sit, 'insecure': insecure, 'plugins': list(plugins),
         'intercept': intercept, 'warm': warm, 'req': req, 'resp': resp, 'cuts': list(cuts)}
    c.update(extra)
    return c



# --------------------------------------------------------------------------
# cases
# --------------------------------------------------------------------------

RULE = ('e2e: one CONNECT (+ warm repeats) with REAL TLS on both sides through the real HttpProtocolHandler + '
        'HttpProxyPlugin: origin certificate situation x insecure switch x do_intercept answers x host kind x client '
        'behaviour x cache state x payload/segmentation x TLS records split over two TCP segments (either direction, first and later requests), compared effect by effect with Intercept.onConnect; layer '
        'cases (no crypto): pki argv/ext-file/config bytes, cache path, generate_upstream_certificate over cache '
        'states and openssl outcomes, do_intercept chains (exhaustive to length 3/4), upstream context settings; '
        'distinct by canonical JSON; non-trivial = e2e case')
ASSUMPTIONS = [
    'OpenSSL (library handshakes, X.509 path and name validation, record protection) and the openssl CLI are '
    'trusted: their verdicts are parameters of the model (Env.handshake, Env.clientWrap, Env.cmd); the runs check '
    'that the installed OpenSSL agrees with the reference verdict table for the situations exercised',
    'a Python str is modelled by its UTF-8 bytes; request.host decodes as UTF-8 (else connect_upstream has already '
    'answered 502)',
    'the upstream connection exists, no connection pool; the client has an address; the peer presents a certificate',
    'plugin.do_intercept answers are a function of the request (the same list at every evaluation of '
    '_tls_intercept_enabled)',
    'a successful openssl invocation creates its -out file and nothing else changes the cache directory during a '
    'CONNECT (HttpProxyPlugin.lock)',
    'after a failed upstream wrap the detached socket reports fileno() == -1, which Threadless never registers',
    'a TLS record that is not yet complete makes recv raise SSLWantReadError; the relay treats it as "nothing '
    'happened, try again" (stutter step, theorem C11_record_fragment_stutter on Px.Relay); the split-record '
    'scenarios check that on the real handler in both directions',
    'decrypted follow-up requests take the on_client_data pipeline path whose parse/rebuild is the subject of '
    'C02/C04; here only the routing decision (Relay kind http vs tunnel) is modelled and the oracle checks the '
    'end-to-end bytes',
]
TRUSTED_EXTRA = [
    'OpenSSL library (via CPython ssl) and the openssl CLI found on PATH; CPython ssl module glue '
    '(create_default_context, wrap_socket detaching the plain socket)',
    'harness TLS peers (threads on socketpairs) and the recorders patched around ssl contexts / '
    'pki.run_openssl_command / os.path.isfile',
]
EXHAUSTIVE = {}
EXPLANATION = ('theorems quantify over every configuration, answer list, host, cache state, OpenSSL verdict function '
               'and (for the relay part) every tick list; runs tie the model to the code on a grid of real-TLS '
               'scenarios and on exhaustive small scopes of the crypto-free layers')

NAMES = ['example.org', 'a.b-c.example', 'xn--bcher-kva.example', 'UPPER.Example', 'h']
ANSWER_SETS = [[], ['T'], ['F'], ['T', 'F'], ['F', 'T'], ['T', 'F', 'T'], ['T', 'T'], ['N'], ['T', 'N'], ['N', 'T'],
               ['N', 'F']]


def corpus():
    cs = _corpus()
    for c in cs:
        if c['kind'] == 'e2e' and c['sit'] not in NO_CERT:
            pki().leaf(c['sit'], c['host'])
    return cs


def _corpus():
    pki()
    cs = [
        e2e(), e2e(warm=1), e2e(sit='selfsigned'), e2e(sit='untrusted'), e2e(sit='wrongname'), e2e(sit='expired'),
        e2e(sit='selfsigned', insecure=1), e2e(sit='wrongname', insecure=1, warm=1),
        e2e(plugins=['F']), e2e(plugins=['T', 'F', 'T'], sit='selfsigned'), e2e(plugins=['T', 'N']),
        e2e(plugins=['N', 'T']), e2e(intercept=0), e2e(host='127.0.0.1'), e2e(host='[::1]'),
        e2e(host='[::1]', insecure=1), e2e(host='127.0.0.1', sit='selfsigned'),
        e2e(sit='garbage'), e2e(sit='reset'), e2e(sit='reset', insecure=1), e2e(sit='selfsigned', junk='160303000a0102030405060708090a'), e2e(sit='wrongname', junk='00' * 64),
        e2e(client='distrust'), e2e(client='gone'), e2e(client='hangup'),
        # a TLS record reaching the proxy in two TCP segments with a pause (SSLWantReadError = try again later):
        # first request, a later request, the response direction, both, and inside an opaque tunnel
        e2e(splitc=[0]), e2e(nreq=2, splitc=[1]), e2e(nreq=3, splitc=[0, 2], splits=[1], resp=20000),
        e2e(nreq=2, splits=[0, 1], resp=70000), e2e(nreq=2, splitc=[1], splits=[0], plugins=['F']),
        e2e(nreq=2, splitc=[0, 1], sit='selfsigned', insecure=1), e2e(nreq=2),
        e2e(openssl='/bin/false'), e2e(emptykey=1), e2e(hosthdr='other.example:443'), e2e(hosthdr='other.example:443', plugins=['F']),
        e2e(req={'m': 'POST', 'path': '/submit', 'h': ['Host: example.org', 'Proxy-Authorization: Basic eDp5',
                                                      'Content-Type: text/plain'], 'b': 'x' * 3000},
            resp=70000, cuts=[5, 40, 200]),
    ]
    cs += [
        {'kind': 'ext', 'alt': None, 'eku': None}, {'kind': 'ext', 'alt': [], 'eku': 'serverAuth'},
        {'kind': 'ext', 'alt': ['a.example', '127.0.0.1'], 'eku': None}, {'kind': 'cfg', 'alt': ['h'], 'eku': None},
        {'kind': 'cfg', 'alt': None, 'eku': None}, {'kind': 'cfg', 'alt': [], 'eku': 'clientAuth'},
        {'kind': 'path', 'dir': '/d', 'host': 'h'}, {'kind': 'path', 'dir': '/d/', 'host': 'h'},
        {'kind': 'path', 'dir': '', 'host': 'h'}, {'kind': 'path', 'dir': '/d', 'host': '/abs'},
        {'kind': 'path', 'dir': '/d', 'host': '../up'},
        {'kind': 'gen', 'cakey': '/k', 'cacert': '/c', 'signkey': '/s', 'dir': '/d', 'openssl': 'openssl',
         'host': 'h.example', 'subject': [['commonName', 'h'], ['organizationName', 'O']], 'fs': [], 'cmds': 'ooo'},
        {'kind': 'gen', 'cakey': '', 'cacert': '/c', 'signkey': '/s', 'dir': '/d', 'openssl': 'openssl',
         'host': 'h.example', 'subject': [], 'fs': [], 'cmds': 'ooo'},
        {'kind': 'gen', 'cakey': '/k', 'cacert': '/c', 'signkey': '/s', 'dir': '/d', 'openssl': 'o',
         'host': 'h', 'subject': [['commonName', 'a'], ['commonName', 'b'], ['emailAddress', 'e'], ['localityName', '']],
         'fs': ['/d/h.pub'], 'cmds': 'ot'},
    ]
    return cs


def _rand_name(rng):
    labels = []
    for _ in range(rng.choice([1, 2, 2, 3])):
        labels.append(''.join(rng.choice('abcdefghijklmnopqrstuvwxyz0123456789-') for _ in range(rng.randrange(1, 9)))
                      .strip('-') or 'x')
    return '.'.join(labels)


def _rand_str(rng, alphabet='abc/. =é中-_:,'):
    return ''.join(rng.choice(alphabet) for _ in range(rng.randrange(0, 7)))


def _rand_req(rng, host):
    bare = host[1:-1] if host.startswith('[') else host
    m = rng.choice(['GET', 'GET', 'POST', 'PUT', 'DELETE', 'HEAD'])
    h = ['Host: %s' % bare]
    for name in rng.sample(['X-A: 1', 'Accept: */*', 'Proxy-Connection: keep-alive', 'Proxy-Authorization: Basic eDp5',
                            'User-Agent: c11', 'Cookie: a=b; c=d', 'x-lower: v'], rng.randrange(0, 4)):
        h.append(name)
    r = {'m': m, 'path': rng.choice(['/', '/a', '/a/b?c=d', '/%7Euser', '*' if m == 'OPTIONS' else '/x']), 'h': h}
    if m in ('POST', 'PUT'):
        r['b'] = ''.join(rng.choice('abcdefgh \n') for _ in range(rng.choice([1, 10, 500, 5000, 70000])))
    return r


def _rand_cuts(rng, n):
    return sorted(rng.sample(range(1, max(2, n)), min(rng.choice([0, 0, 1, 2, 5]), max(0, n - 2))))


def _layer_cases(rng, big):
    strs = ['', 'a', 'h.example', '/x', '/x/', 'a b', 'é', 'k=v', '/tmp/px dir/f.pem']
    alts = [None, [], [''], ['a'], ['a', 'b'], ['127.0.0.1'], ['[::1]'], ['::1'], ['a', '', 'c,d'], ['é.example'],
            ['2001:db8::1', 'h.example', '10.0.0.1'], ['1.2.3'], ['1.2.3.4.5'], ['::ffff:1.2.3.4'], ['fe80::1%eth0']]
    ekus = [None, '', 'serverAuth', 'serverAuth,clientAuth']
    for alt in alts:
        for eku in ekus:
            yield {'kind': 'ext', 'alt': alt, 'eku': eku}
            yield {'kind': 'cfg', 'alt': alt, 'eku': eku}
    for _ in range(400 if big else 60):
        alt = rng.choice(alts + [[_rand_str(rng) for _ in range(rng.randrange(1, 4))]])
        k = rng.choice(['pub', 'csr', 'sign'])
        c = {'kind': k, 'openssl': rng.choice(['openssl', '/usr/bin/openssl', _rand_str(rng)]),
             'pw': rng.choice(['', 'proxy.py', _rand_str(rng)]), 'key': rng.choice(strs)}
        if k == 'pub':
            c.update(pub=rng.choice(strs), subject=rng.choice(['/CN=a', '', '/CN=a/O=b c']), alt=alt,
                     eku=rng.choice(ekus), days=rng.choice([0, 1, 365, 730, 100000]))
        elif k == 'csr':
            c.update(csr=rng.choice(strs), crt=rng.choice(strs))
        else:
            c.update(csr=rng.choice(strs), crt=rng.choice(strs), cakey=rng.choice(strs), capw=rng.choice(['', 'pw']),
                     cacrt=rng.choice(strs), serial=rng.choice(['1', '17000000004242', '']), alt=alt,
                     eku=rng.choice(ekus), days=rng.choice([0, 1, 365, 730]))
        yield c
    dirs = ['', '/', '/d', '/d/', 'rel', 'rel/', '/a/b', '/a//', '//']
    hosts = ['h', 'example.org', '127.0.0.1', '[::1]', '/abs', '../up', 'a/b', '', '.', 'é.example', 'h.pem',
             '[2001:db8::1]', '::1', '[', '[]', '[h.example]', '[127.0.0.1]', '[[::1]]']
    for d in dirs:
        for h in hosts:
            yield {'kind': 'path', 'dir': d, 'host': h}
    for hostname in (None, '', 'h.example', '[::1]'):
        for cafile in (None, '/x'):
            for vn in (None, 0, 1):
                yield {'kind': 'swrap', 'hostname': hostname, 'cafile': cafile, 'vn': vn}
    depth = 4 if big else 3
    lists = [[]]
    frontier = [[]]
    for _ in range(depth):
        frontier = [x + [a] for x in frontier for a in 'TFN']
        lists += frontier
    for en in (1, 0):
        for answers in lists:
            if en == 0 and len(answers) > 2:
                continue
            yield {'kind': 'chain', 'enabled': en, 'answers': answers}
    longs = ['commonName', 'countryName', 'stateOrProvinceName', 'localityName', 'organizationName',
             'organizationalUnitName', 'emailAddress', 'serialNumber']
    for _ in range(3000 if big else 300):
        d = rng.choice(['/d', '/d/', '', 'rel', '/tmp/x y'])
        h = rng.choice(hosts[:6] + hosts[11:] + [_rand_name(rng), _rand_str(rng, 'ab./é[]:1') or 'h'])
        if not h:
            h = 'h'
        from proxy.http.proxy.server import HttpProxyPlugin as _P    # path function of the code, to build cache states
        import os as _os
        base = [_os.path.join(d, '%s.%s' % (h, ext)) for ext in ('pub', 'csr', 'pem')]
        fs = [p for p in base if rng.random() < 0.35]
        subj = [[rng.choice(longs), rng.choice(['', 'v', 'Ex Co', 'a/b', 'é'])] for _ in range(rng.randrange(0, 5))]
        flag = lambda v: rng.choice([v] * 12 + ['', None])      # noqa: E731
        yield {'kind': 'gen', 'cakey': flag('/k'), 'cacert': flag('/c'), 'signkey': flag('/s'),
               'dir': rng.choice([d] * 12 + ['']), 'openssl': rng.choice(['openssl', '/opt/o']), 'host': h,
               'subject': subj, 'fs': fs, 'cmds': ''.join(rng.choice('oooooft') for _ in range(3))}


def generate(rng, tier):
    seen = set(json.dumps(c, sort_keys=True) for c in _corpus())
    for c in _generate(rng, tier):
        key = json.dumps(c, sort_keys=True)
        if key in seen:
            continue
        seen.add(key)
        if c['kind'] == 'e2e' and c['sit'] not in NO_CERT:
            pki().leaf(c['sit'], c['host'])      # made here, once, before the engine forks its workers
        yield c


def _generate(rng, tier):
    pki()
    big = tier == 'thorough'
    for c in _layer_cases(rng, big):
        yield c
    sits = list(SITUATIONS)
    if not big:
        for sit in sits:
            for insecure in (0, 1):
                yield e2e(host=rng.choice(NAMES), sit=sit, insecure=insecure, warm=rng.choice([0, 0, 1]))
        for answers in (['F'], ['T', 'F'], ['T'], ['N', 'F'], ['T', 'T', 'N']):
            yield e2e(host=rng.choice(NAMES), sit=rng.choice(sits), insecure=rng.randrange(2), plugins=answers)
        yield e2e(intercept=0, sit='selfsigned')
        yield e2e(sit='garbage', insecure=1)
        yield e2e(host='127.0.0.1', insecure=1, sit='selfsigned')
        yield e2e(host='10.1.2.3', sit='wrongname')
        for host in ('example.org', '127.0.0.1', '[::1]'):
            yield e2e(host=host, nreq=2, splitc=[rng.randrange(2)], splits=[rng.randrange(2)], resp=rng.choice([3, 40000]))
        n = 10
    else:
        hosts = NAMES[:3] + ['127.0.0.1', '[::1]']
        for sit in sits + ['garbage', 'reset']:
            for insecure in (0, 1):
                for host in hosts:
                    for answers in ([], ['T'], ['F'], ['T', 'F', 'T'], ['T', 'N'], ['N', 'T']):
                        yield e2e(host=host, sit=sit, insecure=insecure, plugins=answers,
                                  warm=1 if (not answers and sit in ('trusted', 'selfsigned', 'expired')) else 0)
                for mode in ('distrust', 'gone', 'hangup'):
                    yield e2e(host=rng.choice(NAMES), sit=sit, insecure=insecure, client=mode)
                yield e2e(sit=sit, insecure=insecure, intercept=0, host=rng.choice(hosts))
                yield e2e(sit=sit, insecure=insecure, openssl='/bin/false')
                yield e2e(sit=sit, insecure=insecure, hosthdr='other.example:443', host=rng.choice(NAMES))
        for host in hosts:
            for answers in ([], ['F']):
                for nreq, splitc, splits in ((1, [0], None), (2, [1], None), (2, None, [0]), (2, None, [1]),
                                             (3, [0, 1, 2], [0, 1, 2]), (2, [0], [1])):
                    c = e2e(host=host, plugins=answers, nreq=nreq, resp=rng.choice([1, 500, 40000]))
                    if splitc is not None:
                        c['splitc'] = splitc
                    if splits is not None:
                        c['splits'] = splits
                    yield c
        n = 600
    for _ in range(n):
        host = rng.choice(NAMES + [_rand_name(rng), _rand_name(rng)] + (['127.0.0.1', '[::1]', '192.0.2.7'] if big else []))
        req = _rand_req(rng, host)
        c = e2e(host=host, sit=rng.choice(sits + ['trusted'] * 4), insecure=int(rng.random() < 0.3),
                plugins=rng.choice(ANSWER_SETS + [[]] * 6), warm=rng.choice([0, 0, 0, 1]), req=req,
                resp=rng.choice([0, 1, 10, 1000, 16384, 70000, 200000]))
        c['cuts'] = _rand_cuts(rng, len(inner_request(c)))
        if rng.random() < 0.2:
            c['hosthdr'] = rng.choice(['other.example:443', 'other.example', host])
        if c['sit'] != 'trusted' and rng.random() < 0.3:
            c['junk'] = bytes(rng.randrange(256) for _ in range(rng.choice([1, 5, 100]))).hex()
        if rng.random() < 0.35:
            c['nreq'] = rng.choice([1, 2, 2, 3])
            if rng.random() < 0.8:
                c['splitc'] = sorted(rng.sample(range(c['nreq']), rng.randrange(0, c['nreq'] + 1)))
            if rng.random() < 0.5:
                c['splits'] = sorted(rng.sample(range(c['nreq']), rng.randrange(0, c['nreq'] + 1)))
        yield c


def neighbours(case):
    if case['kind'] != 'e2e':
        return
    for sit in SITUATIONS:
        for insecure in (0, 1):
            yield dict(case, sit=sit, insecure=insecure)
    for answers in ([], ['F'], ['T', 'F']):
        yield dict(case, plugins=answers)
    yield dict(case, hosthdr='other.example:443')
    yield dict(case, warm=1)
    yield dict(case, nreq=2, splitc=[1])
    yield dict(case, nreq=2, splits=[0])


def search(rng):
    return [c for c in generate(rng, 'quick') if c['kind'] == 'e2e']


def describe(case):
    if case['kind'] != 'e2e':
        return [case['kind']]
    host = 'ipv4' if is_ip_literal(case['host']) and not case['host'].startswith('[') else \
        'ipv6' if case['host'].startswith('[') else 'name'
    opt = 'off' if not case['intercept'] else 'optout' if 'F' in case['plugins'] else \
        'N-answer' if 'N' in case['plugins'] else 'intercept'
    return ['e2e sit=%s insecure=%d' % (case['sit'], case['insecure']), 'e2e host=' + host, 'e2e mode=' + opt,
            'e2e warm=%d' % case.get('warm', 0), 'e2e client=' + case.get('client', 'verify'),
            'e2e split-record c=%d s=%d' % (bool(case.get('splitc')), bool(case.get('splits'))),
            'e2e nreq=%d' % case.get('nreq', 1)]


def nontrivial(case):
    return in_quantifier(case)
